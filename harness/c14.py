"""C14 — GeoJSON export is RFC 7946-shaped and round-trips without touching the input.

Protocol: `gj.<op> <one JSON value as a token stream>` (see lean/GeoVerif/Drv/C14.lean):
  n | T | F | #p/q | s<text, ~XXXXXX = code point> | t<µs>[@n|@o<min>] (ISO text of an instant) |
  d<µs>[@…] (a datetime object) | [ v… ] | { s<key> v … }
Answers are canonical: object keys sorted, timestamp representation dropped.
"""
import copy
import json
import re
from datetime import datetime, timedelta, timezone
from fractions import Fraction

import common
from common import tf

MODULE = 'GeoVerif.Props.C14'
THEOREMS = ['GV.GeoJson.' + t for t in (
    # export -> import
    'roundtrip', 'roundtrip_total', 'roundtrip_polygon', 'polyForm_vertex_kinds', 'geom_roundtrip',
    'mpolyMember_roundtrip',
    # the caller's document
    'import_pure', 'import_twice_equal', 'later_mutation_isolated', 'pinned_import_not_pure',
    # RFC 7946 shape
    'constructor_leaves_shellOK', 'hole_nondegenerate', 'exterior_ccw_holes_cw', 'box_exterior_ccw',
    'rings_closed', 'rings_closed_general', 'positions_lon_lat_z', 'position_roundtrip',
    'isCCW_iff_area', 'isCCW_reverse', 'area2_reverse', 'shoelace_eq_neg_area2',
    # properties member
    'override_wins', 'override_keeps_others', 'time_bounds_exported', 'user_property_exported',
    'export_serialisable', 'extra_members', 'export_is_feature',
    # dispatch, malformed
    'parse_feature', 'parse_bare', 'parse_unknown', 'parse_eq_import', 'wrong_type_rejected',
    'missing_geometry_rejected',
    # collections
    'collection_export_shape', 'collection_roundtrip', 'collection_import_pure', 'track_roundtrip',
    # export histories
    'reexport_set_dt', 'reexport_strip_dt', 'reexport_set_property',
    # ring orientation across the antimeridian (un-wrapped longitudes)
    'exterior_ccw_holes_cw_antimeridian', 'constructor_leaves_shellOK_lon', 'isCCW_iff_winding',
    'isCCW_iff_winding_and_area', 'shoelace_eq_neg_area2_unwrap', 'shoelace_reverse', 'isCCW_reverse_lon',
    # the runtime assumption is consistent
    'demoRt_lawful')]

EPOCH = datetime(1970, 1, 1, tzinfo=timezone.utc)
BASE_US = int((datetime(2020, 1, 1, tzinfo=timezone.utc) - EPOCH) / timedelta(microseconds=1))
SAFE = set('abcdefghijklmnopqrstuvwxyzABCDEFGHIJKLMNOPQRSTUVWXYZ0123456789_.:+-')
ISO_RE = re.compile(r'^\d{4}-\d\d-\d\dT\d\d:\d\d:\d\d(\.\d{6})?([+-]\d\d:\d\d)?$')
KIND_NAMES = ('Point', 'LineString', 'Polygon', 'MultiPoint', 'MultiLineString', 'MultiPolygon')


# ----------------------------------------------------------------------------------------------
# exact, canonical value exchange


def us_of(dt):
    if dt.tzinfo is None:
        dt = dt.replace(tzinfo=timezone.utc)
    return int((dt - EPOCH) / timedelta(microseconds=1))


def rep_of(dt):
    if dt.tzinfo is None:
        return '@n'
    off = dt.utcoffset()
    mins = int(off / timedelta(minutes=1))
    return '' if mins == 0 else f'@o{mins}'


def mkdt(tok):
    """`<µs>[@n|@o<minutes>]` -> datetime"""
    us, _, rep = tok.partition('@')
    dt = EPOCH + timedelta(microseconds=int(us))
    if rep == 'n':
        return dt.replace(tzinfo=None)
    if rep.startswith('o'):
        return dt.astimezone(timezone(timedelta(minutes=int(rep[1:]))))
    return dt


def esc(s):
    return ''.join(c if c in SAFE else '~%06x' % ord(c) for c in s)


def unesc(s):
    out, i = [], 0
    while i < len(s):
        if s[i] == '~':
            out.append(chr(int(s[i + 1:i + 7], 16)))
            i += 7
        else:
            out.append(s[i])
            i += 1
    return ''.join(out)


def iso_token(s, canon):
    """the token of a string that is the ISO text of an instant, else None"""
    if not ISO_RE.match(s):
        return None
    try:
        dt = datetime.fromisoformat(s)
    except ValueError:
        return None
    if dt.isoformat() != s:
        return None
    return f't{us_of(dt)}' + ('' if canon else rep_of(dt))


def enc(v, canon=True):
    """Python value -> token stream.  canon: keys sorted, timestamp representation dropped."""
    out = []
    _enc(v, canon, out)
    return ' '.join(out)


def _enc(v, canon, out):
    if v is None:
        out.append('n')
    elif v is True:
        out.append('T')
    elif v is False:
        out.append('F')
    elif isinstance(v, int):
        out.append(f'#{v}')
    elif isinstance(v, float):
        if v != v or v in (float('inf'), float('-inf')):
            out.append('#nonfinite')
        else:
            out.append('#' + common.rat(v))
    elif isinstance(v, Fraction):
        out.append('#' + common.rat(v))
    elif isinstance(v, str):
        out.append(iso_token(v, canon) or ('s' + esc(v)))
    elif isinstance(v, datetime):
        out.append(f'd{us_of(v)}' + ('' if canon else rep_of(v)))
    elif isinstance(v, (list, tuple)):
        out.append('[')
        for x in v:
            _enc(x, canon, out)
        out.append(']')
    elif isinstance(v, dict):
        out.append('{')
        items = sorted(v.items(), key=lambda kv: str(kv[0])) if canon else v.items()
        for k, x in items:
            if not isinstance(k, str):
                out.append('s<non-string-key>' + esc(repr(k)))
            else:
                out.append('s' + esc(k))
            _enc(x, canon, out)
        out.append('}')
    else:
        out.append('s<unencodable:' + esc(type(v).__name__) + '>')


def dec(text):
    toks = text.split()
    v, i = _dec(toks, 0)
    if i != len(toks):
        raise ValueError('trailing tokens')
    return v


def _num(s):
    f = Fraction(s)
    if f.denominator == 1:
        return int(f)
    x = float(f)
    return x if Fraction(x) == f else f


def _dec(toks, i):
    t = toks[i]
    if t == 'n':
        return None, i + 1
    if t == 'T':
        return True, i + 1
    if t == 'F':
        return False, i + 1
    if t == '[':
        out, i = [], i + 1
        while toks[i] != ']':
            v, i = _dec(toks, i)
            out.append(v)
        return out, i + 1
    if t == '{':
        out, i = {}, i + 1
        while toks[i] != '}':
            k = unesc(toks[i][1:])
            v, i = _dec(toks, i + 1)
            out[k] = v
        return out, i + 1
    c = t[0]
    if c == '#':
        return _num(t[1:]), i + 1
    if c == 's':
        return unesc(t[1:]), i + 1
    if c == 't':
        return mkdt(t[1:]).isoformat(), i + 1
    if c == 'd':
        return mkdt(t[1:]), i + 1
    raise ValueError('bad token ' + t)


# ----------------------------------------------------------------------------------------------
# shape descriptions <-> implementation objects


def coord(p):
    from geostructures import Coordinate
    return Coordinate(p[0], p[1], z=(p[2] if len(p) > 2 else None))


def pos(c):
    """Coordinate -> [lon, lat(, z)]"""
    return [c.longitude, c.latitude] + ([c.z] if c.z is not None else [])


def poss(cs):
    return [pos(c) for c in cs]


def build_dt(d):
    from geostructures.time import TimeInterval
    if d.get('dt') is None:
        return None
    s, e = d['dt']
    tz = d.get('tz') or 0
    z = timezone(timedelta(minutes=tz))
    a = (EPOCH + timedelta(microseconds=s)).astimezone(z)
    b = (EPOCH + timedelta(microseconds=e)).astimezone(z)
    if s == e and d.get('inst'):
        return a
    return TimeInterval(a, b)


def build_poly(g, dt=None, props=None):
    """polygon-like description -> PolygonBase object"""
    from geostructures import GeoPolygon, GeoBox, GeoCircle, GeoEllipse, GeoRing
    holes = [build_poly(h) for h in g.get('holes', [])] or None
    kw = {}
    if dt is not None:
        kw['dt'] = dt
    if props is not None:
        kw['properties'] = props
    t = g['t']
    if t == 'polygon':
        return GeoPolygon([coord(p) for p in g['raw']], holes=holes, **kw)
    if t == 'box':
        return GeoBox(coord(g['nw']), coord(g['se']), holes=holes, **kw)
    py = g['py']
    if py[0] == 'circle':
        return GeoCircle(coord(py[1]), float(py[2]), holes=holes, **kw)
    if py[0] == 'ellipse':
        return GeoEllipse(coord(py[1]), float(py[2]), float(py[3]), float(py[4]), holes=holes, **kw)
    if py[0] == 'ring':
        return GeoRing(coord(py[1]), float(py[2]), float(py[3]), float(py[4]), float(py[5]), holes=holes, **kw)
    raise ValueError('unknown polygon-like ' + t)


def build(src):
    """export source description -> geoshape"""
    from geostructures import GeoLineString, GeoPoint, MultiGeoPolygon, MultiGeoLineString, MultiGeoPoint
    g = src['g']
    dt = build_dt(src)
    props = copy.deepcopy(src.get('props') or {})
    t = g['t']
    if t == 'line':
        return GeoLineString([coord(p) for p in g['vs']], dt=dt, properties=props)
    if t == 'point':
        return GeoPoint(coord(g['p']), dt=dt, properties=props)
    if t == 'mpoint':
        return MultiGeoPoint([GeoPoint(coord(p)) for p in g['ps']], dt=dt, properties=props)
    if t == 'mline':
        return MultiGeoLineString([GeoLineString([coord(p) for p in ln]) for ln in g['ls']], dt=dt, properties=props)
    if t == 'mpoly':
        return MultiGeoPolygon([build_poly(p) for p in g['ps']], dt=dt, properties=props)
    return build_poly(g, dt, props)


def _bounds(shp):
    """the implementation's analytic bounds (model input for circle / ellipse / full ring); a failure here
    must surface in the streams, not in the generator"""
    try:
        return list(shp.bounds)
    except Exception:  # noqa
        return [0.0, 0.0, 0.0, 0.0]


def fill_poly(g, k):
    """add the vertex lists the model needs for curved shapes (what the implementation draws)"""
    for h in g.get('holes', []):
        fill_poly(h, k)
    if g['t'] in ('polygon', 'box'):
        return
    shp = build_poly({**g, 'holes': []})
    if g['t'] == 'curved':
        g['d'] = poss(shp.bounding_coords())
        g['k'] = poss(shp.bounding_coords(k=k))
        g['b'] = _bounds(shp)
    elif g['t'] == 'ring':
        od, idd = shp._draw_bounds()
        ok, ik = shp._draw_bounds(k=k)
        g['od'], g['id'], g['ok'], g['ik'] = poss(od), poss(idd), poss(ok), poss(ik)
        g['full'] = bool(shp.angle_min == 0 and shp.angle_max == 360)
        g['b'] = _bounds(shp)


def fill(src, k):
    g = src['g']
    if g['t'] == 'mpoly':
        for p in g['ps']:
            fill_poly(p, k)
    elif g['t'] not in ('line', 'point', 'mpoint', 'mline'):
        fill_poly(g, k)
    return src


def kwargs_of(a):
    kw = {}
    if a.get('k') is not None:
        kw['k'] = a['k']
    elif a.get('passk'):
        kw['k'] = None
    if a.get('bbox'):
        kw['include_bbox'] = a.get('bboxv', True)
    if a.get('ov') is not None:
        kw['properties'] = copy.deepcopy(a['ov'])
    elif a.get('passov'):
        kw['properties'] = None
    kw.update(copy.deepcopy(a.get('extra') or {}))
    return kw


def dt_enc(dt):
    return None if dt is None else [us_of(dt.start), us_of(dt.end)]


def poly_enc(p):
    return {'o': poss(p.outline), 'holes': [poss(h.bounding_coords()) for h in p.holes]}


def shape_enc(s):
    """imported object -> canonical record (what the Lean driver prints for its Shape / Parsed)"""
    from geostructures import GeoPolygon, GeoLineString, GeoPoint, MultiGeoPolygon, MultiGeoLineString, MultiGeoPoint
    from geostructures.collections import FeatureCollection, Track
    if isinstance(s, Track):
        return {'t': 'track', 'xs': [shape_enc(x) for x in s.geoshapes]}
    if isinstance(s, FeatureCollection):
        return {'t': 'coll', 'xs': [shape_enc(x) for x in s.geoshapes]}
    tail = {'dt': dt_enc(s.dt), 'props': s._properties}
    if isinstance(s, GeoPolygon):
        return {'t': 'polygon', 'p': poly_enc(s), **tail}
    if isinstance(s, GeoLineString):
        return {'t': 'line', 'vs': poss(s.vertices), **tail}
    if isinstance(s, GeoPoint):
        return {'t': 'point', 'p': pos(s.coordinate), **tail}
    if isinstance(s, MultiGeoPolygon):
        return {'t': 'mpoly', 'ps': [poly_enc(p) for p in s.geoshapes], **tail}
    if isinstance(s, MultiGeoLineString):
        return {'t': 'mline', 'ls': [poss(x.vertices) for x in s.geoshapes], **tail}
    if isinstance(s, MultiGeoPoint):
        return {'t': 'mpoint', 'ps': [pos(x.coordinate) for x in s.geoshapes], **tail}
    return {'t': '<' + type(s).__name__ + '>'}


def importer(kind):
    from geostructures import GeoPolygon, GeoLineString, GeoPoint, MultiGeoPolygon, MultiGeoLineString, MultiGeoPoint
    from geostructures.collections import FeatureCollection, Track
    from geostructures.parsers import parse_geojson
    return {'Point': GeoPoint.from_geojson, 'LineString': GeoLineString.from_geojson,
            'Polygon': GeoPolygon.from_geojson, 'MultiPoint': MultiGeoPoint.from_geojson,
            'MultiLineString': MultiGeoLineString.from_geojson, 'MultiPolygon': MultiGeoPolygon.from_geojson,
            'parse': parse_geojson, 'fc': FeatureCollection.from_geojson, 'track': Track.from_geojson}[kind]


def time_names(a):
    if 'ks' in a or 'ke' in a:
        return (a.get('ks', 'datetime_start'), a.get('ke', 'datetime_end'))
    return ()


def polyform(s, k):
    """what export -> import is expected to return (`to_polygon(k=k)` for polygon-likes)"""
    from geostructures import MultiGeoPolygon
    from geostructures.structures import PolygonBase
    kw = {} if k is None else {'k': k}
    if isinstance(s, PolygonBase):
        return s.to_polygon(**kw)
    if isinstance(s, MultiGeoPolygon):
        return MultiGeoPolygon([m.to_polygon(**kw) for m in s.geoshapes], dt=s.dt)
    return s


# ----------------------------------------------------------------------------------------------
# RFC 7946 shape oracle (written from the RFC / the property statement, not from the code)


def _positions(geom):
    t, c = geom['type'], geom['coordinates']
    if t == 'Point':
        return [c]
    if t in ('LineString', 'MultiPoint'):
        return list(c)
    if t in ('Polygon', 'MultiLineString'):
        return [p for r in c for p in r]
    return [p for poly in c for r in poly for p in r]


def _area2(ring):
    return sum(Fraction(a[0]) * Fraction(b[1]) - Fraction(b[0]) * Fraction(a[1]) for a, b in zip(ring, ring[1:]))


def _wraps(ring):
    return any(abs(a[0] - b[0]) > 180 for a, b in zip(ring, ring[1:]))


def _unwrap(ring):
    """longitudes made continuous along the ring: every step is taken the short way round (a step of more than
    180 degrees is a crossing of the antimeridian); exact"""
    out, u, prev = [], None, None
    for p in ring:
        x = Fraction(p[0])
        if u is None:
            u = x
        else:
            d = x - prev
            if d > 180:
                d -= 360
            elif d < -180:
                d += 360
            u += d
        prev = x
        out.append((u, Fraction(p[1])))
    return out


def _winding(ring):
    """twice the signed area of the ring on the un-wrapped longitudes (positive = counter-clockwise as seen on
    the map around the ring), or None when the un-wrapped ring does not close: it runs once around a pole and
    'counter-clockwise' has no planar meaning"""
    u = _unwrap(ring)
    if not u or u[0][0] != u[-1][0]:
        return None
    return _area2(u)


def _rings_ok(rings):
    for r in rings:
        if len(r) == 0 or list(r[0]) != list(r[-1]):
            return 'bad:ring-not-closed'
    if rings:
        w = _winding(rings[0])
        if w is not None and w < 0:
            return 'bad:exterior-clockwise'
        for h in rings[1:]:
            w = _winding(h)
            if w is not None and w > 0:
                return 'bad:hole-counter-clockwise'
    return 'ok'


def geom_rings_verdict(geom):
    """closure and RFC 7946 winding of every ring of a Polygon / MultiPolygon geometry member"""
    if not isinstance(geom, dict):
        return 'ok'
    if geom.get('type') == 'Polygon':
        return _rings_ok(geom['coordinates'])
    if geom.get('type') == 'MultiPolygon':
        for rings in geom['coordinates']:
            v = _rings_ok(rings)
            if v != 'ok':
                return v
    return 'ok'


def rfc_verdict(shape, a, doc):
    from geostructures import GeoPolygon, GeoBox, GeoLineString, GeoPoint, MultiGeoPolygon, MultiGeoLineString, MultiGeoPoint
    from geostructures.structures import PolygonBase
    try:
        text = json.dumps(doc)
    except (TypeError, ValueError):
        return 'bad:not-serialisable'
    back = json.loads(text)
    if enc(back) != enc(doc):
        return 'bad:json-text-differs'
    extra = a.get('extra') or {}
    if doc.get('type') != extra.get('type', 'Feature'):
        return 'bad:type'
    geom = doc.get('geometry')
    want_type = ('Polygon' if isinstance(shape, PolygonBase) else
                 {GeoLineString: 'LineString', GeoPoint: 'Point', MultiGeoPolygon: 'MultiPolygon',
                  MultiGeoLineString: 'MultiLineString', MultiGeoPoint: 'MultiPoint'}[type(shape)])
    if not isinstance(geom, dict) or geom.get('type') != want_type or 'coordinates' not in geom:
        return 'bad:geometry'
    ps = _positions(geom)
    has_z = desc_has_z(a['src']['g'])
    for p in ps:
        if not isinstance(p, (list, tuple)) or len(p) not in (2, 3) or not all(
                isinstance(x, (int, float)) and not isinstance(x, bool) for x in p):
            return 'bad:position'
        if not (-180 <= p[0] <= 180 and -90 <= p[1] <= 90):
            return 'bad:position-range'
    vertex_defined = isinstance(shape, (GeoPolygon, GeoBox, GeoLineString, GeoPoint, MultiGeoLineString, MultiGeoPoint)) or (
        isinstance(shape, MultiGeoPolygon) and all(isinstance(m, (GeoPolygon, GeoBox)) for m in shape.geoshapes))
    if vertex_defined and any(isinstance(shape, c) for c in (GeoLineString, GeoPoint, MultiGeoLineString, MultiGeoPoint)):
        # the i-th exported position is the i-th coordinate: [lon, lat] then z iff the coordinate has one
        if isinstance(shape, GeoLineString):
            cs = shape.vertices
        elif isinstance(shape, GeoPoint):
            cs = [shape.coordinate]
        elif isinstance(shape, MultiGeoLineString):
            cs = [c for ln in shape.geoshapes for c in ln.vertices]
        else:
            cs = [p.coordinate for p in shape.geoshapes]
        if [list(p) for p in ps] != poss(cs):
            return 'bad:positions-differ'
    elif not has_z and any(len(p) != 2 for p in ps):
        return 'bad:spurious-z'
    elif isinstance(shape, GeoPolygon):
        # every vertex of the outline is exported (in either direction) with its own Z
        ring0 = [list(p) for p in geom['coordinates'][0]]
        want = poss(shape.outline)
        if ring0 != want and ring0 != want[::-1]:
            return 'bad:positions-differ'
    elif isinstance(shape, GeoBox):
        # the two defining corners keep their Z (the derived corners' Z is the implementation's choice)
        ring0 = [list(p) for p in geom['coordinates'][0]]
        if len(ring0) != 5 or ring0[0] != pos(shape.nw_bound) or ring0[2] != pos(shape.se_bound):
            return 'bad:positions-differ'
    if want_type == 'Polygon':
        v = _rings_ok(geom['coordinates'])
        if v != 'ok':
            return v
        if len(geom['coordinates']) < 1 + len(shape.holes):
            return 'bad:holes-missing'
    if want_type == 'MultiPolygon':
        if len(geom['coordinates']) != len(shape.geoshapes):
            return 'bad:members'
        for rings in geom['coordinates']:
            v = _rings_ok(rings)
            if v != 'ok':
                return v
    if a.get('bbox'):
        bb = geom.get('bbox')
        if not isinstance(bb, (list, tuple)) or len(bb) != 4:
            return 'bad:bbox-missing'
        ext = ps if want_type not in ('Polygon', 'MultiPolygon') else (
            [p for p in geom['coordinates'][0]] if want_type == 'Polygon'
            else [p for poly in geom['coordinates'] for p in poly[0]])
        ext_rings = [ext] if want_type != 'MultiPolygon' else [poly[0] for poly in geom['coordinates'] if poly]
        # (bounds of shapes that straddle the antimeridian are C09's subject: member order is not judged there)
        if ext and not any(_wraps(r) for r in ext_rings):
            lo = (min(p[0] for p in ext), min(p[1] for p in ext), max(p[0] for p in ext), max(p[1] for p in ext))
            if vertex_defined:
                if tuple(bb) != lo:
                    return 'bad:bbox-order'
            else:
                # curved shapes: the analytic bounds (C09) — only the member order is judged here
                # (west > east is the RFC's way of writing a box across the antimeridian: the analytic bounds of a
                # curved shape next to +-180 may cross it although none of the drawn vertices does)
                if not bb[1] <= bb[3]:
                    return 'bad:bbox-order'
                cx, cy = (lo[0] + lo[2]) / 2, (lo[1] + lo[3]) / 2
                lon_in = (bb[0] <= cx <= bb[2]) if bb[0] <= bb[2] else (cx >= bb[0] or cx <= bb[2])
                if not (lon_in and bb[1] <= cy <= bb[3]):
                    return 'bad:bbox-order'
    elif 'bbox' in geom:
        return 'bad:bbox-unrequested'
    return props_verdict(shape, a, doc)


def props_verdict(shape, a, doc):
    """the `properties` member (and the extra members) of an exported Feature against the shape AS IT IS NOW:
    time bounds of the current dt, current user properties, the caller's override on top"""
    extra = a.get('extra') or {}
    props = doc.get('properties')
    if not isinstance(props, dict):
        return 'bad:properties'
    ov = a.get('ov') or {}
    for k2, v2 in ov.items():
        if k2 not in props or enc(props[k2]) != enc(v2):
            return 'bad:override-lost'
    user = shape._properties
    for k2, v2 in user.items():
        if k2 in ov or (shape.dt is not None and k2 in ('datetime_start', 'datetime_end')):
            continue
        want = enc(_isoify(v2))
        if k2 not in props or enc(props[k2]) != want:
            return 'bad:property-lost'
    if shape.dt is not None:
        for key, inst in (('datetime_start', shape.dt.start), ('datetime_end', shape.dt.end)):
            if key in ov:
                continue
            val = props.get(key)
            if not isinstance(val, str):
                return 'bad:time-bounds-missing'
            try:
                if datetime.fromisoformat(val) != inst:
                    return 'bad:time-bounds-differ'
            except ValueError:
                return 'bad:time-bounds-not-iso'
    else:
        for key in ('datetime_start', 'datetime_end'):
            if key in props and key not in ov and key not in user:
                return 'bad:spurious-time-bounds'
    for k2 in props:
        if k2 not in ov and k2 not in user and k2 not in ('datetime_start', 'datetime_end'):
            return 'bad:spurious-property'
    for k2, v2 in extra.items():
        if k2 not in doc or enc(doc[k2]) != enc(v2):
            return 'bad:extra-member-lost'
    return 'ok'


def desc_has_z(g):
    """does any coordinate the shape was built from carry a Z value?"""
    def walk(v):
        if isinstance(v, list):
            if v and all(isinstance(x, (int, float)) and not isinstance(x, bool) for x in v):
                return len(v) > 2
            return any(walk(x) for x in v)
        return False
    if any(walk(g.get(key)) for key in ('raw', 'nw', 'se', 'vs', 'p', 'ls')):
        return True
    if g['t'] == 'mpoint' and walk(g['ps']):
        return True
    if g['t'] == 'mpoly' and any(desc_has_z(p) for p in g['ps']):
        return True
    if 'py' in g and len(g['py'][1]) > 2:
        return True
    return any(desc_has_z(h) for h in g.get('holes', []))


def _isoify(v):
    """datetime-valued user properties become ISO text by design (I4); everything else is unchanged"""
    if isinstance(v, datetime):
        return v.isoformat()
    if isinstance(v, list):
        return [_isoify(x) for x in v]
    if isinstance(v, dict):
        return {k: _isoify(x) for k, x in v.items()}
    return v


# ----------------------------------------------------------------------------------------------
# the implementation side of each op


def _err(e):
    return common.err_name(e)


def _doc_state(doc, before):
    return 'doc=same' if enc(doc) == before else 'doc=changed ' + enc(doc)


def op_export(a):
    s = build(a['src'])
    doc = s.to_geojson(**kwargs_of(a))
    return 'ok ' + enc(doc)


def op_rfc(a):
    s = build(a['src'])
    doc = s.to_geojson(**kwargs_of(a))
    return rfc_verdict(s, a, doc)


def _import(a, doc):
    fn = importer(a['kind'])
    arg = json.dumps(doc) if a.get('via') == 'text' else doc
    return fn(arg, *time_names(a))


def op_import(a):
    doc = a['doc']
    before = enc(doc)
    try:
        s = _import(a, doc)
        res = 'ok ' + enc(shape_enc(s))
    except Exception as e:  # noqa
        st = _doc_state(doc, before)
        return _err(e) + ('' if st == 'doc=same' else ' doc=changed')
    return res + ' ' + _doc_state(doc, before)


def _same(x, y):
    from geostructures.collections import CollectionBase
    if isinstance(x, CollectionBase):
        return x == y and len(x.geoshapes) == len(y.geoshapes) and all(_same(p, q) for p, q in zip(x.geoshapes, y.geoshapes))
    return x == y and x.dt == y.dt and enc(x._properties) == enc(y._properties)


def op_twice(a):
    doc = a['doc']
    before = enc(doc)
    s1 = _import(a, doc)
    s2 = _import(a, doc)
    return f'ok {enc(shape_enc(s1))} {enc(shape_enc(s2))} same={tf(_same(s1, s2))} {_doc_state(doc, before)}'


def op_setprop(a):
    doc = a['doc']
    before = enc(doc)
    s = importer(a['kind'])(doc)
    s.set_property(a['key'], copy.deepcopy(a['val']))
    return f'ok {enc(shape_enc(s))} {_doc_state(doc, before)}'


def _via(doc, via):
    if via in ('text', 'parse-text'):
        return json.dumps(doc)
    if via == 'loads':
        return json.loads(json.dumps(doc))
    return doc


def op_rt(a):
    from geostructures.parsers import parse_geojson
    s = build(a['src'])
    doc = s.to_geojson(**kwargs_of(a))
    via = a.get('via', 'dict')
    kind = {'polygon': 'Polygon', 'box': 'Polygon', 'curved': 'Polygon', 'ring': 'Polygon', 'line': 'LineString',
            'point': 'Point', 'mpoly': 'MultiPolygon', 'mline': 'MultiLineString', 'mpoint': 'MultiPoint'}[a['src']['g']['t']]
    if via.startswith('parse') or via == 'text':
        back = parse_geojson(_via(doc, via))
    else:
        back = importer(kind)(_via(doc, via))
    want = polyform(s, a.get('k'))
    eq = (back == want) and (want == back) and type(back) is type(want)
    return (f'ok {enc(shape_enc(back))} eq={tf(eq)} dt={tf(back.dt == s.dt)} '
            f'props={tf(enc(back._properties) == enc(s._properties))}')


def _coll(a):
    from geostructures.collections import FeatureCollection, Track
    shapes = [build(s) for s in a['shapes']]
    return (Track if a.get('track') else FeatureCollection)(shapes)


def op_cexport(a):
    c = _coll(a)
    return 'ok ' + enc(c.to_geojson(**kwargs_of(a)))


def op_crt(a):
    from geostructures.parsers import parse_geojson
    c = _coll(a)
    doc = c.to_geojson(**kwargs_of(a))
    json.dumps(doc)
    via = a.get('via', 'dict')
    if via.startswith('parse') and not a.get('track'):
        back = parse_geojson(_via(doc, via))
    else:
        back = type(c).from_geojson(_via(doc, 'loads' if via != 'dict' else 'dict'))
    want = type(c)([polyform(s, a.get('k')) for s in c.geoshapes])
    eq = (back == want) and type(back) is type(c) and all(
        x.dt == y.dt for x, y in zip(back.geoshapes, c.geoshapes))
    rings = 'ok'
    for f in doc['features']:
        v = geom_rings_verdict(f.get('geometry'))
        if v != 'ok':
            rings = v
            break
    return f'ok {enc([shape_enc(x) for x in back.geoshapes])} eq={tf(eq)} rings={rings}'


# ---- export histories: observe - update in place - observe again, on live objects -------------------------------


def _scramble(x):
    if isinstance(x, list):
        x.reverse()
        for e in x:
            _scramble(e)
        x.append(999)
    elif isinstance(x, dict):
        for e in x.values():
            _scramble(e)
        x['zz_scribble'] = [1]


def _mutdoc(doc):
    """the caller scribbles all over a document it was handed earlier"""
    feats = doc.get('features') if isinstance(doc.get('features'), list) else [doc]
    for f in feats:
        if isinstance(f.get('properties'), dict):
            _scramble(f['properties'])
        if isinstance(f.get('geometry'), dict):
            _scramble(f['geometry'].get('coordinates'))
            f['geometry']['type'] = 'Scribble'
        f['id'] = 'scribbled'
    if feats is doc.get('features'):
        feats.reverse()


def _fork(s, how):
    import pickle
    if how == 'copy':
        return s.copy()
    if how == 'deepcopy':
        return copy.deepcopy(s)
    return pickle.loads(pickle.dumps(s))


def _feature_verdict(shape, st, doc, idx=None):
    try:
        json.dumps(doc)
    except (TypeError, ValueError):
        return 'bad:not-serialisable'
    a = {'ov': st.get('ov'), 'extra': dict(st.get('extra') or {})}
    if idx is not None:
        a['extra'] = {'id': idx, **a['extra']}
    v = geom_rings_verdict(doc.get('geometry'))
    if v != 'ok':
        return v
    return props_verdict(shape, a, doc)


def op_hist(a):
    objs = [build(s) for s in a.get('objs', [])]
    colls, docs, obs, bad, imported = [], [], [], [], []
    for n, st in enumerate(a['steps']):
        op = st['op']
        inplace = st.get('inplace', True)
        try:
            if op == 'export':
                docs.append(None)
                s = objs[st['i']]
                doc = s.to_geojson(**kwargs_of(st))
                docs[-1] = doc
                obs.append(enc(doc))
                v = _feature_verdict(s, st, doc)
                if v != 'ok':
                    bad.append(f'{v}@{n}')
            elif op in ('set_dt', 'strip_dt', 'buffer_dt', 'set_property'):
                s = objs[st['i']]
                if op == 'set_dt':
                    r = s.set_dt(build_dt(st), inplace=inplace)
                elif op == 'strip_dt':
                    r = s.strip_dt(inplace=inplace)
                elif op == 'buffer_dt':
                    r = s.buffer_dt(timedelta(microseconds=st['us']), inplace=inplace)
                else:
                    r = s.set_property(st['key'], copy.deepcopy(st['val']), inplace=inplace)
                if inplace:
                    if r is not s:
                        bad.append(f'bad:inplace-returned-another-object@{n}')
                else:
                    if r is s:
                        bad.append(f'bad:copy-is-the-same-object@{n}')
                    objs.append(r)
            elif op == 'fork':
                objs.append(_fork(objs[st['i']], st['how']))
            elif op == 'mutdoc':
                if docs[st['j']] is not None:
                    _mutdoc(docs[st['j']])
            elif op == 'import':
                doc = docs[st['j']]
                before = enc(doc)
                arg = json.dumps(doc) if st.get('via') == 'text' else doc
                objs.append(importer(st['kind'])(arg))
                imported.append((st['j'], before))
                obs.append('imported')
            elif op == 'mkcoll':
                from geostructures.collections import FeatureCollection, Track
                colls.append(None)
                members = [objs[i] for i in st['is']]
                colls[-1] = (Track if st.get('track') else FeatureCollection)(members)
            elif op == 'cexport':
                docs.append(None)
                c = colls[st['c']]
                if c is None:
                    obs.append('ERR:NoColl')
                    continue
                doc = c.to_geojson(**kwargs_of(st))
                docs[-1] = doc
                obs.append(enc(doc))
                for idx, (m, f) in enumerate(zip(c.geoshapes, doc['features'])):
                    v = _feature_verdict(m, st, f, idx)
                    if v != 'ok':
                        bad.append(f'{v}@{n}.{idx}')
            else:
                raise common.InfraError('unknown history step ' + op)
        except common.InfraError:
            raise
        except Exception as e:  # noqa
            obs.append(_err(e))
    same = all(enc(docs[j]) == before for j, before in imported)
    return ('ok ' + ' ; '.join(obs) + ' rfc=' + ('ok' if not bad else bad[0]) +
            ' docs=' + ('same' if same else 'changed'))


# ---- import - mutate - import ------------------------------------------------------------------------------------


def _scramble_result(r):
    """the caller does what it likes with an imported object: everything reachable from it is edited"""
    from geostructures.collections import CollectionBase
    if isinstance(r, CollectionBase):
        for m in list(r.geoshapes):
            _scramble_result(m)
        r.geoshapes.reverse()
        r.geoshapes.clear()
        return
    _scramble(r._properties)
    r.set_property('zz', [1])
    r.set_dt(datetime(2001, 1, 1, tzinfo=timezone.utc))
    for attr in ('outline', 'vertices', 'holes', 'geoshapes'):
        v = getattr(r, attr, None)
        if isinstance(v, list):
            for e in list(v):
                if hasattr(e, 'longitude'):
                    e.longitude, e.latitude, e.z = e.longitude / 2 + 1.0, 0.0, 5
                elif hasattr(e, '_properties'):
                    _scramble_result(e)
            v.reverse()
            v.clear()
    c = getattr(r, 'coordinate', None)
    if c is not None:
        c.longitude, c.latitude, c.z = 7.0, 7.0, 7


def op_imphist(a):
    """import, scramble the result, (dict input: give the SAME input object new content), import again"""
    fn = importer(a['kind'])
    names = time_names(a)
    doc = a['doc']
    orig = copy.deepcopy(doc)
    text = a.get('via') == 'text'
    arg = json.dumps(doc) if text else doc

    def once():
        before = None if text else enc(arg)
        try:
            r = fn(arg, *names)
            out = enc(shape_enc(r))
        except Exception as e:  # noqa
            return None, _err(e)
        if before is not None and enc(arg) != before:
            out += ' doc=changed'
        return r, out
    r1, o1 = once()
    if r1 is not None:
        try:
            _scramble_result(r1)
        except Exception as e:  # noqa
            raise common.InfraError(f'scramble failed: {e!r}')
    if not text:
        # whatever the scrambling did through shared nested values: the caller now states the document anew,
        # in the same dict object
        arg.clear()
        arg.update(copy.deepcopy(a.get('doc2', orig)))
    r2, o2 = once()
    return f'ok {o1} ; {o2} same={tf(o1 == o2)}'


OPS = {'imphist': op_imphist, 'export': op_export, 'rfc': op_rfc, 'import': op_import, 'twice': op_twice, 'setprop': op_setprop,
       'rt': op_rt, 'cexport': op_cexport, 'crt': op_crt, 'hist': op_hist}


def _split(line):
    cmd, _, rest = line.partition(' ')
    return cmd.split('.', 1)[1], rest


def impl(line):
    op, rest = _split(line)
    return OPS[op](dec(rest))


# ----------------------------------------------------------------------------------------------
# the property, clause by clause (independent of the model)


def spec(line):
    """clauses: `IS x` exact answer; `REQ a b` tokens that must be present; `IFOK a b` the same when
    the call succeeded; `FORBID a` tokens that must not be present"""
    op, rest = _split(line)
    if op == 'rfc':
        return 'IS ok'
    if op in ('export', 'cexport'):
        return None
    if op == 'hist':
        return 'REQ rfc=ok docs=same'
    a = dec(rest)
    if op == 'imphist':
        return 'FORBID doc=changed' + ('' if 'doc2' in a else ';REQ same=T')
    if op == 'rt':
        return 'REQ eq=T dt=T props=T' if a.get('wf', True) else None
    if op == 'crt':
        return 'REQ eq=T rings=ok' if a.get('wf', True) else 'IFOK rings=ok'
    if op == 'import':
        if a.get('expect'):
            return 'IS ' + a['expect']
        return 'FORBID doc=changed'
    if op == 'twice':
        return 'IFOK same=T doc=same;FORBID doc=changed'
    if op == 'setprop':
        return 'IFOK doc=same;FORBID doc=changed'
    return None


def spec_cmp(a, s):
    toks = a.split()
    for clause in s.split(';'):
        kind, *req = clause.split()
        if kind == 'IS':
            if a != ' '.join(req):
                return False
        elif kind == 'REQ':
            if not all(r in toks for r in req):
                return False
        elif kind == 'IFOK':
            if toks[:1] == ['ok'] and not all(r in toks for r in req):
                return False
        elif kind == 'FORBID':
            if any(r in toks for r in req):
                return False
    return True


def impl_for(_line):
    return impl


def spec_for(_line):
    """for `--replay`: the demanded answer; clause-style demands are shown as the implementation's own
    answer when it satisfies them, else as the clause text"""
    def f(line):
        s = spec(line)
        if s is None:
            return None
        try:
            a = impl(line)
        except Exception as e:  # noqa
            a = common.err_name(e)
        return a if spec_cmp(a, s) else s
    return f


# ----------------------------------------------------------------------------------------------
# generators


def wrap_pt(p):
    """what Coordinate.__init__ would store: longitude folded into [-180, 180), latitude kept off the poles"""
    lon = ((p[0] + 180.0) % 360.0) - 180.0
    lat = max(-89.875, min(89.875, p[1]))
    return [lon, lat] + list(p[2:])


def g_lonlat(rng, near=None, spread=40):
    """a grid point; fresh centres are drawn from three zones: mid-latitude mid-longitude, straddling the
    antimeridian (so that shapes built around them have edges across +-180), and close to a pole"""
    if near is None:
        r = rng.random()
        if r < 0.25:
            lon = rng.choice([-1, 1]) * (180 - rng.randrange(0, 4 * 8) / 8)
        else:
            lon = rng.randrange(-150 * 8, 150 * 8) / 8
        if rng.random() < 0.12:
            lat = rng.choice([-1, 1]) * rng.randrange(80 * 8, 88 * 8) / 8
        else:
            lat = rng.randrange(-70 * 8, 70 * 8) / 8
        return wrap_pt([lon, lat])
    return wrap_pt([near[0] + rng.randrange(-spread, spread + 1) / 8, near[1] + rng.randrange(-spread, spread + 1) / 8])


def g_zmode(rng):
    return rng.choice(['none', 'none', 'none', 'same', 'zero', 'vary', 'mixed'])


def g_z(rng, mode, i=0):
    if mode == 'none':
        return []
    if mode == 'same':
        return [12.5]
    if mode == 'zero':
        return [0.0]
    if mode == 'vary':
        return [rng.choice([0.0, 1.0, -3.25, 100.0, 7] + ZS_AWKWARD)]
    return [] if rng.random() < 0.5 else [rng.choice([0.0, 2.0])]


# --- numeric scale of the ordinates ------------------------------------------------------------------------
# The grid generators above keep every ordinate a small dyadic number.  The functions below re-scale a generated
# geometry so that the SAME structures are exercised with full-precision doubles (17 significant digits), with
# vertex spacings of 1e-8 ... 1e-12 degrees, with values that print in exponent notation, and with huge Z.

ZS_AWKWARD = [1 / 3, 0.1 + 0.2, 12345678.123456789, 1e15 + 0.5, 1.7976931348623157e308, -2.2250738585072014e-308,
              5e-324, 1e-7, -0.0, 123456789012345678, 8848.86]
AWKWARD = [1 / 3, 2 / 3, 0.1 + 0.2, 0.12345678901234567, 0.7000000000000001, 0.345678901234567, 1e-9, 0.999999999999]
SPACINGS = [2.0 ** -27, 1e-8, 2.0 ** -30, 1e-9, 2.0 ** -34, 1e-10, 2.0 ** -37, 1e-11, 2.0 ** -40, 1e-12]
EPS = Fraction(1, 2 ** 52)


def awk(rng):
    """a double in (0, 1) with a full mantissa"""
    return rng.choice(AWKWARD) if rng.random() < 0.5 else rng.random()


def g_num(rng):
    return rng.choice(['grid'] * 11 + ['full'] * 6 + ['tiny'] * 2 + ['exp'])


def cond_ok(raw):
    """is the orientation of this ring decided far above rounding noise?  |sum| >= 16 eps * sum |terms| of the
    library's own sum (a rigorous bound on its float evaluation error for rings of up to ~12 vertices), and no
    product underflows.  Rings that fail are not generated at an awkward scale: their orientation is a coin toss
    for ANY float implementation, so nothing can be demanded of it."""
    r = [p[:2] for p in raw]
    if r[0] != r[-1]:
        r = r + [r[0]]
    u = _unwrap(r)
    terms = [(b[0] - a[0]) * (b[1] + a[1]) for a, b in zip(u, u[1:])]
    total, mass = abs(sum(terms)), sum(abs(t) for t in terms)
    return mass > Fraction(1, 10 ** 250) and total >= 16 * EPS * mass


def num_pt(rng, p, num, c=None, d=None):
    """one position at the numeric scale `num` (`c`: reference grid point, `d`: spacing, for tiny / exp)"""
    if num == 'grid':
        return p
    if num == 'full':
        return wrap_pt([p[0] + awk(rng) / 32, p[1] + awk(rng) / 32]) + list(p[2:])
    a, b = round((p[0] - c[0]) * 8), round((p[1] - c[1]) * 8)
    if num == 'tiny':
        return wrap_pt([c[0] + 1 / 3 + a * d, c[1] * 0.25 + 0.1 + b * d]) + list(p[2:])
    return [a * d * 1.0000000000000002, b * d * 0.7000000000000001] + list(p[2:])      # 'exp': next to (0, 0)


def num_ring(rng, raw, num):
    """the ring at the numeric scale `num`: equal lon/lat stay equal (closing vertices), Z is kept"""
    if num == 'grid':
        return raw
    c = raw[0][:2]
    for attempt in range(6):
        d = rng.choice(SPACINGS[attempt:] if num == 'tiny' else [1e-5, 1e-6, 1e-7, 2.5e-10])
        seen, out = {}, []
        for p in raw:
            key = (p[0], p[1])
            if key not in seen:
                seen[key] = num_pt(rng, p[:2], num, c, d)
            out.append(seen[key] + list(p[2:]))
        if len({tuple(v) for v in seen.values()}) == len(seen) and cond_ok(out):
            return out
    return raw


def num_geom(rng, g, num=None):
    """re-scale a generated geometry description in place (every ordinate position: outline, holes, box corners,
    centres and radii of curved shapes, line vertices, points, multi members)"""
    num = num or g_num(rng)
    t = g['t']
    if num == 'grid':
        return g
    for h in g.get('holes', []):
        num_geom(rng, h, num)
    if t == 'polygon':
        g['raw'] = num_ring(rng, g['raw'], num)
    elif t == 'box':
        if num == 'full':
            g['nw'], g['se'] = num_pt(rng, g['nw'], 'full'), num_pt(rng, g['se'], 'full')
        else:
            d = rng.choice(SPACINGS) if num == 'tiny' else rng.choice([1e-5, 1e-7])
            base = [g['nw'][0] + 1 / 3, g['nw'][1] * 0.25 + 0.1] if num == 'tiny' else [3 * d, 5 * d * 0.7000000000000001]
            g['nw'] = wrap_pt(base) + list(g['nw'][2:])
            g['se'] = wrap_pt([base[0] + 3 * d, base[1] - 2 * d]) + list(g['se'][2:])
    elif t in ('curved', 'ring'):
        g['py'][1] = num_pt(rng, g['py'][1], 'full')
        for i in range(2, len(g['py'])):
            if g['py'][0] != 'ring' or i < 4:
                g['py'][i] = g['py'][i] * (1 + awk(rng) / 64)
    elif t == 'point':
        g['p'] = num_pt(rng, g['p'], num, g['p'][:2], rng.choice(SPACINGS))
        if num == 'exp' and rng.random() < 0.5:
            g['p'] = [rng.choice([5e-324, 1e-320, -2.5e-310]), rng.choice([1e-7, -4.9e-324])] + list(g['p'][2:])
    elif t in ('line', 'mpoint'):
        key = 'vs' if t == 'line' else 'ps'
        c, d = g[key][0][:2], rng.choice(SPACINGS)
        g[key] = [num_pt(rng, p, num, c, d) for p in g[key]]
    elif t == 'mline':
        c, d = g['ls'][0][0][:2], rng.choice(SPACINGS)
        g['ls'] = [[num_pt(rng, p, num, c, d) for p in ln] for ln in g['ls']]
    elif t == 'mpoly':
        for m in g['ps']:
            num_geom(rng, m, rng.choice([num, 'grid', g_num(rng)]))
    return g


def g_ring(rng, n=None, zmode='none', near=None, spread=40):
    """raw vertex list: distinct grid points, random order (either orientation), sometimes already closed"""
    n = n or rng.choice([3, 3, 4, 4, 5, 6])
    c = near or g_lonlat(rng)
    pts = []
    while len(pts) < n:
        p = g_lonlat(rng, c, spread)
        if p not in pts:
            pts.append(p)
    ring = [p + g_z(rng, zmode, i) for i, p in enumerate(pts)]
    r = rng.random()
    if r < 0.5:
        ring.append(list(ring[0]))
    elif r < 0.6 and zmode in ('vary', 'mixed', 'same'):
        # same lon/lat as the first vertex but another Z: `Coordinate.__eq__` says the ring is still open
        ring.append(ring[0][:2] + ([] if len(ring[0]) > 2 and rng.random() < 0.5 else [41.0]))
    return ring


def ring_area2(raw):
    r = [p[:2] for p in raw]
    if r[0] != r[-1]:
        r = r + [r[0]]
    return _area2(_unwrap(r))


def ring_is_closed(raw):
    return list(raw[0]) == list(raw[-1])


def g_hole(rng, near, curved_ok=True, zmode='none'):
    r = rng.random()
    if r < 0.7 or not curved_ok:
        return {'t': 'polygon', 'raw': g_ring(rng, zmode=zmode, near=near, spread=6)}
    if r < 0.85:
        c = g_lonlat(rng, near, 6)
        return {'t': 'box', 'nw': wrap_pt([c[0] - 0.25, c[1] + 0.25]), 'se': wrap_pt([c[0] + 0.5, c[1] - 0.125])}
    return {'t': 'curved', 'py': ['circle', g_lonlat(rng, near, 6), rng.choice([500.0, 1234.5, 20000.0])]}


def g_polylike(rng, kinds=('polygon', 'box', 'circle', 'ellipse', 'ring', 'wedge'), nholes=None):
    kind = rng.choice(kinds)
    c = g_lonlat(rng)
    zmode = g_zmode(rng)
    nholes = rng.choice([0, 0, 1, 2]) if nholes is None else nholes
    holes = [g_hole(rng, c, zmode=('none' if zmode == 'mixed' else zmode)) for _ in range(nholes)]
    cz = c + (g_z(rng, zmode) if zmode != 'mixed' else [])
    if kind == 'polygon':
        g = {'t': 'polygon', 'raw': g_ring(rng, zmode=zmode, near=c)}
    elif kind == 'box':
        w, h = rng.randrange(1, 40) / 8, rng.randrange(1, 40) / 8
        nwz = g_z(rng, zmode)
        sez = g_z(rng, zmode)
        g = {'t': 'box', 'nw': wrap_pt([c[0] - w, c[1] + h]) + nwz, 'se': wrap_pt([c[0] + w, c[1] - h]) + sez}
    elif kind == 'circle':
        g = {'t': 'curved', 'py': ['circle', cz, rng.choice([50.0, 1000.0, 25000.5, 150000.0])]}
    elif kind == 'ellipse':
        mj = rng.choice([2000.0, 30000.0, 90000.0])
        g = {'t': 'curved', 'py': ['ellipse', cz, mj, mj / rng.choice([1.5, 2.0, 4.0]), rng.choice([0.0, 30.0, 45.0, 133.0, 270.0])]}
    elif kind == 'ring':
        outer = rng.choice([5000.0, 60000.0])
        g = {'t': 'ring', 'py': ['ring', cz, outer / rng.choice([2.0, 5.0]), outer, 0.0, 360.0]}
    else:
        outer = rng.choice([5000.0, 60000.0])
        amin = rng.choice([0.0, 10.0, 45.0, 200.0])
        g = {'t': 'ring', 'py': ['ring', cz, outer / rng.choice([2.0, 5.0]), outer, amin, amin + rng.choice([20.0, 90.0, 150.0])]}
    if holes:
        g['holes'] = holes
    return g


def g_geom(rng, kinds=None):
    return num_geom(rng, g_geom_grid(rng, kinds))


def g_geom_grid(rng, kinds=None):
    kind = rng.choice(kinds or ['polygon', 'polygon', 'box', 'circle', 'ellipse', 'ring', 'wedge', 'line', 'point',
                                'mpoly', 'mline', 'mpoint'])
    zmode = g_zmode(rng)
    if kind == 'line':
        n = rng.choice([1, 2, 3, 5])
        c = g_lonlat(rng)
        return {'t': 'line', 'vs': [g_lonlat(rng, c) + g_z(rng, zmode) for _ in range(n)]}
    if kind == 'point':
        return {'t': 'point', 'p': g_lonlat(rng) + g_z(rng, zmode)}
    if kind == 'mpoint':
        return {'t': 'mpoint', 'ps': [g_lonlat(rng) + g_z(rng, zmode) for _ in range(rng.choice([1, 2, 4]))]}
    if kind == 'mline':
        return {'t': 'mline', 'ls': [[g_lonlat(rng) + g_z(rng, zmode) for _ in range(rng.choice([2, 3]))]
                                     for _ in range(rng.choice([1, 2, 3]))]}
    if kind == 'mpoly':
        return {'t': 'mpoly', 'ps': [g_polylike(rng, kinds=rng.choice([('polygon',), ('polygon', 'box'), ('polygon', 'circle', 'wedge', 'ring')]))
                                     for _ in range(rng.choice([1, 2, 3]))]}
    return g_polylike(rng, kinds=(kind,))


STRS = ['', 'a', 'name', 'two words', 'é', 'q"uote', 'back\\slash', 'til~de', '\u2603', '\U0001F600', 'new\nline', 'tab\t', '1', 'None']
KEYS = ['a', 'b', 'name', 'id', 'type', 'k y', 'é', 'n.1', 'coordinates', 'geometry', 'properties', 'Z']


def g_scalar(rng):
    return rng.choice([None, True, False, 0, 1, -7, 2 ** 70, 0.0, 0.1, -2.5, 1e-7, 1e20, 3.0] + STRS)


def g_value(rng, depth=0):
    r = rng.random()
    if depth >= 2 or r < 0.6:
        return g_scalar(rng)
    if r < 0.8:
        return [g_value(rng, depth + 1) for _ in range(rng.choice([0, 1, 3]))]
    return {rng.choice(KEYS): g_value(rng, depth + 1) for _ in range(rng.choice([0, 1, 2]))}


def g_props(rng, n=None, with_datetime=False, reserved=False):
    n = rng.choice([0, 0, 1, 2, 4]) if n is None else n
    p = {}
    for _ in range(n):
        p[rng.choice(KEYS)] = g_value(rng)
    if with_datetime:
        p['when'] = EPOCH + timedelta(microseconds=BASE_US + rng.randrange(10 ** 9))
        if rng.random() < 0.5:
            p['nest'] = [{'at': (EPOCH + timedelta(microseconds=BASE_US + 1)).replace(tzinfo=None)}]
    if reserved:
        p[rng.choice(['datetime_start', 'datetime_end'])] = rng.choice(['x', 5, None, mkdt(str(BASE_US)).isoformat()])
    return p


def g_us(rng):
    return BASE_US + rng.choice([0, rng.randrange(0, 10), rng.randrange(0, 10 ** 7) * 1000, rng.randrange(0, 10 ** 13)])


def g_dt(rng, src, mode=None):
    mode = mode or rng.choice(['none', 'instant', 'instant-ti', 'interval', 'interval'])
    if mode == 'none':
        src['dt'] = None
        return src
    a = g_us(rng)
    if mode == 'instant':
        src['dt'], src['inst'] = [a, a], True
    elif mode == 'instant-ti':
        src['dt'] = [a, a]
    else:
        b = a + rng.choice([1, 1000, 86400 * 10 ** 6, rng.randrange(1, 10 ** 12)])
        src['dt'] = [a, b]
    src['tz'] = rng.choice([0, 0, 0, 60, -330, 345, 840, -720])
    return src


def g_src(rng, kinds=None, dt=None, props=None):
    src = {'g': g_geom(rng, kinds)}
    g_dt(rng, src, dt)
    src['props'] = g_props(rng) if props is None else props
    return src


def g_opts(rng, a, curved=False):
    if rng.random() < (0.7 if curved else 0.3):
        a['k'] = rng.choice([3, 4, 5, 8, 17, 36, 40]) if rng.random() < 0.7 else rng.randrange(3, 41)
    else:
        a['k'] = None
        if rng.random() < 0.2:
            a['passk'] = True
    if rng.random() < 0.4:
        a['bbox'] = True
        a['bboxv'] = rng.choice([True, True, 1, 'yes'])
    r = rng.random()
    if r < 0.35:
        a['ov'] = g_props(rng, n=rng.choice([0, 1, 2, 3]))
        if rng.random() < 0.3:
            a['ov'][rng.choice(['datetime_start', 'datetime_end'])] = rng.choice(['later', None, 17])
    elif r < 0.45:
        a['passov'] = True
    r = rng.random()
    if r < 0.35:
        a['extra'] = {'id': rng.choice([0, 7, 'f-1', None])}
    elif r < 0.45:
        a['extra'] = {rng.choice(['id', 'crs', 'title', 'type', 'bbox']): g_scalar(rng), 'id': 3}
    return a


def is_curved(g):
    if g['t'] in ('curved', 'ring'):
        return True
    if g['t'] == 'mpoly':
        return any(is_curved(p) for p in g['ps'])
    return any(is_curved(h) for h in g.get('holes', []))


def hole_wf(h):
    """non-degenerate hole (a zero-area hole is 'counter-clockwise' in both directions)"""
    if h['t'] == 'polygon':
        return ring_area2(h['raw']) != 0
    return True


def src_wf(src):
    """the hypotheses of the round-trip theorem: JSON-native properties that do not use the two reserved
    names, non-degenerate holes (GeoPolygon import does not re-reverse), no M"""
    g = src['g']
    if any(k in src['props'] for k in ('datetime_start', 'datetime_end')):
        return False
    if enc(_isoify(src['props'])) != enc(src['props']):
        return False
    if g['t'] in ('polygon', 'box', 'curved', 'ring'):
        return all(hole_wf(h) for h in g.get('holes', []))
    if g['t'] == 'mpoly':
        # MultiGeoPolygon.from_geojson re-reverses the holes, so a degenerate hole is harmless there -- except
        # under a GeoRing member, whose polygon form is rebuilt from the emitted (reversed) rings
        return all(hole_wf(h) for p in g['ps'] if p['t'] == 'ring' for h in p.get('holes', []))
    return True


def line_of(op, a):
    return f'gj.{op} ' + enc(a, canon=False)


def tag_export(ln, ans):
    op, rest = _split(ln)
    a = dec(rest)
    tags = [f'{op}:{("ok" if ans.startswith("ok") else ans.split()[0])}']
    src = a.get('src')
    if src:
        g = src['g']
        t = g['t'] if g['t'] != 'curved' else g['py'][0]
        if g['t'] == 'ring':
            t = 'ring' if g.get('full') else 'wedge'
        tags.append('kind:' + t)
        tags.append('holes:%d' % len(g.get('holes', [])))
        tags.append('dt:' + ('none' if src.get('dt') is None else 'instant' if src['dt'][0] == src['dt'][1] else 'interval'))
        tags.append('k:' + ('none' if a.get('k') is None else 'set'))
        if a.get('bbox'):
            tags.append('bbox')
        if a.get('ov') is not None:
            tags.append('override')
        if a.get('extra'):
            tags.append('extra')
        if ' #0 ]' in ln:
            tags.append('z:0.0?')
    return tags


# --- documents for the import streams ------------------------------------------------------------


def j_pos(rng, zmode='none', wild=False):
    p = g_lonlat(rng)
    if wild and rng.random() < 0.3:
        p = [p[0] + rng.choice([0, 360, -360, 200]), p[1] + rng.choice([0, 90, 180, -100])]
    if rng.random() < 0.3:
        p = [int(p[0]), int(p[1])]
    z = g_z(rng, zmode)
    if wild and rng.random() < 0.1:
        z = [None]
    if wild and rng.random() < 0.05:
        z = [1.5, 99]
    return p + z


def j_ring(rng, zmode='none', wild=False, near=None):
    r = g_ring(rng, zmode=zmode, near=near)
    if wild and rng.random() < 0.1:
        r = r[:rng.choice([1, 2])]
    return r


def j_geometry(rng, kind, wild=False):
    zmode = g_zmode(rng)
    if kind == 'Point':
        c = j_pos(rng, zmode, wild)
    elif kind == 'LineString':
        c = [j_pos(rng, zmode, wild) for _ in range(rng.choice([0, 1, 2, 4]) if wild else rng.choice([2, 3]))]
    elif kind == 'MultiPoint':
        c = [j_pos(rng, zmode, wild) for _ in range(rng.choice([0, 1, 3]))]
    elif kind == 'MultiLineString':
        c = [[j_pos(rng, zmode, wild) for _ in range(rng.choice([1, 2, 3]))] for _ in range(rng.choice([0, 1, 2]))]
    elif kind == 'Polygon':
        ctr = g_lonlat(rng)
        c = [j_ring(rng, zmode, wild, ctr) for _ in range(rng.choice([1, 1, 2, 3]))]
        if wild and rng.random() < 0.05:
            c = []
    else:
        c = []
        for _ in range(rng.choice([0, 1, 2]) if wild else rng.choice([1, 2])):
            ctr = g_lonlat(rng)
            c.append([j_ring(rng, zmode, wild, ctr) for _ in range(rng.choice([1, 1, 2, 3]))])
        if wild and c and rng.random() < 0.05:
            c[0] = []
    if not wild:
        c = num_coords(rng, kind, c)
    return {'type': kind, 'coordinates': c}


def num_coords(rng, kind, c, num=None):
    """the coordinates member of a hand-written document at another numeric scale (see num_geom)"""
    num = num or g_num(rng)
    if num == 'grid' or not c:
        return c
    d = rng.choice(SPACINGS)
    if kind == 'Point':
        return num_pt(rng, c, num, c[:2], d)
    if kind in ('LineString', 'MultiPoint'):
        return [num_pt(rng, p, num, c[0][:2], d) for p in c]
    if kind == 'MultiLineString':
        ref = next((ln[0][:2] for ln in c if ln), None)
        return [[num_pt(rng, p, num, ref, d) for p in ln] for ln in c]
    if kind == 'Polygon':
        return [num_ring(rng, r, num) for r in c]
    return [[num_ring(rng, r, num) for r in poly] for poly in c]


def j_ts(rng, us=None):
    us = g_us(rng) if us is None else us
    rep = rng.choice(['', '', '@n', '@o60', '@o-330', '@o840'])
    return mkdt(f'{us}{rep}').isoformat()


def j_props(rng, ks='datetime_start', ke='datetime_end'):
    r = rng.random()
    if r < 0.08:
        return 'absent'
    if r < 0.14:
        return None
    p = g_props(rng)
    r = rng.random()
    a = g_us(rng)
    if r < 0.25:
        pass
    elif r < 0.45:
        p[ks], p[ke] = j_ts(rng, a), j_ts(rng, a + rng.choice([0, 1, 10 ** 6, 10 ** 10]))
    elif r < 0.55:
        p[ks] = j_ts(rng, a)
    elif r < 0.62:
        p[ke] = j_ts(rng, a)
    elif r < 0.70:
        p[ks], p[ke] = j_ts(rng, a), j_ts(rng, a - rng.choice([1, 10 ** 6]))          # end before start
    elif r < 0.78:
        p[ks], p[ke] = rng.choice(['', None, 0, False, [], {}]), j_ts(rng, a)          # falsy start
    elif r < 0.86:
        p[rng.choice([ks, ke])] = rng.choice(['yesterday', 'not a date', '2020-13-45T00:00:00'])
    elif r < 0.93:
        p[rng.choice([ks, ke])] = rng.choice([5, True, [1], {'a': 1}, 1.5])
    else:
        p[ks], p[ke] = j_ts(rng, a), rng.choice(['', None])
    if rng.random() < 0.5:
        # put the time fields first / in the middle of the dict, not only at the end
        items = list(p.items())
        rng.shuffle(items)
        p = dict(items)
    return p


def j_feature(rng, kind=None, wild=False, ks='datetime_start', ke='datetime_end'):
    kind = kind or rng.choice(KIND_NAMES)
    geom = j_geometry(rng, kind, wild)
    if rng.random() < 0.2:
        return geom                                    # bare geometry
    doc = {'type': 'Feature', 'geometry': geom}
    p = j_props(rng, ks, ke)
    if p != 'absent':
        doc['properties'] = p
    if rng.random() < 0.3:
        doc['id'] = rng.choice([0, 'x', 12])
    if rng.random() < 0.1:
        doc = dict(reversed(list(doc.items())))
    return doc


def malformed_docs(rng):
    """(doc, importer kind, expected answer or None, tag)"""
    out = []
    for kind in KIND_NAMES:
        good = j_geometry(rng, kind)
        feat = {'type': 'Feature', 'geometry': good, 'properties': {'a': 1}}
        others = [k for k in KIND_NAMES if k != kind]
        for wrong in others:
            out.append((feat, wrong, 'ERR:Value', 'wrong-type'))
            out.append((good, wrong, 'ERR:Value', 'wrong-type-bare'))
        out.append(({'type': 'Feature', 'properties': {'a': 1}}, kind, 'ERR:Value', 'missing-geometry'))
        out.append(({'type': 'Feature', 'properties': {'a': 1}}, 'parse', 'ERR:Value', 'missing-geometry'))
        out.append(({}, kind, 'ERR:Value', 'empty-document'))
        out.append(({}, 'parse', 'ERR:Value', 'empty-document'))
        out.append(({'type': 'Feature', 'geometry': {}, 'properties': {}}, kind, 'ERR:Value', 'empty-geometry'))
        out.append(({'type': 'Feature', 'geometry': {'type': kind.lower(), 'coordinates': good['coordinates']}}, kind, 'ERR:Value', 'type-case'))
        out.append(({'type': 'Feature', 'geometry': {'type': kind.lower(), 'coordinates': good['coordinates']}}, 'parse', 'ERR:Value', 'type-case'))
        out.append(({'type': kind.upper(), 'coordinates': good['coordinates']}, 'parse', 'ERR:Value', 'type-case'))
        out.append(({'type': 'Feature', 'geometry': {'type': 'GeometryCollection', 'geometries': []}}, 'parse', 'ERR:Value', 'unknown-type'))
        out.append(({'type': 'Topology'}, 'parse', 'ERR:Value', 'unknown-type'))
        out.append(({'type': 'Feature', 'geometry': None, 'properties': {}}, kind, None, 'null-geometry'))
        out.append(({'type': 'Feature', 'geometry': None, 'properties': {}}, 'parse', None, 'null-geometry'))
        out.append(({'type': 5, 'geometry': good}, 'parse', None, 'non-string-type'))
        out.append(({'type': None, 'geometry': good}, 'parse', None, 'non-string-type'))
        out.append(({'geometry': good}, 'parse', None, 'typeless-feature'))
        out.append(({'geometry': good, 'properties': {'datetime_start': j_ts(rng)}}, kind, None, 'typeless-feature'))
        out.append(({'type': 'Feature', 'geometry': {'type': kind}}, kind, None, 'missing-coordinates'))
        out.append(({'type': 'Feature', 'geometry': {'type': kind, 'coordinates': None}}, kind, None, 'null-coordinates'))
        out.append(({'type': kind, 'coordinates': good['coordinates'], 'properties': {'p': 1, 'datetime_end': j_ts(rng)}}, kind, None, 'bare-with-properties'))
        out.append(({'type': 'Feature', 'geometry': good, 'coordinates': []}, kind, 'ERR:Value', 'feature-with-coordinates-member'))
        out.append(({'type': 'FeatureCollection', 'features': [feat]}, kind, 'ERR:Value', 'collection-to-shape-importer'))
        out.append((feat, 'fc', 'ERR:Value', 'feature-to-collection-importer'))
        out.append(({'type': 'featurecollection', 'features': []}, 'parse', 'ERR:Value', 'type-case'))
        out.append(({'type': 'FeatureCollection'}, 'parse', None, 'collection-without-features'))
        out.append(({'type': 'FeatureCollection', 'features': None}, 'fc', None, 'null-features'))
    out.append(({'type': 'Feature', 'geometry': {'type': 'Point', 'coordinates': [1.0]}}, 'Point', None, 'short-position'))
    out.append(({'type': 'Feature', 'geometry': {'type': 'Point', 'coordinates': []}}, 'Point', None, 'short-position'))
    out.append(({'type': 'Feature', 'geometry': {'type': 'Point', 'coordinates': [None, 2.0]}}, 'Point', None, 'null-ordinate'))
    out.append(({'type': 'Feature', 'geometry': {'type': 'Point', 'coordinates': ['x', 2.0]}}, 'Point', None, 'text-ordinate'))
    out.append(({'type': 'Feature', 'geometry': {'type': 'Point', 'coordinates': [True, False]}}, 'Point', None, 'bool-ordinate'))
    out.append(({'type': 'Feature', 'geometry': {'type': 'LineString', 'coordinates': [[1, 2], 3]}}, 'LineString', None, 'scalar-position'))
    out.append(({'type': 'Feature', 'geometry': {'type': 'Polygon', 'coordinates': [[[0, 0], [1, 0], [0, 1]], []]}}, 'Polygon', None, 'empty-hole'))
    out.append(({'type': 'Feature', 'geometry': {'type': 'Polygon', 'coordinates': []}, 'properties': {'datetime_start': 'bad'}}, 'Polygon', None, 'error-order'))
    out.append(({'type': 'Feature', 'geometry': {'type': 'Polygon', 'coordinates': [[]]}, 'properties': {'datetime_start': 7}}, 'Polygon', None, 'error-order'))
    out.append(({'type': 'Feature', 'geometry': {'type': 'MultiPolygon', 'coordinates': [[]]}, 'properties': {'datetime_start': 7}}, 'MultiPolygon', None, 'error-order'))
    return out


# --- export histories ----------------------------------------------------------------------------------

GJ_TYPE = {'polygon': 'Polygon', 'box': 'Polygon', 'curved': 'Polygon', 'ring': 'Polygon', 'line': 'LineString',
           'point': 'Point', 'mpoly': 'MultiPolygon', 'mline': 'MultiLineString', 'mpoint': 'MultiPoint'}
RESERVED = ('datetime_start', 'datetime_end')


class Hist:
    """builds one history (a list of steps) while tracking, abstractly, what the live objects look like: how many
    there are, their time bounds (a Track needs them; buffer_dt fails without), their GeoJSON type, and which
    documents may be re-imported / scribbled on"""

    def __init__(self, rng, srcs, K):
        self.rng, self.K = rng, K
        self.objs = srcs
        self.dts = [tuple(s['dt']) if s.get('dt') else None for s in srcs]
        self.types = [GJ_TYPE[s['g']['t']] for s in srcs]
        self.taint = [any(k in (s.get('props') or {}) for k in RESERVED) or
                      enc(_isoify(s.get('props') or {})) != enc(s.get('props') or {}) for s in srcs]
        self.docs = []          # per document: dict(kind, obj, importable)
        self.colls = []         # per collection: list of member indices or None
        self.mutated, self.imported = set(), set()
        self.steps = []

    def n(self):
        return len(self.dts)

    def export(self, i, plain=False):
        st = {'op': 'export', 'i': i, 'k': self.rng.choice([None, self.K])}
        if not plain:
            if self.rng.random() < 0.2:
                st['bbox'] = True
            if self.rng.random() < 0.15:
                st['ov'] = g_props(self.rng, n=1)
            if self.rng.random() < 0.15:
                st['extra'] = {'id': self.rng.choice([4, 'f'])}
        self.steps.append(st)
        self.docs.append({'kind': 'single', 'obj': i,
                          'importable': not self.taint[i] and 'ov' not in st})
        return len(self.docs) - 1

    def _new(self, i, dt):
        self.dts.append(dt)
        self.types.append(self.types[i])
        self.taint.append(self.taint[i])
        return self.n() - 1

    def mutate(self, i, kind=None, inplace=None):
        """returns the index of the object that carries the update (i, or the new copy), or None if it fails"""
        rng = self.rng
        kind = kind or rng.choice(['set_dt', 'set_dt', 'strip_dt', 'buffer_dt', 'set_property', 'set_property'])
        inplace = (rng.random() < 0.85) if inplace is None else inplace
        st = {'op': kind, 'i': i}
        new_dt, ok, taint = self.dts[i], True, False
        if kind == 'set_dt':
            d = {}
            g_dt(rng, d, rng.choice(['none', 'instant', 'instant-ti', 'interval', 'interval']))
            st.update(d)
            new_dt = tuple(d['dt']) if d.get('dt') else None
        elif kind == 'strip_dt':
            new_dt = None
        elif kind == 'buffer_dt':
            st['us'] = rng.choice([0, 1, 10 ** 6, 3600 * 10 ** 6, -1, -10 ** 6, -10 ** 15])
            if new_dt is None or new_dt[1] + st['us'] < new_dt[0] - st['us']:
                ok = False
            else:
                new_dt = (new_dt[0] - st['us'], new_dt[1] + st['us'])
        else:
            st['key'] = rng.choice(KEYS + ['colour', 'when'] + ([RESERVED[0]] if rng.random() < 0.1 else []))
            st['val'] = g_value(rng)
            taint = st['key'] in RESERVED
        if not inplace:
            st['inplace'] = False
        self.steps.append(st)
        if not ok:
            return None
        if inplace:
            self.dts[i] = new_dt
            self.taint[i] = self.taint[i] or taint
            return i
        j = self._new(i, new_dt)
        self.taint[j] = self.taint[j] or taint
        return j

    def fork(self, i, how=None):
        self.steps.append({'op': 'fork', 'i': i, 'how': how or self.rng.choice(['copy', 'deepcopy', 'pickle'])})
        return self._new(i, self.dts[i])

    def mutdoc(self, j):
        if j in self.imported:
            return False
        self.steps.append({'op': 'mutdoc', 'j': j})
        self.mutated.add(j)
        return True

    def imp(self, j):
        d = self.docs[j]
        if d['kind'] != 'single' or not d['importable'] or j in self.mutated:
            return None
        i = d['obj']
        st = {'op': 'import', 'j': j, 'kind': self.types[i] if self.rng.random() < 0.6 else 'parse'}
        if st['kind'] == 'parse' and self.rng.random() < 0.5:
            st['via'] = 'text'
        self.steps.append(st)
        self.imported.add(j)
        return self._new(i, d['dt'])

    def mkcoll(self, idxs, track):
        self.steps.append({'op': 'mkcoll', 'is': list(idxs), 'track': track})
        ok = not track or all(self.dts[i] is not None for i in idxs)
        self.colls.append(list(idxs) if ok else None)
        return len(self.colls) - 1

    def cexport(self, c):
        st = {'op': 'cexport', 'c': c, 'k': self.rng.choice([None, self.K])}
        if self.rng.random() < 0.2:
            st['ov'] = g_props(self.rng, n=1)
        self.steps.append(st)
        self.docs.append({'kind': 'coll'})
        return len(self.docs) - 1

    def line(self):
        return line_of('hist', {'objs': self.objs, 'steps': self.steps})


def _export_doc_dt(h, j):
    """remember the time bounds the exported object had when document j was written (for a later import)"""
    d = h.docs[j]
    if d['kind'] == 'single':
        d['dt'] = h.dts[d['obj']]


def g_history(rng):
    K = rng.choice([3, 4, 6])
    kinds = ['polygon', 'polygon', 'box', 'circle', 'wedge', 'ring', 'line', 'point', 'mpoly', 'mline', 'mpoint']
    srcs = [fill(g_src(rng, kinds=[rng.choice(kinds)]), K) for _ in range(rng.choice([1, 1, 2, 3]))]
    h = Hist(rng, srcs, K)
    for i in range(h.n()):
        if rng.random() < 0.85:
            _export_doc_dt(h, h.export(i))                      # first observation
    for _ in range(rng.choice([2, 3, 4, 6])):
        r = rng.random()
        i = rng.randrange(h.n())
        if r < 0.45:
            t = h.mutate(i)
            if rng.random() < 0.85:
                _export_doc_dt(h, h.export(i))
            if t is not None and t != i:
                _export_doc_dt(h, h.export(t))
        elif r < 0.6:
            f = h.fork(i)
            t = h.mutate(rng.choice([i, f]))
            _export_doc_dt(h, h.export(i))
            _export_doc_dt(h, h.export(f))
        elif r < 0.72 and h.docs:
            j = rng.randrange(len(h.docs))
            if h.mutdoc(j) and h.docs[j]['kind'] == 'single':
                _export_doc_dt(h, h.export(h.docs[j]['obj']))
        elif r < 0.85 and h.docs:
            t = h.imp(rng.randrange(len(h.docs)))
            if t is not None:
                if rng.random() < 0.7:
                    h.mutate(t, inplace=True)
                _export_doc_dt(h, h.export(t))
        else:
            idxs = [rng.randrange(h.n()) for _ in range(rng.choice([1, 2, 3]))]
            idxs = list(dict.fromkeys(idxs))
            have = all(h.dts[x] is not None for x in idxs)
            c = h.mkcoll(idxs, track=(have and rng.random() < 0.5) or rng.random() < 0.05)
            h.cexport(c)
            if h.colls[c] is not None:
                m = rng.choice(idxs)
                h.mutate(m, inplace=True)
                h.cexport(c)
                if rng.random() < 0.5:
                    _export_doc_dt(h, h.export(m))
    for i in range(h.n()):
        if rng.random() < 0.5:
            _export_doc_dt(h, h.export(i, plain=True))
    return h.line()


def small_histories(rng):
    """every kind x every in-place update x prior dt none/interval x inplace True/False, each sandwiched between
    exports; the same through a collection; export twice / scribble on the first document / export again;
    copies, deep copies and pickles taken AFTER the first export"""
    K = 4
    geoms = [
        {'t': 'point', 'p': [1.0, 2.0]},
        {'t': 'line', 'vs': [[0.0, 0.0], [1.0, 1.0, 0.0]]},
        {'t': 'polygon', 'raw': [[0.0, 0.0], [2.0, 0.0], [1.0, 1.0]], 'holes': [{'t': 'polygon', 'raw': [[0.5, 0.25], [1.0, 0.75], [1.5, 0.25]]}]},
        {'t': 'mpoint', 'ps': [[0.0, 0.0], [1.0, 1.0]]},
        {'t': 'curved', 'py': ['circle', [0.5, 0.25], 1000.0]},
        {'t': 'box', 'nw': [0.0, 1.0], 'se': [1.0, 0.0]},
    ]
    t0, t1, t2 = BASE_US, BASE_US + 86400 * 10 ** 6, BASE_US + 4 * 86400 * 10 ** 6
    updates = [
        {'op': 'set_dt', 'dt': [t1, t2]}, {'op': 'set_dt', 'dt': [t2, t2], 'inst': True, 'tz': 60}, {'op': 'set_dt', 'dt': None},
        {'op': 'strip_dt'}, {'op': 'buffer_dt', 'us': 3600 * 10 ** 6}, {'op': 'buffer_dt', 'us': -10 ** 15},
        {'op': 'set_property', 'key': 'colour', 'val': 'red'}, {'op': 'set_property', 'key': 'n', 'val': [1, {'a': None}]},
        {'op': 'set_property', 'key': 'when', 'val': mkdt(str(t2))},
    ]
    out = []
    for g in geoms:
        for dt0 in (None, [t0, t1]):
            for upd in updates:
                for inplace in (True, False):
                    src = fill({'g': copy.deepcopy(g), 'dt': dt0, 'props': {'n': 1, 'tags': ['a', 'b']}}, K)
                    u = dict(upd, i=0)
                    if not inplace:
                        u['inplace'] = False
                    fails = upd['op'] == 'buffer_dt' and (dt0 is None or upd['us'] < 0)
                    steps = [{'op': 'export', 'i': 0, 'k': None}, u, {'op': 'export', 'i': 0, 'k': None}]
                    if not inplace and not fails:
                        steps.append({'op': 'export', 'i': 1, 'k': K})
                    out.append(line_of('hist', {'objs': [src], 'steps': steps}))
            # through a collection, a member updated between two collection exports
            for upd in updates[:4] + updates[6:7]:
                a = fill({'g': copy.deepcopy(g), 'dt': dt0, 'props': {'n': 1}}, K)
                b = fill({'g': {'t': 'point', 'p': [5.0, 5.0]}, 'dt': [t0, t0], 'props': {}}, K)
                steps = [{'op': 'mkcoll', 'is': [0, 1], 'track': False}, {'op': 'cexport', 'c': 0, 'k': None},
                         dict(upd, i=0), {'op': 'cexport', 'c': 0, 'k': None}, {'op': 'export', 'i': 0, 'k': None}]
                out.append(line_of('hist', {'objs': [a, b], 'steps': steps}))
            # export twice, scribble on the first document, export again; then the same with derived objects
            src = fill({'g': copy.deepcopy(g), 'dt': dt0, 'props': {'n': 1, 'tags': ['a', ['b']], 'd': {'k': [1]}}}, K)
            steps = [{'op': 'export', 'i': 0, 'k': None}, {'op': 'export', 'i': 0, 'k': None}, {'op': 'mutdoc', 'j': 0},
                     {'op': 'export', 'i': 0, 'k': None}, {'op': 'mkcoll', 'is': [0], 'track': False},
                     {'op': 'cexport', 'c': 0, 'k': None}, {'op': 'mutdoc', 'j': 3}, {'op': 'cexport', 'c': 0, 'k': None},
                     {'op': 'export', 'i': 0, 'k': None}]
            out.append(line_of('hist', {'objs': [src], 'steps': steps}))
            for how in ('copy', 'deepcopy', 'pickle'):
                src = fill({'g': copy.deepcopy(g), 'dt': dt0, 'props': {'n': 1}}, K)
                steps = [{'op': 'export', 'i': 0, 'k': None}, {'op': 'fork', 'i': 0, 'how': how},
                         {'op': 'set_dt', 'i': 1, 'dt': [t1, t2]}, {'op': 'set_property', 'i': 1, 'key': 'c', 'val': 1},
                         {'op': 'export', 'i': 1, 'k': None}, {'op': 'export', 'i': 0, 'k': None},
                         {'op': 'strip_dt', 'i': 0}, {'op': 'export', 'i': 0, 'k': None}, {'op': 'export', 'i': 1, 'k': None}]
                out.append(line_of('hist', {'objs': [src], 'steps': steps}))
            # import what was exported, update the imported shape, export it; the source document stays as it was
            src = fill({'g': copy.deepcopy(g), 'dt': dt0, 'props': {'n': 1, 'tags': ['a']}}, K)
            for kind, via in ((GJ_TYPE[g['t']], None), ('parse', 'text')):
                imp = {'op': 'import', 'j': 0, 'kind': kind}
                if via:
                    imp['via'] = via
                steps = [{'op': 'export', 'i': 0, 'k': None}, imp, {'op': 'export', 'i': 1, 'k': None},
                         {'op': 'set_dt', 'i': 1, 'dt': [t2, t2]}, {'op': 'set_property', 'i': 1, 'key': 'tags', 'val': 'x'},
                         {'op': 'export', 'i': 1, 'k': None}, {'op': 'export', 'i': 0, 'k': None}]
                out.append(line_of('hist', {'objs': [src], 'steps': steps}))
    return out


def tag_hist(ln, ans):
    op, rest = _split(ln)
    a = dec(rest)
    ops = sorted({st['op'] + ('' if st.get('inplace', True) else ':copy') for st in a['steps']})
    return ['hist:' + o for o in ops] + ['hist-objs:%d' % len(a.get('objs', [])),
                                         'hist:' + ('ok' if 'rfc=ok' in ans and 'docs=same' in ans else 'flagged')]


# ----------------------------------------------------------------------------------------------


SRC_THEOREMS = ['GV.C14Src.' + t for t in (
    # ring orientation: is_counter_clockwise, ensure_edge_bounds, Coordinate.__eq__, GeoPolygon.__init__
    'ensureEdgeBounds_eq', 'isCounterClockwise_eq', 'coordEq_eq', 'polygonInit_eq', 'polygonInitDefault_eq',
    # positions and rings: to_float, bounding_coords, linear_rings
    'toFloat_eq', 'polygonLinearRings_eq', 'boxBoundingCoords_eq', 'boxLinearRings_eq', 'curvedLinearRings_eq',
    'ringBoundingCoords_eq', 'ringLinearRings_eq', 'mpolyLinearRings_eq',
    # the geometry member: to_geo_interface of every exporting class (coordinates nesting, bbox)
    'polygonToGeoInterface_eq', 'boxToGeoInterface_eq', 'curvedToGeoInterface_eq', 'ringToGeoInterface_eq',
    'lineToGeoInterface_eq', 'pointToGeoInterface_eq', 'mlineToGeoInterface_eq', 'mpointToGeoInterface_eq',
    'mpolyToGeoInterface_eq',
    # the Feature, properties, time fields out and back
    'startDt_eq', 'endDt_eq', 'properties_eq', 'propertiesJson_eq', 'toGeoJson_eq', 'convert_eq', 'getDt_eq',
    # the importers: from_geojson of the six types (dynamic lookups, ring / member loops, time fields popped from a copy)
    'pointFromGeoJson_eq', 'lineFromGeoJson_eq', 'mpointFromGeoJson_eq', 'mlineFromGeoJson_eq', 'polygonLoop1_spec',
    'polygonLoop2_spec', 'polygonTail1', 'polygonTail2', 'polygonFromGeoJson_eq', 'mpolyLoop1_spec', 'mpolyLoop2_spec',
    'mpolyTail1', 'mpolyTail2', 'mpolyFromGeoJson_eq', 'srcImport_eq', 'arrOK_exported',
    # the chain as Python dispatches it
    'PolyRecv.linearRings_eq', 'PolyRecv.geoInterface_eq', 'Recv.geoInterface_eq', 'export_eq',
    # C14's headline theorems restated for the translated source
    'src_isCCW_iff_area', 'src_isCCW_iff_winding', 'src_mkPolygon', 'src_exterior_ccw_holes_cw',
    'src_exterior_ccw_holes_cw_antimeridian', 'src_geom_roundtrip', 'src_roundtrip', 'src_time_fields_roundtrip',
    'src_time_fields_absent', 'src_full_roundtrip')]


def check(run):
    run.prove(MODULE, THEOREMS)
    run.source_tie(['SrcGeoJson'], 'GeoVerif.Props.C14Src', SRC_THEOREMS)
    rng = run.rng

    # ---- exhaustive small world: one triangle / square in every orientation, closure and Z variant,
    #      0-2 holes in both orientations, every dt kind, bbox on/off -------------------------------
    tri = [[0.0, 0.0], [4.0, 0.0], [0.0, 3.0]]
    sq = [[10.0, 10.0], [14.0, 10.0], [14.0, 13.5], [10.0, 13.5]]
    hole1 = [[1.0, 0.5], [2.0, 0.5], [1.0, 1.5]]
    hole2 = [[0.25, 0.25], [0.75, 0.25], [0.75, 0.75], [0.25, 0.75]]
    flat = [[1.0, 1.0], [2.0, 1.0], [3.0, 1.0]]
    small = []
    for base in (tri, sq):
        for rev in (False, True):
            for closed in (False, True):
                for zs in (None, [0.0], [5.0], 'vary', 'closing-z'):
                    ring = list(reversed(base)) if rev else list(base)
                    ring = [p + ([float(i)] if zs in ('vary', 'closing-z') else (zs or [])) for i, p in enumerate(ring)]
                    if closed:
                        ring = ring + [list(ring[0]) if zs != 'closing-z' else ring[0][:2] + [9.0]]
                    for holes in ([], [hole1], [list(reversed(hole1))], [hole1, list(reversed(hole2))], [flat]):
                        for dtm in ('none', 'instant', 'interval'):
                            src = {'g': {'t': 'polygon', 'raw': ring, 'holes': [{'t': 'polygon', 'raw': h} for h in holes]},
                                   'props': {'name': 'p', 'n': 1}}
                            g_dt(rng, src, dtm)
                            small.append(src)
    # the same across the antimeridian and next to a pole: shells and holes with edges over +-180, both
    # orientations, alone, as parts of a MultiGeoPolygon, as circle / wedge / box, and (below) in collections
    am_tri = [[179.0, 0.0], [-177.0, 0.0], [179.0, 3.0]]
    am_sq = [[178.0, 10.0], [-178.0, 10.0], [-178.0, 13.5], [178.0, 13.5]]
    am_180 = [[170.0, -5.0], [-180.0, -5.0], [-175.0, 2.0], [-180.0, 6.0], [170.0, 6.0]]
    polar = [[10.0, 85.0], [100.0, 86.0], [-170.0, 85.5], [-60.0, 88.0]]          # runs around the pole: no winding
    polar_tri = [[10.0, 85.0], [40.0, 86.0], [25.0, 89.5]]
    am_hole = [[179.5, 11.0], [-179.5, 11.0], [179.75, 12.0]]
    am_small = []
    for base in (am_tri, am_sq, am_180, polar, polar_tri):
        for rev in (False, True):
            for closed in (False, True):
                for zs in (None, [0.0]):
                    ring = [p + (zs or []) for p in (list(reversed(base)) if rev else list(base))]
                    if closed:
                        ring = ring + [list(ring[0])]
                    for holes in ([], [am_hole], [list(reversed(am_hole))], [hole1, list(reversed(am_hole))]):
                        src = {'g': {'t': 'polygon', 'raw': ring, 'holes': [{'t': 'polygon', 'raw': h} for h in holes]},
                               'props': {'name': 'am'}}
                        g_dt(rng, src, 'interval' if closed else 'none')
                        am_small.append(src)
                        if not zs and not closed:
                            am_small.append(g_dt(rng, {'g': {'t': 'mpoly', 'ps': [
                                {'t': 'polygon', 'raw': tri}, copy.deepcopy(src['g']),
                                {'t': 'box', 'nw': [179.0, 2.0], 'se': [-179.5, 1.0], 'holes': [{'t': 'polygon', 'raw': h} for h in holes]}]},
                                'props': {}}, 'none'))
    for ctr in ([179.9, 10.0], [-180.0, -45.0], [-179.95, 0.0], [20.0, 88.0], [179.5, 87.0]):
        for py in (['circle', ctr, 30000.0], ['ellipse', ctr, 40000.0, 15000.0, 30.0]):
            am_small.append(g_dt(rng, fill({'g': {'t': 'curved', 'py': py, 'holes': [{'t': 'curved', 'py': ['circle', ctr, 5000.0]}]}, 'props': {}}, None), 'none'))
        for amin, amax in ((0.0, 360.0), (40.0, 200.0), (250.0, 300.0)):
            am_small.append(g_dt(rng, fill({'g': {'t': 'ring', 'py': ['ring', ctr, 10000.0, 40000.0, amin, amax]}, 'props': {}}, None), 'none'))
    # numeric scale, exhaustively: every ordinate position of every kind with full-precision doubles, vertex
    # spacings of 1e-8 ... 1e-12 degrees (orientation and closure of tiny rings), exponent notation, huge Z
    num_small = []
    fx, fy = 100 + 1 / 3, 10.1
    for d in SPACINGS:
        sq_t = [[fx, fy], [fx + 3 * d, fy], [fx + 3 * d, fy + 3 * d], [fx, fy + 3 * d]]
        tri_h = [[fx + d, fy + d], [fx + 2 * d, fy + d], [fx + d, fy + 2 * d]]
        for rev in (False, True):
            for closed in (False, True):
                ring = list(reversed(sq_t)) if rev else list(sq_t)
                if closed:
                    ring = ring + [list(ring[0])]
                for holes in ([], [tri_h], [list(reversed(tri_h))]):
                    if cond_ok(ring) and all(cond_ok(h) for h in holes):
                        num_small.append(g_dt(rng, {'g': {'t': 'polygon', 'raw': ring, 'holes': [{'t': 'polygon', 'raw': h} for h in holes]},
                                                    'props': {'d': d}}, 'none'))
        num_small.append(g_dt(rng, {'g': {'t': 'box', 'nw': [fx, fy + 2 * d], 'se': [fx + 3 * d, fy]}, 'props': {}}, 'none'))
        num_small.append(g_dt(rng, {'g': {'t': 'line', 'vs': [[fx, fy], [fx + d, fy + d], [fx + 2 * d, fy]]}, 'props': {}}, 'none'))
        num_small.append(g_dt(rng, {'g': {'t': 'mpoint', 'ps': [[fx, fy], [fx + d, fy]]}, 'props': {}}, 'none'))
        num_small.append(g_dt(rng, {'g': {'t': 'mpoly', 'ps': [{'t': 'polygon', 'raw': sq_t, 'holes': [{'t': 'polygon', 'raw': tri_h}]},
                                                                {'t': 'polygon', 'raw': tri}]}, 'props': {}}, 'none'))
    full_ring = [[12.345678901234567, 1 / 3], [20 + 0.1 + 0.2, 2 / 3], [17.000000001, 9.87654321987654321], [11.1, 8.000000049999999]]
    full_hole = [[15 + 1 / 3, 3.000000001], [16.123456789, 3 + 1e-9], [15.5, 4.2345678912345]]
    for z in [None] + ZS_AWKWARD:
        zz = [] if z is None else [z]
        for rev in (False, True):
            ring = [p + zz for p in (list(reversed(full_ring)) if rev else full_ring)]
            for holes in ([], [full_hole], [[p + zz for p in reversed(full_hole)]]):
                num_small.append(g_dt(rng, {'g': {'t': 'polygon', 'raw': ring, 'holes': [{'t': 'polygon', 'raw': h} for h in holes]},
                                            'props': {}}, 'interval' if rev else 'none'))
        num_small.append(g_dt(rng, {'g': {'t': 'box', 'nw': [1 / 3, 2 / 3] + zz, 'se': [0.1 + 0.2 + 1, 0.12345678901234567] + zz,
                                          'holes': [{'t': 'polygon', 'raw': [[0.4, 0.2], [0.5000000001, 0.2], [0.45, 0.3000000004]]}]},
                                    'props': {}}, 'none'))
        for pt in ([1 / 3, -2 / 3], [1e-7, -2.5e-10], [5e-324, -4.9e-324], [179.99999999999997, 89.99999999999999],
                   [-179.99999999999997, -1e-320]):
            num_small.append(g_dt(rng, {'g': {'t': 'point', 'p': pt + zz}, 'props': {}}, 'none'))
        num_small.append(g_dt(rng, {'g': {'t': 'line', 'vs': [[1 / 3, 1e-7] + zz, [12.345678901234567, -2.5e-10] + zz, [1e-5, 5e-324] + zz]},
                                    'props': {}}, 'none'))
        num_small.append(g_dt(rng, {'g': {'t': 'mline', 'ls': [[[1 / 3, 2 / 3] + zz, [0.1 + 0.2, 1e-9] + zz], [[1e-7, 1e-7], [2e-7, 3e-7] + zz]]},
                                    'props': {}}, 'none'))
        num_small.append(g_dt(rng, {'g': {'t': 'mpoint', 'ps': [[1 / 3, 2 / 3] + zz, [1e-7, 12.345678901234567], [0.1 + 0.2, 1e-320] + zz]},
                                    'props': {}}, 'none'))
        num_small.append(g_dt(rng, {'g': {'t': 'mpoly', 'ps': [{'t': 'polygon', 'raw': ring, 'holes': [{'t': 'polygon', 'raw': full_hole}]},
                                                                {'t': 'box', 'nw': [1 / 3, 2 / 3], 'se': [0.1 + 0.2 + 1, 0.12345678901234567] + zz}]},
                                    'props': {}}, 'none'))
    for ctr in ([12.345678901234567, 1 / 3], [1e-7, -2.5e-10], [100 + 1 / 3, 45.000000001, 1 / 3]):
        for py in (['circle', ctr, 1000 / 3], ['circle', ctr, 0.001], ['ellipse', ctr, 1234.5678901234567, 100 / 3, 100 / 7]):
            num_small.append(g_dt(rng, fill({'g': {'t': 'curved', 'py': py, 'holes': [{'t': 'polygon', 'raw': full_hole}]}, 'props': {}}, None), 'none'))
        num_small.append(g_dt(rng, fill({'g': {'t': 'ring', 'py': ['ring', ctr, 100 / 3, 1000 / 3, 100 / 7, 200 / 3]}, 'props': {}}, None), 'none'))
    small = small + am_small + num_small
    lines_export, lines_rfc, lines_rt = [], [], []
    for i, src in enumerate(small):
        a = {'src': src, 'k': None}
        if i % 3 == 0:
            a['bbox'] = True
        lines_export.append(line_of('export', a))
        lines_rfc.append(line_of('rfc', a))
        lines_rt.append(line_of('rt', {**a, 'wf': src_wf(src), 'via': ('dict', 'text', 'parse-dict', 'loads')[i % 4]}))
    run.run_cases('export-small', lines_export, impl, spec, tag=tag_export, spec_compare=spec_cmp)
    run.run_cases('rfc-small', lines_rfc, impl, spec, tag=tag_export, spec_compare=spec_cmp)
    run.run_cases('roundtrip-small', lines_rt, impl, spec, tag=tag_export, spec_compare=spec_cmp)
    run.exhaustive = False

    # ---- random export / rfc / round trip over every kind ----------------------------------------
    n = run.scale(500, 12000)
    lines_export, lines_rfc, lines_rt = [], [], []
    for i in range(n):
        with_dt = rng.random() < 0.1
        reserved = rng.random() < 0.05
        src = g_src(rng, props=g_props(rng, with_datetime=with_dt, reserved=reserved) if (with_dt or reserved) else None)
        a = g_opts(rng, {'src': src}, curved=is_curved(src['g']))
        fill(src, a.get('k'))
        lines_export.append(line_of('export', a))
        if not reserved:
            lines_rfc.append(line_of('rfc', a))
        b = {'src': src, 'k': a.get('k'), 'wf': src_wf(src), 'via': rng.choice(['dict', 'text', 'parse-dict', 'parse-text', 'loads'])}
        if a.get('bbox'):
            b['bbox'] = True
        if a.get('extra') and not any(k in a['extra'] for k in ('type', 'bbox')):
            b['extra'] = a['extra']
        lines_rt.append(line_of('rt', b))
    run.run_cases('export', lines_export, impl, spec, tag=tag_export, spec_compare=spec_cmp)
    run.run_cases('rfc', lines_rfc, impl, spec, tag=tag_export, spec_compare=spec_cmp)
    run.run_cases('roundtrip', lines_rt, impl, spec, tag=tag_export, spec_compare=spec_cmp)

    # ---- import, exhaustive small world: every kind x Feature/bare x every `properties` / time-field
    #      variant x typed importer / parse_geojson (dict and text) ----------------------------------
    geoms = {
        'Point': [1.5, 2.0, 0.0],
        'LineString': [[0.0, 0.0], [1.0, 1.0, 3.0]],
        'Polygon': [[[0.0, 0.0], [0.0, 3.0], [4.0, 0.0]], [[1.0, 0.5], [2.0, 0.5], [1.0, 1.5], [1.0, 0.5]]],
        'MultiPoint': [[1.0, 2.0], [3.0, 4.0, 0.0]],
        'MultiLineString': [[[0.0, 0.0], [1.0, 1.0]], [[2.0, 2.0, 1.0], [3.0, 3.0, 1.0]]],
        'MultiPolygon': [[[[0.0, 0.0], [4.0, 0.0], [0.0, 3.0], [0.0, 0.0]], [[1.0, 0.5], [1.0, 1.5], [2.0, 0.5], [1.0, 0.5]]],
                         [[[10.0, 10.0], [10.0, 11.0], [11.0, 10.0]]]],
    }
    t0, t1 = mkdt(str(BASE_US)).isoformat(), mkdt(str(BASE_US + 5_000_001) + '@o60').isoformat()
    tn = mkdt(str(BASE_US + 7) + '@n').isoformat()
    prop_variants = ['absent', None, {}, {'a': 1, 'b': [1, {'c': None}]},
                     {'datetime_start': t0}, {'datetime_end': t1}, {'datetime_start': t0, 'datetime_end': t1},
                     {'datetime_start': t0, 'datetime_end': t0, 'n': 'x'}, {'datetime_end': t0, 'datetime_start': t1},
                     {'x': 1, 'datetime_start': tn, 'y': 2, 'datetime_end': t1, 'z': 3},
                     {'datetime_start': '', 'datetime_end': None}, {'datetime_start': None, 'datetime_end': tn},
                     {'datetime_start': 'soon'}, {'datetime_start': t0, 'datetime_end': 12},
                     {'datetime_start': 0, 'datetime_end': False}]
    lines_imp, lines_twice, lines_set = [], [], []
    for kind, coords in geoms.items():
        for pv in prop_variants:
            for bare in (False, True):
                geom = {'type': kind, 'coordinates': coords}
                doc = dict(geom) if bare else {'type': 'Feature', 'geometry': geom}
                if pv != 'absent':
                    doc['properties'] = pv
                for imp_kind, via in ((kind, None), ('parse', None), ('parse', 'text')):
                    a = {'kind': imp_kind, 'doc': doc}
                    if via:
                        a['via'] = via
                    lines_imp.append(line_of('import', a))
                lines_twice.append(line_of('twice', {'kind': kind, 'doc': doc}))
                lines_twice.append(line_of('twice', {'kind': 'parse', 'doc': doc}))
                lines_set.append(line_of('setprop', {'kind': kind, 'doc': doc, 'key': 'a', 'val': [1, 2]}))
                lines_set.append(line_of('setprop', {'kind': kind, 'doc': doc, 'key': 'datetime_start', 'val': 'now'}))

    def tag_import(ln, ans):
        op, rest = _split(ln)
        a = dec(rest)
        doc = a['doc']
        tags = [f'{op}:{a["kind"] if a["kind"] in ("parse", "fc", "track") else "typed"}:{ans.split()[0]}']
        if isinstance(doc, dict):
            tags.append('form:' + ('bare' if 'coordinates' in doc else 'feature'))
            p = doc.get('properties', 'absent')
            tags.append('props:' + ('absent' if p == 'absent' else 'null' if p is None else 'empty' if p == {} else 'dict'))
            if isinstance(p, dict):
                ks, ke = a.get('ks', 'datetime_start'), a.get('ke', 'datetime_end')
                tags.append('time:%s%s' % ('s' if ks in p else '-', 'e' if ke in p else '-'))
        if a.get('via'):
            tags.append('via:text')
        return tags
    run.run_cases('import-small', lines_imp, impl, spec, tag=tag_import, spec_compare=spec_cmp)
    run.run_cases('import-twice-small', lines_twice, impl, spec, tag=tag_import, spec_compare=spec_cmp)
    run.run_cases('import-then-set-property-small', lines_set, impl, spec, tag=tag_import, spec_compare=spec_cmp)

    # ---- import: documents written by hand (Feature / bare geometry, every time-field variant) ----
    n = run.scale(700, 15000)
    lines_imp, lines_twice, lines_set = [], [], []
    for i in range(n):
        kind = rng.choice(KIND_NAMES)
        custom = rng.random() < 0.1
        ks, ke = ('t0', 't1') if custom else ('datetime_start', 'datetime_end')
        doc = j_feature(rng, kind, wild=rng.random() < 0.4, ks=ks, ke=ke)
        a = {'kind': kind if rng.random() < 0.6 else 'parse', 'doc': doc}
        if custom:
            a['ks'], a['ke'] = ks, ke
        if a['kind'] == 'parse' and rng.random() < 0.4:
            a['via'] = 'text'
        lines_imp.append(line_of('import', a))
        if i % 2 == 0:
            lines_twice.append(line_of('twice', {k: v for k, v in a.items() if k != 'via'}))
        if i % 3 == 0 and not custom:
            lines_set.append(line_of('setprop', {'kind': kind, 'doc': doc,
                                                 'key': rng.choice(KEYS + ['datetime_start']), 'val': g_value(rng)}))

    run.run_cases('import', lines_imp, impl, spec, tag=tag_import, spec_compare=spec_cmp)
    run.run_cases('import-twice', lines_twice, impl, spec, tag=tag_import, spec_compare=spec_cmp)
    run.run_cases('import-then-set-property', lines_set, impl, spec, tag=tag_import, spec_compare=spec_cmp)

    # ---- malformed documents -----------------------------------------------------------------------
    lines_bad = []
    tags_bad = {}
    for doc, kind, expect, tg in malformed_docs(rng):
        a = {'kind': kind, 'doc': doc}
        if expect:
            a['expect'] = expect
        ln = line_of('import', a)
        lines_bad.append(ln)
        tags_bad[ln] = tg
    run.run_cases('malformed', lines_bad, impl, spec, spec_compare=spec_cmp,
                  tag=lambda ln, ans: ['malformed:' + tags_bad.get(ln, '?') + ':' + ans.split()[0]])

    # ---- collections -------------------------------------------------------------------------------
    n = run.scale(150, 3000)
    lines_ce, lines_crt, lines_ci = [], [], []
    for i in range(n):
        track = rng.random() < 0.4
        m = rng.choice([0, 1, 2, 3, 4])
        shapes = []
        for _ in range(m):
            dtm = rng.choice(['instant', 'interval', 'instant-ti']) if (track and rng.random() < 0.95) else None
            shapes.append(g_src(rng, dt=dtm))
        if track and m >= 2 and rng.random() < 0.4 and shapes[0].get('dt') is not None:
            shapes[1]['dt'] = list(shapes[0]['dt'])          # equal start instants: the sort must be stable
            shapes[1]['tz'] = shapes[0].get('tz', 0)
        a = {'shapes': shapes, 'track': track}
        r = rng.random()
        if r < 0.3:
            a['k'] = rng.choice([3, 6, 20])
        if rng.random() < 0.3:
            a['bbox'] = True
        if rng.random() < 0.3:
            a['ov'] = g_props(rng, n=rng.choice([1, 2]))
        if rng.random() < 0.15:
            a['extra'] = {rng.choice(['id', 'title']): rng.choice([9, 'x'])}
        for s in shapes:
            fill(s, a.get('k'))
        lines_ce.append(line_of('cexport', a))
        wf = (all(src_wf(s) for s in shapes) and a.get('ov') is None and not a.get('extra')
              and (not track or all(s.get('dt') is not None for s in shapes)))
        lines_crt.append(line_of('crt', {**a, 'wf': wf, 'via': rng.choice(['dict', 'parse-dict', 'parse-text', 'loads'])}))
    for i in range(run.scale(150, 3000)):
        feats = [j_feature(rng, wild=rng.random() < 0.1) for _ in range(rng.choice([0, 1, 2, 3]))]
        if rng.random() < 0.1:
            feats.append({'type': 'FeatureCollection', 'features': [j_feature(rng)]})
        doc = {'type': 'FeatureCollection', 'features': feats}
        kind = rng.choice(['fc', 'fc', 'track', 'parse'])
        a = {'kind': kind, 'doc': doc}
        if kind == 'parse' and rng.random() < 0.3:
            a['via'] = 'text'
        lines_ci.append(line_of('import', a))
        if i % 3 == 0:
            lines_ci.append(line_of('twice', {'kind': kind, 'doc': doc}))

    def tag_coll(ln, ans):
        op, rest = _split(ln)
        a = dec(rest)
        return [f'{op}:{"track" if a.get("track") else "fc"}:{ans.split()[0]}', 'members:%d' % len(a['shapes'])]
    run.run_cases('collection-export', lines_ce, impl, spec, tag=tag_coll, spec_compare=spec_cmp)
    run.run_cases('collection-roundtrip', lines_crt, impl, spec, tag=tag_coll, spec_compare=spec_cmp)
    run.run_cases('collection-import', lines_ci, impl, spec, tag=tag_import, spec_compare=spec_cmp)

    # ---- import - mutate - import: every entry point, dict and text input ------------------------------------------
    nest = {'tags': ['a', ['b']], 'd': {'k': [1], 'e': {}}, 'n': 1}

    def with_nest(doc):
        if isinstance(doc.get('properties'), dict):
            doc['properties'].update(copy.deepcopy(nest))
        elif 'coordinates' not in doc and 'features' not in doc:
            doc['properties'] = copy.deepcopy(nest)
        for f in doc.get('features', []) if isinstance(doc.get('features'), list) else []:
            if isinstance(f, dict):
                with_nest(f)
        return doc

    def imphist_lines(doc, kind, doc2s):
        out = []
        entries = [(kind, None), ('parse', None), ('parse', 'text')]
        if kind == 'fc':
            entries.append(('track', None))
        for k2, via in entries:
            a = {'kind': k2, 'doc': doc}
            if via:
                a['via'] = via
            out.append(line_of('imphist', a))
            if not via:
                for d2 in doc2s:
                    out.append(line_of('imphist', {**a, 'doc2': d2}))
        return out
    lines_small = []
    for kind, coords in geoms.items():
        for pv in ({'a': 1}, {'datetime_start': t0, 'datetime_end': t1}, {'datetime_start': tn}):
            doc = with_nest({'type': 'Feature', 'geometry': {'type': kind, 'coordinates': coords}, 'properties': dict(pv)})
            other = with_nest({'type': 'Feature', 'geometry': {'type': kind, 'coordinates': coords},
                               'properties': {'b': [2], 'datetime_start': t1}})
            lines_small += imphist_lines(doc, kind, [other])
    fcdoc = {'type': 'FeatureCollection', 'features': [
        with_nest({'type': 'Feature', 'geometry': {'type': k2, 'coordinates': c2},
                   'properties': {'datetime_start': t0, 'datetime_end': t1}}) for k2, c2 in geoms.items()]}
    lines_small += imphist_lines(fcdoc, 'fc', [{'type': 'FeatureCollection', 'features': fcdoc['features'][:2]}])
    run.run_cases('import-mutate-import-small', lines_small, impl, spec, tag=tag_import, spec_compare=spec_cmp)
    lines_imi = []
    for _ in range(run.scale(60, 1200)):
        if rng.random() < 0.75:
            kind = rng.choice(KIND_NAMES)
            doc = with_nest(j_feature(rng, kind, wild=rng.random() < 0.2))
            d2 = [with_nest(j_feature(rng, kind))] if rng.random() < 0.5 else []
            lines_imi += imphist_lines(doc, kind, d2)
        else:
            feats = [with_nest(j_feature(rng)) for _ in range(rng.choice([0, 1, 2, 3]))]
            doc = {'type': 'FeatureCollection', 'features': feats}
            d2 = [{'type': 'FeatureCollection', 'features': [with_nest(j_feature(rng))]}] if rng.random() < 0.5 else []
            lines_imi += imphist_lines(doc, 'fc', d2)
    run.run_cases('import-mutate-import', lines_imi, impl, spec, tag=tag_import, spec_compare=spec_cmp)

    # ---- export histories: observe, update in place, observe again (live objects, copies, imports, collections) ----
    run.run_cases('history-small', small_histories(rng), impl, spec, tag=tag_hist, spec_compare=spec_cmp)
    run.run_cases('history', [g_history(rng) for _ in range(run.scale(120, 2500))], impl, spec, tag=tag_hist,
                  spec_compare=spec_cmp)

    return run.finish(
        rule='a case is one protocol line: (shape description x to_geojson keyword arguments) for the export, rfc '
             'and round-trip streams, one GeoJSON document x importer for the import streams. Exhaustive part: a '
             'triangle and a square in both orientations, open/closed, four Z variants, five hole configurations '
             '(both orientations, a zero-area hole), three dt kinds; the rest is seeded random over every shape kind '
             '(polygon 0-2 holes incl. box and circle holes, box, circle, ellipse, ring, wedge, linestring, point, '
             'three multi kinds), dt none/instant/interval in several UTC offsets, nested JSON-native properties, '
             'k in {None, 3..40}, include_bbox, properties override, extra members. History cases: one line = a list of '
             'steps on live objects (export, set_dt / strip_dt / buffer_dt / set_property in place or inplace=False, copy / '
             'deepcopy / pickle, scribbling on an earlier returned document, importing an exported document and updating '
             'the imported shape, collection and Track export before and after a member update); every export is compared '
             'with the model applied to the updated fields and judged against the live object. Import-mutate-import cases: '
             'import (every entry point; dict, and text for parse_geojson), edit everything reachable from the result, give '
             'the same input object new content (dict), import again: the second result must be what the document states. '
             'All cases are non-trivial; '
             'distinct by line.',
        assumptions=[
            'datetime.isoformat / fromisoformat round-trip an aware instant (Rt.Lawful.parse_iso); str.upper maps the six '
            'type names and "Feature"/"FeatureCollection" to their upper-case spellings (Rt.Lawful)',
            'json.dumps / json.loads are inverse on JSON-native values (checked on every exported document by the rfc stream)',
            'JSON numbers are compared by value (int 5 == float 5.0); non-finite floats are not generated',
            'M values are outside the property (quantifier names Z only): a coordinate with M but no Z exports '
            '[lon, lat, m], which is read back as Z',
            'curved outlines (circle, ellipse, ring, wedge) enter the model as the vertex lists the implementation '
            'draws (their geodesy is C03); orientation and closure of those rings are judged on the exact values of '
            'the emitted floats',
            'members of multi-shapes carry no dt/properties of their own (they are never exported)',
            'ring orientation is judged on the un-wrapped longitudes (every step the short way round), so rings across the '
            'antimeridian are judged too (a quarter of the generated centres lie within 4 degrees of +-180, an eighth within 10 '
            'degrees of a pole); a ring that runs around a pole has no planar winding and is not judged; the bbox member order '
            'of shapes that straddle the antimeridian is C09\'s subject',
            'input forms: dict for every importer, text for parse_geojson (bytes / file objects are not accepted by the code)',
            'numeric scale: besides the dyadic grid, 45 % of the generated geometries (and hand-written documents) carry '
            'full-precision doubles, vertex spacings of 1e-8 ... 1e-12 degrees, exponent-notation values or huge / denormal Z, '
            'in every ordinate position of every kind; exported numbers must be the exact doubles. A ring is only generated '
            'at such a scale if its orientation is decided far above rounding noise (|sum| >= 16 * 2^-52 * sum |terms| of the '
            'library\'s orientation sum, no underflow): below that bound the verdict of ANY float evaluation is a coin toss '
            'and the exact-rational model cannot be compared with it',
        ],
        checker_cmd='cd lean && lake build GeoVerif.Props.C14 && lake env lean .lake/audit/C14.lean  (#print axioms)')
