"""C04 — multi-shapes relate as the union of their members.

A case is one protocol line `mu.<op> <shape tokens> | <data>`:
  * the shape tokens (see mshapes.py) say which real shapes to build;
  * the data section carries the *member-level truth table*, measured on the implementation's own
    single-shape methods (`member.intersects_shape(x)` …), the member boxes, or a `split` scenario.
The implementation answers the multi-level question on the real multi-shape, the Lean model runs the
member loop (as coded) over the table, the spec says `any` / `all` over the table (the property text).

`mu.hist <K> <init> | <pool> | <arguments> | <coordinates> | <tables> | <steps>` is an observe - edit - observe history
on ONE live multi-shape: every C04 observation (contains_coordinate, intersects_shape / contains_shape in both argument
orders, bounds, split) is asked, the member list is edited (delete / insert / replace / reorder / clear-and-refill, in
place and by rebinding; time and property edits of a member and of the multi-shape), and asked again, about several
different arguments in sequence.  The answers must be those of a freshly built multi-shape with the current members.
"""
import itertools
from fractions import Fraction

import mshapes as S
from common import tf, rat

MODULE = 'GeoVerif.Props.C04'
THEOREMS = ['GV.Multi.' + t for t in (
    'containsCoord_eq_any', 'containsCoord_iff', 'intersectsSingle_eq_any', 'intersectsMulti_eq_any_any',
    'intersectsMulti_eq_any_any\'', 'intersectsShape_iff', 'singleIntersectsMulti_eq_any',
    'pointIntersectsMulti_eq_any', 'intersects_mirror', 'intersectsMulti_mirror', 'containsSingle_eq_any',
    'containsMulti_eq_all_any', 'containsShape_iff', 'singleContainsMulti_eq_all', 'singleContainsMulti_iff',
    'containsCoord_perm', 'intersectsSingle_perm', 'intersectsMulti_perm', 'singleIntersectsMulti_perm',
    'pointIntersectsMulti_perm', 'containsSingle_perm', 'containsMulti_perm', 'singleContainsMulti_perm',
    'bounds_is_union', 'bounds_empty', 'bounds_least', 'isUnion_unique', 'bounds_perm',
    'split_spec', 'split_isolated', 'f04_counterexample',
    'containsCoord_append', 'intersectsSingle_append', 'intersectsMulti_append_left', 'intersectsMulti_append_right',
    'containsMulti_append_right', 'containsMulti_mono', 'intersectsMulti_mono', 'multi_empty_arg')]

REL = {'i': 'intersects_shape', 'c': 'contains_shape'}

# --------------------------------------------------------------------------------------------------
# member-level measurements on the implementation (dt-stripped copies: the `_shape` methods are spatial)

_cache = {}


def measure(rel, ta, tb):
    """`a.<rel>(b)` for two single-shape tokens (or a coordinate token for rel='k')"""
    key = (rel, ta, tb)
    if key not in _cache:
        a = S.build(ta, strip=True)
        if rel == 'k':
            r = a.contains_coordinate(S.build_coord(tb))
        else:
            r = getattr(a, REL[rel])(S.build(tb, strip=True))
        _cache[key] = bool(r)
    return _cache[key]


def row(bits):
    return ''.join(tf(b) for b in bits) or '-'


def unrow(s):
    return [] if s == '-' else [c == 'T' for c in s]


def table_for(op, a, b):
    """the data section of a predicate line, measured now"""
    if op == 'cc':
        return [row(measure('k', m, b) for m in S.members(a))]
    if op in ('mis', 'mcs'):
        return [row(measure(op[1], m, b) for m in S.members(a))]
    if op in ('mim', 'mcm'):
        ms, ys = S.members(a), S.members(b)
        return [str(len(ms)), str(len(ys))] + [row(measure(op[1], m, y) for y in ys) for m in ms]
    if op == 'scm':
        return [row(measure('c', a, y) for y in S.members(b))]
    if op == 'sim':
        ys = S.members(b)
        return ['P' if a.startswith('T:') else 'S', row(measure('i', a, y) for y in ys),
                row(measure('i', y, a) for y in ys)]
    raise ValueError(op)


def box_tok(b):
    return ','.join(rat(x) for x in b)


def mk_line(op, a, b=None):
    """protocol line for a predicate op, or None if a member-level call raised"""
    try:
        if op == 'bounds':
            data = [box_tok(S.build(m, strip=True).bounds) for m in S.members(a)]
            return f'mu.bounds {a} | ' + ' '.join(data)
        data = table_for(op, a, b)
    except Exception:  # noqa - a single-shape method raised: not this property's business
        return None
    return f'mu.{op} {a} {b} | ' + ' '.join(data)


# --------------------------------------------------------------------------------------------------
# split scenarios

def parse_optti(tok):
    from geostructures.time import TimeInterval
    if tok == 'none':
        return None
    s, e = tok.split(',')
    return TimeInterval(S.utc(s), S.utc(e))


def parse_dict(tok):
    return {} if tok == '-' else dict(kv.split('=') for kv in tok.split(';'))


def show_dict(d):
    return ';'.join(f'{k}={d[k]}' for k in sorted(d)) or '-'


def show_optti(t):
    return 'none' if t is None else f'{S.us_of(t.start)},{S.us_of(t.end)}'


def impl_split(multi_tok, data):
    import geostructures as g
    pdt, pp, mi, k, v, *mem = data
    mi = int(mi)
    ms = [S.build(mt, dt=parse_optti(mem[2 * i]), props=parse_dict(mem[2 * i + 1]))
          for i, mt in enumerate(S.members(multi_tok))]
    cls = {'MP': g.MultiGeoPolygon, 'ML': g.MultiGeoLineString, 'MT': g.MultiGeoPoint}[multi_tok.split(':')[0]]
    M = cls(list(ms), dt=parse_optti(pdt), properties=parse_dict(pp))
    geoms = [m.strip_dt(inplace=False) for m in ms]
    out = M.split()

    def which(o):
        o0 = o.strip_dt(inplace=False)
        js = [j for j, gm in enumerate(geoms) if type(gm) is type(o0) and gm == o0]
        return str(js[0]) if js else '?'
    old = [id(M._properties)] + [id(m._properties) for m in ms]
    ids = [id(o._properties) for o in out]
    fresh = all(i not in old for i in ids) and len(set(ids)) == len(ids)

    def obs():
        return ('parent=' + show_dict(M._properties) + ' split=' + '/'.join(show_dict(o._properties) for o in out) +
                ' orig=' + '/'.join(show_dict(m._properties) for m in ms))
    head = ('geom=' + ','.join(which(o) for o in out) + ' dt=' + '/'.join(show_optti(o.dt) for o in out) +
            ' origdt=' + '/'.join(show_optti(m.dt) for m in M.geoshapes) + ' fresh=' + tf(fresh))
    o0 = obs()
    if mi < len(out):
        out[mi].set_property(k, v)
    o1 = obs()
    M.set_property('pk', 'pv')
    o2 = obs()
    return f'{head} | {o0} | {o1} | {o2}'


def spec_split(data):
    """members in order, each with the parent's dt and an own copy of the parent's properties"""
    pdt, pp, mi, k, v, *mem = data
    mi = int(mi)
    n = len(mem) // 2
    parent = parse_dict(pp)
    split = [dict(parent) for _ in range(n)]
    orig = [parse_dict(mem[2 * i + 1]) for i in range(n)]

    def obs():
        return ('parent=' + show_dict(parent) + ' split=' + '/'.join(show_dict(d) for d in split) +
                ' orig=' + '/'.join(show_dict(d) for d in orig))
    head = ('geom=' + ','.join(str(i) for i in range(n)) + ' dt=' + '/'.join(pdt for _ in range(n)) +
            ' origdt=' + '/'.join(mem[2 * i] for i in range(n)) + ' fresh=T')
    o0 = obs()
    if mi < n:
        split[mi][k] = v
    o1 = obs()
    parent['pk'] = 'pv'
    o2 = obs()
    return f'{head} | {o0} | {o1} | {o2}'


# --------------------------------------------------------------------------------------------------
# interpreters

def parse(line):
    toks = line.split()
    op = toks[0].split('.', 1)[1]
    bar = toks.index('|')
    return op, toks[1:bar], toks[bar + 1:]


def impl(line):
    op, shp, data = parse(line)
    if op == 'split':
        return impl_split(shp[0], data)
    if op == 'bounds':
        M = S.build(shp[0])
        now = [box_tok(m.bounds) for m in M.geoshapes]
        if now != data:
            return 'STALE-TABLE ' + ' '.join(now)
        return ' '.join(rat(x) for x in M.bounds)
    a, b = shp
    now = table_for(op, a, b)
    if now != data:
        return 'STALE-TABLE ' + ' '.join(now)
    A = S.build(a)
    if op == 'cc':
        return tf(A.contains_coordinate(S.build_coord(b)))
    B = S.build(b)
    if op in ('mis', 'mim', 'sim'):
        return tf(A.intersects_shape(B))
    if op in ('mcs', 'mcm', 'scm'):
        return tf(A.contains_shape(B))
    raise ValueError('unknown op ' + op)


def spec(line):
    """the property text over the measured member-level table"""
    op, _shp, data = parse(line)
    if op in ('cc', 'mis', 'mcs'):          # some member contains the coordinate / intersects / contains the shape
        return tf(any(unrow(data[0])))
    if op == 'mim':                          # some member intersects some part
        return tf(any(any(unrow(r)) for r in data[2:]))
    if op == 'mcm':                          # every part is contained by some member
        n, k = int(data[0]), int(data[1])
        rows = [unrow(r) for r in data[2:]]
        return tf(all(any(rows[i][j] for i in range(n)) for j in range(k)))
    if op == 'scm':                          # the single shape contains every part
        return tf(all(unrow(data[0])))
    if op == 'sim':                          # "equally when the multi-shape is the argument"
        f, m = any(unrow(data[1])), any(unrow(data[2]))
        return tf(f) if f == m else None     # member-level asymmetry is C02's business, not C04's
    if op == 'bounds':
        if not data:
            return 'ERR:Value'
        bs = [[Fraction(x) for x in t.split(',')] for t in data]
        return ' '.join(rat(x) for x in (min(b[0] for b in bs), min(b[1] for b in bs),
                                           max(b[2] for b in bs), max(b[3] for b in bs)))
    if op == 'split':
        return spec_split(data)
    return None


# --------------------------------------------------------------------------------------------------
# observe - edit - observe histories on one live multi-shape
# The only state a multi-shape may carry between calls is its current member list (plus its own dt / properties for
# split).  Anything remembered from an earlier call - the member that matched last time, a cached union box, a cached
# answer per argument, an iterator over the members - shows up as soon as the list is edited between two questions.

def hist_tables(pool, args, coords):
    """all member-level measurements a history can need (pool x arguments, pool x coordinates, boxes)"""
    t = []
    for j, a in enumerate(args):
        parts = S.members(a) if S.is_multi(a) else [a]
        t.append(f'A{j}=' + ('M' if S.is_multi(a) else 'P' if a.startswith('T:') else 'S'))
        t.append(f'I{j}=' + '/'.join(row(measure('i', m, y) for y in parts) for m in pool))
        t.append(f'J{j}=' + '/'.join(row(measure('i', y, m) for y in parts) for m in pool))
        t.append(f'C{j}=' + '/'.join(row(measure('c', m, y) for y in parts) for m in pool))
        t.append(f'D{j}=' + ('-' if S.is_multi(a) else row(measure('c', a, m) for m in pool)))
    for r, c in enumerate(coords):
        t.append(f'K{r}=' + row(measure('k', m, c) for m in pool))
    t.append('X=' + '~'.join(box_tok(S.build(m, strip=True).bounds) for m in pool))
    return t


def mk_hist(K, init, pool, args, coords, steps):
    try:
        tabs = hist_tables(pool, args, coords)
    except Exception:  # noqa - a single-shape method raised
        return None
    return (f'mu.hist {K} {",".join(map(str, init)) or "-"} | ' + ' '.join(pool) + ' | ' + ' '.join(args) + ' | ' +
            ' '.join(coords) + ' | ' + ' '.join(tabs) + ' | ' + ' '.join(steps))


def parse_hist(line):
    secs = [x.split() for x in line.split(' | ')]
    K, init = secs[0][1], secs[0][2]
    init = [] if init == '-' else [int(x) for x in init.split(',')]
    return K, init, secs[1], secs[2], secs[3], secs[4], secs[5]


def _idx(txt):
    return [] if txt in ('', '-') else [int(x) for x in txt.split(',')]


def impl_hist(line):
    import geostructures as g
    import common
    K, init, pool, args, coords, tabs, steps = parse_hist(line)
    if hist_tables(pool, args, coords) != tabs:
        return 'STALE-TABLE'
    P = [S.build(m) for m in pool]
    geoms = [x.strip_dt(inplace=False) for x in P]
    A = [S.build(a) for a in args]
    Cs = [S.build_coord(c) for c in coords]
    cls = {'MP': g.MultiGeoPolygon, 'ML': g.MultiGeoLineString, 'MT': g.MultiGeoPoint}[K]
    M = cls([P[i] for i in init])
    out = []

    def which(o):
        o0 = o.strip_dt(inplace=False)
        js = [j for j, gm in enumerate(geoms) if type(gm) is type(o0) and gm == o0]
        return str(js[0]) if js else '?'
    for n, st in enumerate(steps):
        c, r = st[0], st[1:]
        try:
            L = M.geoshapes
            if st == 'b':
                out.append(','.join(rat(x) for x in M.bounds))
            elif st == 's':
                parts = M.split()
                old = [id(M._properties)] + [id(m._properties) for m in L]
                ids = [id(o._properties) for o in parts]
                fresh = all(i not in old for i in ids) and len(set(ids)) == len(ids)
                out.append('{geom=' + ','.join(which(o) for o in parts) + ' dt=' + '/'.join(show_optti(o.dt) for o in parts) +
                           ' props=' + '/'.join(show_dict(o._properties) for o in parts) + ' fresh=' + tf(fresh) + '}')
            elif c == '-':
                if n % 2:
                    del L[int(r)]
                else:
                    L.pop(int(r))
                out.append('ok')
            elif c == '+':
                k, i = r.split(':')
                L.insert(int(k), P[int(i)])
                out.append('ok')
            elif c == '*':
                k, i = r.split(':')
                L[int(k)] = P[int(i)]
                out.append('ok')
            elif c == 'o':
                cur = list(L)
                L[:] = [cur[p] for p in _idx(r)]
                out.append('ok')
            elif c == 'z':
                new = [P[i] for i in _idx(r)]
                L.clear()
                L.extend(new)
                out.append('ok')
            elif c == 'Z':
                M.geoshapes = [P[i] for i in _idx(r)]
                out.append('ok')
            elif c == '!':
                m = L[int(r)]
                m.set_dt(S.utc(S.BASE_US + n))
                m.set_property('mk', str(n))
                out.append('ok')
            elif c == 'P':
                k, v = r.split('=')
                M.set_property(k, v)
                out.append('ok')
            elif c == 'D':
                M.set_dt(parse_optti(r))
                out.append('ok')
            elif c == 'i':
                out.append(tf(M.intersects_shape(A[int(r)])))
            elif c == 'I':
                out.append(tf(A[int(r)].intersects_shape(M)))
            elif c == 'c':
                out.append(tf(M.contains_shape(A[int(r)])))
            elif c == 'C':
                out.append(tf(A[int(r)].contains_shape(M)))
            elif c == 'k':
                out.append(tf(M.contains_coordinate(Cs[int(r)])))
            else:
                raise ValueError('bad step ' + st)
        except Exception as e:  # noqa - an exception is this step's answer
            out.append(common.err_name(e))
    return ' '.join(out)


def spec_hist(line):
    """fresh-twin oracle: `any` / `all` over the tables restricted to the CURRENT members"""
    K, members, pool, args, coords, tabs, steps = parse_hist(line)
    T = dict(t.split('=', 1) for t in tabs)
    mat = lambda name: [unrow(x) for x in T[name].split('/')]  # noqa: E731
    boxes = [[Fraction(x) for x in b.split(',')] for b in T['X'].split('~')]
    pdt, pp = 'none', {}
    out = []
    for st in steps:
        c, r = st[0], st[1:]
        if st == 'b':
            if not members:
                out.append('ERR:Value')
            else:
                bs = [boxes[i] for i in members]
                out.append(','.join(rat(x) for x in (min(b[0] for b in bs), min(b[1] for b in bs),
                                                    max(b[2] for b in bs), max(b[3] for b in bs))))
        elif st == 's':
            out.append('{geom=' + ','.join(map(str, members)) + ' dt=' + '/'.join(pdt for _ in members) +
                       ' props=' + '/'.join(show_dict(pp) for _ in members) + ' fresh=T}')
        elif c == '-':
            del members[int(r)]
            out.append('ok')
        elif c == '+':
            k, i = r.split(':')
            members.insert(int(k), int(i))
            out.append('ok')
        elif c == '*':
            k, i = r.split(':')
            members[int(k)] = int(i)
            out.append('ok')
        elif c == 'o':
            members = [members[p] for p in _idx(r)]
            out.append('ok')
        elif c in 'zZ':
            members = _idx(r)
            out.append('ok')
        elif c == '!':
            out.append('ok')
        elif c == 'P':
            k, v = r.split('=')
            pp[k] = v
            out.append('ok')
        elif c == 'D':
            pdt = r
            out.append('ok')
        elif c == 'i':
            m = mat('I' + r)
            out.append(tf(any(any(m[i]) for i in members)))
        elif c == 'I':
            mi, mj = mat('I' + r), mat('J' + r)
            f, b = any(any(mj[i]) for i in members), any(any(mi[i]) for i in members)
            if f != b:
                return None                      # member-level asymmetry: C02's business
            out.append(tf(f))
        elif c == 'c':
            m = mat('C' + r)
            nparts = len(m[0]) if m else 0
            out.append(tf(all(any(m[i][k] for i in members) for k in range(nparts))))
        elif c == 'C':
            d = unrow(T['D' + r])
            out.append(tf(all(d[i] for i in members)))
        elif c == 'k':
            kr = unrow(T['K' + r])
            out.append(tf(any(kr[i] for i in members)))
    return ' '.join(out)



def impl_for(_line):
    return impl_hist if _line.startswith('mu.hist') else impl


def spec_for(_line):
    return spec_hist if _line.startswith('mu.hist') else spec


# --------------------------------------------------------------------------------------------------
# generators

FOCUS = 0          # the cell the argument lives in
FAR = [2, 3, 4, 5]  # cells nothing of the argument reaches


def _tag(ln, a):
    op, _shp, data = parse(ln)
    if op in ('cc', 'mis', 'mcs', 'scm'):
        return [f'{op}:n{len(unrow(data[0]))}:{data[0]}']
    if op == 'sim':
        return [f'sim{data[0]}:n{len(unrow(data[1]))}:{data[1]}']
    if op in ('mim', 'mcm'):
        return [f'{op}:{data[0]}x{data[1]}:{a}']
    if op == 'bounds':
        return [f'bounds:n{len(data)}']
    return [f'split:n{(len(data) - 5) // 2}']


def _nontrivial(ln, a):
    op, _shp, data = parse(ln)
    if op in ('bounds', 'split'):
        return True
    cells = ''.join(d for d in data if set(d) <= set('TF-'))
    return 'T' in cells or len(cells.replace('-', '')) >= 2


def masks(nmax):
    for n in range(1, nmax + 1):
        yield from itertools.product([0, 1], repeat=n)


def members_for(mask, related, near, far, salt):
    """one member per mask bit: 1 -> a related template, 0 -> an unrelated one (near misses first)"""
    out = []
    unrel = near + far
    for i, bit in enumerate(mask):
        if bit:
            out.append(related[(i + salt) % len(related)])
        else:
            pick = unrel[(i + salt) % len(unrel)] if (i + salt) % 2 and near else far[(i + salt) % len(far)]
            out.append(pick)
    return out


def check(run):
    run.prove(MODULE, THEOREMS)
    run.source_tie(['SrcMulti'], 'GeoVerif.Props.C04Src',
                   ['GV.C04Src.' + t for t in ('containsCoord_eq', 'containsSingle_eq', 'containsMulti_eq', 'intersectsSingle_eq', 'intersectsMulti_eq', 'src_containsCoord_iff', 'src_intersects_iff', 'src_contains_iff',
                                               # round 2: bounds, __iter__, split (on the heap of property dictionaries)
                                               'bounds_eq', 'src_bounds_is_union', 'src_bounds_perm', 'iter_eq', 'copyAll_eq_mapH',
                                               'assignAll_eq_mapH', 'split_eq', 'src_split_spec', 'src_split_isolated')])
    # the public relations: the translated gates of BaseShapeProtocol (C05's unit) composed with the translated member loops
    run.source_tie(['SrcMulti', 'SrcBase', 'SrcTime'], 'GeoVerif.Props.C04SrcGate',
                   ['GV.C04Src.' + t for t in ('src_multi_intersects', 'src_multi_contains', 'src_multi_dunder_contains',
                                               'src_multi_contains_coord')])
    rng = run.rng
    T = {k: S.templates(k) for k in range(6)}
    nmax = 4
    singles = S.single_pool(FOCUS)
    if run.quick:
        keep = ['PB', 'PH', 'BB', 'CB', 'EB', 'RB', 'Ps', 'Bs', 'Cs', 'Es', 'Rs', 'Pm', 'Px', 'Ll', 'Lz', 'Ls', 'Ts', 'Tv', 'Tm', 'Te']
        singles = [T[FOCUS][n] for n in keep]
    skipped = [0]

    def add(lines, op, a, b=None):
        ln = mk_line(op, a, b)
        if ln is None:
            skipped[0] += 1
        else:
            lines.append(ln)

    def cands(K, cell):
        return [T[cell][n] for n in S.MEMBER_NAMES[K]]

    def far_members(K):
        return [T[c][S.MEMBER_NAMES[K][(3 * c) % len(S.MEMBER_NAMES[K])]] for c in FAR]

    # ---- 1. multi receiver x single argument: the related member at every position --------------------
    lines = []
    for K in ('MP', 'ML', 'MT'):
        far = far_members(K)
        for xi, x in enumerate(singles):
            for rel, op in (('i', 'mis'), ('c', 'mcs')):
                try:
                    related = [m for m in cands(K, FOCUS) if measure(rel, m, x)]
                    near = [m for m in cands(K, FOCUS) if not measure(rel, m, x)]
                except Exception:  # noqa
                    skipped[0] += 1
                    continue
                for mask in masks(nmax):
                    if any(mask) and not related:
                        continue
                    ms = members_for(mask, related, near, far, xi)
                    add(lines, op, S.mk_multi(K, ms), x)
    run.run_cases('multi-over-single', lines, impl, spec, tag=_tag, nontrivial=_nontrivial)

    # ---- 2. contains_coordinate ------------------------------------------------------------------------
    lines = []
    for K in ('MP', 'ML', 'MT'):
        far = far_members(K)
        for ci, c in enumerate(S.ref_coords(FOCUS)):
            try:
                related = [m for m in cands(K, FOCUS) if measure('k', m, c)]
                near = [m for m in cands(K, FOCUS) if not measure('k', m, c)]
            except Exception:  # noqa
                skipped[0] += 1
                continue
            for mask in masks(nmax):
                if any(mask) and not related:
                    continue
                add(lines, 'cc', S.mk_multi(K, members_for(mask, related, near, far, ci)), c)
    run.run_cases('contains-coordinate', lines, impl, spec, tag=_tag, nontrivial=_nontrivial)

    # ---- 2b. islands: a member lying inside the hole of an *earlier* (and of a later) member; the query sits in the
    #          island, i.e. in a hole of one member and inside another member (seeded change C04-m1)
    lines = []
    centre = S.ref_coords(FOCUS)[1]
    for holed in ('PH', 'BH', 'RB'):
        for island in ('Pm', 'Bm', 'Cm'):
            far = far_members('MP')
            hm, im = T[FOCUS][holed], T[FOCUS][island]
            for ms in ([hm, im], [im, hm], [far[0], hm, im], [hm, far[0], im], [im, far[0], hm], [hm, hm, im],
                       [hm, im, far[0], far[1]]):
                for c in (centre, S.ref_coords(FOCUS)[0], S.ref_coords(FOCUS)[3]):
                    add(lines, 'cc', S.mk_multi('MP', ms), c)
    run.run_cases('islands-in-holes', lines, impl, spec, tag=_tag, nontrivial=_nontrivial)

    # ---- 2c. members that straddle the antimeridian: a circle / ellipse / ring there has min_lon > max_lon, so any
    #          bounding-box shortcut in a member loop silently skips it (seeded change C04-n2)
    lines = []
    F_ = Fraction
    am = {'C': 'C:' + S._p(F_(1799, 10), 10) + ';60000', 'E': 'E:' + S._p(F_(1799, 10), 10) + ';70000;40000;30',
          'R': 'R:' + S._p(F_(1799, 10), 10) + ';10000;60000'}
    near_line = 'L:' + S._ring([(F_(1790, 10), 10), (F_(1798, 10), F_(201, 20))])        # reaches into the shapes, west of 180
    near_pt = 'T:' + S._p(F_(1796, 10), 10)
    east_line = 'L:' + S._ring([(-F_(1799, 10), F_(19, 2)), (-F_(1797, 10), F_(21, 2))])  # on the far side of the seam
    far = far_members('MP')
    for name, tok in am.items():
        for ms in ([tok], [far[0], tok], [tok, far[0]], [far[0], far[1], tok]):
            M = S.mk_multi('MP', ms)
            for x in (near_line, near_pt, east_line):
                add(lines, 'sim', x, M)
                add(lines, 'mis', M, x)
                add(lines, 'scm', x, M)
                add(lines, 'mcs', M, x)
    run.run_cases('antimeridian-members', lines, impl, spec, tag=_tag, nontrivial=_nontrivial)

    # ---- 3. single receiver x multi argument (the mirrored calls) --------------------------------------
    lines = []
    for K in ('MP', 'ML', 'MT'):
        far = far_members(K)
        for xi, x in enumerate(singles):
            for rel, op in (('i', 'sim'), ('c', 'scm')):
                try:
                    related = [m for m in cands(K, FOCUS) if measure(rel, x, m)]
                    near = [m for m in cands(K, FOCUS) if not measure(rel, x, m)]
                except Exception:  # noqa
                    skipped[0] += 1
                    continue
                for mask in masks(nmax):
                    if any(mask) and not related:
                        continue
                    ms = members_for(mask, related, near, far, xi)
                    add(lines, op, x, S.mk_multi(K, ms))
    run.run_cases('single-over-multi', lines, impl, spec, tag=_tag, nontrivial=_nontrivial)

    # ---- 4. multi x multi: each receiver member aimed at one part of the argument (or at nothing) ------
    lines = []
    args = S.multi_pool(0, 1)
    ndes = run.scale(2, 3)
    for K in ('MP', 'ML', 'MT'):
        far = far_members(K)
        for yi, Y in enumerate(args):
            ys = S.members(Y)
            for rel, op in (('i', 'mim'), ('c', 'mcm')):
                # for every part, the templates (cells 0 and 1) that relate to it
                aimed = []
                for y in ys:
                    pool = cands(K, 0) + cands(K, 1)
                    try:
                        aimed.append([m for m in pool if measure(rel, m, y)])
                    except Exception:  # noqa
                        aimed.append([])
                choices = list(range(len(ys))) + ['far']
                for n in range(1, ndes + 1):
                    for des in itertools.product(choices, repeat=n):
                        ms = []
                        for i, d in enumerate(des):
                            if d == 'far' or not aimed[d]:
                                ms.append(far[(i + yi) % len(far)])
                            else:
                                ms.append(aimed[d][(i + yi) % len(aimed[d])])
                        add(lines, op, S.mk_multi(K, ms), Y)
    run.run_cases('multi-over-multi', lines, impl, spec, tag=_tag, nontrivial=_nontrivial)

    # ---- 5. every member order of fixed member sets ----------------------------------------------------
    lines = []
    perm_sets = []
    for K, names in (('MP', ['BB', 'Pm', 'Bx', 'RB']), ('MP', ['Cs', 'PH', 'Px', 'Es']),
                     ('ML', ['Lz', 'Ll', 'Lm', 'Lo']), ('MT', ['Ts', 'Tv', 'Tm', 'To'])):
        perm_sets.append((K, [T[FOCUS][names[0]], T[FOCUS][names[1]], T[2][names[2]], T[3][names[3]]]))
    xs = [T[FOCUS][n] for n in ('Bs', 'Ls', 'Ts', 'Tm', 'Px')] + [S.multi_pool(0, 1)[i] for i in (1, 5, 8)]
    for K, base in perm_sets:
        for size in range(2, 5):
            for perm in itertools.permutations(base[:size] if size < 4 else base):
                M = S.mk_multi(K, list(perm))
                for x in xs:
                    if S.is_multi(x):
                        add(lines, 'mim', M, x)
                        add(lines, 'mcm', M, x)
                    else:
                        add(lines, 'mis', M, x)
                        add(lines, 'mcs', M, x)
                        add(lines, 'sim', x, M)
                        add(lines, 'scm', x, M)
                add(lines, 'cc', M, S.ref_coords(FOCUS)[0])
                add(lines, 'bounds', M)
    run.run_cases('all-member-orders', lines, impl, spec, tag=_tag, nontrivial=_nontrivial)

    # ---- 6. bounds: exact (dyadic vertices; curved members' float boxes pass through min/max unchanged) --
    lines = []
    for K in ('MP', 'ML', 'MT'):
        add(lines, 'bounds', S.mk_multi(K, []))
        names = S.MEMBER_NAMES[K]
        for n in range(1, 5):
            for _ in range(run.scale(6, 60)):
                ms = [T[rng.randrange(6)][rng.choice(names)] for _ in range(n)]
                add(lines, 'bounds', S.mk_multi(K, ms))
    run.run_cases('bounds', lines, impl, spec, tag=_tag, nontrivial=_nontrivial)

    # ---- 7. split --------------------------------------------------------------------------------------
    lines = []
    tick = 1_000_000
    dts = ['none', f'{S.BASE_US},{S.BASE_US}', f'{S.BASE_US},{S.BASE_US + 5 * tick}']
    dicts = ['-', 'a=1', 'a=1;b=2']
    for K, names in (('MP', ['PB', 'Bs', 'Cm', 'RW']), ('ML', ['Ll', 'Lz', 'Lm', 'Lo']), ('MT', ['Ts', 'Tv', 'Tm', 'To'])):
        for n in range(0, 5):
            ms = [T[i % 2][names[i]] for i in range(n)]
            for pdt in dts:
                for pp in dicts:
                    for mi in range(max(n, 1)):
                        for k, v in (('zz', '9'), ('a', 'changed')):
                            mem = []
                            for i in range(n):
                                mem += [dts[(i + mi) % 3] if i % 2 else f'{S.BASE_US + i * tick},{S.BASE_US + 9 * tick}',
                                        dicts[(i + n) % 3] if i else 'm=own']
                            lines.append(f'mu.split {S.mk_multi(K, ms)} | {pdt} {pp} {mi} {k} {v} ' + ' '.join(mem))
    if run.quick:
        lines = lines[::3]
    run.run_cases('split', [ln.rstrip() for ln in lines], impl, spec, tag=_tag, nontrivial=_nontrivial)

    # ---- 8. members (and arguments) that carry their own time bounds: the spatial answers ignore them ---
    lines = []
    b = S.BASE_US

    def stamp(tok, i):
        spans = [(0, 0), (0, 5), (7, 9), (5, 5), (2, 3)]
        s, e = spans[i % len(spans)]
        return f'{tok}@{b + s * tick}_{b + e * tick}'
    for K in ('MT', 'MP', 'ML'):
        names = S.MEMBER_NAMES[K]
        for xi, x in enumerate(singles):
            for n in (1, 2, 3):
                ms = [stamp(T[FOCUS if (i + xi) % 2 == 0 else 2][names[(i + xi) % len(names)]], i + xi) for i in range(n)]
                M = S.mk_multi(K, ms)
                xs_ = stamp(x, xi + 2)
                for op in ('mis', 'mcs'):
                    add(lines, op, M, xs_)
                for op in ('sim', 'scm'):
                    add(lines, op, xs_, M)
                add(lines, 'mim', M, S.mk_multi('MT', [stamp(T[FOCUS]['Ts'], xi), stamp(T[FOCUS]['Tv'], xi + 1)]))
                add(lines, 'mcm', M, S.mk_multi('MT', [stamp(T[FOCUS]['Ts'], xi), stamp(T[FOCUS]['Tv'], xi + 1)]))
    run.run_cases('time-bounded-members', lines, impl, spec, tag=_tag, nontrivial=_nontrivial)
    run.exhaustive = True

    # ---- 9. random ---------------------------------------------------------------------------------------
    lines = []
    allsingles = [t for k in range(3) for t in S.single_pool(k)]
    allmultis = S.multi_pool(0, 1) + S.multi_pool(1, 2) + S.multi_pool(2, 0)
    for _ in range(run.scale(400, 20000)):
        K = rng.choice(['MP', 'ML', 'MT'])
        n = rng.choice([1, 2, 2, 3, 3, 4])
        ms = [T[rng.choice([0, 0, 1, 2])][rng.choice(S.MEMBER_NAMES[K])] for _ in range(n)]
        M = S.mk_multi(K, ms)
        op = rng.choice(['cc', 'mis', 'mcs', 'sim', 'scm', 'mim', 'mcm', 'bounds'])
        if op == 'cc':
            add(lines, op, M, rng.choice(S.ref_coords(rng.choice([0, 1]))))
        elif op == 'bounds':
            add(lines, op, M)
        elif op in ('mim', 'mcm'):
            add(lines, op, M, rng.choice(allmultis))
        elif op in ('sim', 'scm'):
            add(lines, op, rng.choice(allsingles), M)
        else:
            add(lines, op, M, rng.choice(allsingles))
    run.run_cases('random', lines, impl, spec, tag=_tag, nontrivial=_nontrivial)


    # ---- 10. observe - edit - observe histories on one live multi-shape -------------------------------------------------
    OBS = ['i0', 'I0', 'c0', 'C0', 'k0', 'i1', 'I1', 'c1', 'C1', 'k1', 'i2', 'I2', 'c2', 'b', 'i3', 'I3', 'c3', 'C3', 'k2', 's']

    def scenario(K, xi, x):
        """pool 0=R (meets x) 1=R2 (meets x too, or the second argument) 2=N (near miss) 3=U (far, meets xfar) 4=U2 (far)"""
        try:
            related = [m for m in cands(K, FOCUS) if measure('i', m, x)]
            near = [m for m in cands(K, FOCUS) if not measure('i', m, x)]
        except Exception:  # noqa
            return None
        if not related:
            return None
        far = far_members(K)
        pool = [related[xi % len(related)], related[(xi + 1) % len(related)] if len(related) > 1 else (near or far)[-1],
                (near + far)[xi % len(near + far)], far[0], far[2]]
        if len(set(pool)) < len(pool):
            pool = list(dict.fromkeys(pool))
            pool += [m for m in near + far + cands(K, 1) if m not in pool][:5 - len(pool)]
        if len(pool) < 5:
            return None
        x2 = singles[(xi + 3) % len(singles)]
        xfar = T[2][['Ts', 'Bs', 'Ls', 'Tm', 'Cs'][xi % 5]]
        args = [x, x2, S.multi_pool(0, 1)[xi % 11], xfar]
        coords = [S.ref_coords(FOCUS)[xi % 3], S.ref_coords(FOCUS)[(xi + 1) % 7], S.ref_coords(2)[xi % 3]]
        return pool, args, coords

    def block(h, focus):
        k = h % len(OBS)
        return (OBS[k:] + OBS[:k])[:run.scale(11, 20)] + [focus]   # the question asked last before an edit is about the edited member

    lines = []
    h = 0
    xs_h = singles[::run.scale(4, 1)]
    for K in ('MP', 'ML', 'MT'):
        for xi, x in enumerate(xs_h):
            sc = scenario(K, xi, x)
            if sc is None:
                continue
            pool, args, coords = sc
            for p in range(3):                       # position of R in the initial list; U sits right after it (cyclically)
                init = [2, 2, 2]
                init[p], init[(p + 1) % 3] = 0, 3
                pu = (p + 1) % 3
                without_r = [i for i in init if i != 0]
                scripts = [
                    ([f'-{p}'], 'i0', [f'+{(p + 2) % 3}:0']),
                    ([f'-{pu}'], 'i3', ['+0:3']),
                    ([f'*{p}:4'], 'i0', [f'*{pu}:0']),
                    ([f'*{p}:1'], 'I0', ['-0', '-0']),
                    ([f'*{pu}:4'], 'I3', ['+3:3', '-0']),
                    (['+0:1', f'-{p + 1}'], 'i0', ['Z0']),
                    ([f'o{2},{1},{0}'], 'c0', [f'o{1},{2},{0}', '-0']),
                    (['z' + ','.join(map(str, without_r))], 'i0', ['z0,1,2,3']),
                    (['Z' + ','.join(map(str, without_r))], 'i0', ['Z3,0']),
                    (['z-'], 'i0', ['+0:0', '+0:3', '-1']),
                    (['Z-'], 'k0', ['Z4,3', '*0:0']),
                    (['z' + ','.join(map(str, init))], 'i0', [f'-{p}', f'-{0}']),
                    ([f'!{p}', 'Pa=1', f'D{S.BASE_US},{S.BASE_US + 5}'], 's', [f'-{p}', 'Pb=2', 'Dnone', 's']),
                    ([f'-{p}', f'+{p}:1', f'*{p}:0', f'-{p}'], 'i0', ['Z1,0,3,4', 'o3,2,1,0', '-3', '-0']),
                ]
                for si, (e1, focus, e2) in enumerate(scripts):
                    h += 1
                    if run.quick and (h + p) % 2:
                        continue
                    steps = block(h, focus) + e1 + block(h + 7, focus) + e2 + block(h + 3, 'i0') + ['-0'] + ['i0', 'I0', 'i3', 'b', 's']
                    ln = mk_hist(K, init, pool, args, coords, steps)
                    if ln:
                        lines.append(ln)
                    else:
                        skipped[0] += 1

    def tag_h(ln, a):
        first = next((x for x in ln.split(' | ')[5].split() if x[0] in '-+*ozZ!PD'), '?')
        return [f'hist:{ln.split()[1]}:{first[0]}']
    run.run_cases('observe-edit-observe', lines, impl_hist, spec_hist, tag=tag_h)

    lines = []
    for _ in range(run.scale(120, 4000)):
        K = rng.choice(['MP', 'ML', 'MT'])
        xi = rng.randrange(len(singles))
        sc = scenario(K, xi, singles[xi])
        if sc is None:
            continue
        pool, args, coords = sc
        cur = [rng.randrange(5) for _ in range(rng.randint(0, 4))]
        init = list(cur)
        steps = []
        for _s in range(rng.randint(6, 24)):
            r = rng.random()
            if r < 0.6:
                steps.append(rng.choice(OBS))
            elif r < 0.68 and cur:
                k = rng.randrange(len(cur))
                steps.append(f'-{k}')
                del cur[k]
            elif r < 0.76 and len(cur) < 5:
                k, i = rng.randint(0, len(cur)), rng.randrange(5)
                steps.append(f'+{k}:{i}')
                cur.insert(k, i)
            elif r < 0.84 and cur:
                k, i = rng.randrange(len(cur)), rng.randrange(5)
                steps.append(f'*{k}:{i}')
                cur[k] = i
            elif r < 0.88 and cur:
                perm = list(range(len(cur)))
                rng.shuffle(perm)
                steps.append('o' + ','.join(map(str, perm)))
                cur = [cur[q] for q in perm]
            elif r < 0.94:
                cur = [rng.randrange(5) for _ in range(rng.randint(0, 4))]
                steps.append(rng.choice('zZ') + (','.join(map(str, cur)) or '-'))
            elif cur and r < 0.97:
                steps.append(f'!{rng.randrange(len(cur))}')
            else:
                steps.append(rng.choice(['Pa=1', 'Pb=x', f'D{S.BASE_US},{S.BASE_US + 9}', 'Dnone']))
        steps += ['i0', 'I0', 'c0', 'k0', 'i3', 'b', 's']
        ln = mk_hist(K, init, pool, args, coords, steps)
        if ln:
            lines.append(ln)
    run.run_cases('random-histories', lines, impl_hist, spec_hist, tag=tag_h)

    # ---- coverage of the positions (dead-generator guard, visible in the evidence) ----------------------
    gaps = []
    for op in ('cc', 'mis', 'mcs', 'simS', 'simP'):
        for n in range(2, nmax + 1):
            for p in range(n):
                pat = ''.join('T' if i == p else 'F' for i in range(n))
                if not run.hist.get(f'{op}:n{n}:{pat}'):
                    gaps.append(f'{op}:n{n}:{pat}')
    for n in range(2, nmax + 1):
        for p in range(n):
            pat = ''.join('F' if i == p else 'T' for i in range(n))
            if not run.hist.get(f'scm:n{n}:{pat}'):
                gaps.append(f'scm:n{n}:{pat}')
    run.note(f'position coverage gaps: {gaps or "none"}; lines skipped because a single-shape method raised: {skipped[0]}')

    return run.finish(
        rule='real MultiGeoPolygon / MultiGeoLineString / MultiGeoPoint with 0-4 members built from a pool of '
             'nested / crossing / touching / disjoint templates on a dyadic grid, x every single shape kind and '
             'multi-shape arguments; the related member(s) at every position (all 0/1 masks per length), every '
             'aim assignment of receiver members to argument parts, all member orders of fixed sets, bounds, '
             'split scenarios (every mutated member, parent dt/properties variants), members with own time '
             'bounds, plus seeded random combinations; observe-edit-observe histories on one live multi-shape (every '
             'observation, about several arguments in turn, before and after deleting / inserting / replacing / '
             'reordering / clearing and refilling members in place or by rebinding, and time / property edits) whose '
             'answers must be those of a fresh multi-shape with the current members. A case is one protocol line; '
             'non-trivial = the table has a related entry or at least two entries (bounds/split/histories always); '
             'distinct by line.',
        assumptions=['the member-level truth table is measured on the implementation itself (its correctness is C01/C02)',
                     'object identity of the property dictionaries is observed with `id`/`is` and modelled as heap addresses',
                     'copy.deepcopy / dict.copy are CPython runtime (modelled as allocation of a new dictionary)'],
        checker_cmd='cd lean && lake build GeoVerif.Props.C04 && lake env lean .lake/audit/C04.lean  (#print axioms)')
