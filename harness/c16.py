"""C16 — queries are pure and observations stay coherent under in-place updates."""
import copy as _copy
import functools
import inspect
import json
import random as _random
from datetime import timedelta, timezone

import common
from common import fbits, tf
import c15_objgen as og

MODULE = 'GeoVerif.Props.C16'
THEOREMS = ['GV.OS.' + t for t in (
    'reads_pure', 'reads_pure_obs', 'fill_observe', 'opStep_inv', 'run_inv', 'init_inv', 'obs_coherent_of',
    'obs_coherent', 'arg_untouched', 'repeat_same_answer', 'applyMut_refines', 'inplace_refines',
    'not_inplace_untouched', 'not_inplace_returns')]

T0 = og.BASE_US
POLYLIKE = {'polygon', 'box', 'circle', 'ellipse', 'ring'}
COMMON_READS = ['bounds', 'centroid', 'to_geojson', 'to_wkt', 'to_shapely', 'repr', 'properties', 'hash']
READS = {k: list(COMMON_READS) for k in og.KINDS}
for _k in POLYLIKE:
    READS[_k] += ['area', 'volume', 'to_polygon', 'linear_rings', 'circ_circle', 'circ_rect']
READS['mpoly'] += ['area', 'volume', 'linear_rings', 'circ_circle', 'circ_rect']
READS['linestring'] += ['to_polygon', 'circ_circle', 'circ_rect']
READS['mline'] += ['circ_circle', 'circ_rect']
READS['mpoint'] += ['circ_circle']
READS2 = ['contains', 'intersects', 'eq']
ARG_KINDS = ['polygon', 'box', 'circle', 'point', 'linestring', 'mpoint']
ARG_NSEQ = 4


# ---- observation of a real object ----------------------------------------------------------------------

def _ck(c):
    return (c.longitude, c.latitude, c.z, c.m)


def _shape_digest(s):
    """everything a returned shape shows (used to compare answers of repeated reads)"""
    g, _, _ = og.G()
    d = [type(s).__name__, repr(s), og.dt_of(s), og.show_props(_plain(s._properties))]
    if isinstance(s, g.GeoPolygon):
        d += [[_ck(c) for c in s.outline], [[_ck(c) for c in h.bounding_coords()] for h in s.holes]]
    elif hasattr(s, 'holes'):
        d += [len(s.holes), s.to_wkt()]
    else:
        d += [s.to_wkt()]
    return d


def _plain(props):
    return {k: v for k, v in props.items() if isinstance(v, (int, list))}


# ---- every public read-only attribute / method of the class, enumerated from the live library -----------------------

MUTATORS = {'set_dt', 'buffer_dt', 'strip_dt', 'set_property'}
SHAPE_PARAMS = {'shape', 'other', 'geoshape'}
COORD_PARAMS = {'coord', 'coordinate'}


class StubWriter:
    """stands in for a pyshp writer: records what it is given"""
    def __init__(self):
        self.calls = []

    def __getattr__(self, name):
        def rec(*a, **k):
            self.calls.append((name, canon(a)))
            return name
        return rec


def _required(fn):
    try:
        sig = inspect.signature(fn)
    except (TypeError, ValueError):
        return None, False
    req = [p.name for p in sig.parameters.values()
           if p.default is p.empty and p.kind in (p.POSITIONAL_ONLY, p.POSITIONAL_OR_KEYWORD) and p.name != 'self']
    takes_k = any(p.kind == p.VAR_KEYWORD or p.name == 'k' for p in sig.parameters.values())
    return req, takes_k


def observers(obj):
    """protocol tokens `r:x_<name>[@k]` / `q:x_<name>` (needs the argument shape) for every public observer of the class"""
    out = []
    cls = type(obj)
    for n in sorted(dir(cls)):
        if n.startswith('_') or n in MUTATORS:
            continue
        raw = inspect.getattr_static(cls, n)
        if isinstance(raw, (classmethod, staticmethod)):
            continue
        if isinstance(raw, (property, functools.cached_property)) or not callable(raw):
            out.append(f'r:x_{n}')
            continue
        req, takes_k = _required(raw)
        if req is None or any(r not in SHAPE_PARAMS | COORD_PARAMS | {'dt', 'writer'} for r in req):
            continue
        pre = 'q' if any(r in SHAPE_PARAMS | COORD_PARAMS for r in req) else 'r'
        out.append(f'{pre}:x_{n}')
        if takes_k:
            out.append(f'{pre}:x_{n}@k')
    return out


def call_observer(obj, token, arg):
    name, _, var = token.partition('@')
    raw = inspect.getattr_static(type(obj), name)
    try:
        if isinstance(raw, (property, functools.cached_property)) or not callable(raw):
            val = getattr(obj, name)
        else:
            req, _tk = _required(raw)
            args = []
            for r in req:
                args.append(arg if r in SHAPE_PARAMS else arg.centroid if r in COORD_PARAMS
                            else og.mk_datetime(T0 + 5) if r == 'dt' else StubWriter())
            _random.seed(12345)
            val = getattr(obj, name)(*args, **({'k': 8} if var == 'k' else {}))
            if args and isinstance(args[0], StubWriter):
                val = [val, args[0].calls]
        return canon(val), val
    except common.ImplTimeout:
        raise
    except Exception as e:  # noqa  -- an observer that cannot be called here must at least fail the same way each time
        return 'raises ' + type(e).__name__, None


def _is_shape(x):
    return hasattr(x, '_properties') and hasattr(x, 'dt') and hasattr(x, 'to_wkt')


def canon(v, depth=0):
    """canonical, comparable rendering of whatever an observer returns"""
    g, _, TimeInterval = og.G()
    if v is None or isinstance(v, (bool, int, str)):
        return v
    if isinstance(v, float):
        return repr(v)
    if isinstance(v, g.Coordinate):
        return ['coord'] + [repr(x) for x in _ck(v)]
    if isinstance(v, TimeInterval):
        return ['ti', v.start.isoformat(), v.end.isoformat()]
    if hasattr(v, 'isoformat'):
        return v.isoformat()
    if isinstance(v, timedelta):
        return str(v)
    if _is_shape(v):
        return deep_state(v)
    if isinstance(v, dict):
        return [[canon(k, depth + 1), canon(x, depth + 1)] for k, x in sorted(v.items(), key=lambda kv: repr(kv[0]))]
    if isinstance(v, (set, frozenset)):
        return sorted((canon(x, depth + 1) for x in v), key=repr)
    if hasattr(v, 'tolist'):
        return canon(v.tolist(), depth + 1)
    if hasattr(v, 'wkt'):
        return v.wkt
    if isinstance(v, (list, tuple)) or hasattr(v, '__next__'):
        return [canon(x, depth + 1) for x in v] if depth < 8 else '...'
    return type(v).__name__


def deep_state(x):
    """deep snapshot of the observable state of a shape: every instance attribute that is not a memo (cached_property values,
    the to_shapely cache, private helpers) — outline / vertices / holes / members / defining fields / dt / properties"""
    g, _, TimeInterval = og.G()
    if isinstance(x, g.Coordinate):
        return ['coord'] + [repr(v) for v in _ck(x)]
    if isinstance(x, TimeInterval):
        return ['ti', x.start.isoformat(), x.end.isoformat()]
    if _is_shape(x):
        out = [type(x).__name__]
        for k, v in sorted(x.__dict__.items()):
            if k == 'to_shapely' or (k.startswith('_') and k != '_properties'):
                continue
            if isinstance(inspect.getattr_static(type(x), k, None), functools.cached_property):
                continue
            out.append([k, deep_state(v)])
        return out
    if isinstance(x, dict):
        return [[repr(k), deep_state(v)] for k, v in x.items()]
    if isinstance(x, (list, tuple)):
        return [deep_state(v) for v in x]
    return repr(x)


def probe_independent(ret, live, before):
    """a shape handed out as an independent copy is updated in place in every way: the receiver must not notice"""
    try:
        ret.set_property('__probe__', 1)
        for v in list(ret._properties.values()):
            if isinstance(v, list):
                v.append(99)
        ret.set_dt(og.mk_datetime(T0 + 99))
        ret.buffer_dt(timedelta(seconds=1))
        ret.strip_dt()
        if hasattr(ret, 'holes'):
            ret.holes.append(og.mk_hole(5))
    except common.ImplTimeout:
        raise
    except Exception:  # noqa
        pass
    return json.dumps(deep_state(live)) == before


# A read-only call may be handed caller-owned mutable arguments.  One such set lives as long as a history and is handed to
# every conversion of the live shape, of the argument shape and of returned shapes: a call must leave it untouched, must not
# hand it back inside its result, must not alter results it returned earlier, and must render the current state whatever
# the same dict was used for before.  The reference side (fresh twins) always gets a fresh copy.
CALLER_PROPS = {'source': 'caller', 'k': 'caller-wins', 'tags': ['a', 'b'], 'datetime_start': 'callers-own'}


def new_owned():
    return {'P': _copy.deepcopy(CALLER_PROPS), 'kept': []}


def _geojson_digest(obj, owned, full=True):
    o = owned if owned is not None else new_owned()
    P = o['P']
    with_p = obj.to_geojson(properties=P)
    kw = {'id': 7, 'include_bbox': False}
    # the explicit read also converts without arguments and with keyword arguments; the per-step observation only with the
    # caller-owned dict
    plain = obj.to_geojson() if full else with_p
    with_kw = obj.to_geojson(properties=P, **kw) if full else with_p
    flags = []
    if P != CALLER_PROPS or kw != {'id': 7, 'include_bbox': False}:
        flags.append('ARGUMENT-CHANGED')
    if with_p['properties'] is P or with_kw['properties'] is P or plain['properties'] is P:
        flags.append('ARGUMENT-HANDED-BACK')
    for res, snap in o['kept']:
        if json.dumps(res, sort_keys=True, default=str) != snap:
            flags.append('EARLIER-RESULT-CHANGED')
            break
    if len(o['kept']) < 3:
        o['kept'].append((with_p, json.dumps(with_p, sort_keys=True, default=str)))
    return json.dumps([plain, with_p, with_kw, flags], sort_keys=True, default=str)


def do_read(obj, name, arg=None, owned=None):
    """perform the read-only call, return a canonical digest of its answer"""
    if name.startswith('x_'):
        digest, val = call_observer(obj, name[2:], arg)
        if name in ('x_copy', 'x_split') and val is not None:
            # promised to be independent of the receiver (split: the members' own containers)
            before = json.dumps(deep_state(obj))
            for r in (val if isinstance(val, list) else [val]):
                if r is obj:
                    return ['THE-RECEIVER-ITSELF', digest]
                try:
                    r.set_property('__probe__', 1)
                    r.set_dt(og.mk_datetime(T0 + 99))
                    r.strip_dt()
                except Exception:  # noqa
                    pass
            if json.dumps(deep_state(obj)) != before:
                return ['RESULT-ALIASES-RECEIVER', digest]
        return digest
    if name == 'bounds':
        return list(obj.bounds)
    if name == 'centroid':
        return _ck(obj.centroid)
    if name == 'area':
        return fbits(obj.area)
    if name == 'volume':
        return fbits(obj.volume)
    if name == 'to_polygon':
        return _shape_digest(obj.to_polygon())
    if name == 'linear_rings':
        return json.dumps(obj.linear_rings(), default=_ck)
    if name == 'to_geojson':
        return _geojson_digest(obj, owned)
    if name == 'to_geojson-light':
        return _geojson_digest(obj, owned, full=False)
    if name == 'to_wkt':
        return obj.to_wkt()
    if name == 'to_shapely':
        return obj.to_shapely().wkt
    if name == 'repr':
        return repr(obj)
    if name == 'properties':
        return json.dumps(obj.properties, sort_keys=True, default=str)
    if name == 'hash':
        return hash(obj)
    if name == 'times':
        # the time bounds as they are *rendered*: the same instant in another UTC offset prints differently
        if obj.dt is None:
            return None
        return [obj.start.isoformat(), obj.end.isoformat(), str(obj.dt.start.utcoffset()), str(obj.dt.end.utcoffset()),
                repr(obj.dt), str(obj.dt.elapsed)]
    if name == 'circ_circle':
        _random.seed(12345)          # Welzl's algorithm shuffles; the answer is compared between calls
        c = obj.circumscribing_circle()
        return [_ck(c.center), fbits(c.radius), og.dt_of(c)]
    if name == 'circ_rect':
        b = obj.circumscribing_rectangle()
        return [_ck(b.nw_bound), _ck(b.se_bound), og.dt_of(b)]
    if name == 'contains':
        return bool(obj.contains(arg))
    if name == 'intersects':
        return bool(obj.intersects(arg))
    if name == 'eq':
        return bool(obj == arg)
    raise ValueError('unknown read ' + name)


LIVE = 'as-stored'


def twin_of(obj, kind, variant, nseq, exp_dt=LIVE):
    """a freshly constructed shape with the same geometry, time and properties (holes by pool id).  `exp_dt` are the
    time bounds as the *caller wrote them* (None | (start datetime, end datetime), tracked along the history): the
    twin is built from those very datetimes, so that also their rendering (offset, isoformat) is compared."""
    nh = 0
    _, _, TimeInterval = og.G()
    props = {k: (list(v) if isinstance(v, list) else v) for k, v in obj._properties.items()}
    if exp_dt == LIVE:
        t = og.template(kind, variant, nh, nseq, og.dt_of(obj), props)
    else:
        t = og.template(kind, variant, nh, nseq, None, props,
                        dt_obj=None if exp_dt is None else TimeInterval(exp_dt[0], exp_dt[1]))
    if hasattr(obj, 'holes'):
        ids = [og.hole_id(h) for h in obj.holes]
        if any(i < 0 for i in ids):
            return None
        t.holes = [og.mk_hole(i) for i in ids]
    return t


def _zulu(d):
    return d.replace(tzinfo=timezone.utc) if d.tzinfo is None else d


def sim_dt(exp, m):
    """what the mutator token means for the time bounds as written by the caller: (new bounds, failed?)"""
    p = m.split(':')
    if p[0] == 'setdt':
        return (None, False) if p[1] == '_' else ((_zulu(og.mk_datetime(og.p_inst(p[1]))), _zulu(og.mk_datetime(og.p_inst(p[2])))), False)
    if p[0] == 'setdtd':
        d = _zulu(og.mk_datetime(og.p_inst(p[1])))
        return (d, d), False
    if p[0] == 'strip':
        return None, False
    if p[0] == 'buffer':
        d = timedelta(microseconds=int(p[1]))
        if exp is None or exp[1] + d < exp[0] - d:
            return exp, True
        return (exp[0] - d, exp[1] + d), False
    return exp, False


def _bounds_independent(obj, kind):
    """bounds recomputed from the raw vertices, for the vertex-defined kinds (no memo of the library involved)"""
    g, _, _ = og.G()
    if kind == 'polygon':
        pts = [(c.longitude, c.latitude) for c in obj.outline]
    elif kind == 'linestring':
        pts = [(c.longitude, c.latitude) for c in obj.vertices]
    elif kind == 'box':
        pts = [(obj.nw_bound.longitude, obj.nw_bound.latitude), (obj.se_bound.longitude, obj.se_bound.latitude)]
    elif kind == 'point':
        pts = [(obj.coordinate.longitude, obj.coordinate.latitude)]
    else:
        return None
    xs, ys = [p[0] for p in pts], [p[1] for p in pts]
    return (min(xs), min(ys), max(xs), max(ys))


_TWINS = {}


def _twin_cached(obj, kind, variant, nseq, exp_dt):
    """the reference side is a pure function of (kind, geometry, holes, properties, time bounds as written): build each
    twin once, never mutate it, remember what it answers"""
    ids = tuple(og.hole_id(h) for h in obj.holes) if hasattr(obj, 'holes') else None
    if ids is not None and any(i < 0 for i in ids):
        return None, None
    when = og.dt_of(obj) if exp_dt == LIVE else (None if exp_dt is None else tuple((d.isoformat(), str(d.tzinfo)) for d in exp_dt))
    key = (kind, variant, nseq, ids, repr(obj._properties), exp_dt == LIVE, when)
    if key not in _TWINS:
        if len(_TWINS) > 4000:
            _TWINS.clear()
        _TWINS[key] = (twin_of(obj, kind, variant, nseq, exp_dt), {})
    return _TWINS[key]


def coherence_flags(obj, kind, variant, nseq, exp_dt=LIVE, owned=None):
    twin, memo = _twin_cached(obj, kind, variant, nseq, exp_dt)
    if twin is None:
        return 'sssss'

    def ref(name, fn):
        if name not in memo:
            memo[name] = fn()
        return memo[name]
    flags = []
    ib = _bounds_independent(obj, kind)
    flags.append('o' if tuple(obj.bounds) == ref('bounds', lambda: tuple(twin.bounds)) and (ib is None or tuple(obj.bounds) == ib) else 's')
    flags.append('o' if _ck(obj.centroid) == ref('centroid', lambda: _ck(twin.centroid)) else 's')
    flags.append('o' if (not hasattr(obj, 'area')) or obj.area == ref('area', lambda: twin.area) else 's')
    flags.append('o' if obj.to_shapely().wkt == ref('shapely', lambda: twin.to_shapely().wkt) else 's')
    rest = ['to_geojson-light', 'to_wkt', 'repr', 'properties', 'hash', 'times'] + [r for r in ('to_polygon', 'linear_rings', 'circ_rect')
                                                                               if r in READS[kind]]
    same = (all(do_read(obj, r, owned=owned) == ref('r:' + r, lambda r=r: do_read(twin, r)) for r in rest) and obj == twin and twin == obj
            # value semantics re-observed on the live object: it collapses with / is found by a fresh equal shape
            and len({obj, twin}) == 1 and twin in {obj: 1} and obj in {twin: 1})
    flags.append('o' if same else 's')
    return ''.join(flags)


def observe(obj, pristine, kind, variant, nseq, exp_dt=LIVE, owned=None):
    vol = fbits(obj.volume) if kind in og.HAS_VOLUME else '_'
    return f'{og.show_fields(obj, pristine)};drv={coherence_flags(obj, kind, variant, nseq, exp_dt, owned)};vol={vol}'


# ---- implementation side ------------------------------------------------------------------------------

def impl(line):
    _cmd, *args = line.split()
    parts = og.split_semis(args)
    kind, variant, _area, dt, props, nh, nseq, akind, avariant = parts[0]
    variant, nh, nseq, avariant = int(variant), int(nh), int(nseq), int(avariant)
    ops = [' '.join(p) for p in parts[1:]]

    def mk():
        return og.template(kind, variant, nh, nseq, og.p_dt(dt), og.parse_props(props))

    def mk_arg():
        return og.template(akind, avariant, 0, ARG_NSEQ, None, {})
    live, pristine = mk(), mk()
    arg, arg_pristine = mk_arg(), mk_arg()
    d0 = og.p_dt(dt)
    exp = [None if d0 is None else (_zulu(og.mk_datetime(d0[0])), _zulu(og.mk_datetime(d0[1])))]

    arg_seen = {}
    owned = new_owned()          # caller-owned arguments of this history, shared by every shape in it

    def obs_arg(full):
        # the argument is fully re-observed after every call that was handed it (and at both ends of the history);
        # in between its fields are re-read and the flags stand while the fields stand
        fp = og.show_fields(arg, arg_pristine)
        if full or arg_seen.get('fp') != fp:
            arg_seen['fp'], arg_seen['obs'] = fp, observe(arg, arg_pristine, akind, avariant, ARG_NSEQ, None, owned)
        return arg_seen['obs']

    def obs_both(full=True):
        return f'{observe(live, pristine, kind, variant, nseq, exp[0], owned)}#{obs_arg(full)}'
    out = ['ok#' + obs_both()]
    answers = {}
    st_live, st_arg = json.dumps(deep_state(live)), json.dumps(deep_state(arg))
    for op in ops:
        p = op.split(':')
        res = 'ok'
        try:
            if p[0] in ('r', 'q'):
                a = do_read(live, p[1], arg if p[0] == 'q' else None, owned)
                key = (p[0], p[1])
                if key in answers and answers[key] != a:
                    res = 'CHANGED'          # the same question, a different answer, nothing updated in between
                answers[key] = a
                now_live, now_arg = json.dumps(deep_state(live)), json.dumps(deep_state(arg))
                if now_live != st_live:
                    res = 'RECEIVER-CHANGED'          # a read-only call altered the shape it was called on
                elif now_arg != st_arg:
                    res = 'ARGUMENT-CHANGED'
                st_live, st_arg = now_live, now_arg
            else:
                inplace = p[-1] == '1'
                mtok = ':'.join(p[1:-1])
                ret = og.apply_mut(live, mtok, inplace)
                new_exp, _failed = sim_dt(exp[0], mtok)
                if inplace:
                    if ret is not live:
                        res = 'NOT-SELF'
                    answers = {}
                    exp[0] = new_exp
                    st_live = json.dumps(deep_state(live))
                elif ret is live:
                    res = 'ALIAS'
                else:
                    res = (f'ret:{og.show_fields(ret, pristine)};drv={coherence_flags(ret, kind, variant, nseq, new_exp, owned)}')
                    if json.dumps(deep_state(live)) != st_live:
                        res = 'RECEIVER-CHANGED'
                    elif (ret._properties is live._properties or (hasattr(ret, 'holes') and ret.holes is live.holes)
                          or not probe_independent(ret, live, st_live)):
                        res = 'RESULT-ALIASES-RECEIVER'
        except common.ImplTimeout:
            raise
        except Exception as e:  # noqa
            res = common.err_name(e)
            st_live, st_arg = json.dumps(deep_state(live)), json.dumps(deep_state(arg))
        out.append(f'{res}#{obs_both(p[0] == "q" or op is ops[-1])}')
    return ' | '.join(out)


# ---- the property, independently of the model: evolve the *fields*, everything else is a fresh twin -----------

def spec(line):
    _cmd, *args = line.split()
    parts = og.split_semis(args)
    kind, _variant, area, dt, props, nh, nseq, akind, _avariant = parts[0]
    area = common.unfbits(area)
    dt = og.inst(og.p_dt(dt))
    props = og.parse_props(props)
    holes = '[' + ';'.join(str(i) for i in range(int(nh))) + ']' if kind in og.HAS_HOLES else '_'
    nseq_eff = (max(int(nseq) - 1, 1) + 1) if kind == 'polygon' else int(nseq)
    seq = '[' + ';'.join(str(i) for i in range(nseq_eff)) + ']' if kind in og.HAS_SEQ else '_'
    aholes = '[]' if akind in og.HAS_HOLES else '_'
    aseq = '[' + ';'.join(str(i) for i in range(ARG_NSEQ)) + ']' if akind in og.HAS_SEQ else '_'
    avol = fbits(0.0) if akind in og.HAS_VOLUME else '_'
    argobs = f'dt=_;props=-;holes={aholes};seq={aseq};drv=ooooo;vol={avol}'

    def fields(d, p):
        return f'dt={og.dttok(d)};props={og.show_props(p)};holes={holes};seq={seq}'

    def obs(d, p):
        if kind in og.HAS_VOLUME:
            v = fbits(0.0 if d is None else area * timedelta(microseconds=d[1] - d[0]).total_seconds())
        else:
            v = '_'
        return f'{fields(d, p)};drv=ooooo;vol={v}'
    out = [f'ok#{obs(dt, props)}#{argobs}']
    for part in parts[1:]:
        p = ' '.join(part).split(':')
        res = 'ok'
        if p[0] == 'u':
            inplace = p[-1] == '1'
            m = p[1:-1]
            nd, np_, err = dt, dict((k, list(v) if isinstance(v, list) else v) for k, v in props.items()), None
            if m[0] == 'setdt':
                nd = None if m[1] == '_' else (og.ival(m[1]), og.ival(m[2]))
            elif m[0] == 'setdtd':
                nd = (og.ival(m[1]), og.ival(m[1]))
            elif m[0] == 'strip':
                nd = None
            elif m[0] == 'buffer':
                d = int(m[1])
                if dt is None or dt[1] + d < dt[0] - d:
                    err = 'ERR:Value'
                else:
                    nd = (dt[0] - d, dt[1] + d)
            elif m[0] == 'setprop':
                k, v = m[1].split('=')
                np_[k] = og.parse_val(v)
            else:
                return None
            if err:
                res = err
            elif inplace:
                dt, props = nd, np_
            else:
                res = 'ret:' + fields(nd, np_) + ';drv=ooooo'
        out.append(f'{res}#{obs(dt, props)}#{argobs}')
    return ' | '.join(out)


# ---- which observations are memoised (correspondence only: the property does not say what may be memoised) ----

def memo_flags(obj):
    return ''.join(tf(k in obj.__dict__) for k in ('bounds', 'centroid', 'area')) + tf(obj.to_shapely.cache_info().currsize > 0)


def impl_memo(line):
    _cmd, *args = line.split()
    parts = og.split_semis(args)
    kind, variant, dt, nh, nseq = parts[0]
    live = og.template(kind, int(variant), int(nh), int(nseq), og.p_dt(dt), {})
    out = [memo_flags(live)]
    for part in parts[1:]:
        op = ' '.join(part)
        p = op.split(':')
        try:
            if op == 'copy':
                live = live.copy()
            elif op == 'pickle':
                live = og.roundtrip(live)
            elif p[0] == 'r':
                do_read(live, p[1])
            else:
                og.apply_mut(live, ':'.join(p[1:-1]), p[-1] == '1')
        except common.ImplTimeout:
            raise
        except Exception:  # noqa  -- failing updates leave the receiver as it was
            pass
        out.append(memo_flags(live))
    return ' '.join(out)


def gen_memo(run):
    rng = run.rng
    lines = []
    for kind in og.KINDS:
        nseq = NSEQ.get(kind, 0)
        for variant in ((0, 1) if kind == 'ring' else (0,)):
            for dt in ('_', f'{T0}:{T0 + 60_000_000}'):
                nh = 1 if kind in og.HAS_HOLES else 0
                hd = f'sm.memo {kind} {variant} {dt} {nh} {nseq}'
                for r in READS[kind]:
                    lines.append(f'{hd} ; r:{r} ; u:setdt:{T0}:{T0 + 5}:1 ; r:{r} ; u:strip:0 ; pickle ; r:{r} ; copy ; r:{r}')
                for _ in range(run.scale(4, 40)):
                    ops = []
                    for _ in range(rng.randrange(2, 9)):
                        x = rng.random()
                        ops.append('r:' + rng.choice(READS[kind]) if x < 0.6 else
                                   f'u:{rng.choice(UPDATES)}:{rng.choice("10")}' if x < 0.8 else rng.choice(['copy', 'pickle']))
                    lines.append(hd + ' ; ' + ' ; '.join(ops))
    return lines


def impl_for(line):
    return impl_memo if line.startswith('sm.memo') else impl


def spec_for(line):
    return None if line.startswith('sm.memo') else spec


# ---- generators ---------------------------------------------------------------------------------------

_AREA = {}


def area_of(kind, variant, nh, nseq):
    key = (kind, variant, nh, nseq)
    if key not in _AREA:
        t = og.template(kind, variant, nh, nseq, None, {})
        _AREA[key] = float(t.area) if hasattr(t, 'area') else 0.0
    return _AREA[key]


# time bounds are written naive / UTC / in other offsets; `setdtd` passes a datetime, `setdt` a TimeInterval
UPDATES = ['setdt:_', f'setdt:{T0}:{T0}', f'setdtd:{T0 + 7}', f'setdtd:{T0 + 7}@n', f'setdtd:{T0 + 7}@o120',
           f'setdtd:{T0 + 11}@o-330', f'setdt:{T0 + 5}@o345:{T0 + 90_000_000}@o345', f'setdt:{T0 + 5}@n:{T0 + 90_000_000}',
           f'setdt:{T0}:{T0 + 1}', f'setdt:{T0 + 5}@zE:{T0 + 3_600_000_000}', f'setdtd:{T0 + 2_400_000_000}@zE', 'buffer:1000000',
           'buffer:0', 'buffer:1', 'buffer:-30000000', 'buffer:-9000000000', 'strip',
           'setprop:k=5', 'setprop:n=7', 'setprop:l=[4;5]', 'setprop:k=[]']
START_DTS = ['_', f'{T0}:{T0}', f'{T0}@n:{T0}@n', f'{T0}:{T0 + 60_000_000}', f'{T0}@o120:{T0 + 60_000_000}@o120',
             f'{T0 + 3}@o-330:{T0 + 3_600_000_000}@n', f'{T0 + 3}:{T0 + 3_600_000_000}@o840',
             # ends with different tzinfo objects, one in a zone with a jump in between (`@zE` hand-written, `@zNY` tz database)
             f'{T0}@zE:{T0 + 3_600_000_000}', f'{T0 + 3}@zE:{T0 + 3_600_000_000}@zE', f'{og.BASE_NY}@zNY:{og.BASE_NY + 3_600_000_000}@o60',
             f'{T0}@o60:{T0 + 3_600_000_000}@zE']
NSEQ = {'polygon': 5, 'linestring': 3, 'mpoint': 3, 'mline': 2, 'mpoly': 2}


def head(kind, variant, nh, dt, props, akind, avariant=0):
    nseq = NSEQ.get(kind, 0)
    return (f'sm.run {kind} {variant} {fbits(area_of(kind, variant, nh, nseq))} {dt} {props} {nh} {nseq} '
            f'{akind} {avariant}')


def gen_systematic(quick=False):
    """every kind x every update in both modes, each surrounded by every applicable read"""
    lines = []
    for ki, kind in enumerate(og.KINDS):
        dt = START_DTS[3 + ki % 8]
        for variant in ((0, 1) if kind == 'ring' else (0,)):
            nh = 1 if kind in og.HAS_HOLES else 0
            reads = READS[kind]
            for ui, u in enumerate(UPDATES):
                for ip in ('1', '0'):
                    # quick tier: a rotating window of 5 reads around each update (every read meets a third of the updates),
                    # thorough tier: all reads around every update
                    rs = reads if not quick else [reads[(ui * 3 + j + (ip == '0')) % len(reads)] for j in range(5)]
                    ops = []
                    for r in rs:
                        ops.append(f'r:{r}')
                    ops.append(f'u:{u}:{ip}')
                    for r in rs:
                        ops.append(f'r:{r}')
                    lines.append(head(kind, variant, nh, dt, 'k=1', 'box') + ' ; ' + ' ; '.join(ops))
            # no-op updates: every update on a shape without time bounds / repeated on its own result, both modes
            for ip in ('0', '1'):
                lines.append(head(kind, variant, nh, '_', 'k=1', 'point') + ' ; ' + ' ; '.join(f'u:{u}:{ip}' for u in ['strip', 'setdt:_', 'buffer:1'] + UPDATES[:3] + ['strip', 'strip', 'setprop:k=1']))
            # degenerate arguments, both modes: zero timedelta, the very same bounds / value again, None on None
            for ip in ('0', '1'):
                lines.append(head(kind, variant, nh, f'{T0}:{T0}', 'k=1', 'point') + ' ; ' + ' ; '.join(
                    f'u:{u}:{ip}' for u in ['buffer:0', f'setdt:{T0}:{T0}', f'setdtd:{T0}', 'setprop:k=1', 'buffer:0', 'setprop:e=[]',
                                           'setdt:_', 'setdt:_', 'buffer:0']))
            # EVERY public observer of the class (enumerated from the live library), twice, with full re-observation and a
            # deep snapshot of receiver and argument around each call; with and without time bounds; two argument kinds
            obs = observers(og.template(kind, variant, nh, NSEQ.get(kind, 0), None, {}))
            for dts, ak, pr in ((f'{T0}:{T0 + 60_000_000}', 'polygon', 'k=1,l=[1;2]'), ('_', 'linestring', '-')):
                lines.append(head(kind, variant, nh, dts, pr, ak) + ' ; ' + ' ; '.join(obs + obs))
            # every read twice in a row, every predicate against every argument kind
            lines.append(head(kind, variant, nh, dt, 'k=1,l=[1;2]', 'polygon') + ' ; ' +
                         ' ; '.join(f'r:{r} ; r:{r}' for r in reads))
            for ak in ARG_KINDS:
                lines.append(head(kind, variant, nh, '_', '-', ak) + ' ; ' +
                             ' ; '.join(f'q:{r}' for r in READS2 + READS2))
    return lines


_OBSERVERS = {}


def _observers_of(kind, variant):
    if (kind, variant) not in _OBSERVERS:
        nh = 1 if kind in og.HAS_HOLES else 0
        _OBSERVERS[(kind, variant)] = observers(og.template(kind, variant, nh, NSEQ.get(kind, 0), None, {}))
    return _OBSERVERS[(kind, variant)]


def gen_random(run, n, maxlen):
    rng = run.rng
    lines = []
    for _ in range(n):
        kind = rng.choice(og.KINDS)
        variant = rng.choice([0, 1]) if kind in ('ring', 'polygon', 'box') else 0
        nh = rng.choice([0, 1, 2]) if kind in og.HAS_HOLES else 0
        dt = rng.choice(START_DTS)
        props = rng.choice(['-', 'k=1', 'k=1,l=[1;2]', 'a=[],b=2'])
        ak = rng.choice(ARG_KINDS)
        ops = []
        for _ in range(rng.randrange(1, maxlen + 1)):
            r = rng.random()
            if r < 0.3:
                ops.append('r:' + rng.choice(READS[kind]))
            elif r < 0.45:
                ops.append(rng.choice(_observers_of(kind, variant)))      # any public observer of the class
            elif r < 0.6:
                ops.append('q:' + rng.choice(READS2))
            else:
                ops.append(f'u:{rng.choice(UPDATES)}:{rng.choice("1110")}')
        lines.append(head(kind, variant, nh, dt, props, ak, rng.choice([0, 1])) + ' ; ' + ' ; '.join(ops))
    return lines


def check(run):
    run.prove(MODULE, THEOREMS)
    run.source_tie(['SrcMut', 'SrcTime'], 'GeoVerif.Props.C16Src',
                   ['GV.C16Src.' + t for t in (
                       'setDtNone_eq', 'setDtTI_eq', 'setDtDt_eq', 'bufferDt_eq', 'stripDt_eq', 'setProperty_eq', 'defaults_eq',
                       'call_eq_step', 'startDt_eq', 'endDt_eq', 'properties_eq', 'volume_eq', 'src_obs_congr', 'srcStep_eq',
                       'srcRun_eq', 'src_obs_coherent', 'src_arg_untouched', 'src_update_coherent',
                       'src_observations_coherent', 'src_not_inplace', 'src_inplace_refines')])

    def tag(ln, a):
        p = ln.split()
        t = ['kind:' + p[1], 'len:' + str(ln.count(' ; '))]
        for o in ln.split(' ; ')[1:]:
            q = o.split(':')
            t.append('op:' + (q[0] + ':' + q[1] if q[0] != 'u' else 'u:' + q[1] + ':' + q[-1]))
        if 'ERR:' in a:
            t.append('res:ERR')
        if 'ret:' in a:
            t.append('res:ret')
        return t
    run.run_cases('systematic-histories', gen_systematic(run.quick), impl, spec, tag=tag)
    run.run_cases('random-histories', gen_random(run, run.scale(500, 9000), run.scale(8, 12)), impl, spec, tag=tag)
    run.run_cases('memo-slots', gen_memo(run), impl_memo, None,
                  tag=lambda ln, a: ['memo:' + ln.split()[1], 'memo-final:' + a.split()[-1]])
    return run.finish(
        rule='a case is one history: every kind (ring and wedge) x every update (set_dt / buffer_dt / strip_dt / set_property, '
             'both inplace modes, failing calls included) surrounded by every read-only call of that kind, every read twice, every '
             'predicate against six kinds of argument shapes; plus seeded random histories of length <= 8 (thorough <= 12).  After '
             'EVERY step the full observation vector of the live shape and of the argument shape is compared with the model, with '
             'the value-level meaning of the updates, and (flags) with a freshly constructed twin having the same fields — built from the '
             'time bounds exactly as the caller wrote them (naive / UTC / other offsets; datetime or TimeInterval argument), so that '
             'also their rendering (isoformat, utcoffset, GeoJSON strings) and hash / == / set / dict behaviour against the twin are '
             're-observed after every update.  Time bounds also with different tzinfo objects on the two ends, one in a zone whose '
             'offset jumps inside the interval (hand-written tzinfo, tz database zone).  Conversions are handed caller-owned mutable '
             'arguments that live as long as the history and are shared by all its shapes: they must stay untouched, not be handed '
             'back, earlier results must stand, the current state must be rendered.  '
             'EVERY public read-only attribute / method of every class (enumerated from the live library, also with k=, also through '
             'the multi-shapes) is called twice with a deep snapshot of receiver and argument around each call; shapes handed out by '
             'inplace=False (also for zero timedelta / the same bounds or value again / None on None), copy() and split() are updated in '
             'every way afterwards and the receiver must not notice.  Non-trivial = all; distinct by line.',
        assumptions=['derived observations (bounds, centroid, area, shapely form, WKT, GeoJSON, polygon form) are compared against a '
                     'freshly constructed twin, not recomputed by the model: what they are is the subject of C03/C09/C13/C14; bounds '
                     'of vertex-defined kinds are also recomputed from the raw vertices',
                     'volume = area * elapsed seconds is recomputed bit-exactly (IEEE-754 double) from the area of a fresh twin',
                     'random choices of the circumscribing-circle routine are fixed by seeding `random` before each call',
                     'the hole list and the vertex/member list change only through the constructor (C16 state declaration): direct '
                     'container manipulation is outside the histories (it is covered on copies by C15)'],
        checker_cmd='cd lean && lake build GeoVerif.Props.C16 && lake env lean .lake/audit/C16.lean  (#print axioms)')
