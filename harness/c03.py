"""C03 — curved shapes follow their geodesic definition, analytically and as polygons."""
import math
from fractions import Fraction

import common
import geo_oracle as G
from c07 import C, enc, floats, is_err, parse, point_close, RND7

MODULE = ['GeoVerif.Props.C03']
THEOREMS = ['GV.C03.' + t for t in (
    'schedule_eq', 'schedule_length', 'schedule_pairwise', 'ring_angles_antitone', 'ringAngles_antitone',
    'circleAngle_first', 'circleAngle_last', 'ringAngle_first', 'ringAngle_last',
    'circleRing_length', 'circleRing_on_circle', 'circleRing_bearing', 'ring_closed', 'ellipseRing_closed',
    'radiusAtAngle_polar', 'radiusAtAngle_pos', 'radiusAtAngle_le_major', 'radiusAtAngle_ge_minor',
    'ellipseRing_on_curve', 'ellipseRing_bearing', 'ringArcs_on_radii', 'ringArcs_bearing',
    'wedgeRing_shape', 'wedgeRing_closed',
    'contains_circle_def', 'contains_circle_central_angle', 'contains_ellipse_def', 'contains_ring_def')] + [
    'GV.C07.dest_dist', 'GV.C07.dest_bearing_mod', 'GV.C07.hav_eq_central_angle']


# --------------------------------------------------------------------------------------------------
# shapes from protocol lines


def _holes(v, i, nh):
    from geostructures import GeoCircle
    hs = []
    for _ in range(nh):
        hs.append(GeoCircle(C(v[i], v[i + 1]), v[i + 2]))
        i += 3
    return hs, i


def _kw(k):
    return {'k': int(k)} if k else {}


def _coords(cs):
    return enc(*[x for c in cs for x in (c.longitude, c.latitude)])



# --------------------------------------------------------------------------------------------------
# observe - mutate - observe again: a shape is a value.  Nothing the caller does afterwards to the containers it
# passed in, to containers the shape handed out, or to objects derived from the shape may change what the shape
# answers; neither may asking twice.


def _tup(cs):
    return tuple((c.longitude, c.latitude) for c in cs)


def _observe(shape, kw, queries, exports):
    """everything C03 lets one see of a curved shape (holes included)"""
    poly = shape.to_polygon(**kw)
    obs = [
        ''.join('T' if shape.contains_coordinate(q) else 'F' for q in queries),
        _tup(shape.bounding_coords(**kw)),
        tuple(_tup(r) for r in shape.linear_rings(**kw)),
        _tup(poly.outline),
        tuple(_tup(h.bounding_coords(**kw)) for h in poly.holes),
        ''.join('T' if poly.contains_coordinate(q) else 'F' for q in queries[:6]),
        len(shape.holes),
        len(shape.bounding_coords(k=5)),
    ]
    if exports:
        import json
        obs.append(shape.to_wkt(**kw))
        obs.append(json.dumps(shape.to_geojson(**kw)['geometry']))
    return obs


BATCH_END = ('second-observation', 'copy-holes-append', 'other-shapes-queried')


def history(make, holes, decoy, kw, queries, exports=True, fine=False):
    """
    Build the shape from a caller-owned hole list, observe, then run every kind of later interference and observe again:
    after asking twice, after the "append" phase and after the "clear" phase (after every single step when `fine`, which
    is how a failing phase is narrowed down to the step that caused it).
    Returns (shape, None) or (shape, 'MUTATED:<step>').
    """
    work = list(holes)
    shape = make(work)
    base = _observe(shape, kw, queries, exports)

    def steps():
        yield 'second-observation'                       # caches / state carried across calls
        work.append(decoy)
        yield 'caller-list-append'                       # the caller goes on using its list
        make(work)
        yield 'second-shape-from-same-list'
        poly = shape.to_polygon(**kw)
        poly.holes.append(decoy)
        yield 'polygon-form-holes-append'                # containers handed to derived objects
        cp = shape.copy()
        cp.holes.append(decoy)
        yield 'copy-holes-append'
        work.clear()
        yield 'caller-list-clear'
        poly.holes.clear()
        yield 'polygon-form-holes-clear'
        poly.outline.clear()
        yield 'polygon-form-outline-clear'
        rings = shape.linear_rings(**kw)
        for r in rings:
            r.clear()
        rings.clear()
        shape.bounding_coords(**kw).clear()
        yield 'returned-rings-clear'                     # containers the shape handed out
        cp.holes.clear()
        yield 'copy-holes-clear'
        for q in queries[:3]:
            decoy.contains_coordinate(q)
            cp.contains_coordinate(q)
        yield 'other-shapes-queried'                     # module-level state keyed by value / id
    for step in steps():
        if (fine or step in BATCH_END) and _observe(shape, kw, queries, exports) != base:
            if not fine:
                w = history(make, holes, decoy, kw, queries, exports, fine=True)[1]
                return shape, w or 'MUTATED:before-' + step
            return shape, 'MUTATED:' + step
    return shape, None



# --------------------------------------------------------------------------------------------------
# harness-only: a curved shape WITH user holes seen through every form the property relates
#   cv.forms <K> shape-params k | <H> hole-params | … | Q lon lat lon lat …
#   K: C circle (lon lat r), E ellipse (lon lat a b rot), R ring / wedge (lon lat inner outer amin amax)
#   H: c circle (lon lat r), e ellipse (lon lat a b rot), b box (nw_lon nw_lat se_lon se_lat), p polygon (lon lat …)

FORMS = ('contains_coordinate', 'to_polygon', 'to_polygon(k)', 'linear_rings', 'edges', 'copy', 'copy.to_polygon')


def parse_forms(tokens):
    from c09 import split_members
    parts = split_members(tokens)
    head, holes, qs = parts[0], [], []
    for m in parts[1:]:
        if m[0] == 'Q':
            x = floats(m[1:])
            qs = [(x[i], x[i + 1]) for i in range(0, len(x), 2)]
        else:
            holes.append((m[0], floats(m[1:])))
    hv = floats(head[1:])
    return head[0], hv[:-1], int(hv[-1]), holes, qs


def build_forms(kind, v, holes):
    from geostructures import GeoBox, GeoCircle, GeoEllipse, GeoPolygon, GeoRing
    hs = []
    for hk, h in holes:
        if hk == 'c':
            hs.append(GeoCircle(C(h[0], h[1]), h[2]))
        elif hk == 'e':
            hs.append(GeoEllipse(C(h[0], h[1]), h[2], h[3], h[4]))
        elif hk == 'b':
            hs.append(GeoBox(C(h[0], h[1]), C(h[2], h[3])))
        else:
            hs.append(GeoPolygon([C(h[i], h[i + 1]) for i in range(0, len(h), 2)]))
    if kind == 'C':
        return GeoCircle(C(v[0], v[1]), v[2], holes=hs)
    if kind == 'E':
        return GeoEllipse(C(v[0], v[1]), v[2], v[3], v[4], holes=hs)
    return GeoRing(C(v[0], v[1]), v[2], v[3], v[4], v[5], holes=hs)


def _even_odd(rings, ref, q):
    """inside the first ring and inside none of the others (exact even-odd rule); '?' on a ring"""
    qq = (_unwrap(ref, q[0]), q[1])
    res = [pip_exact([(_unwrap(ref, c.longitude), c.latitude) for c in r], qq) for r in rings]
    if '?' in res:
        return '?'
    return 'T' if res[0] == 'T' and all(x == 'F' for x in res[1:]) else 'F'


def impl_forms(tokens):
    kind, v, k, holes, qs = parse_forms(tokens)
    shape = build_forms(kind, v, holes)
    kw = _kw(k)
    poly0, polyk, cp = shape.to_polygon(), shape.to_polygon(**kw), shape.copy()
    cpoly = cp.to_polygon(**kw)
    rings = shape.linear_rings(**kw)
    edge_rings = [[e[0] for e in es] + [es[-1][1]] for es in shape.edges(**kw)]
    n_user = len(holes) + (1 if kind == 'R' and v[4] == 0 and v[5] == 360 else 0)
    counts = (len(rings) - 1, len(edge_rings) - 1, len(poly0.holes), len(polyk.holes), len(cpoly.holes), len(cp.holes) + n_user - len(holes))
    if any(c != n_user for c in counts):
        return 'HOLES:%s' % ','.join(map(str, counts)) + f':expected-{n_user}'
    # GeoPolygon's own point-in-polygon on an outline that crosses the antimeridian is C01's subject, not judged here
    # (the drawn rings themselves are: exact even-odd test in the plane un-wrapped around the centre)
    lons = [c.longitude for c in rings[0]]
    straddles = max(lons) - min(lons) > 180

    def member(poly, c):
        return '?' if straddles else ('T' if poly.contains_coordinate(c) else 'F')
    out = []
    for q in qs:
        c = C(*q)
        out.append(''.join((
            'T' if shape.contains_coordinate(c) else 'F',
            member(poly0, c),
            member(polyk, c),
            _even_odd(rings, v[0], q),
            _even_odd(edge_rings, v[0], q),
            'T' if cp.contains_coordinate(c) else 'F',
            member(cpoly, c))))
    return ' '.join(out)


def hole_truth(hk, h, q, ref):
    """'T' well inside the hole, 'F' well outside, '?' within 25 % of its size of its boundary (the hole is drawn as a k-gon)"""
    if hk in ('c', 'e'):
        d = G.gc_dist(h[0], h[1], q[0], q[1])
        r = h[2] if hk == 'c' or d < 1e-6 else ell_r(h[2], h[3], math.radians(G.azimuth(h[0], h[1], q[0], q[1]) - h[4]))[0]
        return 'T' if d < 0.55 * r else ('F' if d > 1.25 * r else '?')
    if hk == 'b':
        w, n, e, s_ = h[0], h[1], h[2], h[3]
        x, y = _unwrap(ref, q[0]), q[1]
        w, e = _unwrap(ref, w), _unwrap(ref, e)
        mx, my = 0.25 * (e - w), 0.25 * (n - s_)
        if w + mx < x < e - mx and s_ + my < y < n - my:
            return 'T'
        return 'F' if (x < w - mx or x > e + mx or y < s_ - my or y > n + my) else '?'
    pts = [(_unwrap(ref, h[i]), h[i + 1]) for i in range(0, len(h), 2)]
    cx, cy = sum(p[0] for p in pts) / len(pts), sum(p[1] for p in pts) / len(pts)
    x, y = _unwrap(ref, q[0]), q[1]

    def scaled(f):
        ring = [(cx + f * (p[0] - cx), cy + f * (p[1] - cy)) for p in pts]
        return pip_exact(ring + [ring[0]], (x, y))
    if scaled(0.75) == 'T':
        return 'T'
    return 'F' if scaled(1.25) == 'F' else '?'


def spec_forms(tokens):
    """definition: inside the curve (judged only well away from it: the drawn forms are k-gons) and in no user hole"""
    kind, v, k, holes, qs = parse_forms(tokens)
    kk = k or default_k({'C': 'circle', 'E': 'ellipse', 'R': 'ring'}[kind], v + [0])
    shrink = math.cos(math.pi / max(kk, 3)) * 0.97       # inscribed k-gon, 3 % for the planar edges
    ering = None
    if kind == 'E':
        # an ellipse's k-gon (vertices at equal polar angles) cuts deep next to the tips of the major axis: judge only
        # points inside the oracle's own k-gon shrunk by 10 % or outside it grown by 10 % (about the centre)
        pts = [G.destination(v[0], v[1], 2 * math.pi / kk * i + math.radians(v[4]), ell_r(v[2], v[3], 2 * math.pi / kk * i)[0])
               for i in range(kk, -1, -1)]
        ering = [(_unwrap(v[0], p_[0]) - v[0], p_[1] - v[1]) for p_ in pts]
    out = []
    for q in qs:
        d = G.gc_dist(v[0], v[1], q[0], q[1])
        az = G.azimuth(v[0], v[1], q[0], q[1]) if d > 1e-3 else 0.0
        if ering is not None:
            rel = (_unwrap(v[0], q[0]) - v[0], q[1] - v[1])
            hi = ell_r(v[2], v[3], math.radians(az - v[4]))[0]
            deep = pip_exact([(0.9 * x, 0.9 * y) for x, y in ering], rel) == 'T'
            far = pip_exact([(1.1 * x, 1.1 * y) for x, y in ering], rel) == 'F'
            if not ((deep and d < hi * 0.999) or (far and d > hi * 1.001)):
                out.append('?')
                continue
        if kind == 'C':
            lo, hi = 0.0, v[2]
        elif kind == 'E':
            lo, hi = 0.0, ell_r(v[2], v[3], math.radians(az - v[4]))[0]
        else:
            lo, hi = v[2], v[3]
        if ering is None and (lo * shrink * 0.999 < d < lo * 1.03 + 0.05 or hi * shrink < d < hi * 1.03 + 0.05):
            out.append('?')
            continue
        ins = lo <= d < hi
        if kind == 'R' and v[5] - v[4] < 360:
            margin = 1.5 + math.degrees(math.pi / max(kk, 3)) * 0.0
            da, db = G.circ_diff(az, v[4]), G.circ_diff(az, v[5])
            if d < 1.0 or min(abs(da), abs(db)) < margin or (v[4] == 0 and abs(G.circ_diff(az, 0.0)) < margin):
                out.append('?')
                continue
            ins = ins and v[4] <= az <= v[5]
        ht = [hole_truth(hk, h, q, v[0]) for hk, h in holes]
        if '?' in ht:
            out.append('?')
        else:
            out.append('T' if ins and 'T' not in ht else 'F')
    return ''.join(out)


def why_forms(a, s):
    """`s`: one truth character per query; `a`: one word of len(FORMS) characters per query"""
    if is_err(a):
        return 'raises'
    if a.startswith('HOLES'):
        return 'hole-count-differs-between-forms'
    words = a.split()
    if len(words) != len(s):
        return 'spec-error'
    for w, t in zip(words, s):
        if t == '?':
            continue
        for form, ch in zip(FORMS, w):
            if ch != '?' and ch != t:
                return f'{form}-disagrees-with-definition'
    return None


def impl(line):
    from geostructures import GeoCircle, GeoEllipse, GeoRing
    cmd, *a = line.split()
    op = cmd.split('.', 1)[1]
    if op == 'forms':
        return impl_forms(a)
    v = floats(a)
    if op in ('circle', 'pipC'):
        mk, k, size = (lambda hs: GeoCircle(C(v[0], v[1]), v[2], holes=hs)), v[3], v[2]
    elif op in ('ellipse', 'pipE'):
        mk, k, size = (lambda hs: GeoEllipse(C(v[0], v[1]), v[2], v[3], v[4], holes=hs)), v[5], v[2]
    elif op in ('ring', 'lrings', 'pipR'):
        mk, k, size = (lambda hs: GeoRing(C(v[0], v[1]), v[2], v[3], v[4], v[5], holes=hs)), v[6], v[3]
    if op in ('circle', 'ellipse', 'ring'):
        # the vertices do not depend on the holes; the shape is built from a caller-owned list with one hole and put
        # through the observe - mutate - observe sequence before its ring is reported
        centre = C(v[0], v[1])
        shape, w = history(mk, [GeoCircle(centre, size / 8)], GeoCircle(centre, size * 3), _kw(k),
                           [centre, C(v[0], min(89.0, v[1] + 0.0001))], exports=False)
        if w:
            return w
        pts = shape.bounding_coords(**_kw(k))
        # the polygon form carries exactly this ring
        rings = shape.linear_rings(**_kw(k))
        poly = shape.to_polygon(**_kw(k))
        full_ring = op == 'ring' and v[4] == 0 and v[5] == 360
        want0 = pts + [pts[0]] if full_ring else pts
        if list(rings[0]) != list(want0):
            return 'MISMATCH:linear_rings'
        if list(poly.outline) != list(want0) and list(poly.outline) != list(want0)[::-1]:
            return 'MISMATCH:to_polygon'
        return _coords(pts)
    if op in ('lrings', 'pipC', 'pipE', 'pipR'):
        shape = mk([])
    if op == 'lrings':
        return ' | '.join(_coords(r) for r in shape.linear_rings(**_kw(k)))
    if op in ('inC', 'inE', 'inR'):
        if op == 'inC':
            hs, i = _holes(v, 4, int(v[3]))
            mk, size = (lambda h: GeoCircle(C(v[0], v[1]), v[2], holes=h)), v[2]
        elif op == 'inE':
            hs, i = _holes(v, 6, int(v[5]))
            mk, size = (lambda h: GeoEllipse(C(v[0], v[1]), v[2], v[3], v[4], holes=h)), v[2]
        else:
            hs, i = _holes(v, 7, int(v[6]))
            mk, size = (lambda h: GeoRing(C(v[0], v[1]), v[2], v[3], v[4], v[5], holes=h)), v[3]
        qs = [C(v[j], v[j + 1]) for j in range(i, len(v), 2)]
        # re-observed after every interference: a stride of the queries plus every query placed around a hole
        sub = qs[::7] + qs[len(qs) - 12 * len(hs):] if hs else qs[::7]
        shape, w = history(mk, hs, GeoCircle(C(v[0], v[1]), max(size, 1.0) * 3), {}, sub)
        if w:
            return w
        return ''.join('T' if shape.contains_coordinate(q) else 'F' for q in qs)
    elif op in ('pipC', 'pipE', 'pipR'):
        # harness-only: exact even-odd test of the query points against the ring the shape generates
        i = {'pipC': 4, 'pipE': 6, 'pipR': 7}[op]
        rings = shape.linear_rings(**_kw(k))
        ref = v[0]
        rr = [[(_unwrap(ref, c.longitude), c.latitude) for c in r] for r in rings]
        out = []
        for j in range(i, len(v), 2):
            q = (_unwrap(ref, v[j]), v[j + 1])
            res = [pip_exact(r, q) for r in rr]
            out.append('?' if '?' in res else ('T' if res[0] == 'T' and all(x == 'F' for x in res[1:]) else 'F'))
        return ''.join(out)
    elif op == 'rat':
        return enc(GeoEllipse(C(0.0, 0.0), v[0], v[1], 0.0)._radius_at_angle(v[2]))
    raise ValueError('unknown op ' + op)


def _unwrap(ref, lon):
    d = lon - ref
    return lon - 360 if d > 180 else (lon + 360 if d < -180 else lon)


def pip_exact(ring, q):
    """even-odd rule, exact: the sign of each cross product is taken from binary64 arithmetic when it is
    well clear of its rounding error and from rational arithmetic otherwise; '?' on the boundary"""
    x, y = q
    inside = False
    n = len(ring)
    for i in range(n - 1):
        (x1, y1), (x2, y2) = ring[i], ring[i + 1]
        if (y1 > y) == (y2 > y) and not (min(y1, y2) <= y <= max(y1, y2)):
            continue
        a, b = (x2 - x1) * (y - y1), (y2 - y1) * (x - x1)
        cr = a - b
        if abs(cr) <= 1e-12 * (abs(a) + abs(b)) + 1e-300:
            fx, fy, fx1, fy1, fx2, fy2 = map(Fraction, (x, y, x1, y1, x2, y2))
            cr = (fx2 - fx1) * (fy - fy1) - (fy2 - fy1) * (fx - fx1)
            if cr == 0 and min(x1, x2) <= x <= max(x1, x2) and min(y1, y2) <= y <= max(y1, y2):
                return '?'
        if (y1 > y) != (y2 > y) and ((cr > 0) == (y2 > y1)):
            inside = not inside
    return 'T' if inside else 'F'


# --------------------------------------------------------------------------------------------------
# comparators impl vs model


def cmp_ring(a, m):
    """every implementation vertex is a correct 1e-7 degree rounding of the model's un-rounded vertex"""
    if is_err(a) or is_err(m) or a.startswith('MISMATCH') or a.startswith('MUTATED'):
        return a == m
    ra, rm = a.split(' | '), m.split(' | ')
    if len(ra) != len(rm):
        return False
    for sa, sm in zip(ra, rm):
        x, y = parse(sa), parse(sm)
        if len(x) != len(y) or not all(point_close(x[i], x[i + 1], y[i], y[i + 1], RND7) for i in range(0, len(x), 2)):
            return False
    return True


def cmp_rat(a, m):
    if is_err(a) or is_err(m):
        return a == m
    (x,), (y,) = parse(a), parse(m)
    return abs(x - y) <= 1e-9 * max(abs(x), abs(y))


# --------------------------------------------------------------------------------------------------
# the property (independent oracle)


def ell_r(a, b, th):
    """polar form of x^2/a^2 + y^2/b^2 = 1 measured from the major axis, and dR/dtheta"""
    s, c = math.sin(th), math.cos(th)
    q = a * a * s * s + b * b * c * c
    r = a * b / math.sqrt(q)
    dr = -a * b * (a * a - b * b) * s * c / (q * math.sqrt(q))
    return r, dr


def default_k(op, v):
    if op in ('circle', 'pipC'):
        return 36
    if op in ('ellipse', 'pipE'):
        return math.ceil(36 * v[2] / v[3])
    return max(math.ceil((v[5] - v[4]) / 10), 10)


def _monotone_turn(bs, sign, slack):
    """bearings proceed in one rotational sense (a step may fall back by at most `slack` degrees: the 2 cm
    granted to every generated coordinate, seen from the centre); returns the total turn or None"""
    tot = 0.0
    for i in range(len(bs) - 1):
        d = G.circ_diff(bs[i + 1], bs[i])
        if d * sign < -slack:
            return None
        tot += d
    return tot


def why_ring(a, s):
    """count, every vertex a canonical coordinate within 2 cm of the defined curve (distance to the curve),
    angular order, closure; `s` is the protocol line itself"""
    if is_err(a):
        return 'raises'
    if a.startswith('MISMATCH'):
        return a.split(':')[1] + '-differs-from-bounding_coords'
    if a.startswith('MUTATED'):
        return 'observations-changed-after:' + a.split(':')[1]
    cmd, *t = s.split()
    op = cmd.split('.', 1)[1]
    v = floats(t)
    x = parse(a)
    pts = [(x[i], x[i + 1]) for i in range(0, len(x), 2)]
    clon, clat = v[0], v[1]
    if any(not (-180.0 <= p[0] < 180.0 and -90.0 <= p[1] <= 90.0) for p in pts):
        return 'not-canonical'
    k = int(v[-1]) or default_k(op, v)
    dist = [G.gc_dist(clon, clat, p[0], p[1]) for p in pts]
    if op == 'circle':
        if len(pts) != k + 1:
            return 'count'
        if any(abs(d - v[2]) > 0.02 for d in dist):
            return 'off-curve'
        brg = [G.azimuth(clon, clat, p[0], p[1]) for p in pts]
        tot = _monotone_turn(brg, -1, math.degrees(0.02 / v[2]))
        if tot is None or abs(tot + 360.0) > 1e-3 + math.degrees(0.04 / v[2]):
            return 'angular-order'
        return None if G.gc_dist(*pts[0], *pts[-1]) <= 0.02 else 'not-closed'
    if op == 'ellipse':
        a_, b_, rot = v[2], v[3], v[4]
        if len(pts) != k + 1:
            return 'count'
        brg = [G.azimuth(clon, clat, p[0], p[1]) for p in pts]
        for d, bg in zip(dist, brg):
            r, dr = ell_r(a_, b_, math.radians(bg - rot))
            if abs(d - r) / math.sqrt(1 + (dr / r) ** 2) > 0.02:
                return 'off-curve'
        tot = _monotone_turn(brg, -1, math.degrees(0.02 / b_))
        if tot is None or abs(tot + 360.0) > 1e-3 + math.degrees(0.04 / b_):
            return 'angular-order'
        return None if G.gc_dist(*pts[0], *pts[-1]) <= 0.02 else 'not-closed'
    # ring / wedge
    inner, outer, amin, amax = v[2], v[3], v[4], v[5]
    full = amin == 0 and amax == 360
    if full:
        if len(pts) != k + 1:
            return 'count'
        arcs = [(pts, dist, outer, -1)]
    else:
        if len(pts) != 2 * (k + 1) + 1:
            return 'count'
        arcs = [(pts[:k + 1], dist[:k + 1], outer, -1), (pts[k + 1:2 * k + 2], dist[k + 1:2 * k + 2], inner, +1)]
        if G.gc_dist(*pts[0], *pts[-1]) > 0.02:
            return 'not-closed'
    for ps, ds, rad, sign in arcs:
        if any(abs(d - rad) > 0.02 for d in ds):
            return 'off-curve'
        if rad < 1.0:
            continue          # inner radius 0: the arc is the centre itself, no bearing
        brg = [G.azimuth(clon, clat, p[0], p[1]) for p in ps]
        tot = _monotone_turn(brg, sign, math.degrees(0.02 / rad))
        slack = 1e-3 + math.degrees(0.04 / rad)
        if tot is None or abs(abs(tot) - (amax - amin)) > slack:
            return 'angular-order'
        lo, hi = (brg[-1], brg[0]) if sign < 0 else (brg[0], brg[-1])
        if abs(G.circ_diff(lo, amin)) > slack or abs(G.circ_diff(hi, amax)) > slack:
            return 'angle-range'
    if full and G.gc_dist(*pts[0], *pts[-1]) > 0.02:
        return 'not-closed'
    return None


def _hole_band(q, hs):
    """(in some hole, in the 1e-6 band of some hole's boundary)"""
    inh = band = False
    for (hl, ha, hr) in hs:
        d = G.gc_dist(q[0], q[1], hl, ha)
        if abs(d - hr) <= 1e-6 * hr + 1e-6:
            band = True
        elif d < hr:
            inh = True
    return inh, band


def truth(kind, v, hs, q):
    """'T' / 'F' / '?' (inside the recorded exclusion band around a boundary)"""
    clon, clat = v[0], v[1]
    d = G.gc_dist(clon, clat, q[0], q[1])
    inh, band = _hole_band(q, hs)
    if band:
        return '?'
    if kind == 'C':
        r = v[2]
        if abs(d - r) <= 1e-6 * r + 1e-6:
            return '?'
        ins = d < r
    elif kind == 'E':
        a_, b_, rot = v[2], v[3], v[4]
        if d < 1e-3:
            return '?'        # bearing undefined at the centre
        r, dr = ell_r(a_, b_, math.radians(G.azimuth(clon, clat, q[0], q[1]) - rot))
        # the implementation rounds the bearing to 1e-5 deg before evaluating the radius
        if abs(d - r) <= (2e-6 + abs(dr / r) * math.radians(1.5e-5)) * r + 1e-6:
            return '?'
        ins = d < r
    else:
        inner, outer, amin, amax = v[2], v[3], v[4], v[5]
        if abs(d - inner) <= 1e-6 * inner + 1e-6 or abs(d - outer) <= 1e-6 * outer + 1e-6:
            return '?'
        ins = inner < d < outer
        if amax - amin < 360:
            if d < 1e-3:
                return '?'
            az = G.azimuth(clon, clat, q[0], q[1])
            slack = 2e-5 + math.degrees(1e-6 / d)
            if min(abs(G.circ_diff(az, amin)), abs(G.circ_diff(az, amax)), abs(G.circ_diff(az, 0.0))) <= slack:
                return '?'
            ins = ins and amin <= az <= amax
    return 'T' if ins and not inh else 'F'


def _parse_in(op, v):
    i0 = {'inC': 3, 'inE': 5, 'inR': 6}[op]
    nh = int(v[i0])
    hs = [(v[i0 + 1 + 3 * j], v[i0 + 2 + 3 * j], v[i0 + 3 + 3 * j]) for j in range(nh)]
    i = i0 + 1 + 3 * nh
    return hs, [(v[j], v[j + 1]) for j in range(i, len(v), 2)]


def chord_bands(op, v):
    """
    chord error of the polygon form, from an *oracle* ring (oracle destinations at the documented bearings):
    radial gap between the planar mid-point of each edge and the curve (this includes the difference between a
    straight lon/lat edge and the geodesic chord), and for a wedge the lateral drift of its two straight sides.
    """
    clon, clat = v[0], v[1]
    k = int(v[{'pipC': 3, 'pipE': 5, 'pipR': 6}[op]]) or default_k(op, v)

    def mid_gap(p, q, rfun):
        m = ((_unwrap(clon, p[0]) + _unwrap(clon, q[0])) / 2, (p[1] + q[1]) / 2)
        d = G.gc_dist(clon, clat, m[0], m[1])
        return abs(rfun(G.azimuth(clon, clat, m[0], m[1])) - d)

    if op == 'pipC':
        ring = [G.destination(clon, clat, 2 * math.pi / k * i, v[2]) for i in range(k, -1, -1)]
        e = max(mid_gap(ring[i], ring[i + 1], lambda az: v[2]) for i in range(k))
        return e, 0.0
    if op == 'pipE':
        a_, b_, rot = v[2], v[3], v[4]
        ring = [G.destination(clon, clat, 2 * math.pi / k * i + math.radians(rot), ell_r(a_, b_, 2 * math.pi / k * i)[0])
                for i in range(k, -1, -1)]
        e = max(mid_gap(ring[i], ring[i + 1], lambda az: ell_r(a_, b_, math.radians(az - rot))[0]) for i in range(k))
        return e, 0.0
    inner, outer, amin, amax = v[2], v[3], v[4], v[5]
    angs = [math.radians(amin + (amax - amin) / k * i) for i in range(k, -1, -1)]
    e = 0.0
    for rad in (outer, inner):
        if rad < 1.0:
            continue
        ring = [G.destination(clon, clat, t, rad) for t in angs]
        e = max(e, max(mid_gap(ring[i], ring[i + 1], lambda az: rad) for i in range(k)))
    side = 0.0
    if not (amin == 0 and amax == 360):
        for ang in (amin, amax):
            p, q = G.destination(clon, clat, math.radians(ang), outer), G.destination(clon, clat, math.radians(ang), max(inner, 1e-3))
            for f in (0.25, 0.5, 0.75):
                m = (_unwrap(clon, p[0]) * f + _unwrap(clon, q[0]) * (1 - f), p[1] * f + q[1] * (1 - f))
                d = G.gc_dist(clon, clat, m[0], m[1])
                side = max(side, d * abs(math.sin(math.radians(G.circ_diff(G.azimuth(clon, clat, m[0], m[1]), ang)))))
    return e, side


def spec(line):
    cmd, *t = line.split()
    op = cmd.split('.', 1)[1]
    if op == 'forms':
        return spec_forms(t)
    v = floats(t)
    if op in ('circle', 'ellipse', 'ring'):
        return line
    if op == 'rat':
        return enc(ell_r(v[0], v[1], v[2])[0])
    if op in ('inC', 'inE', 'inR'):
        hs, qs = _parse_in(op, v)
        return ''.join(truth(op[2], v, hs, q) for q in qs)
    if op in ('pipC', 'pipE', 'pipR'):
        i = {'pipC': 4, 'pipE': 6, 'pipR': 7}[op]
        qs = [(v[j], v[j + 1]) for j in range(i, len(v), 2)]
        e, side = chord_bands(op, v)
        e, side = 1.5 * e + 0.05, 1.5 * side + 0.05
        clon, clat = v[0], v[1]
        out = []
        for q in qs:
            tr = truth(op[3], v, [], q)
            d = G.gc_dist(clon, clat, q[0], q[1])
            if tr != '?':
                az = G.azimuth(clon, clat, q[0], q[1]) if d > 1e-3 else 0.0
                if op == 'pipC':
                    near = abs(d - v[2]) <= e
                elif op == 'pipE':
                    r, dr = ell_r(v[2], v[3], math.radians(az - v[4]))
                    near = abs(d - r) <= e * math.sqrt(1 + (dr / r) ** 2)
                else:
                    near = abs(d - v[2]) <= e or abs(d - v[3]) <= e
                    if not (v[4] == 0 and v[5] == 360):
                        for ang in (v[4], v[5]):
                            dd = G.circ_diff(az, ang)
                            if abs(dd) < 90 and d * abs(math.sin(math.radians(dd))) <= side:
                                near = True
                        if d <= side + e:
                            near = True
                if near:
                    tr = '?'
            out.append(tr)
        return ''.join(out)
    return None


def ok_flags(a, s):
    if is_err(a):
        return False
    return len(a) == len(s) and all(y == '?' or x == '?' or x == y for x, y in zip(a, s))


def ok_ring(a, s):
    return why_ring(a, s) is None


def ok_rat(a, s):
    return cmp_rat(a, s)


SITE = {'circle': 'GeoCircle.bounding_coords', 'ellipse': 'GeoEllipse.bounding_coords', 'ring': 'GeoRing.bounding_coords',
        'inC': 'GeoCircle.contains_coordinate', 'inE': 'GeoEllipse.contains_coordinate', 'inR': 'GeoRing.contains_coordinate',
        'pipC': 'GeoCircle.linear_rings', 'pipE': 'GeoEllipse.linear_rings', 'pipR': 'GeoRing.linear_rings',
        'rat': 'GeoEllipse._radius_at_angle', 'lrings': 'GeoRing.linear_rings'}


def op_of(line):
    return line.split(' ', 1)[0].split('.', 1)[1]


def finding_key(line, a, s):
    op = op_of(line)
    if op == 'forms':
        kind = {'C': 'GeoCircle', 'E': 'GeoEllipse', 'R': 'GeoRing'}[line.split()[1]]
        return f'{kind}/with-holes:{why_forms(a, s)}'
    if op in ('circle', 'ellipse', 'ring'):
        return f'{SITE[op]}/{why_ring(a, s)}'
    if is_err(a):
        return f'{SITE[op]}/raises'
    if a.startswith('MUTATED'):
        return f'{SITE[op].split(".")[0]}/observations-changed-after:{a.split(":")[1]}'
    if op.startswith('pip'):
        return f'{SITE[op]}/ring-disagrees-with-analytic-test'
    return f'{SITE[op]}/value'


def impl_for(_line):
    return impl


def spec_for(line):
    op = op_of(line)
    ok = ok_ring if op in ('circle', 'ellipse', 'ring') else (ok_rat if op == 'rat' else ok_flags)
    if op == 'forms':
        ok = lambda a, s: why_forms(a, s) is None  # noqa: E731

    def f(ln):
        s = spec(ln)
        if s is None:
            return None
        try:
            a = impl(ln)
        except Exception as e:  # noqa
            a = common.err_name(e)
        return a if ok(a, s) else (('demands: ' + str(why_ring(a, s))) if ok is ok_ring else s)
    return f


# --------------------------------------------------------------------------------------------------
# generators

KS = [0, 0, 3, 4, 5, 7, 12, 36, 37, 100, 360]
FACTORS = [0.5, 0.9, 0.999, 1 - 3e-6, 1 + 3e-6, 1.001, 1.1, 2.0]


def gen_center(rng):
    lat = rng.choice([rng.uniform(-75, 75), rng.uniform(-75, 75), 75.0, -75.0, 0.0])
    r = rng.random()
    if r < 0.3:
        lon = C(rng.choice([-1, 1]) * (180 - rng.uniform(0, 0.5)), 0).longitude
    elif r < 0.35:
        lon = rng.choice([-180.0, 0.0])
    else:
        lon = rng.uniform(-180, 180)
    return lon, lat


def gen_k(rng):
    return rng.choice(KS + [rng.randrange(3, 361)])


def log_uniform(rng, lo, hi):
    return 10 ** rng.uniform(math.log10(lo), math.log10(hi))


def place(c, az_deg, d):
    lon, lat = G.destination(c[0], c[1], math.radians(az_deg), d)
    p = C(lon, lat)
    return p.longitude, p.latitude


def gen_holes(rng, c, rfun, n):
    hs = []
    for _ in range(n):
        az = rng.uniform(0, 360)
        r = rfun(az)
        hc = place(c, az, r * rng.uniform(0.3, 0.7))
        hs.append((hc[0], hc[1], r * rng.uniform(0.05, 0.2)))
    return hs


def gen_queries(rng, c, bounds_at, hs, nb, extra_az=()):
    """points at FACTORS x every boundary distance on nb bearings (+ the wedge's own side bearings), and
    around every hole"""
    qs = []
    azs = [rng.uniform(0, 360) for _ in range(nb)] + list(extra_az)
    for az in azs:
        for rb in bounds_at(az):
            if rb <= 0:
                continue
            for f in FACTORS:
                qs.append(place(c, az, rb * f))
    for (hl, ha, hr) in hs:
        for _ in range(3):
            az = rng.uniform(0, 360)
            for f in (0.5, 1 - 3e-6, 1 + 3e-6, 1.5):
                qs.append(place((hl, ha), az, hr * f))
    return qs



def gen_forms(rng):
    """one curved shape with 1-3 user holes (circle / ellipse / box / polygon) on its solid part and query points well
    inside each hole, just around it, on the solid part, in a ring's inner disc and outside"""
    r0 = rng.random()
    lat = rng.uniform(-70, 70)
    lon = rng.uniform(-179, 179) if r0 > 0.15 else C(rng.choice([-1, 1]) * (180 - rng.uniform(0, 0.3)), 0).longitude
    c = (lon, lat)
    k = rng.choice([0, 0, 8, 12, 24, 36, 90])
    kind = rng.choice('CERR')
    size = log_uniform(rng, 50, 3e4)
    if kind == 'C':
        v = [lon, lat, size]
        kk = k or 36
    elif kind == 'E':
        ratio = rng.uniform(1, 4)
        k = rng.choice([0, 0, 36, 90, 12 * math.ceil(ratio)])
        v = [lon, lat, size, size / ratio, rng.uniform(0, 360)]
        kk = k or math.ceil(36 * ratio)
    else:
        inner = rng.choice([0.0, size * rng.uniform(0.1, 0.45)])
        if rng.random() < 0.5:
            amin, amax = 0.0, 360.0
        else:
            amin = rng.choice([0.0, rng.uniform(0, 250)])
            amax = rng.choice([360.0, min(360.0, amin + rng.uniform(60, 300))])
        v = [lon, lat, inner, size, amin, amax]
        kk = k or max(math.ceil((amax - amin) / 10), 10)
    shrink = math.cos(math.pi / kk) * 0.97

    def solid_range(az):
        if kind == 'C':
            return 0.0, v[2] * shrink
        if kind == 'E':
            return 0.0, ell_r(v[2], v[3], math.radians(az - v[4]))[0] * shrink
        return v[2] * 1.03 + 0.05, v[3] * shrink
    full = kind != 'R' or (v[4], v[5]) == (0.0, 360.0)
    span = 360.0 if full else v[5] - v[4]
    nh = rng.choice([1, 1, 2, 3])
    base = rng.uniform(0, 360)
    holes, qs = [], []
    for j in range(nh):
        az = (base + 360.0 / nh * j) % 360 if full else v[4] + span * (j + 0.5) / nh
        lo, hi = solid_range(az)
        dh = lo + (hi - lo) * rng.uniform(0.45, 0.6)
        width = min(hi - lo, math.radians(span / nh) * dh if not full or nh > 1 else hi - lo)
        if not full:
            width = min(width, math.radians(span / nh - 3.0) * dh)
        rh = 0.16 * width
        if rh < 1.0:
            continue
        hc = G.destination(lon, lat, math.radians(az), dh)
        near_am = abs(abs(hc[0]) - 180) < 2 * math.degrees(rh / G.R_EARTH) / max(math.cos(math.radians(hc[1])), 0.1) + 1e-3
        hk = rng.choice('cebp') if not near_am else 'c'
        if hk == 'c':
            h = [hc[0], hc[1], rh]
        elif hk == 'e':
            h = [hc[0], hc[1], rh, rh * rng.uniform(0.5, 1.0), rng.uniform(0, 360)]
        elif hk == 'b':
            dy = math.degrees(rh / G.R_EARTH) * 0.7
            dx = dy / math.cos(math.radians(hc[1]))
            h = [hc[0] - dx, hc[1] + dy, hc[0] + dx, hc[1] - dy]
        else:
            n = rng.randrange(3, 7)
            t0 = rng.uniform(0, 360)
            pts = [G.destination(hc[0], hc[1], math.radians(t0 - 360.0 / n * i), rh) for i in range(n)]
            h = [x for p_ in pts for x in p_]
        holes.append((hk, h))
        # well inside the hole (centre and 4 points at 30 % of its size), and just around it on the solid part
        qs.append(hc)
        for t in (0, 90, 180, 270):
            qs.append(G.destination(hc[0], hc[1], math.radians(t + az), 0.3 * rh * (0.5 if hk == 'e' else 1.0)))
            qs.append(G.destination(hc[0], hc[1], math.radians(t + az), 1.6 * rh))
    # the solid part, the inner disc, outside; for wedges also outside the angle range
    for _ in range(10):
        az = rng.uniform(0, 360) if full else v[4] + span * rng.uniform(0.05, 0.95)
        lo, hi = solid_range(az)
        qs.append(G.destination(lon, lat, math.radians(az), lo + (hi - lo) * rng.uniform(0.05, 0.95)))
        qs.append(G.destination(lon, lat, math.radians(az), hi / shrink * rng.choice([1.15, 1.5, 2.5])))
        if kind == 'R' and v[2] > 0:
            qs.append(G.destination(lon, lat, math.radians(az), v[2] * shrink * rng.uniform(0.05, 0.9)))
        if not full and span < 340:
            qs.append(G.destination(lon, lat, math.radians(v[5] + (360 - span) * rng.uniform(0.1, 0.9)), (lo + hi) / 2))
    qs.append(c)
    head = f'{kind} {enc(*v, k)}'
    hole_txt = ' | '.join(f'{hk} {enc(*h)}' for hk, h in holes)
    qtxt = 'Q ' + enc(*[x for q in qs for x in (C(*q).longitude, C(*q).latitude)])
    full_tag = '' if kind != 'R' else (':full' if full else ':wedge') + (':inner=0' if v[2] == 0 else '')
    tag = f'{kind}{full_tag}:holes={"".join(sorted(hk for hk, _ in holes)) or "none"}:k={"default" if k == 0 else k}'
    return ' | '.join(x for x in (f'cv.forms {head}', hole_txt, qtxt) if x), tag


def check(run):
    run.prove(MODULE, THEOREMS)
    run.source_tie(['SrcCurved'], 'GeoVerif.Props.C03Src',
                   ['GV.C03Src.' + t for t in ('containsCircle_eq', 'containsEllipse_eq', 'containsRing_eq')])
    # the vertex generators themselves (`bounding_coords`, `_radius_at_angle`, `_draw_bounds`) and the analytic bounds,
    # translated from the text and proved equal to Model/Sphere's rings for every destination function
    run.source_tie(['SrcCurvedGen'], 'GeoVerif.Props.C03SrcGen', ['GV.C03SrcGen.' + t for t in (
        'radiusAtAngle_eq', 'circle_loop_eq', 'circleRing_eq', 'ellipse_loop_eq', 'ellipseRing_eq', 'ring_loop_eq', 'ringArcs_eq',
        'wedgeRing_eq', 'circleBounds_eq', 'ellipseBounds_eq', 'circleRing_eq_model', 'ellipseRing_eq_model', 'ringArcs_eq_model',
        'wedgeRing_eq_model', 'circleRing_eq_calc', 'wedgeRing_eq_calc', 'circleRing_eq_raw', 'ellipseRing_eq_raw', 'wedgeRing_eq_raw',
        'src_circleRing_on_circle', 'src_ring_closed', 'src_ellipseRing_on_curve', 'src_wedgeRing_closed')])
    rng = run.rng
    kinds = {}
    n_shapes = run.scale(130, 3400)
    nb = run.scale(10, 16)

    ring_lines, in_lines, pip_lines, lr_lines = [], [], [], []
    for _ in range(n_shapes):
        c = gen_center(rng)
        k = gen_k(rng)
        tagk = 'k=default' if k == 0 else ('k<=5' if k <= 5 else 'k>5')
        am = '/antimeridian' if abs(abs(c[0]) - 180) <= 0.5 else ''
        # ---- circle
        r = log_uniform(rng, 10, 1e5)
        ln = f'cv.circle {enc(c[0], c[1], r, k)}'
        kinds[ln] = f'circle:{tagk}{am}'
        ring_lines.append(ln)
        hs = gen_holes(rng, c, lambda az: r, rng.choice([0, 0, 1, 2]))
        qs = gen_queries(rng, c, lambda az: [r], hs, nb)
        li = f'cv.inC {enc(c[0], c[1], r, len(hs), *[x for h in hs for x in h], *[x for q in qs for x in q])}'
        kinds[li] = f'circle:holes={len(hs)}{am}'
        in_lines.append(li)
        lp = f'cv.pipC {enc(c[0], c[1], r, k, *[x for q in qs for x in q])}'
        kinds[lp] = f'circle:{tagk}{am}'
        pip_lines.append(lp)
        # ---- ellipse
        ratio = rng.choice([1.0, rng.uniform(1, 10), rng.uniform(1, 3), 10.0])
        a_ = log_uniform(rng, 10 * ratio, 1e5)
        b_ = a_ / ratio
        rot = rng.choice([rng.uniform(0, 360), 0.0, 90.0, 45.0, -rng.uniform(0, 360), rng.uniform(360, 720)])
        ke = k if k * ratio <= 720 or k == 0 else gen_k(rng)
        ln = f'cv.ellipse {enc(c[0], c[1], a_, b_, rot, ke)}'
        kinds[ln] = f'ellipse:{tagk}:ratio{"=1" if ratio == 1 else ("<3" if ratio < 3 else ">=3")}{am}'
        ring_lines.append(ln)
        rfun = lambda az: ell_r(a_, b_, math.radians(az - rot))[0]  # noqa: E731
        hs = gen_holes(rng, c, rfun, rng.choice([0, 0, 1]))
        qs = gen_queries(rng, c, lambda az: [rfun(az)], hs, nb)
        li = f'cv.inE {enc(c[0], c[1], a_, b_, rot, len(hs), *[x for h in hs for x in h], *[x for q in qs for x in q])}'
        kinds[li] = f'ellipse:holes={len(hs)}{am}'
        in_lines.append(li)
        lp = f'cv.pipE {enc(c[0], c[1], a_, b_, rot, ke, *[x for q in qs for x in q])}'
        kinds[lp] = kinds[ln]
        pip_lines.append(lp)
        # ---- ring / wedge
        outer = log_uniform(rng, 20, 1e5)
        inner = rng.choice([outer * rng.uniform(0.1, 0.9), outer * rng.uniform(0.1, 0.9), 0.0])
        if inner and inner < 10:
            inner = 10.0
        w = rng.random()
        if w < 0.3:
            amin, amax = 0.0, 360.0
        elif w < 0.4:
            amin, amax = 0.0, rng.choice([rng.uniform(1, 359), 90.0, 180.0])
        elif w < 0.5:
            amin, amax = rng.choice([rng.uniform(1, 359), 270.0]), 360.0
        else:
            amin = rng.uniform(0, 358)
            amax = rng.uniform(amin + 1, 360)
        kr = k
        ln = f'cv.ring {enc(c[0], c[1], inner, outer, amin, amax, kr)}'
        wk = 'full' if (amin, amax) == (0.0, 360.0) else ('wedge-from-0' if amin == 0 else ('wedge-to-360' if amax == 360 else 'wedge'))
        kinds[ln] = f'ring:{wk}:{tagk}:inner{"=0" if inner == 0 else ">0"}{am}'
        ring_lines.append(ln)
        l2 = f'cv.lrings {enc(c[0], c[1], inner, outer, amin, amax, kr)}'
        kinds[l2] = kinds[ln]
        lr_lines.append(l2)
        mid = (amin + amax) / 2 if wk != 'full' else rng.uniform(0, 360)
        span = (amax - amin) / 2 if wk != 'full' else 180
        hs = []
        if inner > 0 and rng.random() < 0.4:
            az = mid + rng.uniform(-0.5, 0.5) * span
            hs = [(*place(c, az, (inner + outer) / 2), (outer - inner) * rng.uniform(0.05, 0.2))]
        extra = [] if wk == 'full' else [amin, amax, amin + 1e-4, amax - 1e-4, amin - 1e-4, amax + 1e-4, (amin + amax) / 2]
        qs = gen_queries(rng, c, lambda az: [inner, outer], hs, nb, extra)
        li = f'cv.inR {enc(c[0], c[1], inner, outer, amin, amax, len(hs), *[x for h in hs for x in h], *[x for q in qs for x in q])}'
        kinds[li] = f'ring:{wk}:holes={len(hs)}{am}'
        in_lines.append(li)
        lp = f'cv.pipR {enc(c[0], c[1], inner, outer, amin, amax, kr, *[x for q in qs for x in q])}'
        kinds[lp] = kinds[ln]
        pip_lines.append(lp)
        # two sibling wedges with the same sample count and a bit-equal angular extent but different start bearings,
        # drawn back to back: anything remembered per (k, extent) must not leak from one wedge to the next (C03-t1)
        if rng.random() < 0.5:
            sp = rng.randrange(5, 171)
            s1 = rng.randrange(0, 361 - sp)
            s2 = rng.choice([s for s in range(0, 361 - sp) if s != s1])
            for s in (s1, s2):
                for op, dest in (('cv.ring', ring_lines), ('cv.lrings', lr_lines)):
                    ls = f'{op} {enc(c[0], c[1], inner, outer, float(s), float(s + sp), kr)}'
                    kinds[ls] = f'ring:sibling-extent:{tagk}{am}'
                    dest.append(ls)

    # queries that sit *exactly* on a boundary in binary64 (the property's band excludes them; the model does not):
    # bearing 0.0 / 90.0 / 180.0 / 270.0 on a wedge's own side, distance 0.0 = inner radius 0, radius 0 circle
    for _ in range(run.scale(40, 400)):
        lon = rng.uniform(-179, 179)
        d = rng.uniform(0.001, 0.5)
        for (amin, amax, q, c) in ((0.0, 90.0, (lon, 10.0 + d), (lon, 10.0)), (0.0, 90.0, (lon + d, 0.0), (lon, 0.0)),
                                   (90.0, 180.0, (lon + d, 0.0), (lon, 0.0)), (90.0, 180.0, (lon, -10.0 - d), (lon, -10.0)),
                                   (180.0, 270.0, (lon, -d), (lon, 0.0)), (180.0, 270.0, (lon - d, 0.0), (lon, 0.0)),
                                   (270.0, 360.0, (lon - d, 0.0), (lon, 0.0))):
            li = f'cv.inR {enc(c[0], c[1], 0.0, 1e5, amin, amax, 0, q[0], q[1], c[0], c[1])}'
            kinds[li] = 'ring:exactly-on-boundary'
            in_lines.append(li)
        li = f'cv.inR {enc(lon, 20.0, 0.0, 500.0, 0.0, 360.0, 0, lon, 20.0)}'
        kinds[li] = 'ring:exactly-on-boundary'
        in_lines.append(li)
        li = f'cv.inC {enc(lon, 20.0, 0.0, 0, lon, 20.0)}'
        kinds[li] = 'circle:exactly-on-boundary'
        in_lines.append(li)

    def tagger(stream):
        return lambda ln, a: [f'{stream}:{kinds.get(ln, "-")}' + (':' + a if is_err(a) else '')]

    run.run_cases('ring-vertices', ring_lines, impl, spec, compare=cmp_ring, spec_compare=ok_ring,
                  known_key=finding_key, tag=tagger('ring'))
    run.run_cases('linear-rings', lr_lines, impl, None, compare=cmp_ring, tag=tagger('lrings'))

    def tag_in(ln, a):
        return [f'in:{kinds.get(ln, "-")}'] + ([f'in:answers:{ch}' for ch in set(a)] if not is_err(a) else ['in:' + a])
    out = run.run_cases('contains-analytic', in_lines, impl, spec, spec_compare=ok_flags, known_key=finding_key, tag=tag_in)
    nq = sum(len(o) for o in out if not is_err(o))
    nband = sum(spec(ln).count('?') for ln in in_lines[:50])
    run.note(f'contains-analytic: {nq} query points in {len(in_lines)} lines; {nband} of the first 50 lines\' queries fall in the '
             f'excluded boundary band (1e-6 relative; ellipse: + bearing rounding)')
    # radius-at-angle on its own
    rat = [f'cv.rat {enc(a_, a_ / q, th)}' for a_, q, th in
           ((log_uniform(rng, 10, 1e5), rng.uniform(1, 10), rng.uniform(-7, 7)) for _ in range(run.scale(300, 5000)))]
    run.run_cases('radius-at-angle', rat, impl, spec, compare=cmp_rat, spec_compare=ok_rat, known_key=finding_key)
    # harness-only: the generated ring encloses what the analytic test accepts, outside the chord-error band
    out = run.run_cases('np-ring-vs-analytic', pip_lines, impl, spec, model=False, spec_compare=ok_flags,
                        known_key=finding_key, tag=tagger('np-pip'))
    judged = sum(1 for ln, o in zip(pip_lines[:60], out[:60]) if not is_err(o) for ch in spec(ln) if ch != '?')
    run.note(f'np-ring-vs-analytic: {judged} of {sum(len(o) for o in out[:60] if not is_err(o))} query points of the first 60 lines '
             f'lie outside the chord-error band and are judged')

    # harness-only: curved shapes WITH user holes, every form must follow the definition (away from the drawn boundaries)
    f_lines = []
    for _ in range(run.scale(260, 6000)):
        ln, tg = gen_forms(rng)
        kinds[ln] = tg
        f_lines.append(ln)
    out = run.run_cases('np-forms-agree-with-holes', f_lines, impl, spec, model=False,
                        spec_compare=lambda a, s_: why_forms(a, s_) is None, known_key=finding_key, tag=tagger('np-forms'))
    sp = [spec(ln) for ln in f_lines[:80]]
    run.note(f'np-forms-agree-with-holes: {len(f_lines)} holed shapes x {len(FORMS)} forms; first 80 lines: '
             f'{sum(len(x) for x in sp)} query points, {sum(x.count("T") for x in sp)} on the solid part, '
             f'{sum(x.count("F") for x in sp)} in holes / inner disc / outside, {sum(x.count("?") for x in sp)} too close to a drawn boundary')

    return run.finish(
        rule='a case is one protocol line: one shape (centre |lat|<=75 incl. lon within 0.5 deg of +-180, radii 10 m..100 km, '
             'axis ratio 1..10, any rotation, wedge ranges in [0,360], k in {default,3..360}) with either its generated ring '
             '(k+1 .. 2k+3 vertices) or ~100-200 query points placed by the oracle at 0.5x..2x (incl. 1 +- 3e-6) of every '
             'boundary distance on 10-16 bearings, the wedge side bearings +-1e-4 deg and around the holes. distinct by line.',
        assumptions=['binary64/libm shared by CPython and Lean; float error and the 2 cm figure are measured, not proved',
                     'every ring-vertices / contains-analytic line builds its shape from a caller-owned hole list and is put through '
                     'an observe - mutate - observe sequence before it answers (ask twice; caller appends to / clears its list and '
                     'builds a second shape from it; holes / outline of the polygon form, the returned ring lists and the holes of a '
                     'copy are appended to / cleared; other shapes are queried): contains_*, bounding_coords, linear_rings, '
                     'to_polygon (outline, holes, membership), WKT and GeoJSON must not change (answer MUTATED:<step> otherwise)',
                     'vertex-on-curve is the distance to the curve (radial residual / sqrt(1 + (R\'/R)^2))',
                     'contains_* are judged outside a 1e-6 relative band around every boundary (ellipse: plus the effect of the '
                     '1e-5 deg bearing rounding; wedge sides: 2e-5 deg)',
                     'np-forms-agree-with-holes (no theorem): circle / ellipse / full ring / wedge with 1-3 user holes (circle, ellipse, box, '
                     'polygon) seen through contains_coordinate, to_polygon() and to_polygon(k=) membership, exact even-odd on linear_rings(k) '
                     'and on edges(k), copy() and its polygon form, plus the number of hole rings in every form; query points well inside each '
                     'hole, just around it, on the solid part, in the inner disc, outside the curve and outside the angle range; judged '
                     'where the oracle places the point clear of every drawn (k-gon) boundary',
                     'np-ring-vs-analytic (no theorem): exact even-odd test on the generated ring vs the oracle\'s analytic truth, '
                     'outside 1.5x the measured chord error (+5 cm) of an oracle-built ring'],
        checker_cmd='cd lean && lake build GeoVerif.Props.C03 && lake env lean .lake/audit/C03.lean  (#print axioms)')
