"""C17 — a Track is always chronological; slicing and speed filtering are exact.

Protocol lines (stream prefix `tr`):  tr.<op> <shape tokens> | <section> | ...   (tokens: see coll_util)
  tr.mk       <shapes>
  tr.add      <shapes> | <shapes2>
  tr.slice    <shapes> | <a> <b>            a, b = `-` (omitted) or an instant token
  tr.hasdup   <shapes>
  tr.convolve <shapes>
  tr.ftime    <shapes> | <st> <et>          µs since midnight
  tr.journeys <shapes> | <v> | D <lon1,lat1,lon2,lat2,d> ...
  tr.hist     <shapes> | <op args> | ... | D ...     ops: add / slice / fdt_inst / fdt_ival / fdt_bad / fprop /
                                                      convolve / journeys <v> / ftime
Distances are haversine distances of centroids *measured on the implementation* (exact rationals of the
floats); the model compares `dx/dt <= v` in exact arithmetic, so speed limits are only used when the float
comparison and the exact comparison agree for every pair of the track (checked at generation time).
Answers: `T <shape names>`; original shapes print as their id, shapes created by convolve as
`n[start:end;lon;lat;props]`.  `!UNSORTED` / `!TIMELESS` / `MUTATED` are appended by the implementation side
when the result is not chronological / holds a time-less shape / the receiver changed.
"""
from datetime import datetime, timedelta
from fractions import Fraction
import itertools

import common
from common import tf
import coll_util as U
from c06 import _disjoint

MODULE = 'GeoVerif.Props.C17'
THEOREMS = ['GV.Coll.Track.' + t for t in (
    'mk_rejects_timeless', 'mk_sorted', 'mk_stable', 'mk_stable_pair', 'mk_of_sorted', 'step_wf', 'run_wf',
    'track_sorted', 'add_perm', 'sliceKeep_iff', 'slice_exact', 'slice_unbounded', 'journeys_empty',
    'journeys_eq_kept', 'reach_iff', 'journeys_spec', 'journeys_chain', 'journeys_singleton', 'hasDup_iff', 'convolve_nodup',
    'convolve_id', 'convolve_members', 'convolve_keeps_unique', 'filter_on_track', 'filterByTime_sub')]

DAY = 86_400_000_000


# ---- implementation side ---------------------------------------------------------------------------

def _new_tok(x):
    lon, lat = x.centroid.to_float()[:2]
    props = U.show_props((k, U.tok_of_val(v)) for k, v in x._properties.items())
    return f'n[{U.us_of(x.dt.start)}:{U.us_of(x.dt.end)};{common.rat(lon)};{common.rat(lat)};{props}]'


def _names(idmap, xs):
    return ' '.join(str(idmap[id(x)]) if id(x) in idmap else _new_tok(x) for x in xs)


def _show(idmap, r):
    n = type(r).__name__
    tag = {'FeatureCollection': 'F', 'Track': 'T'}.get(n, '?' + n)
    s = _names(idmap, r.geoshapes)
    out = tag if not s else tag + ' ' + s
    if any(x.dt is None for x in r.geoshapes):
        return out + ' !TIMELESS'
    st = [x.start for x in r.geoshapes]
    if any(a > b for a, b in zip(st, st[1:])):
        out += ' !UNSORTED'
    return out + _views(r) + U.stale(r)


def _views(r):
    """len / iteration / truthiness / first / last / start / end all read the same member list"""
    g = r.geoshapes
    try:
        ok = len(r) == len(g) and [id(x) for x in r] == [id(x) for x in g] and bool(r) == bool(g)
        if g and hasattr(r, 'first'):
            ok = ok and r.first is g[0] and r.last is g[-1] and r.start == g[0].start and r.end == g[-1].end
    except Exception:  # noqa
        ok = False
    return '' if ok else ' !VIEWS'


CALLER = ('arg', 'arg.append', 'arg.reverse', 'arg.sortdesc', 'arg.pop', 'arg.clear', 'sib.append')


def _caller_step(sec, arg, idmap, keep):
    """what the *caller* does with the list object it handed to the constructor (no operation on the track)"""
    L = U.lib()
    op, a = sec[0], sec[1:]
    if op in ('arg.append', 'sib.append'):
        toks = [U.Tok(t) for t in a]
        shapes = [t.build() for t in toks]
        keep.append(shapes)
        idmap.update({id(s): t.id for s, t in zip(shapes, toks)})
        if op == 'arg.append':
            arg.extend(shapes)
        else:
            sib = L['Track'](arg)                 # a sibling built from the same list object, then tampered with
            keep.append(sib)
            sib.geoshapes.extend(shapes)
    elif op == 'arg.reverse':
        arg.reverse()
    elif op == 'arg.sortdesc':
        arg.sort(key=lambda x: x.start, reverse=True)
    elif op == 'arg.pop':
        arg.pop()
    elif op == 'arg.clear':
        arg.clear()


def _time(us):
    return (datetime.min + timedelta(microseconds=int(us))).time()


def _opt_dt(tok):
    return None if tok == '-' else U.mkdt(tok)


def _apply(tr, sec, idmap, keep):
    """one history operation on the real Track; `keep` holds references so object ids stay unique"""
    L = U.lib()
    op, a = sec[0], sec[1:]
    if op == 'add':
        toks = [U.Tok(t) for t in a]
        shapes = [t.build() for t in toks]
        keep.append(shapes)
        idmap.update({id(s): t.id for s, t in zip(shapes, toks)})
        return tr + L['Track'](list(shapes))
    if op == 'slice':
        return tr[slice(_opt_dt(a[0]), _opt_dt(a[1]))]
    if op == 'fdt_inst':
        return tr.filter_by_dt(U.mkdt(a[0]))
    if op == 'fdt_ival':
        return tr.filter_by_dt(L['TimeInterval'](U.mkdt(a[0]), U.mkdt(a[1])))
    if op == 'fdt_bad':
        return tr.filter_by_dt({'date': datetime(2020, 1, 1).date(), 'str': 'x', 'none': None}[a[0]])
    if op == 'fprop':
        acc = set() if a[1] == '-' else set(a[1].split(','))
        return tr.filter_by_property(a[0], lambda v: U.tok_of_val(v) in acc)
    if op == 'convolve':
        return tr.convolve_duplicate_timestamps()
    if op == 'journeys':
        return tr.filter_impossible_journeys(float(Fraction(a[0])))
    if op == 'ftime':
        return tr.filter_by_time(_time(a[0]), _time(a[1]))
    raise ValueError('unknown op ' + op)


def impl(line):
    L = U.lib()
    op, secs = U.sections(line)
    toks = [U.Tok(t) for t in secs[0]]
    shapes = [t.build() for t in toks]
    idmap = {id(s): t.id for s, t in zip(shapes, toks)}
    keep = [shapes]
    arg = list(shapes)                         # the caller's list object
    tr = L['Track'](arg)                       # time-less shape -> ValueError -> ERR:Value
    # the constructor leaves the caller's list as it was and does not adopt it
    aflag = ('' if [id(x) for x in arg] == [id(x) for x in shapes] else ' !ARG-CHANGED') + \
        (' !ALIAS' if tr.geoshapes is arg else '')
    if op == 'mk':
        return _show(idmap, tr) + aflag
    U.warm(tr)
    before = U.snapshot(tr)
    if op == 'hist':
        outs, cur = [_show(idmap, tr)], tr
        touched = False
        for sec in secs[1:-1]:
            try:
                if sec[0] in CALLER:
                    _caller_step(sec, arg, idmap, keep)
                    touched = True
                    outs.append('A ' + _names(idmap, arg) if sec[0] == 'arg' else _show(idmap, cur))
                    continue
                U.warm(cur)
                cur = _apply(cur, sec, idmap, keep)
                outs.append(_show(idmap, cur))
            except Exception as e:  # noqa
                outs.append(common.err_name(e))
        return ' ; '.join(outs) + (' MUTATED' if before != U.snapshot(tr) else '') + ('' if touched else aflag)
    try:
        if op == 'hasdup':
            ans = tf(tr.has_duplicate_timestamps)
        else:
            sec = {'add': ['add'] + (secs[1] if len(secs) > 1 else []), 'convolve': ['convolve']}.get(op) or [op] + secs[1]
            ans = _show(idmap, _apply(tr, sec, idmap, keep))
    except Exception as e:  # noqa
        ans = common.err_name(e)
    out = f'{ans} # {_names(idmap, tr.geoshapes)}'
    return out + (' MUTATED' if before != U.snapshot(tr) else '') + aflag


# ---- the property, stated independently of the model ----------------------------------------------

class Item:
    """a shape as the statement sees it: a name, time bounds, user properties, a position"""
    def __init__(self, name, dt, props, cen):
        self.name, self.dt, self.props, self.cen = name, dt, props, cen

    @classmethod
    def of(cls, tok):
        t = U.Tok(tok)
        lon, lat = t.cen.split(',')
        return cls(str(t.id), t.dt, list(t.props), (Fraction(lon), Fraction(lat)))

    @property
    def start(self):
        return self.dt[0]

    @property
    def end(self):
        return self.dt[1]

    def properties(self):
        d = dict(self.props)
        if self.dt is not None:
            d['datetime_start'], d['datetime_end'] = f't{self.dt[0]}', f't{self.dt[1]}'
        return d

    def show(self):
        if self.name is not None:
            return self.name
        return f'n[{self.dt[0]}:{self.dt[1]};{common.rat(self.cen[0])};{common.rat(self.cen[1])};{U.show_props(self.props)}]'


class SpecError(Exception):
    pass


def chrono(items):
    """what the statement demands of a Track: refuse time-less shapes, non-decreasing start, ties in input order"""
    if any(x.dt is None for x in items):
        raise SpecError('ERR:Value')
    return [x for _i, x in sorted(enumerate(items), key=lambda p: (p[1].start, p[0]))]


def show_items(items):
    return 'T' if not items else 'T ' + ' '.join(x.show() for x in items)


def _val(tok):
    return int(tok.partition('@')[0])


def spec_step(cur, sec, dist):
    """the statement's reading of one operation; `cur` is chronological.  Returns the new member list."""
    op, a = sec[0], sec[1:]
    if op == 'add':
        return chrono(cur + chrono([Item.of(t) for t in a]))
    if op == 'slice':
        lo = None if a[0] == '-' else _val(a[0])
        hi = None if a[1] == '-' else _val(a[1])
        # starts at or after the start bound, ends before the stop bound; omitted = unbounded
        return [x for x in cur if (lo is None or lo <= x.start) and (hi is None or x.end < hi)]
    if op == 'fdt_inst':
        v = _val(a[0])
        return [x for x in cur if x.dt == (v, v)]
    if op == 'fdt_ival':
        iv = (_val(a[0]), _val(a[1]))
        return [x for x in cur if not _disjoint(iv, x.dt)]
    if op == 'fdt_bad':
        raise SpecError('ERR:Value')
    if op == 'fprop':
        acc = set() if a[1] == '-' else set(a[1].split(','))
        if any(a[0] not in x.properties() for x in cur):
            raise SpecError('ERR:Key')
        return [x for x in cur if x.properties()[a[0]] in acc]
    if op == 'convolve':
        # exactly one shape per distinct time stamp: unique ones stay, duplicates become one point at the mean
        # position carrying the union of the properties (later shapes win)
        groups = {}
        for x in cur:
            groups.setdefault(x.dt, []).append(x)
        out = []
        for dt, g in groups.items():
            if len(g) == 1:
                out.append(g[0])
                continue
            props = {}
            for x in g:
                props.update(dict(x.props))
            cen = (sum(x.cen[0] for x in g) / len(g), sum(x.cen[1] for x in g) / len(g))
            out.append(Item(None, dt, sorted(props.items()), cen))
        return chrono(out)
    if op == 'journeys':
        if not cur:
            raise SpecError('ERR:Index')
        v = Fraction(a[0])
        kept = [cur[0]]                                       # the first shape is kept
        for x in cur[1:]:
            prev = kept[-1]                                   # the previously kept one
            secs = Fraction(x.start - prev.start, 1_000_000)
            if secs == 0:
                continue
            if (prev.cen, x.cen) not in dist:
                raise SpecError('no-dist')      # a position the implementation never produced (it diverged earlier)
            d = dist[(prev.cen, x.cen)]
            if (0 if d == 0 else d / secs) <= v:              # reachable within the speed limit
                kept.append(x)
        return kept
    return None


def _dist(sec):
    assert sec[0] == 'D'
    tab = {}
    for e in sec[1:]:
        a, b, c, d, v = (Fraction(x) for x in e.split(','))
        tab[((a, b), (c, d))] = v
    return tab


def spec(line):
    op, secs = U.sections(line)
    if op == 'ftime':
        return None                     # only order / class preservation is claimed: see the !UNSORTED flag + model
    items = [Item.of(t) for t in secs[0]]
    try:
        cur = chrono(items)
    except SpecError as e:
        return str(e)
    if op == 'mk':
        return show_items(cur)
    src = ' '.join(x.show() for x in cur)
    if op == 'hasdup':
        return f'{tf(len({x.dt for x in cur}) < len(cur))} # {src}'
    if op == 'hist':
        if any(s[0] == 'ftime' for s in secs[1:-1]):
            return None
        dist = _dist(secs[-1])
        outs = [show_items(cur)]
        arg = list(items)                      # the caller's list: the constructor neither reorders nor adopts it
        for sec in secs[1:-1]:
            try:
                if sec[0] in CALLER:
                    # nothing the caller does with its own list (or with a sibling track) is an operation on the track
                    if sec[0] == 'arg.append':
                        arg += [Item.of(t) for t in sec[1:]]
                    elif sec[0] == 'arg.reverse':
                        arg.reverse()
                    elif sec[0] == 'arg.sortdesc':
                        arg.sort(key=lambda x: x.start, reverse=True)
                    elif sec[0] == 'arg.pop':
                        arg.pop()
                    elif sec[0] == 'arg.clear':
                        arg.clear()
                    outs.append('A ' + ' '.join(x.show() for x in arg) if sec[0] == 'arg' else show_items(cur))
                    continue
                cur = spec_step(cur, sec, dist)
                outs.append(show_items(cur))
            except SpecError as e:
                outs.append(str(e))
        return ' ; '.join(outs)
    sec = [op] + (secs[1] if len(secs) > 1 else [])
    dist = _dist(secs[2]) if op == 'journeys' else None
    try:
        return f'{show_items(spec_step(cur, sec, dist))} # {src}'
    except SpecError as e:
        return f'{e} # {src}'


def close(a, b):
    """equality of answers up to float rounding of the averaged coordinates inside n[...] tokens"""
    if a == b:
        return True
    ta, tb = a.split(' '), b.split(' ')
    if len(ta) != len(tb):
        return False
    for x, y in zip(ta, tb):
        if x == y:
            continue
        if not (x.startswith('n[') and y.startswith('n[')):
            return False
        fx, fy = x[2:-1].split(';'), y[2:-1].split(';')
        if fx[0] != fy[0] or fx[3] != fy[3]:
            return False
        for p, q in zip(fx[1:3], fy[1:3]):
            p, q = Fraction(p), Fraction(q)
            if abs(p - q) > Fraction(1, 10**12) * max(1, abs(q)):
                return False
    return True


def impl_for(_line):
    return impl


def spec_for(_line):
    return spec


# ---- generators ------------------------------------------------------------------------------------

POS = [(0, 0), (0.25, 0), (0, 0.5), (1, 1), (2, 0.5), (0.5, 1), (1, 0), (2, 1),
       (179.75, 10), (-179.75, 10), (19, 69.5), (19.5, 69.75)]   # both sides of the antimeridian, high latitude
OTHER_GEOMS = ['B_0_2_2_0', 'G_0_0_3_0_0_3', 'C_1_1_50000', 'L_0_0_2_0', 'MP_0_0_1_1']


def rand_track_specs(rng, n, nt, pool=None, p_none=0.0):
    pool = pool or rng.sample(POS, rng.choice([1, 2, 3, 4, 6]))
    specs = []
    for _ in range(n):
        r = rng.random()
        if r < p_none:
            dt = None
        elif rng.random() < 0.08:
            # sentinel bounds: open-ended (TimeInterval(start): end = datetime.max), since-forever (start =
            # datetime.min), eternal, and the extreme instants
            t = U.T(rng.randrange(nt))
            dt = rng.choice([(t, U.MAX_US), (t, U.MAX_US), (t, U.MAX_US), (U.MIN_US, t), (U.MIN_US, t),
                             (U.MIN_US, U.MAX_US), (U.MAX_US, U.MAX_US), (U.MIN_US, U.MIN_US)])
        elif r < 0.55:
            s = rng.randrange(nt)
            dt = (U.T(s), U.T(s))
        elif r < 0.65:
            dt = (U.T(0), U.T(nt))                                    # long: starts first, ends last
        elif r < 0.75 and specs and specs[-1][1]:
            dt = specs[-1][1]                                         # duplicate time stamp
        else:
            s = rng.randrange(nt)
            e = rng.randrange(s, nt + 1)
            off = rng.choice([0, 0, 1, 250_000])
            dt = (U.T(s) + off, U.T(e) + off)
        if rng.random() < 0.88:
            x, y = rng.choice(pool)
            g = f'P_{x:g}_{y:g}'
        else:
            g = rng.choice(OTHER_GEOMS)
        props = []
        if rng.random() < 0.8:
            props.append(('c', f'u{rng.randrange(4)}'))
        if rng.random() < 0.3:
            props.append(('n', f'u{rng.randrange(len(U.VALS))}'))
        specs.append((g, dt, props))
    return specs


def dist_table(shapes_or_cens):
    """D section over all ordered pairs of the distinct centroids"""
    from geostructures import Coordinate
    from geostructures.calc import haversine_distance_meters
    cens = sorted({c if isinstance(c, tuple) else tuple(c.centroid.to_float()[:2]) for c in shapes_or_cens})
    out = ['D']
    for a in cens:
        for b in cens:
            d = haversine_distance_meters(Coordinate(*a), Coordinate(*b))
            out.append(','.join(common.rat(v) for v in (a[0], a[1], b[0], b[1], d)))
    return ' '.join(out), cens


def safe_speed(track_shapes, v):
    """float and exact comparison `speed <= v` agree for every ordered pair of the (chronological) track"""
    from geostructures.calc import haversine_distance_meters
    fv = Fraction(v)
    n = len(track_shapes)
    for i in range(n):
        for j in range(i + 1, n):
            a, b = track_shapes[i], track_shapes[j]
            td = b.start - a.start
            secs = td.total_seconds()
            if secs == 0:
                continue
            dx = haversine_distance_meters(a.centroid, b.centroid)
            fl = (0 if dx == 0 else dx / secs) <= v
            ex = (0 if dx == 0 else Fraction(dx) / Fraction(td // timedelta(microseconds=1), 1_000_000)) <= fv
            if fl != ex:
                return False
    return True


def pair_speeds(track_shapes):
    from geostructures.calc import haversine_distance_meters
    out = set()
    n = len(track_shapes)
    for i in range(n):
        for j in range(i + 1, n):
            secs = (track_shapes[j].start - track_shapes[i].start).total_seconds()
            if secs:
                dx = haversine_distance_meters(track_shapes[i].centroid, track_shapes[j].centroid)
                out.add(0 if dx == 0 else dx / secs)
    return sorted(out)


def speed_candidates(rng, track_shapes, limit):
    ps = pair_speeds(track_shapes)
    cands = [0.0, 1e-3, 1e12, -1.0]
    pick = ps if len(ps) <= limit else rng.sample(ps, limit)
    for s in pick:
        cands += [s, s * (1 - 1e-9), s * (1 + 1e-9)]
    return list(dict.fromkeys(cands))


def bound_tok(rng, v):
    r = rng.random()
    if U.near_sentinel(v):
        return str(v) if r < 0.7 else f'{v}@n'
    if r < 0.6:
        return str(v)
    if r < 0.8:
        return f'{v}@n'
    return f'{v}@o{rng.choice([-720, -60, 60, 345])}'


def track_lines(rng, specs, hist, speed_limit=6, nslices=6):
    """all single-operation lines for one shape multiset"""
    L = U.lib()
    toks, shapes = U.make_tokens(specs)
    head = ' '.join(toks)
    lines = [f'tr.mk {head}', f'tr.hasdup {head}', f'tr.convolve {head}']
    if any(dt is None for _g, dt, _p in specs):
        return lines + [f'tr.slice {head} | - -']
    tr = L['Track'](list(shapes))
    ticks = sorted({d for _g, dt, _p in specs for d in dt})
    cand = ['-', '-'] + sorted({str(U.clip(t + o)) for t in ticks for o in (-1, 0, 1)}) + [str(U.MIN_US), str(U.MAX_US)]
    pairs = [('-', '-')] + [(rng.choice(cand), rng.choice(cand)) for _ in range(nslices)]
    for a, b in pairs:
        a = a if a == '-' else bound_tok(rng, int(a))
        b = b if b == '-' else bound_tok(rng, int(b))
        lines.append(f'tr.slice {head} | {a} {b}')
    tods = sorted({(t - U.BASE_US) % DAY for t in ticks})
    for _ in range(2):
        s, e = (rng.choice(tods) + rng.choice([-1, 0, 1]) for _ in range(2))
        lines.append(f'tr.ftime {head} | {min(DAY - 1, max(0, s))} {min(DAY - 1, max(0, e))}')
    dsec, _ = dist_table(shapes)
    for v in speed_candidates(rng, tr.geoshapes, speed_limit):
        if safe_speed(tr.geoshapes, v):
            lines.append(f'tr.journeys {head} | {common.rat(v)} | {dsec}')
            hist['gen:speed-safe'] += 1
        else:
            hist['gen:speed-unsafe-skipped'] += 1
    return lines


def history_line(rng, nt, hist, with_ftime):
    """one operation history of length <= 8, generated by walking the implementation (to know which
    averaged positions appear, which speed limits are float-safe and which convolutions are exact)"""
    L = U.lib()
    pool = rng.sample(POS, rng.choice([1, 2, 3]))
    n0 = rng.choice([0, 1, 2]) if rng.random() < 0.1 else rng.randrange(3, 13)
    specs = rand_track_specs(rng, n0, nt, pool)
    nops = rng.randrange(1, 9)
    adds = [rand_track_specs(rng, rng.randrange(0, 4), nt, pool, p_none=rng.choice([0, 0, 0, 0.3])) for _ in range(nops)]
    allspecs = specs + [s for a in adds for s in a]
    toks, shapes = U.make_tokens(allspecs)
    arg = list(shapes[:n0])                    # the caller's list object
    cur = L['Track'](arg)
    cens = {tuple(s.centroid.to_float()[:2]) for s in shapes}
    secs, pos = [], n0
    narg, arg_timed = n0, True                 # what the caller's list holds, independently of the implementation
    ops = ['add', 'add', 'add', 'slice', 'slice', 'fdt_inst', 'fdt_ival', 'fdt_ival', 'fprop', 'fprop', 'convolve',
           'convolve', 'journeys', 'journeys', 'fdt_bad'] + (['ftime', 'ftime', 'ftime'] if with_ftime else [])
    for k in range(nops):
        op = rng.choice(ops)
        if type(cur).__name__ != 'Track' or any(x.dt is None for x in cur.geoshapes):
            break           # the implementation left the Track class: the line so far already shows it
        if rng.random() < (0.45 if k < 3 else 0.1):
            # the caller keeps using the list it built the (first) track from: late pings are appended, the buffer is
            # re-ordered, a second track is built from it -- then the track is observed again
            c = rng.choice(['arg.append', 'arg.append', 'arg.reverse', 'arg.pop', 'arg.clear', 'arg'] +
                           (['arg.sortdesc', 'sib.append', 'sib.append'] if arg_timed else []))
            m = len(adds[k])
            sec = None
            if c in ('arg.append', 'sib.append') and m:
                sec = [c] + toks[pos:pos + m]
                if c == 'arg.append':
                    narg += m
                    arg_timed = arg_timed and all(U.Tok(t).dt is not None for t in sec[1:])
                pos += m
                adds[k] = []
            elif c == 'arg.pop' and narg:
                sec, narg = [c], narg - 1
            elif c == 'arg.clear':
                sec, narg, arg_timed = [c], 0, True
            elif c in ('arg.reverse', 'arg.sortdesc', 'arg'):
                sec = [c]
            if sec:
                try:
                    _caller_step(sec, arg, {}, [shapes])
                except Exception:  # noqa
                    pass
                secs.append(sec)
                secs.append(['arg'])
                if any(x.dt is None for x in cur.geoshapes):
                    break   # the track changed with the caller's list: the line so far already shows it
        ticks = sorted({U.us_of(d) for x in cur.geoshapes for d in (x.start, x.end)}) or [U.T(0)]
        try:
            if op == 'add':
                m = len(adds[k])
                sec = ['add'] + toks[pos:pos + m]
                new = shapes[pos:pos + m]
                pos += m
                nxt = cur + L['Track'](list(new))
            elif op == 'slice':
                c = [str(U.clip(t + o)) for t in ticks for o in (-1, 0, 1)]
                lo = '-' if rng.random() < 0.4 else rng.choice(c[:max(1, len(c) // 2)])
                hi = '-' if rng.random() < 0.4 else rng.choice(c[len(c) // 2:])
                sec = ['slice', lo, hi] if rng.random() < 0.85 else ['slice', hi, lo]
                nxt = cur[slice(_opt_dt(sec[1]), _opt_dt(sec[2]))]
            elif op == 'fdt_inst':
                sec = ['fdt_inst', bound_tok(rng, rng.choice(ticks))]
                nxt = cur.filter_by_dt(U.mkdt(sec[1]))
            elif op == 'fdt_ival':
                a, b = sorted(U.clip(rng.choice(ticks) + rng.choice([0, 0, 1])) for _ in range(2))
                sec = ['fdt_ival', str(a), str(b)]
                nxt = cur.filter_by_dt(L['TimeInterval'](U.mkdt(sec[1]), U.mkdt(sec[2])))
            elif op == 'fdt_bad':
                sec = ['fdt_bad', rng.choice(['date', 'str', 'none'])]
                nxt = cur
            elif op == 'fprop':
                key = rng.choice(['c', 'c', 'c', 'n', 'datetime_start'])
                acc = sorted({f'u{rng.randrange(4)}' for _ in range(3)} | ({f't{t}' for t in ticks if rng.random() < 0.7} if key[0] == 'd' else set()))
                sec = ['fprop', key, ','.join(acc)]
                nxt = _apply(cur, sec, {}, [])
            elif op == 'convolve':
                sec = ['convolve']
                nxt = cur.convolve_duplicate_timestamps()
                olds = {id(x) for x in cur.geoshapes}
                exact = True
                for x in nxt.geoshapes:
                    if id(x) in olds:
                        continue
                    g = [y for y in cur.geoshapes if y.dt == x.dt]
                    want = tuple(sum(Fraction(y.centroid.to_float()[i]) for y in g) / len(g) for i in (0, 1))
                    got = x.centroid.to_float()[:2]
                    if (Fraction(got[0]), Fraction(got[1])) != want:
                        exact = False
                    cens.add(tuple(got))
                if not exact:
                    hist['gen:hist-inexact-convolve-skipped'] += 1
                    continue
            elif op == 'journeys':
                vs = [v for v in speed_candidates(rng, cur.geoshapes, 3) if safe_speed(cur.geoshapes, v)]
                sec = ['journeys', common.rat(rng.choice(vs))]
                nxt = cur.filter_impossible_journeys(float(Fraction(sec[1])))
            else:
                tods = sorted({(t - U.BASE_US) % DAY for t in ticks})
                sec = ['ftime'] + [str(min(DAY - 1, max(0, rng.choice(tods) + rng.choice([-1, 0, 1])))) for _ in range(2)]
                nxt = _apply(cur, sec, {}, [])
        except Exception:  # noqa  (the operation raises on the implementation: it stays in the history)
            nxt = cur
        secs.append(sec)
        cur = nxt
    dsec, _ = dist_table(cens)
    return 'tr.hist ' + ' | '.join([' '.join(toks[:n0])] + [' '.join(s) for s in secs] + [dsec])


def check(run):
    run.prove(MODULE, THEOREMS)
    run.source_tie(['SrcTrack'], 'GeoVerif.Props.C17Src', ['GV.C17Src.' + t for t in (
        'init_eq', 'getitem_eq', 'hasDupLoop_eq', 'hasDup_eq', 'src_hasDup_iff', 'src_slice_unbounded',
        # round 2: the rest of the class
        'copy_eq', 'first_eq', 'last_eq', 'startT_eq', 'endT_eq', 'timeStartDiffs_eq', 'centroidDistances_eq',
        'eqTrack_eq', 'eqOther_eq', 'eq_eq_eqTrack', 'src_eq_refl', 'filterByTime_eq', 'ddAppend_eq', 'dictOf_eq', 'convolveLoop2_eq',
        'convolveLoop1_eq', 'convolve_eq', 'journeysLoop_eq', 'journeys_eq', 'src_ops_keep_order', 'src_slice_exact',
        'src_journeys_chain', 'src_convolve_nodup', 'src_start_le', 'src_timeStartDiffs_nonneg')])
    rng = run.rng

    def tag(ln, a):
        p = ln.split(' ', 1)[0]
        ans = a.split(' # ')[0]
        if p == 'tr.hist':
            steps = a.replace(' MUTATED', '').split(' ; ')[1:]
            return ['tr.hist'] + ['hist-op:' + s.split()[0] for s in ln.split(' | ')[1:-1]] + \
                ['hist-state:' + ('err' if s.startswith('ERR') else 'empty' if s == 'T' else 'n>=3' if len(s.split()) > 3 else 'n<3')
                 for s in steps]
        if p == 'tr.hasdup':
            return [p + ':' + ans[:1]]
        n_src = len(a.split(' # ')[1].split()) if ' # ' in a else -1
        n_res = len(ans.split()) - 1
        cls = 'err' if ans.startswith('ERR') else 'empty' if n_res == 0 else 'all' if n_res == n_src else 'some'
        if p == 'tr.convolve' and 'n[' in ans:
            cls = 'merged'
        return [f'{p}:{cls}']

    # ---- exhaustive small world: every order of <= 4 (5) shapes over a pool of time bounds on 5 ticks
    # instants, long early interval, duplicate, open-ended (end = datetime.max), since-forever (start = datetime.min)
    pool = [(0, 0), (1, 1), (2, 2), (0, 4), (1, 2), (1, 1), (1, 'max'), ('min', 2)]
    geoms = ['P_0_0', 'P_1_1', 'P_0_0.5', 'P_1_1', 'B_0_2_2_0', 'P_0.25_0', 'P_1_1', 'P_0_0']
    tv = lambda k: {'min': U.MIN_US, 'max': U.MAX_US}.get(k) if isinstance(k, str) else U.T(k)  # noqa: E731

    def mkspec(k):
        s, e = pool[k]
        return (geoms[k], (tv(s), tv(e)), [])
    lines = []
    maxlen = run.scale(4, 5)
    for n in range(0, maxlen + 1):
        for seq in itertools.product(range(len(pool)), repeat=n):
            if n == maxlen and run.quick and rng.random() < 0.8:
                continue
            toks, _ = U.make_tokens([mkspec(k) for k in seq])
            lines.append('tr.mk ' + ' '.join(toks))
    run.run_cases('exhaustive-orders', lines, impl, spec, tag=tag)

    # every slice bound pair (tick set +-1 µs, omitted) on every track of <= 2 shapes from the pool, and the empty track
    lines = []
    bnds = ['-'] + [str(U.T(t) + o) for t in range(5) for o in (-1, 0, 1)] + \
        [str(U.MIN_US), str(U.MIN_US + 1), str(U.MAX_US - 1), str(U.MAX_US)]
    for n in range(0, 3):
        for seq in itertools.combinations_with_replacement(range(len(pool)), n):
            toks, _ = U.make_tokens([mkspec(k) for k in seq])
            for a in bnds:
                for b in bnds:
                    if run.quick and n == 2 and rng.random() < 0.75:
                        continue
                    lines.append(f'tr.slice {" ".join(toks)} | {a} {b}')
    run.run_cases('exhaustive-slices', lines, impl, spec, tag=tag)

    # every pairwise speed as limit (exact, just below, just above) on every order of <= 4 positioned shapes
    lines = []
    world = [('P_0_0', 0), ('P_0.25_0', 1), ('P_0_0', 1), ('P_1_1', 2), ('P_0.25_0', 4), ('P_0_0.5', 3)]
    for n in range(1, 5):
        for seq in itertools.permutations(range(len(world)), n):
            if rng.random() > run.scale(0.12, 1.0):
                continue
            specs = [(world[k][0], (U.T(world[k][1]), U.T(world[k][1])), []) for k in seq]
            ls = track_lines(rng, specs, run.hist, speed_limit=99, nslices=0)
            lines += [ln for ln in ls if ln.startswith('tr.journeys')]
    run.run_cases('exhaustive-speeds', lines, impl, spec, tag=tag, compare=close, spec_compare=close)
    run.exhaustive = True

    # ---- random tracks of 1..30 shapes x every operation
    ntr = run.scale(400, 8000)
    lines = []
    for _ in range(ntr):
        n = rng.choice([1, 2, 3, 4, 5, 6, 8]) if rng.random() < 0.7 else rng.randrange(1, 31)
        nt = rng.choice([3, 5, 8, 12])
        specs = rand_track_specs(rng, n, nt, p_none=0.0 if rng.random() < 0.93 else 0.2)
        lines += track_lines(rng, specs, run.hist)
        toks, _ = U.make_tokens(specs)
        m = rng.randrange(0, 6)
        both, _ = U.make_tokens(specs + rand_track_specs(rng, m, nt, p_none=0.0 if rng.random() < 0.85 else 0.3))
        lines.append(f'tr.add {" ".join(both[:n])} | {" ".join(both[n:])}')
        if len(lines) > 30000:
            run.run_cases('random-tracks', lines, impl, spec, tag=tag, compare=close, spec_compare=close)
            lines = []
    run.run_cases('random-tracks', lines, impl, spec, tag=tag, compare=close, spec_compare=close)

    # ---- operation histories
    nh = run.scale(500, 10000)
    lines = [history_line(rng, rng.choice([3, 5, 8]), run.hist, False) for _ in range(nh)]
    run.run_cases('histories', lines, impl, spec, tag=tag, compare=close, spec_compare=close)
    lines = [history_line(rng, rng.choice([3, 5, 8]), run.hist, True) for _ in range(nh // 3)]
    run.run_cases('histories-with-time-of-day', lines, impl, spec, tag=tag, compare=close)

    return run.finish(
        rule='sentinel time bounds (open-ended = datetime.max, since-forever = datetime.min, the extreme instants; as '
             'shape bounds and as explicit slice bounds) are part of every pool.  '
             'exhaustive: every input order of <= 4 (thorough: 5) shapes over {instants, a long early-starting '
             'late-ending interval, a short interval, a duplicate}; every slice bound pair from the tick set +-1µs and '
             'omitted on every track of <= 2 shapes and the empty track; every pairwise speed (exact tie, just below, '
             'just above) as limit on orders of <= 4 positioned shapes.  Random: multisets of 1..30 shapes x '
             '{construct, add, slice, has-duplicates, convolve, time-of-day, speed filter}; operation histories of '
             'length <= 8 over add / slice / filters / convolve / speed filter, compared after every step.  A case is '
             'one protocol line; distinct by line.',
        assumptions=['haversine distances of centroids are taken as measured on the implementation (C07)',
                     'speed limits are used only where the float comparison speed <= limit equals the exact one for '
                     'every pair of the track (NaN speeds are outside the model)',
                     'averaged coordinates are compared up to 1e-12 relative (float sum/division vs exact mean)',
                     'filter_by_time: only order/class preservation is claimed (model correspondence + !UNSORTED flag)'],
        checker_cmd='cd lean && lake build GeoVerif.Props.C17 && lake env lean .lake/audit/C17.lean  (#print axioms)')
