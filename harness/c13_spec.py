"""
C13 — the *property side* of the WKT check, written independently of the Lean model:

* `lenient_parse(text)`   what a lenient WKT grammar says a text denotes (None = not WKT at all)
* `assemble(kind, w)`     the shape record the text denotes (exact `Fraction` arithmetic on the values
                          Python's `float(token)` gives; coordinates wrap into range like `Coordinate` does)
* `render_record(rec)`    the WKT text a shape must be written as

The lenient grammar (blanks = space / tab / newline / CR, everything case-insensitive):

    text     := ws KEYWORD ws TAG? ws body ws                  KEYWORD+TAG may be glued ("POINTZ")
    TAG      := Z | M | ZM | MZ
    number   := [+-]? (digits [. digits?] | . digits) ([eE] [+-]? digits)?
    coord    := number (blank+ number){1,3}
    seq      := '(' ws coord ws (',' ws coord ws)* ')'
    POINT body            := '(' ws coord ws ')'
    LINESTRING body       := seq
    POLYGON / MULTILINESTRING body := '(' ws seq ws (',' ws seq ws)* ')'
    MULTIPOINT body       := seq  |  '(' ws '(' ws coord ws ')' ws (',' ws '(' ws coord ws ')' ws)* ')'
    MULTIPOLYGON body     := '(' ws polygon-body ws (',' ws polygon-body ws)* ')'

Arity is *not* tied to the tag (lenient): the extra ordinates of a coordinate are given to the tag's
letters in order (no tag = "ZM"), missing ones are absent, surplus ones are dropped.
"""
import re
from fractions import Fraction

KINDS = {'POINT': 'PT', 'LINESTRING': 'LS', 'POLYGON': 'PG',
         'MULTIPOINT': 'MPT', 'MULTILINESTRING': 'MLS', 'MULTIPOLYGON': 'MPG'}
TAGS = ('', 'Z', 'M', 'ZM', 'MZ')
_NUM = re.compile(r'[+-]?(?:\d+(?:\.\d*)?|\.\d+)(?:[eE][+-]?\d+)?\Z')
_TOKEN = re.compile(r'[ \t\r\n]+|[(),]|[A-Za-z]+|[0-9+\-.][0-9+\-.eE]*')


def is_number(tok):
    return _NUM.match(tok) is not None


def is_emitted_number(tok):
    """the emitted-number grammar (`tokOk` of the model): a number made of [0-9+-.eE] only, not starting with e/E"""
    return is_number(tok) and re.fullmatch(r'[0-9+\-.][0-9+\-.eE]*', tok) is not None


def lex(text):
    """-> list of tokens ('(' ')' ',' word number-like) or None when a foreign character occurs"""
    out, i = [], 0
    while i < len(text):
        m = _TOKEN.match(text, i)
        if not m:
            return None
        t = m.group()
        if not t[0] in ' \t\r\n':
            out.append(t)
        i = m.end()
    return out


class _P:
    def __init__(self, toks):
        self.t, self.i = toks, 0

    def peek(self):
        return self.t[self.i] if self.i < len(self.t) else None

    def eat(self, x):
        if self.peek() == x:
            self.i += 1
            return True
        return False

    def coord(self):
        c = []
        while self.peek() is not None and self.peek()[0] in '0123456789+-.':
            if not is_number(self.peek()):
                return None
            c.append(self.peek())
            self.i += 1
        return c if 2 <= len(c) <= 4 else None

    def seq(self):
        if not self.eat('('):
            return None
        cs = []
        while True:
            c = self.coord()
            if c is None:
                return None
            cs.append(c)
            if self.eat(','):
                continue
            return cs if self.eat(')') else None

    def listof(self, item):
        if not self.eat('('):
            return None
        xs = []
        while True:
            x = item()
            if x is None:
                return None
            xs.append(x)
            if self.eat(','):
                continue
            return xs if self.eat(')') else None


def lenient_parse(text):
    """-> (keyword, tag, body) or None.  body: coord | [coord] | [[coord]] | [[[coord]]]; coord = [token,…]"""
    toks = lex(text)
    if not toks or not toks[0][0].isalpha():
        return None
    word, tag, i = toks[0].upper(), '', 1
    if word not in KINDS:
        for k in KINDS:
            if word.startswith(k) and word[len(k):] in TAGS[1:]:
                word, tag = k, word[len(k):]
                break
        else:
            return None
    elif len(toks) > 1 and toks[1][0].isalpha():
        tag, i = toks[1].upper(), 2
        if tag not in TAGS[1:]:
            return None
    p = _P(toks[i:])
    kind = KINDS[word]
    if kind == 'PT':
        b = p.seq()
        body = b[0] if b is not None and len(b) == 1 else None
    elif kind == 'LS':
        body = p.seq()
    elif kind in ('PG', 'MLS'):
        body = p.listof(p.seq)
    elif kind == 'MPT':
        if len(p.t) > 1 and p.t[1] == '(':
            b = p.listof(p.seq)
            body = [s[0] for s in b] if b is not None and all(len(s) == 1 for s in b) else None
        else:
            body = p.seq()
    else:
        body = p.listof(lambda: p.listof(p.seq))
    if body is None or p.peek() is not None:
        return None
    return word, tag, body


# ---- what the parsed text denotes ---------------------------------------------------------------------

def fval(tok):
    """exact value of the binary64 that `float(tok)` gives"""
    f = float(tok)
    if f != f or f in (float('inf'), float('-inf')):
        raise ValueError(tok)
    return Fraction(f)


def wrap(lon, lat):
    """Coordinate.__init__ range wrapping in exact arithmetic; -> (lon, lat, crossed_pole)"""
    crossed = False
    while not -90 <= lat <= 90:
        crossed = True
        lat = 180 - lat if lat > 90 else -180 - lat
        lon = lon + 180 if lon < 0 else lon - 180
    lon = (lon + 180) % 360 - 180 if not -180 <= lon <= 180 else lon
    if lon == 180:
        lon = Fraction(-180)
    return lon, lat, crossed


def rats(x):
    return str(x.numerator) if x.denominator == 1 else f'{x.numerator}/{x.denominator}'


def coord_record(c, tag):
    lon, lat, crossed = wrap(fval(c[0]), fval(c[1]))
    zm = dict(zip((tag or 'ZM').lower(), [fval(t) for t in c[2:]]))
    z, m = zm.get('z'), zm.get('m')
    lon0, lat0 = fval(c[0]), fval(c[1])
    return ','.join([('~' if crossed or lon != lon0 else '') + rats(lon), ('~' if lat != lat0 else '') + rats(lat),
                     '-' if z is None else rats(z), '-' if m is None else rats(m)])


def _pt(cr):
    f = cr.replace('~', '').split(',')
    return Fraction(f[0]), Fraction(f[1])


def _same(a, b):
    """Coordinate.__eq__ on records: lon, lat, z"""
    return a.replace('~', '').split(',')[:3] == b.replace('~', '').split(',')[:3]


def _area2(ring):
    """the sum of `is_counter_clockwise` (antimeridian-crossing edges un-wrapped), exact"""
    s = Fraction(0)
    pts = [_pt(c) for c in ring]
    for (x1, y1), (x2, y2) in zip(pts, pts[1:] + pts[:1]):
        if abs(x1 - x2) > 180:
            x2 = x2 - 360 if x1 < 0 else x2 + 360
        s += (x2 - x1) * (y2 + y1)
    return s


def outline(ring):
    """GeoPolygon.__init__: close, make counter-clockwise"""
    if not _same(ring[0], ring[-1]):
        ring = ring + [ring[0]]
    if not _area2(ring) <= 0:
        ring = ring[::-1]
    return ring


def assemble(parsed):
    """record of the shape the parsed text denotes"""
    word, tag, body = parsed
    kind = KINDS[word]
    cr = lambda c: coord_record(c, tag)  # noqa: E731
    if kind == 'PT':
        return 'PT ' + cr(body)
    if kind in ('LS', 'MPT'):
        return kind + ' ' + ' '.join(cr(c) for c in body)
    if kind == 'MLS':
        return 'MLS ' + ' | '.join(' '.join(cr(c) for c in ls) for ls in body)
    poly = lambda rings: ' ; '.join(' '.join(outline([cr(c) for c in r])) for r in rings)  # noqa: E731
    if kind == 'PG':
        return 'PG ' + poly(body)
    return 'MPG ' + ' | '.join(poly(p) for p in body)


def denotes(text, want=None):
    """record of what `text` denotes, 'none' if it is not WKT (of kind `want`)"""
    p = lenient_parse(text)
    if p is None or (want not in (None, 'ANY') and KINDS[p[0]] != want):
        return 'none'
    try:
        return assemble(p)
    except (ValueError, OverflowError):
        return 'none'
