"""C05 — space-time predicates are the conjunction of the spatial and the temporal test.

A case is one protocol line `st.<op> …`:
  st.intersects|contains|in  <shapeA> <routeA> <shapeB> <routeB> | <spatial>
  st.containsCoord|inCoord   <shapeA> <routeA> <coord> | <spatial>
  st.containsTime|intersectsTime <shape> <route> <timearg>
  st.dt <shape> <route>          st.indist <shape> <datetime>
  st.hist <shapeA> <routeA> <shapeB> <routeB|al> | <iAB><cAB><iBA><cBA> | <step> …     observe - mutate - observe
      histories on live objects A (receiver), B (probe; route `al` = built with A's very TimeInterval object),
      O (the object a copying mutator was called on).  Steps: X?i X?c X?n X?d X?t:<timearg> X?x:<timearg> observe,
      X!<mut> mutates in place, X~<mut> calls with inplace=False (O := X, X := the returned copy),
      X.<k>!<mut> mutates member k of a multi-shape; <mut> = sd:<datetime> | si:<datetime>,<datetime> | sn | st |
      bf:<µs>.  The answers must be those of freshly built shapes with the current bounds.
  st.collhist <F|T> <seed>       (support, no model) the same through FeatureCollection / Track entry points
route   = how the shape got its time bounds: none | d:<datetime> (constructor) | i:<datetime>,<datetime>
          (constructor, TimeInterval) | sd:/si: (set_dt in place) | sdc:/sic: (set_dt(inplace=False), the copy)
          | sn (set_dt(None) on a time-bounded shape)
datetime = <wall-clock µs since 1970>@n (naive) | <wall-clock µs>@o<utcoffset minutes> (aware)
The spatial sub-answer is measured on dt-stripped copies with `intersects_shape`/`contains_shape`/
`contains_coordinate`; the implementation answers on the time-bounded shapes; the Lean model combines the
measured spatial bit with its own temporal answer through the gates as coded; the spec does so with plain
set semantics ([start, end) or a single instant).
"""
import os
import time
from datetime import datetime, timedelta, timezone

import mshapes as S
from common import tf

MODULE = 'GeoVerif.Props.C05'
THEOREMS = ['GV.ST.' + t for t in (
    'intersects_eq', 'contains_eq', 'contains_coord', 'dunderContains_eq', 'intersects_timeless',
    'contains_timeless', 'intersects_iff', 'contains_iff', 'intersects_symm', 'contains_imp_intersects',
    'time_none', 'containsTime_at', 'containsTime_ti', 'intersectsTime_at', 'intersectsTime_ti',
    'ctorDt_instant', 'ctorDt_naive_utc', 'ctorDt_same_instant', 'setDt_eq_ctorDt', 'dt_routes_agree',
    'ctorDt_wf', 'ctorDt_den', 'hist_fresh', 'bufferDt_none', 'bufferDt_ok', 'bufferDt_err', 'bufferDt_zero',
    'bufferDt_instant_den', 'bufferDt_to_instant', 'applyMuts_wf',
    'contains_trans', 'contains_trans_needs_bounded_middle', 'contains_self', 'intersects_mono')]

# "naive datetimes are read as UTC" must not depend on where the process runs: give this process a local
# time zone that is *not* UTC (POSIX TZ string, no tz database needed), so that code reading a naive
# datetime as local time (astimezone(), timestamp(), fromtimestamp()) is told apart from the property
os.environ['TZ'] = 'VRF-05:30'
time.tzset()

NAIVE_EPOCH = datetime(1970, 1, 1)
MIN_US = 60_000_000


# ---- tokens -------------------------------------------------------------------------------------------

def mkdt(tok):
    wall, rep = tok.split('@')
    d = NAIVE_EPOCH + timedelta(microseconds=int(wall))
    if rep == 'n':
        return d
    return d.replace(tzinfo=timezone(timedelta(minutes=int(rep[1:]))))


def dt_tok(instant_us, rep):
    """the datetime token of a UTC instant in representation rep: 'n' | offset minutes (int)"""
    if rep == 'n':
        return f'{instant_us}@n'
    return f'{instant_us + rep * MIN_US}@o{rep}'


def inst_of(tok):
    """spec side: the instant a datetime token denotes (naive = UTC)"""
    wall, rep = tok.split('@')
    return int(wall) - (0 if rep == 'n' else int(rep[1:]) * MIN_US)


def mkti(pair):
    """TimeInterval from two datetime tokens; the end is handed over as a `timedelta` for a deterministic half of the
    pairs - in particular as the *falsy* `timedelta(0)` for zero-length intervals (seeded change C05-n2: `end or max`)"""
    from datetime import timedelta
    from geostructures.time import TimeInterval
    a, b = pair.split(',')
    da, db = mkdt(a), mkdt(b)
    if a.split('@')[1] == b.split('@')[1] and (int(a.split('@')[0]) // 1000 + int(b.split('@')[0]) // 1000) % 2 == 0:
        return TimeInterval(da, db - da)
    return TimeInterval(da, db)


def build_routed(tok, route):
    from geostructures.time import TimeInterval
    if route == 'none':
        return S.build(tok)
    if route == 'sn':
        s = S.build(tok, dt=TimeInterval(S.utc(S.BASE_US), S.utc(S.BASE_US + 1)))
        s.set_dt(None)
        return s
    how, arg = route.split(':')
    if how == 'd':
        return S.build(tok, dt=mkdt(arg))
    if how == 'i':
        return S.build(tok, dt=mkti(arg))
    val = mkdt(arg) if how in ('sd', 'sdc') else mkti(arg)
    s = S.build(tok)
    if how in ('sd', 'si'):
        r = s.set_dt(val)
        if r is not s:
            raise AssertionError('set_dt(inplace=True) returned another object')
        return s
    if how in ('sdc', 'sic'):
        r = s.set_dt(val, inplace=False)
        if r is s or s.dt is not None:
            raise AssertionError('set_dt(inplace=False) touched the receiver')
        return r
    raise ValueError('bad route ' + route)


def route_spec(route):
    """spec side: None (no time bounds) | (start, end) instants"""
    if route in ('none', 'sn'):
        return None
    how, arg = route.split(':')
    if how in ('d', 'sd', 'sdc'):
        t = inst_of(arg)
        return (t, t)
    a, b = arg.split(',')
    return (inst_of(a), inst_of(b))


# ---- the property's temporal semantics: the set [s, e), or {s} when s == e -----------------------------

def _mem(iv, x):
    s, e = iv
    return x == s if s == e else s <= x < e


def sets_intersect(a, b):
    if a[0] == a[1]:
        return _mem(b, a[0])
    if b[0] == b[1]:
        return _mem(a, b[0])
    return max(a[0], b[0]) < min(a[1], b[1])


def subset(b, a):
    """b ⊆ a"""
    if b[0] == b[1]:
        return _mem(a, b[0])
    return a[0] != a[1] and a[0] <= b[0] and b[1] <= a[1]


# ---- spatial measurements on dt-stripped copies -----------------------------------------------------------

_cache = {}


def spatial(rel, ta, tb):
    key = (rel, ta, tb)
    if key not in _cache:
        a = S.build(ta, strip=True)
        if rel == 'k':
            r = a.contains_coordinate(S.build_coord(tb))
        else:
            b = S.build(tb, strip=True)
            r = a.intersects_shape(b) if rel == 'i' else a.contains_shape(b)
        _cache[key] = bool(r)
    return _cache[key]


REL_OF = {'intersects': 'i', 'contains': 'c', 'in': 'c', 'containsCoord': 'k', 'inCoord': 'k'}


def sp_tok(rel, ta, tb):
    """the measured spatial bit as a token, or None when the spatial method raised (C02's business)"""
    try:
        return tf(spatial(rel, ta, tb))
    except Exception:  # noqa
        return None


# ---- interpreters ----------------------------------------------------------------------------------------

def impl(line):
    toks = line.split()
    op = toks[0].split('.', 1)[1]
    a = toks[1:]
    if op == 'dt':
        return S.show_dt(build_routed(a[0], a[1]).dt)
    if op == 'indist':
        return impl_indist(a[0], a[1])
    if op in ('containsTime', 'intersectsTime'):
        s = build_routed(a[0], a[1])
        how, arg = a[2].split(':')
        t = mkdt(arg) if how == 'a' else mkti(arg)
        return tf(s.contains_time(t) if op == 'containsTime' else s.intersects_time(t))
    if op in ('containsCoord', 'inCoord'):
        now = spatial('k', a[0], a[2])
        if tf(now) != a[4]:
            return 'STALE-SPATIAL ' + tf(now)
        s = build_routed(a[0], a[1])
        c = S.build_coord(a[2])
        return tf(s.contains(c) if op == 'containsCoord' else (c in s))
    now = spatial(REL_OF[op], a[0], a[2])
    if tf(now) != a[5]:
        return 'STALE-SPATIAL ' + tf(now)
    x, y = build_routed(a[0], a[1]), build_routed(a[2], a[3])
    if op == 'intersects':
        return tf(x.intersects(y))
    if op == 'contains':
        return tf(x.contains(y))
    if op == 'in':
        return tf(y in x)
    raise ValueError('unknown op ' + op)


def impl_indist(tok, dtok):
    """datetime vs zero-length interval vs set_dt: ==, hash, dt and every predicate must agree"""
    from geostructures.time import TimeInterval
    d = mkdt(dtok)
    other = TimeInterval(S.utc(S.BASE_US - 10), S.utc(S.BASE_US - 5))
    variants = [
        S.build(tok, dt=d),
        S.build(tok, dt=TimeInterval(d, d)),
        S.build(tok).set_dt(d),
        S.build(tok).set_dt(TimeInterval(d, d)),
        S.build(tok, dt=other).set_dt(d, inplace=False),
        S.build(tok, dt=other).set_dt(TimeInterval(d, d), inplace=False),
    ]
    eq = all(x == y for x in variants for y in variants)
    hs = len({hash(x) for x in variants}) == 1 and len(set(variants)) == 1
    t = S.us_of(d)
    probes = []
    for s, e in ((t, t), (t - 5, t), (t, t + 5), (t - 5, t + 5), (t + 1, t + 5), (t - 5, t - 1)):
        probes.append(S.build(tok, dt=TimeInterval(S.utc(s), S.utc(e))))
    probes.append(S.build(tok))

    def observe(x):
        o = [S.show_dt(x.dt), x.dt.is_instant, x.start == x.end]
        for p in probes:
            o += [x.intersects(p), p.intersects(x), x.contains(p), p.contains(x), p in x, x in p]
            if p.dt is not None:
                o += [x.contains_time(p.dt), x.intersects_time(p.dt), p.contains_time(x.dt), p.intersects_time(x.dt)]
        o += [x.contains_time(d), x.intersects_time(d), x.contains_time(S.utc(t + 1)), x.intersects_time(S.utc(t - 1))]
        return o
    obs = [observe(x) for x in variants]
    same = all(o == obs[0] for o in obs)
    return f'{tf(eq)} {tf(hs)} {tf(same)} {S.show_dt(variants[0].dt)}'


def spec(line):
    toks = line.split()
    op = toks[0].split('.', 1)[1]
    a = toks[1:]
    if op == 'dt':
        r = route_spec(a[1])
        return 'none' if r is None else f'{r[0]} {r[1]}'
    if op == 'indist':
        t = inst_of(a[1])
        return f'T T T {t} {t}'
    if op in ('containsTime', 'intersectsTime'):
        own = route_spec(a[1])
        if own is None:
            return 'F'                      # no time bounds: contains / intersects no time
        how, arg = a[2].split(':')
        if how == 'a':
            return tf(_mem(own, inst_of(arg)))
        x, y = arg.split(',')
        other = (inst_of(x), inst_of(y))
        return tf(subset(other, own) if op == 'containsTime' else sets_intersect(own, other))
    if op in ('containsCoord', 'inCoord'):
        return a[4]                         # a coordinate has no time: the spatial test alone
    da, db, sp = route_spec(a[1]), route_spec(a[3]), a[5] == 'T'
    if da is None or db is None:
        return tf(sp)
    if op == 'intersects':
        return tf(sp and sets_intersect(da, db))
    return tf(sp and subset(db, da))


# ---- observe - mutate - observe histories ------------------------------------------------------------------------
# The only time state a shape may have is the *value* of its current bounds: after any sequence of set_dt / buffer_dt /
# strip_dt calls (in place, or on the copy `inplace=False` returns) every time-aware answer must be the answer of a
# freshly built shape with those bounds.  Hidden state breaks this: flags cached on a TimeInterval that is then widened
# in place, TimeInterval objects shared between shapes (aliased constructor argument, copies), copies that keep a
# reference to the receiver's interval, truthiness slips on timedelta(0).

def _show_tok(ti):
    return 'none' if ti is None else f'{S.us_of(ti.start)}_{S.us_of(ti.end)}'


def _parse_timearg(tok):
    how, arg = tok.split(':', 1)
    return mkdt(arg) if how == 'a' else mkti(arg)


def _apply_mut(x, mut, inplace, explicit):
    """one mutator call on the real object; returns what the call returned"""
    kw = {} if (inplace and not explicit) else {'inplace': inplace}
    if mut == 'sn':
        return x.set_dt(None, **kw)
    if mut == 'st':
        return x.strip_dt(**kw)
    how, arg = mut.split(':', 1)
    if how == 'sd':
        return x.set_dt(mkdt(arg), **kw)
    if how == 'si':
        return x.set_dt(mkti(arg), **kw)
    if how == 'bf':
        return x.buffer_dt(timedelta(microseconds=int(arg)), **kw)
    raise ValueError('bad mutator ' + mut)


def impl_hist(line):
    toks = line.split()
    ta, ra, tb, rb = toks[1:5]
    bits = toks[6]
    steps = toks[8:]
    for (rel, x, y), bit in zip((('i', ta, tb), ('c', ta, tb), ('i', tb, ta), ('c', tb, ta)), bits):
        if tf(spatial(rel, x, y)) != bit:
            return 'STALE-SPATIAL'
    obj = {'A': build_routed(ta, ra)}
    obj['B'] = S.build(tb, dt=obj['A'].dt) if rb == 'al' else build_routed(tb, rb)
    obj['O'] = obj['A']
    out = []

    def snapshot(x, y):
        return (_show_tok(x.dt), x.intersects(y), y.intersects(x), x.contains(y), y.contains(x))
    for n, st in enumerate(steps):
        name = st[0]
        x = obj[name]
        y = obj['A'] if name == 'B' else obj['B']
        try:
            if st[1] == '?':
                q = st[2:]
                if q == 'd':
                    out.append(_show_tok(x.dt))
                elif q == 'i':
                    out.append(tf(x.intersects(y)))
                elif q == 'c':
                    out.append(tf(x.contains(y)))
                elif q == 'n':
                    out.append(tf(y in x))
                elif q[0] == 't':
                    out.append(tf(x.contains_time(_parse_timearg(q[2:]))))
                elif q[0] == 'x':
                    out.append(tf(x.intersects_time(_parse_timearg(q[2:]))))
                else:
                    raise ValueError('bad observation ' + st)
            elif st[1] == '!':
                r = _apply_mut(x, st[2:], True, n % 2 == 0)
                out.append('ok' if r is x else 'NOT-SELF')
            elif st[1] == '~':
                before = snapshot(x, y)
                r = _apply_mut(x, st[2:], False, True)
                if r is x or snapshot(x, y) != before:
                    out.append('RECEIVER-TOUCHED')
                else:
                    out.append('ok')
                if x is obj['A']:                      # `O` names A itself until a copying call on A succeeded
                    obj['O'] = x
                    obj['A'] = r
                else:
                    obj[name] = r
            elif st[1] == '.':
                k, mut = st[2:].split('!', 1)
                m = x.geoshapes[int(k)]
                r = _apply_mut(m, mut, True, n % 2 == 0)
                out.append('ok' if r is m else 'NOT-SELF')
            else:
                raise ValueError('bad step ' + st)
        except Exception as e:  # noqa - an exception is this step's answer; the history goes on
            import common
            out.append(common.err_name(e))
    return ' '.join(out)


def spec_hist(line):
    """fresh-twin oracle in plain arithmetic: bounds are (start, end) integers, answers by set semantics"""
    toks = line.split()
    ra, rb = toks[2], toks[4]
    iab, cab, iba, cba = (c == 'T' for c in toks[6])
    steps = toks[8:]
    st8 = {'A': route_spec(ra)}
    st8['B'] = st8['A'] if rb == 'al' else route_spec(rb)
    st8['O'] = None
    split = [False]          # `O` names A itself until a copying call on A succeeded
    out = []

    def targ(tok):
        how, arg = tok.split(':', 1)
        if how == 'a':
            return inst_of(arg)
        u, v = arg.split(',')
        return (inst_of(u), inst_of(v))

    def mutate(cur, mut):
        if mut in ('sn', 'st'):
            return None
        how, arg = mut.split(':', 1)
        if how == 'sd':
            return (inst_of(arg), inst_of(arg))
        if how == 'si':
            u, v = arg.split(',')
            return (inst_of(u), inst_of(v))
        b = int(arg)
        if cur is None or cur[1] + b < cur[0] - b:
            return 'ERR:Value'
        return (cur[0] - b, cur[1] + b)
    for st in steps:
        name = st[0]
        if name == 'O' and not split[0]:
            name = 'A'
        me = st8[name]
        other = st8['A'] if name == 'B' else st8['B']
        spi, spc = (iba, cba) if name == 'B' else (iab, cab)
        if st[1] == '?':
            q = st[2:]
            if q == 'd':
                out.append('none' if me is None else f'{me[0]}_{me[1]}')
            elif q == 'i':
                out.append(tf(spi and (me is None or other is None or sets_intersect(me, other))))
            elif q in ('c', 'n'):
                out.append(tf(spc and (me is None or other is None or subset(other, me))))
            else:
                a = targ(q[2:])
                if me is None:
                    out.append('F')
                elif isinstance(a, int):
                    out.append(tf(_mem(me, a)))
                else:
                    out.append(tf(subset(a, me) if q[0] == 't' else sets_intersect(me, a)))
        elif st[1] == '.':
            out.append('ok')
        else:
            new = mutate(me, st[2:])
            if new == 'ERR:Value':
                out.append(new)
                continue
            out.append('ok')
            if st[1] == '~' and name == 'A':
                st8['O'] = me
                split[0] = True
            st8[name] = new
    return ' '.join(out)


# ---- support stream (no model): histories through the collection entry points ---------------------------------------------

COLL_POOL = ['BB', 'Bs', 'Bm', 'Ps', 'Pm', 'Px', 'PH', 'Ls', 'Ll', 'Ts', 'Tv', 'Tm', 'Cs']


def impl_collhist(line):
    """FeatureCollection / Track: observe (intersects, the three shape filters, filter_by_dt), mutate a member's or the
    query's time bounds in place (or call the copying form, which must change nothing), observe again.  Expected: what
    the members' and the query's *current* bounds demand (spatial bit measured on stripped rebuilds)."""
    import random as _r
    from geostructures import FeatureCollection, Track
    _op, kind, seed = line.split()
    rng = _r.Random(int(seed))
    T0 = S.BASE_US
    H = 3_600_000_000
    t0 = S.templates(0)

    def iv():
        a = T0 + rng.randrange(0, 12) * H
        return (a, a + rng.choice([0, 0, 1, 2, 4]) * H)

    def route(w, i):
        if w is None:
            return 'none'
        if w[0] == w[1]:
            return [f'd:{w[0]}@o0', f'i:{w[0]}@o0,{w[0]}@o0', f'sd:{w[0]}@n'][i % 3]
        return f'i:{w[0]}@o0,{w[1]}@n'
    toks, bounds, members = [], [], []
    for i in range(rng.randint(1, 5)):
        tok = t0[rng.choice(COLL_POOL)]
        w = iv() if (kind == 'T' or rng.random() < 0.75) else None
        toks.append(tok)
        bounds.append(w)
        members.append(build_routed(tok, route(w, i)))
    qtok = t0[rng.choice(COLL_POOL)]
    qw = iv() if rng.random() < 0.85 else None
    q = build_routed(qtok, route(qw, rng.randrange(3)))
    col = (Track if kind == 'T' else FeatureCollection)(list(members))
    index = {id(m): i for i, m in enumerate(members)}

    def idx(c):
        return sorted(index.get(id(m), -1) for m in c.geoshapes)

    def temporal_i(a, b):
        return a is None or b is None or sets_intersect(a, b)

    def observe(tag):
        n = range(len(members))
        want = {
            'filter_by_intersection': [i for i in n if spatial('i', toks[i], qtok) and temporal_i(bounds[i], qw)],
            'filter_contained_by': [i for i in n if spatial('c', qtok, toks[i]) and (bounds[i] is None or qw is None or subset(bounds[i], qw))],
            'filter_contains': [i for i in n if spatial('c', toks[i], qtok) and (bounds[i] is None or qw is None or subset(qw, bounds[i]))],
        }
        got = {'filter_by_intersection': idx(col.filter_by_intersection(q)), 'filter_contained_by': idx(col.filter_contained_by(q)),
               'filter_contains': idx(col.filter_contains(q))}
        # as coded: a time-bounded query only considers the time-bounded members
        considered = [i for i in n if qw is None or bounds[i] is not None]
        want['intersects'] = any(spatial('i', toks[i], qtok) and temporal_i(bounds[i], qw) for i in considered)
        got['intersects'] = col.intersects(q)
        if qw is not None:
            want['filter_by_dt(interval)'] = [i for i in n if bounds[i] is not None and sets_intersect(qw, bounds[i])]
            got['filter_by_dt(interval)'] = idx(col.filter_by_dt(q.dt))
            want['filter_by_dt(datetime)'] = [i for i in n if bounds[i] == (qw[0], qw[0])]
            got['filter_by_dt(datetime)'] = idx(col.filter_by_dt(S.utc(qw[0])))
        for k in want:
            if want[k] != got[k]:
                return f'{tag}: {k} gives {got[k]}, current bounds demand {want[k]}'
        return None
    bad = observe('initially')
    if bad:
        return bad
    for step in range(rng.randint(1, 3)):
        who = rng.randrange(-1, len(members))           # -1: the query
        cur = qw if who < 0 else bounds[who]
        target = q if who < 0 else members[who]
        inplace = rng.random() < 0.75
        r = rng.random()
        if r < 0.45 and cur is not None:
            b = rng.choice([0, H, H, 2 * H, -H])
            if cur[1] + b < cur[0] - b:
                b = 0
            new, call, what = (cur[0] - b, cur[1] + b), (lambda o, kw: o.buffer_dt(timedelta(microseconds=b), **kw)), f'buffer_dt({b})'
        elif r < 0.65:
            t = T0 + rng.randrange(0, 12) * H
            new, call, what = (t, t), (lambda o, kw: o.set_dt(S.utc(t), **kw)), 'set_dt(datetime)'
        elif r < 0.85:
            w = iv()
            new, call, what = w, (lambda o, kw: o.set_dt(mkti(f'{w[0]}@o0,{w[1]}@o0'), **kw)), 'set_dt(TimeInterval)'
        elif kind == 'T' and who >= 0:
            continue                                    # a Track member always keeps time bounds
        elif r < 0.93:
            new, call, what = None, (lambda o, kw: o.strip_dt(**kw)), 'strip_dt'
        else:
            new, call, what = None, (lambda o, kw: o.set_dt(None, **kw)), 'set_dt(None)'
        ret = call(target, {} if (inplace and step % 2) else {'inplace': inplace})
        if inplace:
            if ret is not target:
                return f'{what} in place returned another object'
            if who < 0:
                qw = new
            else:
                bounds[who] = new
        elif ret is target:
            return f'{what}(inplace=False) returned the receiver'
        bad = observe(f'after {what}{"" if inplace else " (inplace=False: nothing may change)"} on {"the query" if who < 0 else "member %d" % who}')
        if bad:
            return bad
    return 'OK'


def impl_for(_line):
    if _line.startswith('st.collhist'):
        return impl_collhist
    if _line.startswith('st.hist'):
        return impl_hist
    return impl_coll if _line.startswith('st.coll') else impl


def spec_for(_line):
    if _line.startswith('st.hist'):
        return spec_hist
    return spec_coll if _line.startswith('st.coll') else spec


# ---- generators ------------------------------------------------------------------------------------------

def kind_templates():
    a, b = S.templates(0), S.templates(1)
    st = lambda tok, s, e: f'{tok}@{S.BASE_US + s}_{S.BASE_US + e}'  # noqa: E731  (member's own time bounds)
    return {
        'GeoPolygon': [a['PB'], a['PH'], a['Ps'], a['Pm'], a['Px']],
        'GeoBox': [a['BB'], a['Bs'], a['Bm']],
        'GeoCircle': [a['CB'], a['Cs'], a['Cm']],
        'GeoEllipse': [a['EB'], a['Es']],
        'GeoRing': [a['RB'], a['RW'], a['Rs']],
        'GeoLineString': [a['Ll'], a['Lz'], a['Ls'], a['Lm']],
        'GeoPoint': [a['Ts'], a['Tv'], a['Tm']],
        'MultiGeoPolygon': [S.mk_multi('MP', [b['PB'], st(a['BB'], 0, 0)]), S.mk_multi('MP', [st(a['Ps'], 0, 9), b['Bm']]),
                            S.mk_multi('MP', [b['Cs'], a['Pm'], st(a['Rs'], 100, 100)])],
        'MultiGeoLineString': [S.mk_multi('ML', [b['Lm'], st(a['Lz'], 0, 0)]), S.mk_multi('ML', [a['Ls']]),
                               S.mk_multi('ML', [st(a['Ll'], 5, 6), a['Lm']])],
        'MultiGeoPoint': [S.mk_multi('MT', [st(a['Ts'], 0, 0), a['Tv']]), S.mk_multi('MT', [b['Tm'], st(a['Ts'], 50, 60)]),
                          S.mk_multi('MT', [st(a['Tm'], 0, 0)])],
    }


def far_template(kind_name):
    c = S.templates(3)
    return {'GeoPolygon': c['Ps'], 'GeoBox': c['Bs'], 'GeoCircle': c['Cs'], 'GeoEllipse': c['Es'], 'GeoRing': c['Rs'],
            'GeoLineString': c['Ls'], 'GeoPoint': c['Ts'], 'MultiGeoPolygon': S.mk_multi('MP', [c['Ps'], c['Bm']]),
            'MultiGeoLineString': S.mk_multi('ML', [c['Ls']]), 'MultiGeoPoint': S.mk_multi('MT', [c['Ts'], c['Tv']])}[kind_name]


def shape_pairs():
    """for every ordered pair of kinds: one pair per spatial class that exists (contained / overlapping / disjoint)"""
    kt = kind_templates()
    out = []
    for ka in S.KINDS:
        for kb in S.KINDS:
            seen = {}
            for A in kt[ka]:
                for B in kt[kb] + [far_template(kb)]:
                    try:
                        cls = (spatial('i', A, B), spatial('c', A, B))
                    except Exception:  # noqa - a spatial method raised: C02's business
                        continue
                    seen.setdefault(cls, []).append((A, B))
            for cls, lst in sorted(seen.items()):
                out.append((ka, kb, cls, lst))
    return out


def timeline(nt):
    """no time bounds, every instant and every interval with end points on nt ticks"""
    return [None] + [(s, e) for s in range(nt) for e in range(s, nt)]


def placement(x, y):
    if x is None or y is None:
        return ('none' if x is None else 'inst' if x[0] == x[1] else 'ival') + '/' + \
               ('none' if y is None else 'inst' if y[0] == y[1] else 'ival')
    def sg(p, q):
        return '<' if p < q else ('=' if p == q else '>')
    (s, e), (bs, be) = x, y
    return f"{'inst' if s == e else 'ival'}/{'inst' if bs == be else 'ival'}:{sg(s, bs)}{sg(s, be)}{sg(e, bs)}{sg(e, be)}"


REPS = ['n', 0, 60, -330, 345, -720, 840]



# ---- support stream (no model): the collection override path ----------------------------------------------------------
# `collection.intersects(shape)` must be "some member passes the shape-level test" (as coded: over the members that have
# time bounds when the query has some).  Long-lived early members, late queries (seeded change C05-n3: a temporal
# quick-reject against Track.end, which is the end of the last-STARTING member).

def impl_coll(line):
    import random as _r
    from geostructures import FeatureCollection, Track
    _op, kind, seed = line.split()
    rng = _r.Random(int(seed))
    T0 = S.BASE_US
    H = 3_600_000_000

    def iv():
        a = T0 + rng.randrange(0, 40) * H
        return (a, a + rng.choice([0, 1, 2, 30, 60]) * H)
    pool = S.single_pool(0)
    members = []
    for _i in range(rng.randint(1, 6)):
        tok = rng.choice(pool)
        w = iv() if (kind == 'T' or rng.random() < 0.7) else None
        route = 'none' if w is None else (f'd:{w[0]}@o0' if w[0] == w[1] else f'i:{w[0]}@o0,{w[1]}@o0')
        members.append(build_routed(tok, route))
    qw = iv() if rng.random() < 0.8 else None
    if qw is not None and rng.random() < 0.4:      # a late query inside a long early member, after the last start
        qw = (T0 + 45 * H, T0 + 46 * H)
    q = build_routed(rng.choice(pool), 'none' if qw is None else (f'd:{qw[0]}@o0' if qw[0] == qw[1] else f'i:{qw[0]}@o0,{qw[1]}@o0'))
    col = (Track if kind == 'T' else FeatureCollection)(members)
    got = col.intersects(q)
    considered = [m for m in col.geoshapes if (q.dt is None or m.dt is not None)]
    want = any(m.intersects(q) for m in considered)
    return 'OK' if got == want else f'collection.intersects={got} but some-considered-member-intersects={want}'


def spec_coll(_line):
    return 'OK'


def check(run):
    run.prove(MODULE, THEOREMS)
    run.source_tie(['SrcBase', 'SrcTime'], 'GeoVerif.Props.C05Src',
                   ['GV.C05Src.' + t for t in ('containsTimeDt_eq', 'containsTimeTI_eq', 'intersectsTimeDt_eq', 'intersectsTimeTI_eq', 'containsCoord_eq', 'containsShape_eq', 'dunderContainsCoord_eq', 'dunderContainsShape_eq', 'intersects_eq', 'src_intersects_eq', 'src_contains_eq', 'src_timeless')])
    rng = run.rng
    tick = 1_000_000
    at = lambda k: S.BASE_US + k * tick  # noqa: E731

    def route_for(iv, i):
        """a construction route for time bounds iv (ticks), varied deterministically by i"""
        if iv is None:
            return 'sn' if i % 5 == 4 else 'none'
        rep = lambda: rng.choice(REPS)  # noqa: E731
        if iv[0] == iv[1]:
            how = ['d', 'i', 'sd', 'si', 'sdc', 'sic'][i % 6]
            if how in ('d', 'sd', 'sdc'):
                return f'{how}:{dt_tok(at(iv[0]), rep())}'
            return f'{how}:{dt_tok(at(iv[0]), rep())},{dt_tok(at(iv[0]), rep())}'
        how = ['i', 'si', 'i', 'sic'][i % 4]
        return f'{how}:{dt_tok(at(iv[0]), rep())},{dt_tok(at(iv[1]), rep())}'

    def tag(ln, a):
        t = ln.split()
        op = t[0].split('.')[1]
        if op in ('intersects', 'contains', 'in'):
            da, db = route_spec(t[2]), route_spec(t[4])
            return [f'{op}:{placement(da, db)}:sp={t[6]}', f'kinds:{S.kind(t[1])}x{S.kind(t[3])}']
        if op in ('containsCoord', 'inCoord'):
            return [f'{op}:{"dt" if route_spec(t[2]) else "none"}:sp={t[5]}']
        if op == 'dt':
            return [f'dt:{t[2].split(":")[0]}:{"naive" if "@n" in t[2] else "aware"}']
        return [f'{op}:{a}']

    def nontrivial(ln, a):
        t = ln.split()
        op = t[0].split('.')[1]
        if op in ('intersects', 'contains', 'in'):
            return (route_spec(t[2]) is not None and route_spec(t[4]) is not None) or t[6] == 'T'
        return True

    # ---- 1. every pair of kinds x spatial class x time placements --------------------------------------
    pairs = shape_pairs()
    tl = timeline(run.scale(4, 4))
    combos = [(x, y) for x in tl for y in tl]
    per_pair = run.scale(9, len(combos))
    lines = []
    ctr = 0
    for pi, (ka, kb, cls, lst) in enumerate(pairs):
        order = combos if not run.quick else [combos[(pi * per_pair + j) % len(combos)] for j in range(per_pair)]
        for j, (x, y) in enumerate(order):
            A, B = lst[(pi + j) % len(lst)]
            ctr += 1
            ra, rb = route_for(x, ctr), route_for(y, ctr // 2 + j)
            for op in ('intersects', 'contains', 'in'):
                sp = sp_tok(REL_OF[op], A, B)
                if sp:
                    lines.append(f'st.{op} {A} {ra} {B} {rb} | {sp}')
    run.run_cases('kind-pairs-x-time-placements', lines, impl, spec, tag=tag, nontrivial=nontrivial)

    # ---- 2. exhaustive time placements on a few fixed, spatially related pairs -------------------------
    a0 = S.templates(0)
    fixed = [(a0['PB'], a0['Ts']), (a0['CB'], a0['Ps']), (S.mk_multi('MP', [a0['Bm'], a0['BB']]), a0['Ls']),
             (a0['Lz'], S.mk_multi('MT', [a0['Tv'], a0['Ts']])), (a0['Ts'], a0['Ts']), (a0['RB'], a0['Es'])]
    tl5 = timeline(run.scale(4, 5))
    lines = []
    for fi, (A, B) in enumerate(fixed[:run.scale(3, 6)]):
        for i, x in enumerate(tl5):
            for j, y in enumerate(tl5):
                ra, rb = route_for(x, i + j + fi), route_for(y, i * 3 + j + fi)
                for op in ('intersects', 'contains', 'in'):
                    sp = sp_tok(REL_OF[op], A, B)
                    if sp:
                        lines.append(f'st.{op} {A} {ra} {B} {rb} | {sp}')
    run.run_cases('all-time-placements', lines, impl, spec, tag=tag, nontrivial=nontrivial)

    # ---- 3. the coordinate shortcut --------------------------------------------------------------------
    kt = kind_templates()
    lines = []
    for ki, k in enumerate(S.KINDS):
        for A in kt[k][:2]:
            for ci, c in enumerate(S.ref_coords(0)):
                for ri, iv in enumerate([None, (1, 1), (0, 2)]):
                    r = route_for(iv, ki + ci + ri)
                    for op in ('containsCoord', 'inCoord'):
                        sp = sp_tok('k', A, c)
                        if sp:
                            lines.append(f'st.{op} {A} {r} {c} | {sp}')
    run.run_cases('coordinate-shortcut', lines, impl, spec, tag=tag)

    # ---- 4. the dt attribute along every construction route, every datetime representation -------------
    lines = []
    for ki, k in enumerate(S.KINDS):
        A = kt[k][0]
        lines += [f'st.dt {A} none', f'st.dt {A} sn']
        for rep in REPS:
            for how in ('d', 'sd', 'sdc'):
                lines.append(f'st.dt {A} {how}:{dt_tok(at(ki), rep)}')
            for rep2 in (REPS if not run.quick else [REPS[(ki + 1) % len(REPS)], 'n']):
                for how in ('i', 'si', 'sic'):
                    lines.append(f'st.dt {A} {how}:{dt_tok(at(ki), rep)},{dt_tok(at(ki + 3), rep2)}')
                    lines.append(f'st.dt {A} {how}:{dt_tok(at(ki), rep)},{dt_tok(at(ki), rep2)}')
        for _ in range(run.scale(5, 200)):
            t = S.BASE_US + rng.randrange(0, 10 ** 13)
            lines.append(f'st.dt {A} {rng.choice(["d", "sd", "sdc"])}:{dt_tok(t, rng.choice(REPS))}')
            lines.append(f'st.indist {A} {dt_tok(t, rng.choice(REPS))}')
        for rep in REPS:
            lines.append(f'st.indist {A} {dt_tok(at(ki), rep)}')
    run.run_cases('dt-normalisation', lines, impl, spec, tag=tag)

    # ---- 5. contains_time / intersects_time --------------------------------------------------------------
    lines = []
    tl4 = timeline(4)
    for ki, k in enumerate(S.KINDS):
        A = kt[k][ki % len(kt[k])]
        for i, own in enumerate(tl4):
            r = route_for(own, i + ki)
            for x in range(-1, 5):
                targ = f'a:{dt_tok(at(x), REPS[(x + i + ki) % len(REPS)])}'
                lines += [f'st.containsTime {A} {r} {targ}', f'st.intersectsTime {A} {r} {targ}']
            for j, other in enumerate(tl4[1:]):
                targ = f't:{dt_tok(at(other[0]), REPS[(j + ki) % len(REPS)])},{dt_tok(at(other[1]), REPS[(i + j) % len(REPS)])}'
                lines += [f'st.containsTime {A} {r} {targ}', f'st.intersectsTime {A} {r} {targ}']
    if run.quick:
        lines = lines[::2] + lines[1::4]
    run.run_cases('time-delegation', lines, impl, spec, tag=tag)
    run.exhaustive = True

    # ---- 6. random: microsecond resolution, any kinds, any routes ----------------------------------------
    lines = []
    flat = [(A, B) for (_ka, _kb, _cls, lst) in pairs for (A, B) in lst]
    for _ in range(run.scale(600, 30000)):
        A, B = rng.choice(flat)
        pts = sorted(S.BASE_US + rng.choice([rng.randrange(0, 8), rng.randrange(0, 10 ** 7), rng.randrange(0, 10 ** 13)])
                     for _ in range(rng.choice([2, 3, 4])))

        def rnd_iv():
            r = rng.random()
            if r < 0.2:
                return None
            c = sorted(rng.choice(pts) for _ in range(2))
            if r < 0.45:
                return (c[0], c[0])
            return tuple(c)

        def rnd_route(iv):
            if iv is None:
                return rng.choice(['none', 'none', 'sn'])
            rep = lambda: rng.choice(REPS)  # noqa: E731
            if iv[0] == iv[1] and rng.random() < 0.6:
                return f'{rng.choice(["d", "sd", "sdc"])}:{dt_tok(iv[0], rep())}'
            return f'{rng.choice(["i", "si", "sic"])}:{dt_tok(iv[0], rep())},{dt_tok(iv[1], rep())}'
        op = rng.choice(['intersects', 'contains', 'in'])
        sp = sp_tok(REL_OF[op], A, B)
        if sp:
            lines.append(f'st.{op} {A} {rnd_route(rnd_iv())} {B} {rnd_route(rnd_iv())} | {sp}')
    run.run_cases('random-us-tz', lines, impl, spec, tag=tag, nontrivial=nontrivial)


    # ---- 7. observe - mutate - observe histories on live objects (model-tied) ----------------------------------------------
    def hist_line(A, ra, B, rb, steps):
        bits = [sp_tok('i', A, B), sp_tok('c', A, B), sp_tok('i', B, A), sp_tok('c', B, A)]
        if None in bits:
            return None
        return f'st.hist {A} {ra} {B} {rb} | {"".join(bits)} | ' + ' '.join(steps)

    def D(k):
        return dt_tok(at(k), rng.choice(REPS))
    # per receiver kind: pairs where both spatial tests hold, so that the temporal conjunct decides
    hp = []
    for ka in S.KINDS:
        cands = [lst[0] for (k1, _kb, cls, lst) in pairs if k1 == ka and cls == (True, True)]
        hp += cands[:run.scale(2, 4)]
    init_a = [lambda: 'none', lambda: f'd:{D(4)}', lambda: f'i:{D(4)},{D(4)}', lambda: f'sd:{D(4)}',
              lambda: f'i:{D(2)},{D(6)}', lambda: f'si:{D(3)},{D(5)}', lambda: 'sn', lambda: f'sdc:{D(4)}']
    probes = [lambda: f'd:{D(5)}', lambda: f'i:{D(3)},{D(5)}', lambda: f'i:{D(4)},{D(6)}', lambda: f'd:{D(4)}',
              lambda: f'i:{D(5)},{D(5)}', lambda: 'none', lambda: 'al', lambda: f'i:{D(3)},{D(4)}']
    muts = [lambda: f'bf:{tick}', lambda: f'bf:{2 * tick}', lambda: 'bf:0', lambda: f'bf:{-tick}', lambda: f'sd:{D(5)}',
            lambda: f'sd:{D(4)}', lambda: f'si:{D(5)},{D(5)}', lambda: f'si:{D(3)},{D(6)}', lambda: 'sn', lambda: 'st']
    warm = [[], ['A?i'], ['A?c'], ['B?i', 'A?n'], [f'A?t:a:{D(4)}'], [f'A?x:t:{D(4)},{D(5)}'], ['A?d', 'B?c']]

    def block():
        return ['A?d', 'A?i', 'B?i', 'A?c', 'B?c', 'A?n', f'A?t:a:{D(5)}', f'A?x:a:{D(3)}', f'A?t:t:{D(4)},{D(5)}',
                f'A?x:t:{D(5)},{D(7)}', 'B?d']
    lines = []
    h = 0
    second = run.scale(1, 2)
    skip = run.scale(9, 2)
    for ia in range(len(init_a)):
        for pb in range(len(probes)):
            for w in range(len(warm)):
                for m in range(len(muts)):
                    for mode in '!~':
                        h += 1
                        if (h + ia + pb) % skip:
                            continue
                        for k in range(second):
                            A, B = hp[(h + k) % len(hp)]
                            m2 = muts[(h + 3 * k + m) % len(muts)]()
                            steps = (list(warm[w]) + [f'A{mode}{muts[m]()}'] + block() +
                                     [f'{"AB"[(h + k) % 2]}{"!~"[(h // 2 + k) % 2]}{m2}'] + block())
                            if mode == '~':
                                steps += ['O?d', 'O?i', 'O?c']
                            ln = hist_line(A, init_a[ia](), B, probes[pb](), steps)
                            if ln:
                                lines.append(ln)
    # members of a multi-shape: their own bounds never matter, the multi-shape's do
    for ki, k in enumerate(('MultiGeoPolygon', 'MultiGeoLineString', 'MultiGeoPoint')):
        for ti, A in enumerate(kt[k]):
            mem = S.members(A)
            stamped = [i for i, mtok in enumerate(mem) if '@' in mtok]
            for pi, (_ka, _kb, _cls, lst) in enumerate([x for x in pairs if x[0] == k and x[2][0]][:run.scale(3, 8)]):
                B = [b for (a_, b) in lst if a_ == A] or None
                if not B:
                    continue
                steps = ['A?i', 'A?c']
                for i in stamped:
                    steps += [f'A.{i}!bf:{tick}', 'A?i', 'A?d']
                for i in range(len(mem)):
                    steps += [f'A.{i}!sd:{D(5)}', 'A?i', 'A?c', f'A.{i}!si:{D(1)},{D(2)}', 'A?n', f'A.{i}!sn', 'A?i',
                              f'A.{i}!sd:{D(4)}', f'A.{i}!bf:{3 * tick}', 'B?i', f'A.{i}!st', 'B?c']
                steps += [f'A!bf:{tick}'] + block() + [f'A~si:{D(4)},{D(4)}'] + block() + ['O?d', 'O?i', f'O.0!sd:{D(5)}', 'A?i', 'O?i']
                for ra in (f'd:{D(4)}', f'i:{D(3)},{D(5)}', 'none'):
                    ln = hist_line(A, ra, B[0], probes[(ki + ti + pi) % len(probes)](), steps)
                    if ln:
                        lines.append(ln)
    # one TimeInterval object handed to two shapes; chains over the copies inplace=False returns
    for i, (A, B) in enumerate(hp):
        for ra in (f'i:{D(2)},{D(6)}', f'd:{D(4)}', f'si:{D(4)},{D(4)}'):
            ln = hist_line(A, ra, B, 'al', ['B?d', 'A?i', 'B?i', f'A!bf:{tick}', 'B?d', 'A?d', 'B?i', 'A?c', f'B!bf:{2 * tick}', 'A?d',
                                            'B?d', 'A?i', 'B?c', f'A~bf:{tick}', f'A!bf:{tick}', 'O?d', 'A?d', 'B?d', 'O?i', 'A?i',
                                            f'B~sd:{D(4)}', f'B!bf:{tick}', 'A?d', 'O?d', 'B?d', 'A?n'])
            if ln:
                lines.append(ln)
            ln = hist_line(A, ra, B, probes[i % len(probes)](),
                           ['A?i', f'A~bf:{tick}', 'A?d', 'O?d', f'A!bf:{tick}', 'O?d', 'O?i', 'O?c', f'O!sd:{D(7)}', 'A?d', 'A?i',
                            'O?d', 'A~st', 'A?d', 'O?d', 'A?i', 'O!bf:0', 'O?d', f'A!bf:{tick}', 'A~sn', f'A!sd:{D(5)}', 'O?d', 'A?c'])
            if ln:
                lines.append(ln)

    def tag_h(ln, a):
        t = ln.split()
        first = next((x for x in t[8:] if x[1] in '!~.'), 'A!-')
        cls = route_spec(t[2])
        cls = 'none' if cls is None else 'inst' if cls[0] == cls[1] else 'ival'
        return [f'hist:{cls}:{first[1]}{first[2:].split(":")[0]}:warm={int(t[8][1] == "?")}', f'hist-kind:{S.kind(t[1])}']
    run.run_cases('observe-mutate-observe', lines, impl_hist, spec_hist, tag=tag_h)

    # random histories
    lines = []
    for _ in range(run.scale(150, 3000)):
        A, B = rng.choice(hp) if rng.random() < 0.7 else rng.choice(flat)
        names = 'AAAB'
        steps = []
        copied = False
        for _s in range(rng.randint(3, 10)):
            r = rng.random()
            x = rng.choice(names + ('O' if copied else ''))
            if r < 0.5:
                steps.append(x + '?' + rng.choice(['i', 'c', 'n', 'd', f't:a:{D(rng.randrange(8))}', f'x:a:{D(rng.randrange(8))}',
                                                    f't:t:{D(3)},{D(rng.randrange(3, 8))}', f'x:t:{D(rng.randrange(4))},{D(rng.randrange(4, 8))}']))
            else:
                mode = '~' if (r > 0.85) else '!'
                lo = rng.randrange(8)
                mut = rng.choice([f'bf:{rng.choice([0, 1, 2, 3, -1, -2]) * tick}', f'bf:{rng.randrange(-5, 10 ** 7)}', f'sd:{D(lo)}',
                                  f'si:{D(lo)},{D(rng.randrange(lo, 9))}', f'si:{D(lo)},{D(lo)}', 'sn', 'st'])
                steps.append(x + mode + mut)
                copied = copied or (mode == '~' and x == 'A')
        steps += ['A?d', 'B?d', 'A?i', 'A?c', 'B?i', 'B?c']
        ra = rng.choice(init_a)()
        rb = rng.choice(probes)()
        ln = hist_line(A, ra, B, rb, steps)
        if ln:
            lines.append(ln)
    run.run_cases('random-histories', lines, impl_hist, spec_hist, tag=tag_h)

    # ---- 8. histories through the collection entry points (support, no model)
    lines = [f'st.collhist {"T" if i % 2 else "F"} {rng.randrange(10 ** 9)}' for i in range(run.scale(160, 2500))]
    run.run_cases('np-collection-histories', lines, impl_collhist, spec_coll, model=False,
                  spec_compare=lambda a, sp: a == 'OK',
                  known_key=lambda ln, a, sp: 'collection-history/' + ln.split()[1])

    # ---- 9. the collection override path (support, no model)
    lines = [f'st.coll {"T" if i % 2 else "F"} {rng.randrange(10 ** 9)}' for i in range(run.scale(300, 6000))]
    run.run_cases('np-collection-intersects', lines, impl_coll, spec_coll, model=False,
                  spec_compare=lambda a, sp: a == 'OK',
                  known_key=lambda ln, a, sp: 'collection.intersects/' + ln.split()[1])

    missing = [f'{ka}x{kb}' for ka in S.KINDS for kb in S.KINDS if not run.hist.get(f'kinds:{ka}x{kb}')]
    run.note(f'kind pairs without a case: {missing or "none"}; spatial classes per kind pair: '
             f'{len(pairs)} (contained / overlapping / disjoint as available)')

    return run.finish(
        rule='every ordered pair of the 10 shape kinds (for each spatial class that exists: contained, overlapping, '
             'disjoint) x time bounds {none, instant, interval} on a tick line in every order type (disjoint, '
             'touching, nested, overlapping, equal; exhaustive on fixed pairs) x intersects/contains/`in`; every '
             'construction route (datetime / TimeInterval / set_dt in place and copying / set_dt(None)) with '
             'naive, UTC and offset datetimes; coordinate shortcut; contains_time/intersects_time; plus random '
             'microsecond-resolution cases; observe-mutate-observe histories on live objects (every time mutator, in '
             'place and copying, on the shape, on multi-shape members, on shapes sharing one TimeInterval, on '
             'collection members; instant<->interval<->none transitions, zero and negative buffers) whose answers '
             'must be those of freshly built shapes. A case is one protocol line; non-trivial = both shapes '
             'time-bounded or the spatial answer is True (histories always); distinct by line.',
        assumptions=['datetime comparison/arithmetic is exact integer arithmetic on microseconds; aware datetimes compare and hash by UTC instant (CPython)',
                     'the spatial sub-answer is measured on dt-stripped copies of the same shapes (its correctness and time-freeness is C02)',
                     'CPython hash() is a function of value equality'],
        checker_cmd='cd lean && lake build GeoVerif.Props.C05 && lake env lean .lake/audit/C05.lean  (#print axioms)')
