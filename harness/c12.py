"""C12 — hashing a shape returns exactly the geohash cells it touches (Niemeyer flood fill; collections; H3 glue)."""
import math
from datetime import datetime, timedelta, timezone
from fractions import Fraction as F

import common
from common import rat
import c11
from geohash_twice import Unstable, guard, shape_state, twice
from c11 import ALPHABET, hash_of_cell, split_bits, _ranges, cell_rect

MODULE = ['GeoVerif.Props.C12', 'GeoVerif.Props.C12Lattice', 'GeoVerif.Props.C12Filled']
THEOREMS = ['GV.Flood.' + t for t in (
    'flood_eq_reach', 'flood_schedule_independent', 'flood_sound', 'flood_has_start',
    'flood_complete_of_connected', 'flood_only_connected', 'flood_closed', 'flood_terminates', 'flood_total',
    'multi_is_union', 'hashShape_multi', 'hashCollection_spec', 'hashCollection_len',
)] + ['GV.Geohash.flood_terminates_geohash'] + [
    # Props/C12Lattice: the connectivity hypothesis of flood_complete_of_connected and the finiteness hypothesis of
    # flood_terminates *proved* on the lattice Int x Int (grid over Rat) for rectangles, segments and polylines
    'GV.Flood.flood_terminates_touched'] + ['GV.FloodLat.' + t for t in (
    'conn_of_split', 'flood_exact_of_conn',
    'rectTouches_iff_point', 'mem_rectBlock', 'length_rectBlock_le', 'rect_connected', 'rect_touchPath',
    'rect_flood_complete', 'rect_flood_exact', 'rect_flood_exact_point',
    'segTouches_iff', 'mem_segBlock', 'seg_connected', 'seg_flood_exact', 'seg_flood_exact_point',
    'polyTouches_iff', 'polyline_connected', 'polyline_flood_exact', 'polyline_flood_exact_first',
    # Props/C12Filled: the same for a FILLED ring (closed even-odd region of pointInRing) under ParityConst, and
    # ParityConst proved for strictly convex CCW rings => unconditional convex_filled_flood_exact
    'first_exit', 'filled_of_boundary', 'interior_all', 'filledTouchesC_iff', 'filled_west', 'mem_ringBlock',
    'filled_connected', 'filled_flood_exact_of', 'filled_flood_exact', 'filled_flood_exact_computable',
    'convex_exit', 'convex_parityConst', 'convex_filledMeets_iff', 'convex_filled_flood_exact',
    'convex_filled_flood_exact_set',
    # ... and the axis-parallel form of ParityConst proved for EVERY ring => unconditional exactness for arbitrary
    # (non-convex, self-intersecting) even-odd filled rings
    'affine_same_sign', 'vert_up', 'vert_edge', 'insideEO_vert', 'horiz_edge', 'insideEO_horiz',
    'axis_parityConst', 'ring_filledTouchesC_iff', 'ring_filled_connected', 'ring_filled_flood_exact',
    'ring_filled_flood_exact_set',
)]

KEY_F12B = 'NiemeyerHasher._hash_polygon/curved-sliver'
EPOCH = datetime(1970, 1, 1, tzinfo=timezone.utc)
T0_US = 1_600_000_000_000_000

_impl_cache = {}
_circle_cache = {}


def _mods():
    import geostructures as gs
    from geostructures import geohash as G
    from geostructures import collections as col
    from geostructures.utils import agg_functions as agg
    return gs, G, col, agg


# --------------------------------------------------------------------------------------------------
# shape tokens  <->  geostructures objects  <->  exact rings


def _split(toks, sep):
    out, cur = [], []
    for t in toks:
        if t == sep:
            out.append(cur)
            cur = []
        else:
            cur.append(t)
    out.append(cur)
    return out


def _pts(toks):
    return [(F(x), F(y)) for x, y in zip(toks[0::2], toks[1::2])]


def parse_shape(toks):
    kind, rest = toks[0], toks[1:]
    if kind in ('pt', 'mpt', 'ls'):
        return kind, _pts(rest)
    if kind == 'mls':
        return kind, [_pts(m) for m in _split(rest, '/')]
    if kind == 'poly':
        rings = [_pts(r) for r in _split(rest, 'h')]
        return kind, (rings[0], rings[1:])
    if kind == 'box':
        rings = _split(rest, 'h')
        return kind, (_pts(rings[0]), [_pts(r) for r in rings[1:]])
    if kind == 'mpoly':
        ms = []
        for m in _split(rest, '/'):
            rings = [_pts(r) for r in _split(m, 'h')]
            ms.append((rings[0], rings[1:]))
        return kind, ms
    if kind == 'circ':
        return kind, tuple(F(v) for v in rest)
    if kind == 'ell':
        return kind, tuple(F(v) for v in rest)
    raise ValueError('unknown shape kind ' + kind)


def shape_tokens(kind, data):
    def p(pts):
        return ' '.join(f'{rat(x)} {rat(y)}' for x, y in pts)
    if kind in ('pt', 'mpt', 'ls'):
        return f'{kind} {p(data)}'
    if kind == 'mls':
        return 'mls ' + ' / '.join(p(m) for m in data)
    if kind in ('poly', 'box'):
        return f'{kind} ' + ' h '.join([p(data[0])] + [p(h) for h in data[1]])
    if kind == 'mpoly':
        return 'mpoly ' + ' / '.join(' h '.join([p(s)] + [p(h) for h in hs]) for s, hs in data)
    return f'{kind} ' + ' '.join(rat(v) for v in data)


def build(kind, data, dt=None, properties=None):
    gs = _mods()[0]
    C = gs.Coordinate

    def c(p):
        return C(float(p[0]), float(p[1]))

    def poly(shell, holes):
        return gs.GeoPolygon([c(p) for p in shell], holes=[gs.GeoPolygon([c(p) for p in h]) for h in holes] or None)
    kw = {'dt': dt, 'properties': properties}
    if kind == 'pt':
        return gs.GeoPoint(c(data[0]), **kw)
    if kind == 'mpt':
        return gs.MultiGeoPoint([gs.GeoPoint(c(p)) for p in data], **kw)
    if kind == 'ls':
        return gs.GeoLineString([c(p) for p in data], **kw)
    if kind == 'mls':
        return gs.MultiGeoLineString([gs.GeoLineString([c(p) for p in m]) for m in data], **kw)
    if kind == 'poly':
        return gs.GeoPolygon([c(p) for p in data[0]],
                             holes=[gs.GeoPolygon([c(p) for p in h]) for h in data[1]] or None, **kw)
    if kind == 'box':
        return gs.GeoBox(c(data[0][0]), c(data[0][1]),
                         holes=[gs.GeoPolygon([c(p) for p in h]) for h in data[1]] or None, **kw)
    if kind == 'mpoly':
        return gs.MultiGeoPolygon([poly(s, hs) for s, hs in data], **kw)
    if kind == 'circ':
        return gs.GeoCircle(C(float(data[0]), float(data[1])), float(data[2]), **kw)
    if kind == 'ell':
        return gs.GeoEllipse(C(float(data[0]), float(data[1])), float(data[2]), float(data[3]), float(data[4]), **kw)
    raise ValueError(kind)


def _close(r):
    return r if r[0] == r[-1] else r + [r[0]]


def exact_members(kind, data, obj):
    """the member shapes as exact geometry: ('pt', p) | ('ls', pts) | ('poly', shell, holes)"""
    if kind == 'pt':
        return [('pt', data[0])]
    if kind == 'mpt':
        return [('pt', p) for p in data]
    if kind == 'ls':
        return [('ls', data)]
    if kind == 'mls':
        return [('ls', m) for m in data]
    if kind == 'poly':
        return [('poly', _close(data[0]), [_close(h) for h in data[1]])]
    if kind == 'box':
        (x0, y1), (x1, y0) = data[0]
        return [('poly', [(x0, y1), (x0, y0), (x1, y0), (x1, y1), (x0, y1)], [_close(h) for h in data[1]])]
    if kind == 'mpoly':
        return [('poly', _close(s), [_close(h) for h in hs]) for s, hs in data]
    # curved: the polygon form the hasher works on
    rings = [[(F(c.longitude), F(c.latitude)) for c in ring] for ring in obj.linear_rings()]
    return [('poly', _close(rings[0]), [_close(r) for r in rings[1:]])]


def member_points(mem):
    pts = []
    for m in mem:
        if m[0] == 'pt':
            pts.append(m[1])
        elif m[0] == 'ls':
            pts += m[1]
        else:
            pts += m[1]
            for h in m[2]:
                pts += h
    return pts


def impl_members(obj):
    return list(obj.geoshapes) if hasattr(obj, 'geoshapes') else [obj]


# --------------------------------------------------------------------------------------------------
# exact geometric truth on the integer grid: cell (i, j) is the closed square [iD,(i+1)D] x [jD,(j+1)D]


def cross(o, a, b):
    return (a[0] - o[0]) * (b[1] - o[1]) - (a[1] - o[1]) * (b[0] - o[0])


def seg_touch_box(a, b, X0, Y0, X1, Y1):
    """closed segment meets closed axis-parallel box (separating axis test, exact)"""
    if max(a[0], b[0]) < X0 or min(a[0], b[0]) > X1 or max(a[1], b[1]) < Y0 or min(a[1], b[1]) > Y1:
        return False
    s = [cross(a, b, c) for c in ((X0, Y0), (X1, Y0), (X1, Y1), (X0, Y1))]
    return not (all(v > 0 for v in s) or all(v < 0 for v in s))


def _on(p, a, b):
    return min(a[0], b[0]) <= p[0] <= max(a[0], b[0]) and min(a[1], b[1]) <= p[1] <= max(a[1], b[1])


def seg_inter(a, b, c, d):
    """closed segments share a point"""
    d1, d2, d3, d4 = cross(c, d, a), cross(c, d, b), cross(a, b, c), cross(a, b, d)
    if ((d1 > 0 > d2) or (d1 < 0 < d2)) and ((d3 > 0 > d4) or (d3 < 0 < d4)):
        return True
    return (d1 == 0 and _on(a, c, d)) or (d2 == 0 and _on(b, c, d)) or (d3 == 0 and _on(c, a, b)) or (d4 == 0 and _on(d, a, b))


def in_ring(p, ring):
    """+1 strictly inside, 0 on the ring, -1 outside (closed ring, even-odd, exact)"""
    inside = False
    for a, b in zip(ring, ring[1:]):
        cr = cross(a, b, p)
        if cr == 0 and _on(p, a, b):
            return 0
        if (a[1] > p[1]) != (b[1] > p[1]) and ((cr > 0) == (b[1] > a[1])):
            inside = not inside
    return 1 if inside else -1


def in_region(p, shell, holes):
    """+1 strictly inside the polygon-with-holes, 0 on its boundary, -1 outside"""
    v = in_ring(p, shell)
    if v <= 0:
        return v
    for h in holes:
        w = in_ring(p, h)
        if w == 1:
            return -1
        if w == 0:
            return 0
    return 1


class Grid:
    """cells of one (base, length) in integer coordinates"""

    def __init__(self, b, L, pts):
        self.b, self.L = b, L
        self.x0, x1, self.y0, y1 = _ranges(b)
        self.nlon, self.nlat = split_bits(b, L)
        self.w, self.h = (x1 - self.x0) / 2 ** self.nlon, (y1 - self.y0) / 2 ** self.nlat
        d = 1
        for x, y in pts:
            for v in ((x - self.x0) / self.w, (y - self.y0) / self.h):
                d = d * v.denominator // math.gcd(d, v.denominator)
        self.D = 2 * d
        self.jmin = math.ceil((F(-90) - self.y0) / self.h)
        self.jmax = math.floor((F(90) - self.y0) / self.h) - 1

    def g(self, p):
        X, Y = (p[0] - self.x0) / self.w * self.D, (p[1] - self.y0) / self.h * self.D
        assert X.denominator == 1 and Y.denominator == 1
        return int(X), int(Y)

    def window(self, gpts, margin=2):
        D = self.D
        i0 = max(0, min(p[0] for p in gpts) // D - margin)
        i1 = min(2 ** self.nlon - 1, max(p[0] for p in gpts) // D + margin)
        j0 = max(self.jmin, min(p[1] for p in gpts) // D - margin)
        j1 = min(self.jmax, max(p[1] for p in gpts) // D + margin)
        return [(i, j) for i in range(i0, i1 + 1) for j in range(j0, j1 + 1)]

    def name(self, ij):
        return hash_of_cell(self.b, self.L, ij[0], ij[1])


def member_truth(grid, member, cells, fragile_eps=None):
    """-> (must, either, info): cells that touch the member (closed box ∩ closed shape ≠ ∅); `either` are the
    touching cells whose only contact is the collinear overlap C02 documents as excluded"""
    D = grid.D
    kind = member[0]
    must, either = set(), set()
    info = {'interior': 0}
    if kind == 'pt':
        X, Y = grid.g(member[1])
        for (i, j) in cells:
            if i * D <= X <= (i + 1) * D and j * D <= Y <= (j + 1) * D:
                either.add((i, j))       # a point on a cell edge lies in several closed cells; any one of them will do
        if len(either) == 1:
            must, either = either, set()
        return must, either, info
    if kind == 'ls':
        rings = [[grid.g(p) for p in member[1]]]
        shell, holes = None, []
    else:
        shell = [grid.g(p) for p in member[1]]
        holes = [[grid.g(p) for p in h] for h in member[2]]
        rings = [shell] + holes
    edges = [(a, b) for r in rings for a, b in zip(r, r[1:])]
    v0 = rings[0][0]
    cellset = set(cells)
    touched = {}
    for a, b in edges:
        i0, i1 = min(a[0], b[0]) // D - 1, max(a[0], b[0]) // D + 1
        j0, j1 = min(a[1], b[1]) // D - 1, max(a[1], b[1]) // D + 1
        for i in range(i0, i1 + 1):
            for j in range(j0, j1 + 1):
                if (i, j) in cellset and seg_touch_box(a, b, i * D, j * D, (i + 1) * D, (j + 1) * D):
                    touched.setdefault((i, j), []).append((a, b))
    for ij in cells:
        i, j = ij
        X0, Y0, X1, Y1 = i * D, j * D, (i + 1) * D, (j + 1) * D
        if ij in touched:
            # documented exclusion of C02: contact only through parallel overlapping edges
            box_edges = [((X0, Y1), (X0, Y0)), ((X0, Y0), (X1, Y0)), ((X1, Y0), (X1, Y1)), ((X1, Y1), (X0, Y1))]
            ok = X0 <= v0[0] <= X1 and Y0 <= v0[1] <= Y1
            if not ok:
                for a, b in touched[ij]:
                    for c, d in box_edges:
                        if (b[0] - a[0]) * (d[1] - c[1]) - (b[1] - a[1]) * (d[0] - c[0]) != 0 and seg_inter(a, b, c, d):
                            ok = True
                            break
                    if ok:
                        break
            if not ok and shell is not None and in_region((X0, Y1), shell, holes) == 1:
                ok = True
            (must if ok else either).add(ij)
        elif shell is not None:
            if in_region(((X0 + X1) // 2, (Y0 + Y1) // 2), shell, holes) == 1:
                must.add(ij)
                info['interior'] += 1
    return must, either, info


# --------------------------------------------------------------------------------------------------
# measuring the implementation's tables for the model


def measure(b, L, obj, grid, cells):
    """touches table per member (`niemeyer_to_geobox(c).intersects_shape(member)` over the window), start cells,
    and the `_get_surrounding` table for every cell the flood can expand"""
    _gs, G, _col, _agg = _mods()
    names = [grid.name(ij) for ij in cells]
    boxes = [G.niemeyer_to_geobox(n, b) for n in names]
    secs, expand = [], set()
    for m in impl_members(obj):
        first = m.vertices[0] if hasattr(m, 'vertices') else m.bounding_coords()[0]
        start = G._coord_to_niemeyer(first, L, b)
        touching = [n for n, bx in zip(names, boxes) if bx.intersects_shape(m)]
        secs.append((start, touching))
        expand.add(start)
        expand.update(touching)
    tbl = {c: G.NiemeyerHasher._get_surrounding(c, b) for c in sorted(expand)}
    return tbl, secs


def make_line(b, L, sched, kind, data, timeout=60):
    """protocol line for one shape (None when the shape cannot be measured)"""
    toks = shape_tokens(kind, data)
    head = f'fl.hash {b} {L} {sched} {toks}'
    if kind in ('pt', 'mpt'):
        return head
    obj = build(kind, data)
    mem = exact_members(kind, data, obj)
    pts = member_points(mem)
    grid = Grid(b, L, pts)
    cells = grid.window([grid.g(p) for p in pts])
    with common.watchdog(timeout):
        tbl, secs = measure(b, L, obj, grid, cells)
    t = ' '.join(f'{c}:{",".join(ns)}' for c, ns in tbl.items())
    s = ' | '.join(' '.join([st] + tch) for st, tch in secs)
    return f'{head} | {t} | {s}'


# --------------------------------------------------------------------------------------------------
# interpreters


def _head(line):
    """(base, L, sched, shape tokens) of an fl.hash line"""
    a = line.split(' | ')[0].split()
    return int(a[1]), int(a[2]), a[3], a[4:]


@guard
def impl(line):
    """hash_shape / hash_collection observed as a sequence on the SAME hasher and the SAME shape / collection objects:
    call, edit the returned set / dict (geohash_twice.edit), call again; the answer is the second result (`UNSTABLE …`
    if it differs from the first).  The inputs must come out of it unedited."""
    gs, G, col, agg = _mods()
    op = line.split(' ', 1)[0].split('.', 1)[1]
    if op == 'hash':
        b, L, _s, toks = _head(line)
        kind, data = parse_shape(toks)
        obj = build(kind, data)
        before = shape_state(obj)
        hasher = G.NiemeyerHasher(L, b)
        salt = line[:200]
        res = twice(hasher.hash_shape, obj, salt=salt)
        if shape_state(obj) != before or (hasher.length, hasher.base) != (L, b):
            raise Unstable('hash_shape edited its input shape / the hasher')
        r = ' '.join(sorted(res))
        _impl_cache[line] = r
        return r
    if op == 'coll':
        b, L, aggname, ckind, shapes = parse_coll(line)
        c = (col.Track if ckind == 'track' else col.FeatureCollection)(shapes)
        order = [id(s) for s in c.geoshapes]
        before = [shape_state(s) for s in c.geoshapes]
        hasher = G.NiemeyerHasher(L, b)
        salt = line[:200]
        if aggname == 'len':
            d = twice(hasher.hash_collection, c, salt=salt)
            show = str
        elif aggname == 'total_time':
            d = twice(hasher.hash_collection, c, salt=salt, agg_fn=agg.total_time)
            show = rat
        elif aggname == 'unique_entities':
            d = twice(hasher.hash_collection, c, salt=salt, agg_fn=agg.unique_entities)
            show = rat
        else:
            d = twice(hasher.hash_collection, c, salt=salt,
                      agg_fn=lambda l: '.'.join(str(s.properties['vid']) for s in l))
            show = str
        if [id(s) for s in c.geoshapes] != order or [shape_state(s) for s in c.geoshapes] != before:
            raise Unstable('hash_collection edited the collection / its shapes')
        return ' '.join(f'{k}={show(v)}' for k, v in sorted(d.items())) or '-'
    raise ValueError('unknown op ' + op)


def parse_coll(line):
    gs, _G, _col, _agg = _mods()
    from geostructures.time import TimeInterval
    secs = line.split(' || ')
    a = secs[0].split()
    b, L, aggname, ckind = int(a[1]), int(a[2]), a[3], a[4]
    shapes = []
    for sec in secs[1:]:
        toks, attr, _cells = sec.split(' @ ') if sec.count(' @ ') == 2 else (sec.split(' @ ') + [''])[:3]
        vid, st, el, ent = attr.split()
        dt = None
        if st != '-':
            t0 = EPOCH + timedelta(microseconds=int(st))
            dt = t0 if el == '0' else TimeInterval(t0, t0 + timedelta(microseconds=int(el)))
        props = {'vid': int(vid)}
        if ent != '-':
            props['entity'] = ent
        kind, data = parse_shape(toks.split())
        shapes.append(build(kind, data, dt=dt, properties=props))
    return b, L, aggname, ckind, shapes


def spec(line):
    """the property's demand for one line; an exception of the implementation inside a call the oracle needs
    (e.g. hash_shape of a member of a collection) is an answer the implementation cannot match"""
    try:
        return _spec(line)
    except common.InfraError:
        raise
    except Exception as e:  # noqa
        return 'ORACLE-NEEDS-IMPL:' + common.err_name(e)


def _spec(line):
    """exact geometric truth (dyadic shapes; curved shapes through their polygon form)"""
    gs, G, col, _agg = _mods()
    op = line.split(' ', 1)[0].split('.', 1)[1]
    if op == 'hash':
        b, L, _s, toks = _head(line)
        kind, data = parse_shape(toks)
        obj = build(kind, data)
        mem = exact_members(kind, data, obj)
        pts = member_points(mem)
        grid = Grid(b, L, pts)
        cells = grid.window([grid.g(p) for p in pts])
        got = _impl_cache.get(line)
        if got is None:
            try:
                got = impl(line)
            except Exception:  # noqa
                got = ''
        gotset = set(got.split())
        names = set()
        for m in mem:
            mu, ei, _info = member_truth(grid, m, cells)
            if kind in ('circ', 'ell'):
                ei |= fragile_cells(grid, m, cells, mu)
                mu -= ei
            names |= {grid.name(ij) for ij in mu}
            # don't-care cells (a point on a cell edge lies in several closed cells; documented collinear-only
            # contact; float-fragile verdicts of curved shapes): whatever the implementation answered is accepted
            en = {grid.name(ij) for ij in ei}
            if m[0] == 'pt' and en and not (en & gotset):
                names.add(min(en))            # … but a point must land in one of its closed cells
            names |= en & gotset
        if kind in ('circ', 'ell'):
            # the implementation also accepts a cell whose NW corner the *analytic* shape contains (the corner lies
            # in the sliver between the 36-gon and the curve): such a cell does touch the shape, so it is permitted
            gs = _mods()[0]
            for c in gotset - names:
                r = cell_rect(b, c)
                if r is not None and any(obj.contains_coordinate(gs.Coordinate(float(x), float(y)))
                                         for x in (r[0], r[2]) for y in (r[1], r[3])):
                    names.add(c)
        return ' '.join(sorted(names))
    if op == 'coll':
        b, L, aggname, ckind, shapes = parse_coll(line)
        c = (col.Track if ckind == 'track' else col.FeatureCollection)(shapes)
        hasher = G.NiemeyerHasher(L, b)
        order = list(c.geoshapes)
        hs = [hasher.hash_shape(s) for s in order]
        return expected_aggregates(order, hs, aggname)
    return None


def expected_aggregates(order, hs, aggname):
    """the statement, literally: each cell maps to the aggregation of exactly those TOP-LEVEL shapes of the collection
    (each once, in collection order) whose own hash set `hs[k]` (for a multi-shape: the union over its members)
    contains the cell"""
    out = {}
    for cell in sorted(set().union(*hs) if hs else ()):
        ms = [s for s, h in zip(order, hs) if cell in h]
        if aggname == 'len':
            v = str(len(ms))
        elif aggname == 'total_time':
            v = rat(sum((F(int((s.dt.end - s.dt.start) / timedelta(microseconds=1)), 10 ** 6) if s.dt else F(0)) for s in ms))
        elif aggname == 'unique_entities':
            v = str(len({s.properties['entity'] for s in ms if 'entity' in s.properties}))
        else:
            v = '.'.join(str(s.properties['vid']) for s in ms)
        out[cell] = v
    return ' '.join(f'{k}={v}' for k, v in sorted(out.items())) or '-'


def fragile_cells(grid, member, cells, must):
    """curved shapes have arbitrary-float vertices: a cell whose verdict flips when the polygon is moved by 1e-9
    of a cell is excluded from the comparison (float rounding in the implementation may go either way)"""
    D = grid.D
    e = max(1, D // 10 ** 9)
    out = set()
    for dx, dy in ((e, 0), (-e, 0), (0, e), (0, -e)):
        def sh(p):
            return (p[0] + F(dx, D) * grid.w, p[1] + F(dy, D) * grid.h)
        m2 = ('poly', [sh(p) for p in member[1]], [[sh(p) for p in h] for h in member[2]])
        mu2, ei2, _ = member_truth(grid, m2, cells)
        out |= (must ^ (mu2 | ei2))
    return out


def impl_for(line):
    if line.startswith('np-'):
        return np_impl
    return c11.impl if line.startswith('gh.') else impl


def spec_for(line):
    if line.startswith('np-'):
        return np_spec
    return c11.spec if line.startswith('gh.') else spec


# --------------------------------------------------------------------------------------------------
# clauses only an external judge can decide (H3 library; analytic circle): `np-` streams, model=False


@guard
def np_impl(line):
    gs, G, col, _agg = _mods()
    import h3
    a = line.split()
    op = a[0]
    if op == 'np-h3.point':
        res, x, y = int(a[1]), float(F(a[2])), float(F(a[3]))
        r = twice(G.H3Hasher(res).hash_shape, gs.GeoPoint(gs.Coordinate(x, y)), salt=line)
        return ' '.join(sorted(r))
    if op == 'np-h3.poly':
        res = int(a[1])
        kind, data = parse_shape(a[2:])
        obj = build(kind, data)
        cells = twice(G.H3Hasher(res).hash_shape, obj, salt=line[:200])
        mem = exact_members(kind, data, obj)
        bad = 0
        for c in cells:
            lat, lon = h3.cell_to_latlng(c)
            p = (F(lon), F(lat))
            if not any(in_region(p, m[1], m[2]) >= 0 for m in mem):
                bad += 1
        return f'{"some" if cells else "none"} bad={bad}'
    if op == 'np-h3.coll':
        # np-h3.coll <res> 0 <agg> <fc|track> || <shape> @ <id> <start|-> <elapsed|-> <entity|-> || …
        res, _zero, aggname, ckind, shapes = parse_coll(line)
        c = (col.Track if ckind == 'track' else col.FeatureCollection)(shapes)
        before = [shape_state(x) for x in c.geoshapes]
        hasher = G.H3Hasher(res)
        agg = _mods()[3]
        salt = line[:200]
        if aggname == 'len':
            d, show = twice(hasher.hash_collection, c, salt=salt), str
        elif aggname == 'total_time':
            d, show = twice(hasher.hash_collection, c, salt=salt, agg_fn=agg.total_time), rat
        elif aggname == 'unique_entities':
            d, show = twice(hasher.hash_collection, c, salt=salt, agg_fn=agg.unique_entities), rat
        else:
            d, show = twice(hasher.hash_collection, c, salt=salt,
                            agg_fn=lambda l: '.'.join(str(x.properties['vid']) for x in l)), str
        if [shape_state(x) for x in c.geoshapes] != before:
            raise Unstable('H3Hasher.hash_collection edited the collection / its shapes')
        return ' '.join(f'{k}={show(v)}' for k, v in sorted(d.items())) or '-'
    if op == 'np-h3.multi':
        res = int(a[1])
        kind, data = parse_shape(a[2:])
        return ' '.join(sorted(twice(G.H3Hasher(res).hash_shape, build(kind, data), salt=line[:200]))) or '-'
    if op == 'np-sliver.circ':
        b, L = int(a[1]), int(a[2])
        cx, cy, r, bearing, frac = (float(F(v)) for v in a[3:8])
        from geostructures.calc import inverse_haversine_degrees
        circ = gs.GeoCircle(gs.Coordinate(cx, cy), r)
        q = inverse_haversine_degrees(circ.center, bearing, r * frac)
        if not circ.contains_coordinate(q):
            return 'outside'
        key = (b, L, cx, cy, r)
        if key not in _circle_cache:
            _circle_cache.clear()
            _circle_cache[key] = twice(G.NiemeyerHasher(L, b).hash_shape, circ, salt=repr(key))
        cells = _circle_cache[key]
        if G._coord_to_niemeyer(q, L, b) in cells:
            return 'present'
        ring = [(F(c.longitude), F(c.latitude)) for c in circ.bounding_coords()]
        return 'missing-sliver' if in_ring((F(q.longitude), F(q.latitude)), _close(ring)) < 1 else 'missing-inside-polygon'
    raise ValueError(op)


class NoJudge(Exception):
    """the external judge has no answer for this line: the property demands nothing"""


def h3_cells(shape, res):
    """cells of a shape with the h3 library as the judge: a point's cell is h3.latlng_to_cell, a polygon's cells are
    h3.polygon_to_cells of its rings (both called here directly, not through the hasher); a linestring's cells are what
    the hasher answers for that single line (the library has no such primitive); a multi-shape is the UNION over its
    members — it is in the result once, however many members share a cell"""
    import h3
    G = _mods()[1]
    if hasattr(shape, 'geoshapes'):
        return set().union(*[h3_cells(m, res) for m in shape.geoshapes])
    if hasattr(shape, 'vertices'):
        try:
            return set(G.H3Hasher(res).hash_shape(shape))
        except Exception as e:  # noqa  h3.grid_path_cells gives up on some lines (pentagon distortion): no judge
            raise NoJudge(type(e).__name__)
    if hasattr(shape, 'linear_rings'):
        rings = [[(c.latitude, c.longitude) for c in ring] for ring in shape.linear_rings()]
        return set(h3.polygon_to_cells(h3.LatLngPoly(*rings), res))
    c = shape.centroid
    return {h3.latlng_to_cell(c.latitude, c.longitude, res)}


def np_spec(line):
    try:
        return _np_spec(line)
    except NoJudge:
        return None
    except common.InfraError:
        raise
    except Exception as e:  # noqa
        return 'ORACLE-NEEDS-IMPL:' + common.err_name(e)


def _np_spec(line):
    gs, G, _col, _agg = _mods()
    import h3
    a = line.split()
    op = a[0]
    if op == 'np-h3.point':
        res, x, y = int(a[1]), float(F(a[2])), float(F(a[3]))
        c = gs.Coordinate(x, y)
        return h3.latlng_to_cell(c.latitude, c.longitude, res)
    if op == 'np-h3.poly':
        return 'some bad=0'
    if op == 'np-h3.coll':
        res, _zero, aggname, ckind, shapes = parse_coll(line)
        _gs, _G, col, _a = _mods()
        c = (col.Track if ckind == 'track' else col.FeatureCollection)(shapes)
        order = list(c.geoshapes)
        hs = [h3_cells(s, res) for s in order]
        return expected_aggregates(order, hs, aggname)
    if op == 'np-h3.multi':
        res = int(a[1])
        return ' '.join(sorted(h3_cells(build(*parse_shape(a[2:])), res))) or '-'
    if op == 'np-sliver.circ':
        # contained coordinate => its cell is returned (the statement read literally, I3)
        got = np_impl(line)
        return 'outside' if got == 'outside' else 'present'
    return None


# --------------------------------------------------------------------------------------------------
# generators (all vertices on the quarter-cell lattice of the chosen (base, length): dyadic, exact)


LENGTHS = {16: (3, 4, 5), 32: (2, 3, 4), 64: (2, 3)}


class Lattice:
    """quarter-cell (q=4) lattice with its origin on a cell corner, placed so that `extent` cells fit inside
    lon ±170 / lat ±75 (away from the antimeridian and the poles)"""

    def __init__(self, rng, b, L, extent=8, q=4):
        self.b, self.L, self.q = b, L, q
        x0, x1, y0, y1 = _ranges(b)
        nlon, nlat = split_bits(b, L)
        self.w, self.h = (x1 - x0) / 2 ** nlon, (y1 - y0) / 2 ** nlat
        ilo, ihi = math.ceil((F(-170) - x0) / self.w) + 3, math.floor((F(170) - x0) / self.w) - extent - 3
        jlo, jhi = math.ceil((F(-75) - y0) / self.h) + 3, math.floor((F(75) - y0) / self.h) - extent - 3
        if ihi < ilo or jhi < jlo:
            raise ValueError('extent does not fit')
        i, j = rng.randint(ilo, ihi), rng.randint(jlo, jhi)
        self.ox, self.oy = x0 + i * self.w, y0 + j * self.h

    def P(self, i, j):
        return (self.ox + F(i, self.q) * self.w, self.oy + F(j, self.q) * self.h)

    def moved(self, di, dj):
        """same lattice, origin moved by half-cell steps"""
        sub = Lattice.__new__(Lattice)
        sub.__dict__.update(self.__dict__)
        sub.ox, sub.oy = self.ox + di * self.w / 2, self.oy + dj * self.h / 2
        return sub


def rect(lat, i0, j0, i1, j1):
    return [lat.P(i0, j0), lat.P(i1, j0), lat.P(i1, j1), lat.P(i0, j1), lat.P(i0, j0)]


def gen_polygon(rng, lat, W, H):
    """(shell, holes, family) in lattice units inside [0,W]x[0,H]"""
    fam = rng.choice(['rect', 'rect-hole', 'tri', 'convex', 'L', 'U', 'star', 'diamond', 'rect-2holes'])
    P = lat.P
    holes = []
    if fam.startswith('rect'):
        shell = rect(lat, 0, 0, W, H)
        if fam != 'rect' and W >= 8 and H >= 8:
            if fam == 'rect-hole':
                a, b_ = rng.randint(1, W // 2 - 1), rng.randint(1, H // 2 - 1)
                c, d = rng.randint(W // 2 + 1, W - 1), rng.randint(H // 2 + 1, H - 1)
                if rng.random() < 0.5:
                    holes = [rect(lat, a, b_, c, d)]
                else:   # diamond hole
                    mx, my = (a + c) // 2, (b_ + d) // 2
                    holes = [[P(mx, b_), P(c, my), P(mx, d), P(a, my), P(mx, b_)]]
            else:
                m = W // 2
                holes = [rect(lat, 1, 1, m - 1, H - 1), rect(lat, m + 1, 1, W - 1, H - 1)] if m >= 3 else []
    elif fam == 'tri':
        pts = [(rng.randint(0, W), rng.randint(0, H)) for _ in range(3)]
        if cross(*pts) == 0:
            pts = [(0, 0), (W, 0), (W // 2, H)]
        shell = [P(*p) for p in pts] + [P(*pts[0])]
    elif fam == 'convex':
        pts = list({(rng.randint(0, W), rng.randint(0, H)) for _ in range(rng.randint(4, 10))})
        hull = convex_hull_int(pts)
        if len(hull) < 3:
            hull = [(0, 0), (W, 0), (W, H), (0, H)]
        shell = [P(*p) for p in hull] + [P(*hull[0])]
    elif fam == 'L':
        a, b_ = rng.randint(1, max(1, W - 1)), rng.randint(1, max(1, H - 1))
        shell = [P(0, 0), P(W, 0), P(W, b_), P(a, b_), P(a, H), P(0, H), P(0, 0)]
    elif fam == 'U':
        a, c = sorted(rng.sample(range(1, max(3, W)), 2)) if W >= 3 else (1, 2)
        d = rng.randint(1, max(1, H - 1))
        shell = [P(0, 0), P(W, 0), P(W, H), P(c, H), P(c, d), P(a, d), P(a, H), P(0, H), P(0, 0)]
    elif fam == 'diamond':
        mx, my = W // 2, H // 2
        shell = [P(mx, 0), P(W, my), P(mx, H), P(0, my), P(mx, 0)]
        if mx >= 4 and my >= 4 and rng.random() < 0.5:
            holes = [[P(mx, my - my // 2), P(mx + mx // 2, my), P(mx, my + my // 2), P(mx - mx // 2, my), P(mx, my - my // 2)]]
    else:  # star-shaped around the centre, distinct directions
        cx, cy = W // 2, H // 2
        seen, pts = set(), []
        for _ in range(rng.randint(5, 12)):
            p = (rng.randint(0, W), rng.randint(0, H))
            dx, dy = p[0] - cx, p[1] - cy
            if (dx, dy) == (0, 0):
                continue
            g = math.gcd(abs(dx), abs(dy))
            key = (dx // g, dy // g)
            if key in seen:
                continue
            seen.add(key)
            pts.append(p)
        pts.sort(key=lambda p: math.atan2(p[1] - cy, p[0] - cx))
        ok = len(pts) >= 3 and all(cross((cx, cy), pts[k], pts[(k + 1) % len(pts)]) > 0 for k in range(len(pts)))
        if not ok:
            pts = [(0, 0), (W, 0), (W, H), (0, H)]
        shell = [P(*p) for p in pts] + [P(*pts[0])]
    return shell, holes, fam


def convex_hull_int(pts):
    pts = sorted(set(pts))
    if len(pts) <= 2:
        return pts

    def half(ps):
        h = []
        for p in ps:
            while len(h) >= 2 and cross(h[-2], h[-1], p) <= 0:
                h.pop()
            h.append(p)
        return h
    lo, up = half(pts), half(pts[::-1])
    return lo[:-1] + up[:-1]


def gen_linestring(rng, lat, W, H):
    fam = rng.choice(['walk', 'walk', 'diag', 'axis', 'closed', 'retrace', 'zigzag'])
    P = lat.P
    if fam == 'diag':
        n = min(W, H) // lat.q * lat.q or lat.q
        pts = [(0, 0), (n, n)]                      # through cell corners
    elif fam == 'axis':
        k = rng.randrange(0, H + 1)
        if rng.random() < 0.5:
            pts = [(0, k), (W, k)]                  # horizontal (along a cell edge when k is a multiple of q)
        else:
            x = rng.randrange(0, W + 1)
            if rng.random() < 0.6:
                x = x // lat.q * lat.q              # exactly along a cell edge
            pts = [(x, 0), (x, H)]
    elif fam == 'closed':
        pts = [(0, 0), (W, 0), (W // 2, H), (0, 0)]
    elif fam == 'retrace':
        pts = [(0, 0), (W, H // 2), (0, 0)]
    elif fam == 'zigzag':
        pts = [(k * max(1, W // 5), (k % 2) * H) for k in range(6)]
    else:
        pts = [(rng.randint(0, W), rng.randint(0, H)) for _ in range(rng.randint(2, 6))]
        pts = [p for k, p in enumerate(pts) if k == 0 or p != pts[k - 1]]
        if len(pts) < 2:
            pts = [(0, 0), (W, H)]
    return [P(*p) for p in pts], fam


def max_size(b, L):
    """largest `size` whose lattice (extent 2*size+2 cells) fits inside lon ±170 / lat ±75"""
    x0, x1, y0, y1 = _ranges(b)
    nlon, nlat = split_bits(b, L)
    w, h = (x1 - x0) / 2 ** nlon, (y1 - y0) / 2 ** nlat
    return (min(math.floor(F(340) / w), math.floor(F(150) / h)) - 10) // 2


def gen_shape(rng, b, L, size):
    """-> (kind, data, family); `size` bounds the extent in cells"""
    size = max(1, min(size, max_size(b, L)))
    lat = Lattice(rng, b, L, extent=2 * size + 2)
    q = lat.q
    W, H = rng.randint(max(q, size * q // 2), size * q), rng.randint(max(q, size * q // 2), size * q)
    r = rng.random()
    if r < 0.30:
        shell, holes, fam = gen_polygon(rng, lat, W, H)
        return 'poly', (shell[:-1] if rng.random() < 0.3 else shell, holes), 'poly:' + fam
    if r < 0.42:
        holes = []
        if W >= 8 and H >= 8 and rng.random() < 0.6:
            holes = [rect(lat, rng.randint(1, 3), rng.randint(1, 3), W - rng.randint(1, 3), H - rng.randint(1, 3))]
        return 'box', ([lat.P(0, H), lat.P(W, 0)], holes), 'box' + ('-hole' if holes else '')
    if r < 0.62:
        pts, fam = gen_linestring(rng, lat, W, H)
        return 'ls', pts, 'ls:' + fam
    if r < 0.72:
        if rng.random() < 0.5:
            return 'mls', gen_multi(rng, lat, 'mls', W, H), 'mls:sharing'
        ms = []
        for _ in range(rng.randint(2, 3)):
            sub = lat.moved(rng.randint(-2, 2 * size), rng.randint(-2, 2 * size))
            ms.append(gen_linestring(rng, sub, max(q, W // 2), max(q, H // 2))[0])
        return 'mls', ms, 'mls'
    if r < 0.86:
        if rng.random() < 0.5:
            return 'mpoly', gen_multi(rng, lat, 'mpoly', max(q, W // 2), max(q, H // 2)), 'mpoly:sharing'
        ms = []
        for _ in range(rng.randint(2, 3)):
            sub = lat.moved(rng.randint(-2, 2 * size), rng.randint(-2, 2 * size))
            shell, holes, _f = gen_polygon(rng, sub, max(q, W // 2), max(q, H // 2))
            ms.append((shell, holes))
        return 'mpoly', ms, 'mpoly'
    if r < 0.93:
        return 'pt', [lat.P(rng.randint(0, W), rng.randint(0, H))], 'pt'
    if rng.random() < 0.5:
        return 'mpt', gen_multi(rng, lat, 'mpt', W, H), 'mpt:sharing'
    return 'mpt', [lat.P(rng.randint(0, W), rng.randint(0, H)) for _ in range(rng.randint(1, 6))], 'mpt'


def gen_multi(rng, lat, kind, W, H):
    """multi-shape whose members SHARE cells: duplicates, members a fraction of a cell apart, crossing lines,
    overlapping / nested / edge-sharing polygons — the union must count every cell once"""
    P = lat.P
    W, H = max(W, lat.q), max(H, lat.q)
    if kind == 'mpt':
        x, y = rng.randint(0, W), rng.randint(0, H)
        pts = [(x, y), (x, y) if rng.random() < 0.4 else (x + 1, y)]            # same point twice / same cell
        pts += [(x + rng.randint(-2, 2), y + rng.randint(-2, 2)) for _ in range(rng.randint(0, 3))]
        if rng.random() < 0.5:
            pts.append((rng.randint(0, W), rng.randint(0, H)))
        rng.shuffle(pts)
        return [P(*p) for p in pts]
    if kind == 'mls':
        fam = rng.choice(['cross', 'dup', 'overlap', 'fan'])
        if fam == 'cross':
            ms = [[(0, 0), (W, H)], [(0, H), (W, 0)]]
        elif fam == 'dup':
            a = [(0, 0), (W, H // 2), (W // 2, H)]
            ms = [a, a[::-1]]
        elif fam == 'overlap':
            ms = [[(0, 1), (W, 1)], [(W // 2, 1), (W + 2, 1)], [(W // 2, 0), (W // 2, H)]]
        else:
            ms = [[(0, 0), (rng.randint(1, W), rng.randint(1, H))] for _ in range(3)]
        if rng.random() < 0.3:
            ms.append([(0, H), (W // 2, H // 2)])
        return [[P(*p) for p in m] for m in ms]
    fam = rng.choice(['overlap', 'dup', 'nested', 'edge', 'corner'])
    a = rect(lat, 0, 0, W, H)
    if fam == 'overlap':
        ms = [(a, []), (rect(lat, W // 2, H // 2, W + W // 2 + 1, H + H // 2 + 1), [])]
    elif fam == 'dup':
        ms = [(a, []), (a[:-1][::-1], [])]
    elif fam == 'nested':
        ms = [(a, []), (rect(lat, 1, 1, max(2, W - 1), max(2, H - 1)), [])]
    elif fam == 'edge':
        ms = [(a, []), (rect(lat, W, 0, 2 * W, H), [])]
    else:
        ms = [(a, []), (rect(lat, W, H, 2 * W, 2 * H), [])]
    if rng.random() < 0.4:
        shell, holes, _f = gen_polygon(rng, lat, W, H)
        ms.append((shell, holes))
    return ms


def gen_coll_items(rng, base_lat, ckind, kmax=6, wmax=12):
    """items (kind, data, id, start µs|-, elapsed µs|-, entity|-) of one collection: single shapes of every kind mixed
    with multi-shapes of every kind whose members share cells, equal shapes, shapes without dt / entity"""
    k = rng.randint(0, kmax) if ckind == 'fc' else rng.randint(1, kmax)
    items = []
    for vid in range(k):
        lat = base_lat.moved(rng.randint(0, 6), rng.randint(0, 6))
        r = rng.random()
        W, H = rng.randint(2, wmax), rng.randint(2, wmax)
        if r < 0.22:
            shell, holes, _f = gen_polygon(rng, lat, W, H)
            kind, data = 'poly', (shell, holes)
        elif r < 0.38:
            kind, data = 'ls', gen_linestring(rng, lat, W, H)[0]
        elif r < 0.50:
            kind, data = 'pt', [lat.P(rng.randint(0, W), rng.randint(0, H))]
        elif r < 0.56:
            kind, data = 'box', ([lat.P(0, H), lat.P(W, 0)], [])
        elif r < 0.70:
            kind, data = 'mpt', gen_multi(rng, lat, 'mpt', W, H)
        elif r < 0.84:
            kind, data = 'mls', gen_multi(rng, lat, 'mls', W, H)
        else:
            kind, data = 'mpoly', gen_multi(rng, lat, 'mpoly', W, H)
        if ckind == 'track' or rng.random() < 0.6:
            st = T0_US + rng.choice([0, 1, 2, 2, 3, 5]) * 3_600_000_000
            el = rng.choice([0, 0, 125_000, 1_000_000, 90_000_000, 3_600_000_000, 1_500_000])
        else:
            st = el = '-'
        ent = rng.choice(['-', '-', 'e1', 'e2', 'e3'])
        if items and rng.random() < 0.25:
            # a second, *equal* shape (same geometry and time; only the identity / entity differ)
            kind, data, _v, st, el, _e = rng.choice(items)
        items.append((kind, data, vid, st, el, ent))
    if ckind == 'track':
        items.sort(key=lambda it: it[3])      # Track orders by start (stable)
    return items


def gen_curved(rng, b, L):
    lat = Lattice(rng, b, L)
    cx, cy = lat.P(rng.randint(0, 8), rng.randint(0, 8))
    cx, cy = float(cx) + rng.uniform(-1, 1) * float(lat.w), float(cy) + rng.uniform(-1, 1) * float(lat.h)
    cell_m = float(min(lat.w, lat.h)) * 111_000 * max(0.3, math.cos(math.radians(cy)))
    r = rng.uniform(0.8, 5.0) * cell_m
    if rng.random() < 0.7:
        return 'circ', (F(cx), F(cy), F(r)), 'circ'
    return 'ell', (F(cx), F(cy), F(r), F(r * rng.uniform(0.3, 0.9)), F(rng.uniform(0, 180))), 'ell'


# fixed witnesses of F12b (found by search; kept so that the keyed finding is replayed on every run)
SLIVER_WITNESSES = [(32, 5, 1.25, 9.25, 27000.0, 185.0), (32, 5, -7.75, -3.75, 20000.0, 55.0), (16, 6, -3.5, -1.25, 41000.0, 275.0)]

SCHEDS = ['fifo', 'lifo', 'r1', 'r5', 'all']


def count_cells(line):
    got = _impl_cache.get(line)
    return len(got.split()) if got else 0


SRC_THEOREMS = ['GV.C12Src.' + t for t in (
    'polyLoop2_eq', 'polyLoop1_eq', 'lineLoop2_eq', 'lineLoop1_eq', 'hashPolyS_eq', 'hashLineS_eq', 'hashPolyM_eq', 'hashLineM_eq',
    'hashPointS_eq', 'hashPointM_eq', 'hashShapePoint_eq', 'hashShapeMPoint_eq', 'hashShapeLine_eq', 'hashShapePoly_eq',
    'hashShapeMLine_eq', 'hashShapeMPoly_eq', 'collLoop2_eq', 'collLoop1_eq', 'hashCollection_eq', 'coordLoop1_eq',
    'hashCoordinates_eq',
    'src_hashPoly_eq_reach', 'src_hashLine_eq_reach', 'src_hashPoly_sound', 'src_hashPoly_complete_of_connected',
    'src_hashPoly_total', 'src_hashLine_total', 'src_hashShape_multi', 'src_hashCollection_spec', 'src_hashCoordinates_spec',
)]


def check(run):
    run.prove(MODULE, THEOREMS)
    run.source_tie(['SrcFlood'], 'GeoVerif.Props.C12Src', SRC_THEOREMS)
    rng = run.rng
    gs, G, col, agg = _mods()
    fams = {}
    import time
    marks = [('proof', time.time())]

    def mark(name):
        marks.append((name, time.time()))

    def emit(b, L, kind, data, fam, lines, sched=None):
        try:
            ln = make_line(b, L, sched or rng.choice(SCHEDS), kind, data, timeout=run.impl_timeout * 15)
        except (Exception, common.ImplTimeout) as e:  # noqa  the implementation raised / hung while its tables were measured
            ln = f'fl.hash {b} {L} fifo {shape_tokens(kind, data)}'
            unmeasurable.append(ln)
            fams[ln] = fam + ':unmeasurable:' + common.err_name(e)
            return None
        fams[ln] = fam
        lines.append(ln)
        return ln

    def tag(ln, a):
        n = len(a.split()) if not a.startswith(('ERR', 'TIMEOUT')) else -1
        size = 'err' if n < 0 else '1-3' if n < 4 else '4-19' if n < 20 else '20-99' if n < 100 else '100-400' if n <= 400 else '>400'
        return [f'shape:{fams.get(ln, "?")}', f'cells:{size}', 'base:' + ln.split()[1]]
    unmeasurable = []

    # ---- exhaustive small world: every segment / rectangle / triangle on the half-cell lattice of a 2x2-cell block
    lines = []
    for b in (16, 32, 64):
        L = LENGTHS[b][0]
        lat = Lattice(rng, b, L, extent=4, q=2)
        pts = [(i, j) for i in range(5) for j in range(5)]
        segs = [(p, q_) for k, p in enumerate(pts) for q_ in pts[k + 1:]]
        rects = [(i0, j0, i1, j1) for i0 in range(5) for i1 in range(i0 + 1, 5) for j0 in range(5) for j1 in range(j0 + 1, 5)]
        tris = [(p, q_, r_) for k, p in enumerate(pts) for m, q_ in enumerate(pts[k + 1:], k + 1) for r_ in pts[m + 1:]
                if cross(p, q_, r_) != 0]
        if run.quick:
            segs, rects, tris = rng.sample(segs, 50), rng.sample(rects, 25), rng.sample(tris, 40)
        elif b != 32:
            segs, rects, tris = rng.sample(segs, 150), rects, rng.sample(tris, 300)
        for p, q_ in segs:
            pp = [lat.P(*p), lat.P(*q_)]
            emit(b, L, 'ls', pp if rng.random() < 0.5 else pp[::-1], 'small:segment', lines)
        for (i0, j0, i1, j1) in rects:
            if rng.random() < 0.5:
                emit(b, L, 'box', ([lat.P(i0, j1), lat.P(i1, j0)], []), 'small:box', lines)
            else:
                r_ = rect(lat, i0, j0, i1, j1)
                k = rng.randrange(4)
                emit(b, L, 'poly', (r_[k:-1] + r_[:k], []), 'small:rect', lines)
        for t in tris:
            t = list(t)
            rng.shuffle(t)
            emit(b, L, 'poly', ([lat.P(*p) for p in t], []), 'small:triangle', lines)
        # polygons that own interior cells whose corners are level with a vertex (diamonds, octagons, notched
        # squares centred on a cell corner / cell centre): the cells no edge crosses are decided by one
        # point-in-polygon test of a cell corner
        big = Lattice(rng, b, L, extent=12, q=2)
        forms = []
        for rx in (4, 5, 6, 8):
            for ry in (4, 6, 7):
                for (cx, cy) in ((8, 8), (9, 8), (8, 9), (9, 9)):
                    forms.append(('diamond', [(cx - rx, cy), (cx, cy - ry), (cx + rx, cy), (cx, cy + ry)]))
                    forms.append(('octagon', [(cx - rx, cy - 1), (cx - rx + 2, cy - ry), (cx + rx - 2, cy - ry), (cx + rx, cy - 1),
                                              (cx + rx, cy + 1), (cx + rx - 2, cy + ry), (cx - rx + 2, cy + ry), (cx - rx, cy + 1)]))
                    forms.append(('notched', [(cx - rx, cy - ry), (cx + rx, cy - ry), (cx + rx, cy + ry), (cx, cy + ry),
                                              (cx, cy + 2), (cx - 2, cy + 2), (cx - 2, cy + ry), (cx - rx, cy + ry)]))
        if run.quick:
            forms = rng.sample(forms, 16)
        for name, f in forms:
            k = rng.randrange(len(f))
            f = f[k:] + f[:k]
            if rng.random() < 0.5:
                f = f[::-1]
            emit(b, L, 'poly', ([big.P(*p) for p in f], []), 'small:' + name, lines)
    run.run_cases('flood-small-world', lines, impl, spec, tag=tag)
    mark('flood-small-world')
    run.exhaustive = not run.quick

    # ---- random dyadic shapes, 4..400 cells -----------------------------------------------------------
    n = run.scale(30, 300)
    lines = []
    for b in (16, 32, 64):
        made = 0
        while made < n:
            L = rng.choice(LENGTHS[b])
            sizes = [x for x in ([2, 3, 4, 6, 8, 12, 16] if run.quick else [2, 3, 4, 6, 8, 12, 16, 20]) if x <= max_size(b, L)]
            size = rng.choice(sizes[-4:])
            kind, data, fam = gen_shape(rng, b, L, size)
            if emit(b, L, kind, data, fam, lines):
                made += 1
    out = run.run_cases('flood-dyadic', lines, impl, spec, tag=tag,
                        nontrivial=lambda ln, a: len(a.split()) >= 4)
    mark('flood-dyadic')
    sizes = [len(a.split()) for a in out]
    run.note(f'flood-dyadic: cells per shape min/median/max = {min(sizes)}/{sorted(sizes)[len(sizes) // 2]}/{max(sizes)}')

    # ---- `_get_surrounding` on cells of those shapes: the model's neighbour function (C11's `surrounding`) and
    #      the closed-form 8 adjacent grid cells (theorem surrounding_adjacent)
    pool = sorted({(ln.split()[1], c) for ln, a in zip(lines, out) for c in a.split()[:6] if not a.startswith(('ERR', 'TIMEOUT'))})
    sur = [f'gh.sur {b} {c11.tok(c)}' for b, c in rng.sample(pool, min(len(pool), run.scale(200, 3000)))]
    run.run_cases('surrounding', sur, c11.impl, c11.spec, tag=lambda ln, a: ['sur:b' + ln.split()[1]])
    mark('surrounding')

    # ---- curved shapes through their polygon form -------------------------------------------------------
    n = run.scale(5, 60)
    lines = []
    for b in (16, 32, 64):
        for _ in range(n):
            L = rng.choice(LENGTHS[b][1:])
            kind, data, fam = gen_curved(rng, b, L)
            emit(b, L, kind, data, fam, lines)
    run.run_cases('flood-curved-polygon-form', lines, impl, spec, tag=tag)
    mark('flood-curved')

    if unmeasurable:
        run.run_cases('flood-unmeasurable', unmeasurable, impl, spec, model=False, tag=tag)

    # ---- collections -----------------------------------------------------------------------------------
    n = run.scale(25, 600)
    lines, broken = [], []
    for _ in range(n):
        b = rng.choice([16, 32, 64])
        L = rng.choice(LENGTHS[b][:2])
        hasher = G.NiemeyerHasher(L, b)
        ckind = rng.choice(['fc', 'fc', 'track'])
        aggname = rng.choice(['len', 'total_time', 'unique_entities', 'ids'])
        base_lat = Lattice(rng, b, L)
        secs = []
        items = gen_coll_items(rng, base_lat, ckind)
        ok = True
        for kind, data, vid, st, el, ent in items:
            try:
                with common.watchdog(run.impl_timeout * 5):
                    cells = sorted(hasher.hash_shape(build(kind, data)))
            except (Exception, common.ImplTimeout):  # noqa  the implementation raised / hung on a member: no table for the model
                cells, ok = ['?'], False
            secs.append(f'{shape_tokens(kind, data)} @ {vid} {st} {el} {ent} @ {" ".join(cells)}')
        (lines if ok else broken).append(' || '.join([f'fl.coll {b} {L} {aggname} {ckind}'] + secs))
    coll_tag = lambda ln, a: ['coll:' + ln.split()[3], 'coll:' + ln.split()[4], f'coll:shapes={min(ln.count(" || "), 6)}'] + \
        [f'coll:has-{m}' for m in ('mpt', 'mls', 'mpoly') if f'|| {m} ' in ln]  # noqa: E731
    run.run_cases('hash_collection', lines, impl, spec, tag=coll_tag)
    if broken:
        run.run_cases('hash_collection-unmeasurable', broken, impl, spec, model=False, tag=coll_tag)

    mark('hash_collection')

    # ---- analytic circle vs the cells of its 36-gon (I3 / F12b): only the keyed finding may appear --------
    n = run.scale(4, 60)
    lines = [f'np-sliver.circ {b} {L} {rat(cx)} {rat(cy)} {rat(r)} {rat(br)} {rat(0.9999)}' for b, L, cx, cy, r, br in SLIVER_WITNESSES]
    for _ in range(n):
        b = rng.choice([16, 32, 64])
        L = LENGTHS[b][-1]
        kind, data, _f = gen_curved(rng, b, L)
        cx, cy, r = data[:3]
        r = float(r) * rng.uniform(1.2, 2.0)
        for s in range(36):
            bearing = 5.0 + 10.0 * s if rng.random() < 0.7 else rng.uniform(0, 360)
            frac = rng.choice([0.9999, 0.999, 0.998, rng.uniform(0.99, 1.0)])
            lines.append(f'np-sliver.circ {b} {L} {rat(cx)} {rat(cy)} {rat(r)} {rat(bearing)} {rat(frac)}')
    # large circles away from the equator against coarse cells: the regime in which an *approximate* extent of a curved
    # shape (its `.bounds`, a corner-point box, …) is off by a visible fraction of a cell (seeded change C12-n3 pruned
    # the flood with it); probes sit well inside the 36-gon, so only 'present' is acceptable for them
    bits = {16: 4, 32: 5, 64: 6}
    for _ in range(run.scale(6, 40)):
        b = rng.choice([16, 32, 64])
        r = rng.uniform(40e3, 300e3)
        cy = rng.choice([-1, 1]) * rng.uniform(40.0, 72.0)
        cx = rng.uniform(-170.0, 170.0)
        r_deg = r / 111e3
        L = max(k for k in range(1, 12) if 180.0 / 2 ** ((bits[b] * k) // 2) >= r_deg / 4 or k == 1)
        for s in range(72):
            for frac in (0.9, 0.95, 0.98, 0.99):
                lines.append(f'np-sliver.circ {b} {L} {rat(cx)} {rat(cy)} {rat(r)} {rat(2.5 + 5.0 * s)} {rat(frac)}')
    # … and circles *placed* so that a cell boundary just clips the northern tip and the eastern-most vertex of the
    # drawn polygon (0.3 % of the radius): the cells beyond those boundaries hold contained coordinates next to the tips
    gs, G, _col, _agg = _mods()
    from geostructures.calc import inverse_haversine_degrees
    for _ in range(run.scale(4, 30)):
        b = rng.choice([16, 32, 64])
        r = rng.uniform(40e3, 300e3)
        r_deg = r / 111e3
        L = max(k for k in range(1, 12) if 180.0 / 2 ** ((bits[b] * k) // 2) >= r_deg / 4 or k == 1)
        _lo, _la, lon_err, lat_err = G._decode_niemeyer(G._coord_to_niemeyer(gs.Coordinate(0.1, 0.1), L, b), b)
        h, w = 2 * lat_err, 2 * lon_err
        sgn = rng.choice([-1, 1])
        y0 = sgn * rng.uniform(40.0, 70.0)
        tip = inverse_haversine_degrees(gs.Coordinate(0.0, y0), 0.0, r).latitude
        boundary = -90.0 + h * math.floor((tip + 90.0) / h)
        cy = y0 - (tip - boundary) + 0.003 * r_deg
        ring = gs.GeoCircle(gs.Coordinate(0.0, cy), r).bounding_coords()
        east = max(ring, key=lambda c: c.longitude)
        x0 = rng.uniform(-150.0, 150.0)
        xb = -180.0 + w * math.floor((x0 + 180.0) / w)
        cx = xb - east.longitude + 0.003 * r_deg
        from geostructures.calc import bearing_degrees
        eb = bearing_degrees(gs.Coordinate(0.0, cy), east)
        for bearing in (0.0, eb, 360.0 - eb):
            for frac in (0.9995, 0.999, 0.998):
                lines.append(f'np-sliver.circ {b} {L} {rat(cx)} {rat(cy)} {rat(r)} {rat(bearing)} {rat(frac)}')
    run.run_cases('np-curved-sliver', lines, np_impl, np_spec, model=False,
                  known_key=lambda ln, a, s: KEY_F12B if a == 'missing-sliver' else 'hash_shape/contained-coordinate-missing',
                  tag=lambda ln, a: ['sliver:' + a])

    mark('np-curved-sliver')

    # ---- H3 glue (external C library judges): np- streams ------------------------------------------------
    try:
        import h3  # noqa
        have_h3 = True
    except Exception:  # noqa
        have_h3 = False
        run.note('h3 not importable: H3 clauses skipped')
    if have_h3:
        lines = []
        for _ in range(run.scale(150, 3000)):
            x, y, _c = c11.rand_coord(rng, 32)
            lines.append(f'np-h3.point {rng.randint(1, 12)} {rat(x)} {rat(y)}')
        run.run_cases('np-h3-point', lines, np_impl, np_spec, model=False, tag=lambda ln, a: ['h3:point'])
        lines = []
        for _ in range(run.scale(25, 400)):
            lat = Lattice(rng, 32, 3)
            shell, holes, fam = gen_polygon(rng, lat, rng.randint(8, 24), rng.randint(8, 24))
            res = rng.choice([2, 3, 3, 4])
            if rng.random() < 0.2:
                s2, h2, _f = gen_polygon(rng, lat, 12, 12)
                lines.append(f'np-h3.poly {res} ' + shape_tokens('mpoly', [(shell, holes), (s2, h2)]))
            else:
                lines.append(f'np-h3.poly {res} ' + shape_tokens('poly', (shell, holes)))
        run.run_cases('np-h3-polygon', lines, np_impl, np_spec, model=False,
                      spec_compare=lambda a, s: a.endswith('bad=0'),
                      tag=lambda ln, a: ['h3:poly:' + a.split()[0], 'h3:holes' if ' h ' in ln else 'h3:noholes'])
        # hash_shape of a multi-shape = union of its members' cells (members share cells: duplicates, points metres
        # apart, crossing lines, overlapping polygons)
        lines = []
        for _ in range(run.scale(40, 600)):
            lat = Lattice(rng, 32, rng.choice([3, 4]))
            kind = rng.choice(['mpt', 'mls', 'mpoly'])
            lines.append(f'np-h3.multi {rng.choice([2, 3, 4, 5] if kind != "mpoly" else [3, 4, 5])} '
                         + shape_tokens(kind, gen_multi(rng, lat, kind, rng.randint(2, 12), rng.randint(2, 12))))
        run.run_cases('np-h3-multi', lines, np_impl, np_spec, model=False,
                      tag=lambda ln, a: ['h3:multi:' + ln.split()[2], 'h3:multi-cells:' + ('err' if a.startswith('ERR') else '1' if len(a.split()) == 1 else '2+')])
        # hash_collection: FeatureCollection / Track x 4 aggregators, single shapes mixed with sharing multi-shapes
        lines = []
        for _ in range(run.scale(40, 500)):
            lat = Lattice(rng, 32, rng.choice([3, 4]))
            ckind = rng.choice(['fc', 'fc', 'track'])
            aggname = rng.choice(['len', 'len', 'total_time', 'total_time', 'unique_entities', 'ids'])
            secs = [f'{shape_tokens(kind, data)} @ {vid} {st} {el} {ent}'
                    for kind, data, vid, st, el, ent in gen_coll_items(rng, lat, ckind, kmax=5, wmax=10)]
            lines.append(' || '.join([f'np-h3.coll {rng.choice([3, 4, 5])} 0 {aggname} {ckind}'] + secs))
        run.run_cases('np-h3-collection', lines, np_impl, np_spec, model=False,
                      tag=lambda ln, a: ['h3:coll:' + ln.split()[3], 'h3:coll:' + ln.split()[4]] +
                      [f'h3:coll:has-{m}' for m in ('mpt', 'mls', 'mpoly') if f'|| {m} ' in ln])

    mark('np-h3')
    run.note('seconds per phase: ' + ', '.join(f'{n}={t - marks[k][1]:.1f}' for k, (n, t) in enumerate(marks[1:])))
    return run.finish(
        rule='small world: segments / rectangles / triangles on the half-cell lattice of a 2x2-cell block (every '
             'relative position of a vertex or edge to cell edges and corners; all of them in the thorough tier for '
             'base 32, sampled otherwise); random dyadic shapes (polygons of 9 families with holes, boxes, '
             'linestrings of 7 families, multi forms, points) in bases 16/32/64 giving 4..400 cells; curved shapes '
             'through their polygon form; collections x 4 aggregators x {FeatureCollection, Track}. For every shape '
             'the touches table and _get_surrounding are measured on the implementation over a window, flooded by '
             'the Lean model under a rotating pop schedule, compared with hash_shape, and independently compared '
             'with exact integer-grid set truth. A case is one shape/collection; non-trivial = at least 4 cells.',
        assumptions=['touched cells of a connected shape are 8-neighbour connected and contain the first vertex\'s cell '
                     '(geometry; not proved, tested by the exact oracle on every generated shape)',
                     'GeoBox.intersects_shape is the C02 predicate (its own property); here it is measured per cell',
                     'shapes stay inside lon ±150 / lat ±60 (no antimeridian / pole cells: F11a cells are C11\'s finding)',
                     'H3 and analytic-circle clauses are judged by the h3 library / haversine containment: np- streams, '
                     'support only'],
        checker_cmd='cd lean && lake build GeoVerif.Props.C12 && lake env lean .lake/audit/C12.lean  (#print axioms)')
