"""
Source units of the translator (py2lean): which functions of /repo are translated to Lean on every run, at which static
argument types, and how their few non-translated helpers are pinned.  See py2lean.py for the subset.
"""
import os

import common
import py2lean
from py2lean import Inst, Unit, Val, Unsupported


def _repo(*p):
    return os.path.join(common.REPO, 'geostructures', *p)


# ----------------------------------------------------------------------------------------------------------
# geostructures/time.py :: TimeInterval          (C06; used by C05, C16, C17, C18)
#
# abstraction: a datetime is exchanged as its UTC instant (Int, microseconds); `_default_to_zulu` (naive digits are read
# as UTC) is applied by that abstraction and is therefore *pinned*, not translated: `Dt` values are instants.

TIME_PINS = {
    'TimeInterval._default_to_zulu': None,      # filled from PINS below
}

PINS = {
    # qual -> AST digest of the helper as it was when the abstraction was written (py2lean.pin_of)
    'time.py::TimeInterval._default_to_zulu': '38a377e882923ea8',
    'utils/functions.py::default_to_zulu': 'e4c433c062136134',
    # helpers whose *meaning* a unit assumes without translating them
    'structures.py::GeoPolygon.bounds': 'd90aead0fc54814e',          # SrcMember: `self.bounds` is the outline's bounding box
    'collections.py::Track.__init__': '01f0c36a2b9a4fbb',            # SrcColl: `type(self)(xs)` is the model's `rewrap`
    'collections.py::CollectionBase.__init__': '998def96113cc433',
    'utils/functions.py::is_sub_list': 'a65933a1f69295ee',            # SrcRelate: the model's `isSubList`
    '_geometry.py::do_edges_intersect': 'c6c432c7d6b4dfad',
    '_geometry.py::ensure_edge_bounds': 'a705a05bf476cf50',                    # SrcCalc: the model's `ensureEdge`          # SrcRelate: the model's sweep (tied by C02's streams)
}


def time_unit():
    src = py2lean.Source(_repo('time.py'))
    T = 'TimeInterval'
    insts = [
        Inst(f'{T}.is_instant', 'isInstant', [('self', 'TI')], 'Bool'),
        Inst(f'{T}.elapsed', 'elapsed', [('self', 'TI')], 'Td'),
        Inst(f'{T}.__eq__', 'eq', [('self', 'TI'), ('other', 'TI')], 'Bool'),
        Inst(f'{T}.__hash__', 'hashKey', [('self', 'TI')], 'Pair Dt', doc='the value handed to hash()'),
        Inst(f'{T}.__contains__', 'containsDt', [('self', 'TI'), ('time', 'Dt')], 'Bool'),
        Inst(f'{T}.issubset', 'issubset', [('self', 'TI'), ('other', 'TI')], 'Bool'),
        Inst(f'{T}.issuperset', 'issuperset', [('self', 'TI'), ('other', 'TI')], 'Bool'),
        Inst(f'{T}.__contains__', 'containsTI', [('self', 'TI'), ('time', 'TI')], 'Bool'),
        Inst(f'{T}.isdisjoint', 'isdisjoint', [('self', 'TI'), ('other', 'TI')], 'Bool'),
        Inst(f'{T}.intersects', 'intersectsDt', [('self', 'TI'), ('other', 'Dt')], 'Bool'),
        Inst(f'{T}.intersects', 'intersects', [('self', 'TI'), ('other', 'TI')], 'Bool'),
        Inst(f'{T}.__init__', 'init', [('self', 'None'), ('start', 'Dt'), ('end', 'Dt')], 'Except TI'),
        Inst(f'{T}.__init__', 'initTd', [('self', 'None'), ('start', 'Dt'), ('end', 'Td')], 'Except TI'),
        Inst(f'{T}.intersection', 'intersection', [('self', 'TI'), ('other', 'TI')], 'Except Opt TI'),
        Inst(f'{T}.union', 'union', [('self', 'TI'), ('other', 'TI')], 'Except TI'),
        Inst(f'{T}.copy', 'copy', [('self', 'TI')], 'Except TI'),
    ]

    def isinstance_hook(typ):
        return {'Dt': {'datetime'}, 'Td': {'timedelta'}, 'TI': {'TimeInterval'}, 'None': set()}.get(typ)

    def init_hook(tr, fields):
        if set(fields) != {'start', 'end'}:
            raise Unsupported(f'TimeInterval.__init__ stores fields {sorted(fields)}')
        if fields['start'].typ != 'Dt' or fields['end'].typ != 'Dt':
            raise Unsupported('TimeInterval.__init__ stores non-datetime bounds')
        return f'⟨{fields["start"].text}, {fields["end"].text}⟩'

    def zulu(tr, args):
        # args[0] is the receiver (self / None), args[1] the datetime: identity on instants (pinned helper)
        v = args[-1]
        if v.typ != 'Dt':
            raise Unsupported(f'_default_to_zulu applied to {v.typ}')
        return Val(v.text, 'Dt')

    attr = {('TI', 'start'): ('{}.start', 'Dt'), ('TI', 'end'): ('{}.stop', 'Dt')}
    return Unit('SrcTime', src, 'GV.Src.Time', ['GeoVerif.Model.Time'], insts, {'TI': T, 'None': T},
                pins={f'{T}._default_to_zulu': PINS['time.py::TimeInterval._default_to_zulu']},
                attr_types=attr, intrinsics={f'{T}._default_to_zulu': zulu},
                hooks={'isinstance': isinstance_hook, 'init': init_hook, 'always_truthy': ('TI', 'Dt')})


def _time_externals():
    """instances of SrcTime under their qualified Lean names, for units that call into TimeInterval"""
    ext = {}
    for i in time_unit().insts:
        j = Inst(i.qual, 'GV.Src.Time.' + i.lean, i.params, i.ret, i.doc)
        ext.setdefault(j.key(), j)
    return ext


# ----------------------------------------------------------------------------------------------------------
# geostructures/_base.py :: BaseShapeProtocol — the space-time gates   (C05)
#
# a shape is an opaque `σ`, a coordinate an opaque `κ`; the world `W : GV.ST.World σ κ` supplies `.dt` and the three
# abstract spatial methods, about which nothing is assumed.

def base_unit():
    src = py2lean.Source(_repo('_base.py'))
    B = 'BaseShapeProtocol'
    insts = [
        Inst(f'{B}.contains_time', 'containsTimeDt', [('self', 'σ'), ('dt', 'Dt')], 'Bool'),
        Inst(f'{B}.contains_time', 'containsTimeTI', [('self', 'σ'), ('dt', 'TI')], 'Bool'),
        Inst(f'{B}.intersects_time', 'intersectsTimeDt', [('self', 'σ'), ('dt', 'Dt')], 'Bool'),
        Inst(f'{B}.intersects_time', 'intersectsTimeTI', [('self', 'σ'), ('dt', 'TI')], 'Bool'),
        Inst(f'{B}.contains', 'containsCoord', [('self', 'σ'), ('shape', 'κ')], 'Bool'),
        Inst(f'{B}.contains', 'containsShape', [('self', 'σ'), ('shape', 'σ')], 'Bool'),
        Inst(f'{B}.__contains__', 'dunderContainsCoord', [('self', 'σ'), ('other', 'κ')], 'Bool'),
        Inst(f'{B}.__contains__', 'dunderContainsShape', [('self', 'σ'), ('other', 'σ')], 'Bool'),
        Inst(f'{B}.intersects', 'intersects', [('self', 'σ'), ('shape', 'σ')], 'Bool'),
    ]

    def isinstance_hook(typ):
        return {'σ': {'GeoShape', 'BaseShape', 'BaseShapeProtocol'}, 'κ': {'Coordinate'}, 'Dt': {'datetime'},
                'TI': {'TimeInterval'}}.get(typ)

    abstract = {
        ('σ', 'contains_coordinate', ('κ',)): ('W.containsCoord {} {}', 'Bool'),
        ('σ', 'contains_shape', ('σ',)): ('W.containsShape {} {}', 'Bool'),
        ('σ', 'intersects_shape', ('σ',)): ('W.intersectsShape {} {}', 'Bool'),
    }
    return Unit('SrcBase', src, 'GV.Src.Base', ['GeoVerif.Gen.SrcTime', 'GeoVerif.Model.SpaceTime'], insts,
                {'σ': B, 'TI': 'TimeInterval'}, header='variable {σ κ : Type}',
                attr_types={('σ', 'dt'): ('(W.dt {})', 'Opt TI')},
                hooks={'isinstance': isinstance_hook, 'always_truthy': ('TI', 'Dt')},
                ctx_params=[('W', 'GV.ST.World σ κ')], externals=_time_externals(), abstract=abstract)


# ----------------------------------------------------------------------------------------------------------
# geostructures/_base.py :: MultiShapeBase — the member loops   (C04)
#
# a multi-shape is the list of its members (`μ`), the argument a single shape `σ`, a multi-shape (list of `σ`) or a
# coordinate `κ`; the member-level relations `rc rs ri` are parameters about which nothing is assumed.

def multi_unit():
    src = py2lean.Source(_repo('_base.py'))
    M = 'MultiShapeBase'
    insts = [
        Inst(f'{M}.contains_coordinate', 'containsCoord', [('self', 'List μ'), ('coord', 'κ')], 'Bool'),
        Inst(f'{M}.contains_shape', 'containsSingle', [('self', 'List μ'), ('shape', 'σ')], 'Bool'),
        Inst(f'{M}.contains_shape', 'containsMulti', [('self', 'List μ'), ('shape', 'List σ')], 'Bool'),
        Inst(f'{M}.intersects_shape', 'intersectsSingle', [('self', 'List μ'), ('shape', 'σ')], 'Bool'),
        Inst(f'{M}.intersects_shape', 'intersectsMulti', [('self', 'List μ'), ('shape', 'List σ')], 'Bool'),
    ]

    def isinstance_hook(typ):
        return {'List σ': {'MultiShapeBase'}, 'List μ': {'MultiShapeBase'}, 'σ': {'SingleShapeBase'}, 'κ': {'Coordinate'}}.get(typ)

    abstract = {
        ('μ', 'contains_coordinate', ('κ',)): ('rc {} {}', 'Bool'),
        ('μ', 'contains_shape', ('σ',)): ('rs {} {}', 'Bool'),
        ('μ', 'intersects_shape', ('σ',)): ('ri {} {}', 'Bool'),
    }
    return Unit('SrcMulti', src, 'GV.Src.Multi', ['GeoVerif.Model.Multi'], insts,
                {'List μ': M, 'List σ': M}, header='variable {μ σ κ : Type}',
                attr_types={('List μ', 'geoshapes'): ('{}', 'List μ'), ('List σ', 'geoshapes'): ('{}', 'List σ')},
                hooks={'isinstance': isinstance_hook},
                ctx_params=[('rc', 'μ → κ → Bool'), ('rs', 'μ → σ → Bool'), ('ri', 'μ → σ → Bool')], abstract=abstract)


# ----------------------------------------------------------------------------------------------------------
# geostructures/collections.py :: CollectionBase — filters and `intersects`   (C18)
#
# a collection is the record `GV.Coll` (tag + member list); `type(self)(xs)` is the model's `rewrap` (a Track constructor
# sorts and may raise); what a member answers about the query shape is abstract: `xi x` = `x.intersects(shape)`,
# `xc x` = `x.contains(shape)`, `qc x` = `shape.contains(x)`, `qdt` = `shape.dt`.

def coll_unit():
    src = py2lean.Source(_repo('collections.py'))
    C = 'CollectionBase'
    insts = [
        Inst(f'{C}.filter_by_dt', 'filterByDtInst', [('self', 'GV.Coll'), ('dt', 'Dt')], 'Except GV.Coll'),
        Inst(f'{C}.filter_by_dt', 'filterByDtIval', [('self', 'GV.Coll'), ('dt', 'TI')], 'Except GV.Coll'),
        Inst(f'{C}.filter_by_intersection', 'filterByIntersection', [('self', 'GV.Coll'), ('shape', 'Query')], 'Except GV.Coll'),
        Inst(f'{C}.filter_contained_by', 'filterContainedBy', [('self', 'GV.Coll'), ('shape', 'Query')], 'Except GV.Coll'),
        Inst(f'{C}.filter_contains', 'filterContains', [('self', 'GV.Coll'), ('shape', 'Query')], 'Except GV.Coll'),
        Inst(f'{C}.intersects', 'intersects', [('self', 'GV.Coll'), ('shape', 'Query')], 'Except Bool'),
        Inst(f'{C}.filter_by_property', 'filterByProperty',
             [('self', 'GV.Coll'), ('property', 'Str'), ('func', 'Fn PVal Bool')], 'Except GV.Coll'),
        Inst(f'{C}.__bool__', 'bool', [('self', 'GV.Coll')], 'Bool'),
        Inst('FeatureCollection.__add__', 'fcAddFc', [('self', 'GV.Coll'), ('other', 'FCA')], 'Except GV.Coll'),
        Inst('FeatureCollection.__add__', 'fcAddTrack', [('self', 'GV.Coll'), ('other', 'TrackA')], 'Except GV.Coll'),
        Inst('Track.__add__', 'trackAddTrack', [('self', 'GV.Coll'), ('other', 'TrackA')], 'Except GV.Coll'),
        Inst('Track.__add__', 'trackAddFc', [('self', 'GV.Coll'), ('other', 'FCA')], 'Except GV.Coll'),
    ]
    py2lean.LEAN_TYPE.setdefault('Str', 'String')
    py2lean.LEAN_TYPE.setdefault('PVal', 'GV.Coll.PVal')
    py2lean.LEAN_TYPE.setdefault('Props', 'List (String × GV.Coll.PVal)')
    py2lean.LEAN_TYPE.setdefault('FCA', 'GV.Coll')
    py2lean.LEAN_TYPE.setdefault('TrackA', 'GV.Coll')

    def isinstance_hook(typ):
        return {'Dt': {'datetime'}, 'TI': {'TimeInterval'}, 'GV.Coll': {'CollectionBase'}, 'Query': {'BaseShape'},
                'FCA': {'CollectionBase', 'FeatureCollection'}, 'TrackA': {'CollectionBase', 'Track'}}.get(typ)

    def fc_ctor(tr, args):
        if len(args) != 1 or args[0].typ != 'List GV.Coll.Shape':
            raise Unsupported(f'FeatureCollection({", ".join(a.typ for a in args)})')
        return Val(f'(GV.Coll.mkFC {args[0].text})', 'GV.Coll')

    def track_ctor(tr, args):
        if len(args) != 1 or args[0].typ != 'List GV.Coll.Shape':
            raise Unsupported(f'Track({", ".join(a.typ for a in args)})')
        v = Val(f'(GV.Coll.mkTrack {args[0].text})', 'GV.Coll')
        v.raises = True
        return v

    def type_ctor(tr, recv, args):
        if recv.typ != 'GV.Coll' or len(args) != 1 or args[0].typ != 'List GV.Coll.Shape':
            raise Unsupported(f'type({recv.typ})({", ".join(a.typ for a in args)})')
        v = Val(f'(GV.Coll.rewrap {recv.text}.tag {args[0].text})', 'GV.Coll')
        v.raises = True
        return v

    def zulu(tr, args):
        if args[-1].typ != 'Dt':
            raise Unsupported(f'default_to_zulu applied to {args[-1].typ}')
        return Val(args[-1].text, 'Dt')

    abstract = {
        ('GV.Coll.Shape', 'intersects', ('Query',)): ('xi {0}', 'Bool'),
        ('GV.Coll.Shape', 'contains', ('Query',)): ('xc {0}', 'Bool'),
        ('Query', 'contains', ('GV.Coll.Shape',)): ('qc {1}', 'Bool'),
    }
    py2lean.LEAN_TYPE.setdefault('Query', 'Unit')
    return Unit('SrcColl', src, 'GV.Src.Coll', ['GeoVerif.Gen.SrcTime', 'GeoVerif.Model.Collection', 'GeoVerif.Model.PyPrelude'], insts,
                {'GV.Coll': C, 'TI': 'TimeInterval'},
                pins={k: PINS[k] for k in ('utils/functions.py::default_to_zulu', 'collections.py::Track.__init__',
                                           'collections.py::CollectionBase.__init__')},
                attr_types={('GV.Coll', 'geoshapes'): ('{}.shapes', 'List GV.Coll.Shape'),
                            ('FCA', 'geoshapes'): ('{}.shapes', 'List GV.Coll.Shape'),
                            ('TrackA', 'geoshapes'): ('{}.shapes', 'List GV.Coll.Shape'),
                            ('GV.Coll.Shape', 'properties'): ('{}.properties', 'Props'),
                            ('GV.Coll.Shape', 'dt'): ('{}.dt', 'Opt TI'), ('Query', 'dt'): ('qdt', 'Opt TI')},
                intrinsics={'default_to_zulu': zulu, 'FeatureCollection': fc_ctor, 'Track': track_ctor},
                hooks={'isinstance': isinstance_hook, 'type_ctor': type_ctor, 'always_truthy': ('TI', 'Dt'),
                       'local_type': lambda qual, name: {('CollectionBase.filter_by_property', 'filtered_shapes'):
                                                         'List GV.Coll.Shape'}.get((qual, name))},
                ctx_params=[('qdt', 'Option GV.TI'), ('xi', 'GV.Coll.Shape → Bool'), ('xc', 'GV.Coll.Shape → Bool'),
                            ('qc', 'GV.Coll.Shape → Bool')],
                externals=_time_externals(), abstract=abstract)


# ----------------------------------------------------------------------------------------------------------
# geostructures/structures.py :: GeoPolygon._point_in_polygon — the even-odd ray rule   (C01)
#
# a coordinate is the exact pair `GV.Pt = Rat × Rat` (floats are exchanged as their exact rational values; the theorems
# are about exact arithmetic, §3 of DESIGN.md); the loop becomes a structural recursion over the edge list.

def pip_unit():
    src = py2lean.Source(_repo('structures.py'))
    insts = [
        Inst('GeoPolygon._point_in_polygon', 'pointInPolygon',
             [('coord', 'Pt'), ('polygon', 'List Pt'), ('include_boundary', 'Bool')], 'Except Bool'),
        Inst('GeoPolygon._point_in_polygon', 'pointInPolygonDefault', [('coord', 'Pt'), ('polygon', 'List Pt')], 'Except Bool',
             doc='`include_boundary` left at its default'),
    ]
    return Unit('SrcPip', src, 'GV.Src.Pip', ['GeoVerif.Model.Pip', 'GeoVerif.Model.PyPrelude'], insts, {},
                attr_types={('Pt', 'longitude'): ('{}.1', 'R'), ('Pt', 'latitude'): ('{}.2', 'R')},
                hooks={'isinstance': lambda typ: None})


def _pip_externals():
    ext = {}
    for i in pip_unit().insts:
        j = Inst(i.qual, 'GV.Src.Pip.' + i.lean, i.params, i.ret, i.doc)
        ext.setdefault(j.key(), j)
    return ext


# geostructures/structures.py :: GeoBox.contains_coordinate, GeoPolygon.contains_coordinate   (C01)
#
# the receiver is given by its fields: `nw se` (corners), `outline`, `holes` (each hole an outline), `bnd` = `self.bounds`
# (a cached property computed elsewhere: min/max over the outline); `hc h c` = `c in h` for a hole `h`.

def member_unit():
    src = py2lean.Source(_repo('structures.py'))
    insts = [
        Inst('GeoBox.contains_coordinate', 'boxContainsCoordinate', [('self', 'Box'), ('coord', 'Pt')], 'Bool'),
        Inst('GeoPolygon.contains_coordinate', 'polyContainsCoordinate', [('self', 'Poly'), ('coord', 'Pt')], 'Except Bool'),
    ]
    py2lean.LEAN_TYPE.setdefault('Box', 'Unit')
    py2lean.LEAN_TYPE.setdefault('Poly', 'Unit')
    py2lean.LEAN_TYPE.setdefault('Hole', 'List GV.Pt')
    abstract = {('Hole', '__contains__', ('Pt',)): ('hc {0} {1}', 'Bool')}
    attr = {('Pt', 'longitude'): ('{}.1', 'R'), ('Pt', 'latitude'): ('{}.2', 'R'),
            ('Box', 'nw_bound'): ('nw', 'Pt'), ('Box', 'se_bound'): ('se', 'Pt'), ('Box', 'holes'): ('holes', 'List Hole'),
            ('Poly', 'outline'): ('outline', 'List Pt'), ('Poly', 'holes'): ('holes', 'List Hole'),
            ('Poly', 'bounds'): ('bnd', 'Tuple4 R')}
    return Unit('SrcMember', src, 'GV.Src.Member', ['GeoVerif.Gen.SrcPip', 'GeoVerif.Model.Pip'], insts,
                {'Poly': 'GeoPolygon', 'Box': 'GeoBox'}, attr_types=attr, abstract=abstract,
                pins={'structures.py::GeoPolygon.bounds': PINS['structures.py::GeoPolygon.bounds']},
                hooks={'isinstance': lambda typ: None},
                ctx_params=[('hc', 'List GV.Pt → GV.Pt → Bool'), ('nw', 'GV.Pt'), ('se', 'GV.Pt'), ('outline', 'List GV.Pt'),
                            ('holes', 'List (List GV.Pt)'), ('bnd', 'Rat × Rat × Rat × Rat')],
                externals=_pip_externals())


# ----------------------------------------------------------------------------------------------------------
# geostructures/collections.py :: Track.__getitem__ (slice by datetime), Track.has_duplicate_timestamps   (C17)
#
# the slice bounds are `a b : Option Int` (`val.start`, `val.stop` as instants; `default_to_zulu` pinned as for SrcColl);
# `x.start` / `x.end` of a member are the model's `startD` / `endD` (a Track holds no time-less shape); `Track(xs)` is
# the model's `mkTrack`; the local set `_ts` is the list of its elements, newest first.

def track_unit():
    src = py2lean.Source(_repo('collections.py'))
    T = 'Track'
    insts = [
        Inst(f'{T}.__init__', 'init', [('self', 'None'), ('geoshapes', 'List GV.Coll.Shape')], 'Except GV.Coll'),
        Inst(f'{T}.__getitem__', 'getitem', [('self', 'GV.Coll'), ('val', 'Slice')], 'Except GV.Coll'),
        Inst(f'{T}.has_duplicate_timestamps', 'hasDup', [('self', 'GV.Coll')], 'Bool'),
    ]
    py2lean.LEAN_TYPE.setdefault('Slice', 'Unit')

    def zulu(tr, args):
        if args[-1].typ != 'Dt':
            raise Unsupported(f'default_to_zulu applied to {args[-1].typ}')
        return Val(args[-1].text, 'Dt')

    def track_ctor(tr, args):
        if len(args) != 1 or args[0].typ != 'List GV.Coll.Shape':
            raise Unsupported(f'Track({", ".join(a.typ for a in args)})')
        v = Val(f'(GV.Coll.mkTrack {args[0].text})', 'GV.Coll')
        v.raises = True
        return v

    def local_type(qual, name):
        return {('Track.has_duplicate_timestamps', '_ts'): 'Set Opt TI'}.get((qual, name))

    def sorted_hook(tr, e):
        # `sorted(xs, key=lambda x: x.start)`: Python's sort is stable, so is the model's merge sort by start
        import ast as _ast
        ok = (len(e.args) == 1 and len(e.keywords) == 1 and e.keywords[0].arg == 'key' and isinstance(e.keywords[0].value, _ast.Lambda)
              and _ast.unparse(e.keywords[0].value) == 'lambda x: x.start')
        xs = tr.expr(e.args[0]) if ok else None
        if not ok or xs.typ != 'List GV.Coll.Shape':
            raise Unsupported(f'`{_ast.unparse(e)[:80]}`: only `sorted(<shapes>, key=lambda x: x.start)` is read as sortByStart')
        return Val(f'(GV.Coll.sortByStart {xs.text})', xs.typ)

    def super_init(tr, vals):
        # CollectionBase.__init__ (pinned) stores its argument as `geoshapes`
        if len(vals) != 1 or vals[0].typ != 'List GV.Coll.Shape':
            raise Unsupported('super().__init__ of a Track with other arguments')
        tr.fields['geoshapes'] = vals[0]

    def init_hook(tr, fields):
        if set(fields) != {'geoshapes'}:
            raise Unsupported(f'Track.__init__ stores fields {sorted(fields)}')
        return f'⟨.track, {fields["geoshapes"].text}⟩'

    attr = {('GV.Coll', 'geoshapes'): ('{}.shapes', 'List GV.Coll.Shape'),
            ('GV.Coll.Shape', 'dt'): ('{}.dt', 'Opt TI'), ('GV.Coll.Shape', 'start'): ('{}.startD', 'Dt'),
            ('GV.Coll.Shape', 'end'): ('{}.endD', 'Dt'),
            ('Slice', 'start'): ('a', 'Opt Dt'), ('Slice', 'stop'): ('b', 'Opt Dt')}
    return Unit('SrcTrack', src, 'GV.Src.Track', ['GeoVerif.Model.Track', 'GeoVerif.Model.PyPrelude'], insts,
                {'GV.Coll': T}, attr_types=attr,
                pins={k: PINS[k] for k in ('utils/functions.py::default_to_zulu', 'collections.py::CollectionBase.__init__')},
                intrinsics={'default_to_zulu': zulu, 'Track': track_ctor},
                hooks={'isinstance': lambda typ: None, 'always_truthy': ('TI', 'Dt'), 'local_type': local_type,
                       'sorted': sorted_hook, 'super_init': super_init, 'init': init_hook,
                       'keywords': lambda tr, e: getattr(e.func, 'id', None) == 'sorted'},
                ctx_params=[('a', 'Option Int'), ('b', 'Option Int')])


# ----------------------------------------------------------------------------------------------------------
# geostructures/structures.py :: PolygonBase.contains_shape / intersects_shape — the relation logic around the sweep   (C02)
#
# every shape is a `GV.Shape`; the static tag of the argument (multi / point-like / polygon-like / line-like) picks the
# instance.  What the logic *uses* is abstract: `edgesOf` (`edges()`), `segsOf` (`segments`), `cc` (`coord in shape`,
# `contains_coordinate`), `tc` (`_touches_coordinate`), `holesOf`, `cen` (`centroid`), `rs ri` (the recursive calls on a
# member of a multi-shape argument).  `do_edges_intersect` is the model's sweep (pinned; tied by C02's own streams).

def relate_unit():
    src = py2lean.Source(_repo('structures.py'))
    P = 'PolygonBase'
    E = 'Except Bool'
    insts = [
        Inst('_is_on_segment', 'isOnSegment', [('coord', 'Pt'), ('start', 'Pt'), ('end', 'Pt')], 'Bool'),
        Inst(f'{P}._touches_coordinate', 'touchesCoordinate', [('self', 'PolyS'), ('coord', 'Pt')], 'Bool'),
        Inst(f'{P}.contains_shape', 'containsMulti', [('self', 'PolyS'), ('shape', 'MultiA')], 'Bool'),
        Inst(f'{P}.contains_shape', 'containsPoint', [('self', 'PolyS'), ('shape', 'PtA')], 'Bool'),
        Inst(f'{P}.contains_shape', 'containsPoly', [('self', 'PolyS'), ('shape', 'PolyA')], E),
        Inst(f'{P}.contains_shape', 'containsLine', [('self', 'PolyS'), ('shape', 'LineA')], E),
        Inst(f'{P}.intersects_shape', 'intersectsMulti', [('self', 'PolyS'), ('shape', 'MultiA')], 'Bool'),
        Inst(f'{P}.intersects_shape', 'intersectsPoint', [('self', 'PolyS'), ('shape', 'PtA')], 'Bool'),
        Inst(f'{P}.intersects_shape', 'intersectsPoly', [('self', 'PolyS'), ('shape', 'PolyA')], E),
        Inst(f'{P}.intersects_shape', 'intersectsLine', [('self', 'PolyS'), ('shape', 'LineA')], E),
        # GeoLineString as the receiver
        Inst('GeoLineString.contains_coordinate', 'lineContainsCoordinate', [('self', 'LineS'), ('coord', 'Pt')], 'Bool'),
        Inst('GeoLineString.contains_shape', 'lineContainsMulti', [('self', 'LineS'), ('shape', 'MultiA')], 'Bool'),
        Inst('GeoLineString.contains_shape', 'lineContainsPoly', [('self', 'LineS'), ('shape', 'PolyA')], 'Bool'),
        Inst('GeoLineString.contains_shape', 'lineContainsPoint', [('self', 'LineS'), ('shape', 'PtA')], 'Bool'),
        Inst('GeoLineString.contains_shape', 'lineContainsLine', [('self', 'LineS'), ('shape', 'LineA')], 'Bool'),
        Inst('GeoLineString.intersects_shape', 'lineIntersectsMulti', [('self', 'LineS'), ('shape', 'MultiA')], 'Bool'),
        Inst('GeoLineString.intersects_shape', 'lineIntersectsPoint', [('self', 'LineS'), ('shape', 'PtA')], 'Bool'),
        Inst('GeoLineString.intersects_shape', 'lineIntersectsPoly', [('self', 'LineS'), ('shape', 'PolyA')], E),
        Inst('GeoLineString.intersects_shape', 'lineIntersectsLine', [('self', 'LineS'), ('shape', 'LineA')], E),
        # GeoPoint as the receiver
        Inst('GeoPoint.contains_coordinate', 'pointContainsCoordinate', [('self', 'PtS'), ('coord', 'Pt')], 'Bool'),
        Inst('GeoPoint.contains_shape', 'pointContainsMulti', [('self', 'PtS'), ('shape', 'MultiA')], 'Bool'),
        Inst('GeoPoint.contains_shape', 'pointContainsPoint', [('self', 'PtS'), ('shape', 'PtA')], 'Bool'),
        Inst('GeoPoint.contains_shape', 'pointContainsPoly', [('self', 'PtS'), ('shape', 'PolyA')], 'Bool'),
        Inst('GeoPoint.contains_shape', 'pointContainsLine', [('self', 'PtS'), ('shape', 'LineA')], 'Bool'),
        Inst('GeoPoint.intersects_shape', 'pointIntersectsPoint', [('self', 'PtS'), ('shape', 'PtA')], 'Bool'),
        Inst('GeoPoint.intersects_shape', 'pointIntersectsPoly', [('self', 'PtS'), ('shape', 'PolyA')], 'Bool'),
        Inst('GeoPoint.intersects_shape', 'pointIntersectsLine', [('self', 'PtS'), ('shape', 'LineA')], 'Bool'),
    ]
    for t in ('PolyS', 'PolyA', 'LineA', 'PtA', 'Any', 'LineS', 'PtS'):
        py2lean.LEAN_TYPE.setdefault(t, 'GV.Shape')
    py2lean.LEAN_TYPE.setdefault('MultiA', 'List GV.Shape')
    py2lean.LEAN_TYPE.setdefault('Hole', 'List GV.Pt')
    py2lean.LEAN_TYPE.setdefault('Edge', 'GV.Edge')

    def isinstance_hook(typ):
        return {'MultiA': {'MultiShape'}, 'PtA': {'PointLike', 'GeoPoint'}, 'PolyA': {'PolygonLike'}, 'LineA': {'LineLike'},
                'PolyS': {'PolygonLike'}, 'LineS': {'LineLike'}, 'PtS': {'PointLike', 'GeoPoint'}}.get(typ)

    def sweep(tr, args):
        if [a.typ for a in args] != ['List Prod Pt Pt', 'List Prod Pt Pt']:
            raise Unsupported(f'do_edges_intersect({", ".join(a.typ for a in args)})')
        return Val(f'(GV.doEdgesIntersect {args[0].text} {args[1].text})', 'Bool')

    def sub_list(tr, args):
        if [a.typ for a in args] != ['List Pt', 'List Pt']:
            raise Unsupported(f'is_sub_list({", ".join(a.typ for a in args)})')
        return Val(f'(GV.isSubList {args[0].text} {args[1].text})', 'Bool')

    ER = 'List List Prod Pt Pt'
    abstract = {
        ('LineS', '__contains__', ('Pt',)): ('cc {0} {1}', 'Bool'),
        ('LineS', 'contains_shape', ('Any',)): ('rs {0} {1}', 'Bool'), ('LineS', 'intersects_shape', ('Any',)): ('ri {0} {1}', 'Bool'),
        ('PtS', 'contains_shape', ('Any',)): ('rs {0} {1}', 'Bool'),
        ('PolyA', 'intersects_shape', ('PtS',)): ('ri {0} {1}', 'Bool'), ('LineA', 'intersects_shape', ('PtS',)): ('ri {0} {1}', 'Bool'),
        ('PolyS', 'edges', ()): ('edgesOf {0}', ER), ('PolyA', 'edges', ()): ('edgesOf {0}', ER),
        ('PolyS', 'contains_coordinate', ('Pt',)): ('cc {0} {1}', 'Bool'),
        ('PolyS', '__contains__', ('Pt',)): ('cc {0} {1}', 'Bool'), ('PolyA', '__contains__', ('Pt',)): ('cc {0} {1}', 'Bool'),
        ('LineA', '__contains__', ('Pt',)): ('cc {0} {1}', 'Bool'),
        ('PolyS', 'contains_shape', ('Any',)): ('rs {0} {1}', 'Bool'), ('PolyS', 'intersects_shape', ('Any',)): ('ri {0} {1}', 'Bool'),
        ('Hole', 'bounding_coords', ()): ('{0}', 'List Pt'),
    }
    attr = {('MultiA', 'geoshapes'): ('{}', 'List Any'), ('PtA', 'centroid'): ('(cen {})', 'Pt'),
            ('PtS', 'centroid'): ('(cen {})', 'Pt'), ('PtS', 'coordinate'): ('(cen {})', 'Pt'), ('PtA', 'coordinate'): ('(cen {})', 'Pt'),
            ('LineA', 'segments'): ('(segsOf {})', 'List Prod Pt Pt'), ('LineS', 'segments'): ('(segsOf {})', 'List Prod Pt Pt'),
            ('LineA', 'vertices'): ('(vertsOf {})', 'List Pt'), ('LineS', 'vertices'): ('(vertsOf {})', 'List Pt'),
            ('Pt', 'longitude'): ('{}.1', 'R'), ('Pt', 'latitude'): ('{}.2', 'R'),
            ('PolyS', 'holes'): ('(holesOf {})', 'List Hole')}
    return Unit('SrcRelate', src, 'GV.Src.Relate', ['GeoVerif.Model.Relate', 'GeoVerif.Model.PyPrelude'], insts,
                {'PolyS': P, 'LineS': 'GeoLineString', 'PtS': 'GeoPoint'}, attr_types=attr, abstract=abstract,
                pins={k: PINS[k] for k in ('_geometry.py::do_edges_intersect', 'utils/functions.py::is_sub_list')},
                intrinsics={'do_edges_intersect': sweep, 'is_sub_list': sub_list},
                hooks={'isinstance': isinstance_hook, 'keywords': lambda tr, e: True},
                ctx_params=[('edgesOf', 'GV.Shape → List (List GV.Edge)'), ('segsOf', 'GV.Shape → List GV.Edge'),
                            ('cc', 'GV.Shape → GV.Pt → Bool'), ('tc', 'GV.Shape → GV.Pt → Bool'),
                            ('holesOf', 'GV.Shape → List (List GV.Pt)'), ('cen', 'GV.Shape → GV.Pt'),
                            ('vertsOf', 'GV.Shape → List GV.Pt'),
                            ('rs', 'GV.Shape → GV.Shape → Bool'), ('ri', 'GV.Shape → GV.Shape → Bool')])


# ----------------------------------------------------------------------------------------------------------
# geostructures/coordinates.py :: Coordinate.__init__ — normalisation   (C08)
#
# floats are exact rationals (§3); the two `while` loops are fuelled recursions whose fuel is the model's computed bound
# (`fuelLat`, `fuelLon`; Props/C08 proves the bounds are never exhausted); the result is the stored (longitude, latitude),
# and `z`, `m` must be stored exactly as given.

def coord_unit():
    src = py2lean.Source(_repo('coordinates.py'))
    insts = [
        Inst('Coordinate.__init__', 'init', [('self', 'None'), ('longitude', 'R'), ('latitude', 'R'), ('z', 'ZM'), ('m', 'ZM'),
                                             ('_bounded', 'Bool')], 'Prod R R'),
    ]
    py2lean.LEAN_TYPE.setdefault('ZM', 'Option Rat')

    def init_hook(tr, fields):
        if set(fields) != {'longitude', 'latitude', 'z', 'm'}:
            raise Unsupported(f'Coordinate.__init__ stores fields {sorted(fields)}')
        if fields['z'].path != 'z' or fields['m'].path != 'm':
            raise Unsupported('Coordinate.__init__ does not store z / m exactly as given')
        if fields['longitude'].typ != 'R' or fields['latitude'].typ != 'R':
            raise Unsupported('Coordinate.__init__ stores non-float longitude / latitude')
        return f'({fields["longitude"].text}, {fields["latitude"].text})'

    def fuel(qual, index):
        return {1: 'GV.fuelLat {lat}', 2: 'GV.fuelLon {lon}'}.get(index)

    return Unit('SrcCoord', src, 'GV.Src.Coord', ['GeoVerif.Model.Coord'], insts, {},
                hooks={'isinstance': lambda typ: None, 'init': init_hook, 'fuel': fuel})


# ----------------------------------------------------------------------------------------------------------
# geostructures/structures.py :: contains_coordinate of GeoCircle, GeoEllipse, GeoRing — the analytic membership   (C03)
#
# generic over the numeric class `Num α` of Model/Sphere.lean (real numbers in the proofs, binary64 in the driver);
# `haversine_distance_meters`, `bearing_degrees`, `_radius_at_angle`, `math.radians` are the model's functions (the
# calculator is C07's subject); the receiver is given by its fields; a hole is its membership test.

def curved_unit():
    src = py2lean.Source(_repo('structures.py'))
    insts = [
        Inst('GeoCircle.contains_coordinate', 'containsCircle', [('self', 'Circle'), ('coord', 'C')], 'Bool'),
        Inst('GeoEllipse.contains_coordinate', 'containsEllipse', [('self', 'Ellipse'), ('coord', 'C')], 'Bool'),
        Inst('GeoRing.contains_coordinate', 'containsRing', [('self', 'Ring'), ('coord', 'C')], 'Bool'),
    ]
    for t in ('Circle', 'Ellipse', 'Ring'):
        py2lean.LEAN_TYPE.setdefault(t, 'Unit')
    py2lean.LEAN_TYPE.setdefault('N', 'α')
    py2lean.LEAN_TYPE.setdefault('C', 'GV.Sphere.Coord α')
    py2lean.LEAN_TYPE.setdefault('HoleF', 'GV.Sphere.Coord α → Bool')

    def hav(tr, args):
        if [a.typ for a in args] != ['C', 'C']:
            raise Unsupported('haversine_distance_meters(' + ', '.join(a.typ for a in args) + ')')
        return Val(f'(GV.Sphere.haversine R {args[0].text} {args[1].text})', 'N')

    def brg(tr, args):
        if [a.typ for a in args] != ['C', 'C']:
            raise Unsupported('bearing_degrees(' + ', '.join(a.typ for a in args) + ')')
        return Val(f'(GV.Sphere.bearing rnd5 {args[0].text} {args[1].text})', 'N')

    def radians(tr, args):
        if [a.typ for a in args] != ['N']:
            raise Unsupported('math.radians of ' + ', '.join(a.typ for a in args))
        return Val(f'(GV.Sphere.radians {args[0].text})', 'N')

    attr = {}
    for cls in ('Circle', 'Ellipse', 'Ring'):
        attr[(cls, 'center')] = ('center', 'C')
        attr[(cls, 'holes')] = ('holes', 'List HoleF')
    attr.update({('Circle', 'radius'): ('radius', 'N'), ('Ellipse', 'rotation'): ('rotDeg', 'N'),
                 ('Ring', 'inner_radius'): ('inner', 'N'), ('Ring', 'outer_radius'): ('outer', 'N'),
                 ('Ring', 'angle_min'): ('amin', 'N'), ('Ring', 'angle_max'): ('amax', 'N')})
    abstract = {('HoleF', '__contains__', ('C',)): ('{0} {1}', 'Bool'),
                ('Ellipse', '_radius_at_angle', ('N',)): ('GV.Sphere.radiusAtAngle a b {1}', 'N')}
    return Unit('SrcCurved', src, 'GV.Src.Curved', ['GeoVerif.Model.Sphere'], insts, {},
                header='open GV Num\nvariable {α : Type} [Num α]', attr_types=attr, abstract=abstract,
                intrinsics={'haversine_distance_meters': hav, 'bearing_degrees': brg, 'math.radians': radians},
                hooks={'isinstance': lambda typ: None},
                ctx_params=[('rnd5', 'α → α'), ('R', 'α'), ('center', 'GV.Sphere.Coord α'), ('radius', 'α'), ('a', 'α'), ('b', 'α'),
                            ('rotDeg', 'α'), ('inner', 'α'), ('outer', 'α'), ('amin', 'α'), ('amax', 'α'),
                            ('holes', 'List (GV.Sphere.Coord α → Bool)')])


# ----------------------------------------------------------------------------------------------------------
# geostructures/calc.py :: haversine_distance_meters, bearing_degrees, inverse_haversine_radians / _degrees   (C07)
#
# the formulas themselves, generic over `Num α`: every arithmetic operation in source order (so that the binary64 instance
# reproduces the floating-point results); `math.*` are the class's functions, `x ** 2` its `pow2`, `%` Python's float
# modulo, `min`/`max` return the first extremal argument; `EARTH_RADIUS` is the parameter `R` (regenerated from `_const.py`
# where the model is used); `ensure_edge_bounds` is the model's `ensureEdge` (pinned); `round_half_up(x, p)` is the
# parameter `rnd` (the rounding at the requested precision; the theorems are about the un-rounded values); the
# destination is the (lon, lat) pair handed to the `Coordinate` constructor (C08's subject), `z` passes through.

def calc_unit():
    src = py2lean.Source(_repo('calc.py'))
    insts = [
        Inst('haversine_distance_meters', 'haversine', [('coord1', 'C'), ('coord2', 'C')], 'N'),
        Inst('bearing_degrees', 'bearing', [('coord1', 'C'), ('coord2', 'C')], 'N'),
        Inst('inverse_haversine_radians', 'destination', [('start', 'C'), ('angle_radians', 'N'), ('distance_meters', 'N')], 'C'),
        Inst('inverse_haversine_degrees', 'destinationDeg', [('start', 'C'), ('angle_degrees', 'N'), ('distance_meters', 'N')], 'C'),
    ]
    py2lean.LEAN_TYPE.setdefault('N', 'α')
    py2lean.LEAN_TYPE.setdefault('C', 'GV.Sphere.Coord α')

    def fn1(name):
        def f(tr, args):
            if [a.typ for a in args] not in (['N'], ['Int']):
                raise Unsupported(f'math function applied to {", ".join(a.typ for a in args)}')
            x = args[0].text if args[0].typ == 'N' else f'(Num.ofI {args[0].text})'
            return Val(f'({name} {x})', 'N')
        return f

    def atan2(tr, args):
        if [a.typ for a in args] != ['N', 'N']:
            raise Unsupported('math.atan2 of ' + ', '.join(a.typ for a in args))
        return Val(f'(Num.atan2 {args[0].text} {args[1].text})', 'N')

    def edge(tr, args):
        if [a.typ for a in args] != ['C', 'C']:
            raise Unsupported('ensure_edge_bounds(' + ', '.join(a.typ for a in args) + ')')
        return Val(f'(GV.Sphere.ensureEdge {args[0].text} {args[1].text})', 'Prod C C')

    def rnd(tr, args):
        if not args or args[0].typ != 'N':
            raise Unsupported('round_half_up of ' + ', '.join(a.typ for a in args))
        return Val(f'(rnd {args[0].text})', 'N')      # the precision argument selects which rounding `rnd` stands for

    def coordinate(tr, args):
        if [a.typ for a in args] != ['N', 'N']:
            raise Unsupported('Coordinate(' + ', '.join(a.typ for a in args) + ')')
        return Val(f'({args[0].text}, {args[1].text})', 'C')

    def kw(tr, e):
        f = e.func
        name = f.id if isinstance(f, py2lean.ast.Name) else None
        return name == 'Coordinate' and [k.arg for k in e.keywords] == ['z'] and py2lean.ast.unparse(e.keywords[0].value) == 'start.z'

    def method(tr, recv, attr, args):
        # `kwargs.get('precision', 5)`: the requested precision (a parameter of the rounding, not of the formula)
        return Val('()', 'None') if (recv.typ == 'Kw' and attr == 'get') else None

    intr = {'math.sin': fn1('Num.sin'), 'math.cos': fn1('Num.cos'), 'math.asin': fn1('Num.asin'), 'math.sqrt': fn1('Num.sqrt'),
            'math.radians': fn1('GV.Sphere.radians'), 'math.degrees': fn1('GV.Sphere.degrees'), 'math.atan2': atan2,
            'ensure_edge_bounds': edge, 'round_half_up': rnd, 'Coordinate': coordinate}
    unit = Unit('SrcCalc', src, 'GV.Src.Calc', ['GeoVerif.Model.Sphere'], insts, {},
                header='open GV Num\nvariable {α : Type} [Num α]',
                attr_types={('C', 'longitude'): ('{}.1', 'N'), ('C', 'latitude'): ('{}.2', 'N')},
                pins={'_geometry.py::ensure_edge_bounds': PINS['_geometry.py::ensure_edge_bounds']},
                intrinsics=intr,
                hooks={'isinstance': lambda typ: None, 'float_as_int': True, 'keywords': kw, 'method': method,
                       'constants': {'EARTH_RADIUS': ('R', 'N'), 'math.pi': ('Num.pi', 'N')}},
                ctx_params=[('rnd', 'α → α'), ('R', 'α')])
    return unit


UNITS = {'SrcTime': time_unit, 'SrcBase': base_unit, 'SrcMulti': multi_unit, 'SrcColl': coll_unit, 'SrcPip': pip_unit,
         'SrcMember': member_unit, 'SrcTrack': track_unit, 'SrcRelate': relate_unit, 'SrcCoord': coord_unit,
         'SrcCurved': curved_unit, 'SrcCalc': calc_unit}


def geojson_unit():
    # geostructures GeoJSON exporters, ring orientation, time fields (C14): declared in srcunits_geojson.py
    import srcunits_geojson
    return srcunits_geojson.unit()


UNITS['SrcGeoJson'] = geojson_unit


def render(name):
    """(lean text, None) or (stub text, reason) when the current source is outside the translated subset"""
    try:
        return UNITS[name]().render(), None
    except Unsupported as e:
        reason = str(e)
    except (SyntaxError, OSError) as e:
        reason = f'{type(e).__name__}: {e}'
    stub = ('/-!\n# GENERATED by harness/py2lean.py — the current source could NOT be translated:\n'
            f'{reason}\n-/\n')
    return stub, reason
