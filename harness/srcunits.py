"""
Source units of the translator (py2lean): which functions of /repo are translated to Lean on every run, at which static
argument types, and how their few non-translated helpers are pinned.  See py2lean.py for the subset.
"""
import os

import common
import py2lean
from py2lean import Inst, Unit, Val, Unsupported


def _repo(*p):
    return os.path.join(common.REPO, 'geostructures', *p)


# ----------------------------------------------------------------------------------------------------------
# geostructures/time.py :: TimeInterval          (C06; used by C05, C16, C17, C18)
#
# abstraction: a datetime is exchanged as its UTC instant (Int, microseconds); `_default_to_zulu` (naive digits are read
# as UTC) is applied by that abstraction and is therefore *pinned*, not translated: `Dt` values are instants.

TIME_PINS = {
    'TimeInterval._default_to_zulu': None,      # filled from PINS below
}

PINS = {
    # qual -> AST digest of the helper as it was when the abstraction was written (py2lean.pin_of)
    'time.py::TimeInterval._default_to_zulu': '928ccd9ea3bd919d',     # naive -> UTC digits; aware -> the same instant in UTC (identity on instants)
    'utils/functions.py::default_to_zulu': 'e4c433c062136134',
    # helpers whose *meaning* a unit assumes without translating them
    'structures.py::GeoPolygon.bounds': 'd90aead0fc54814e',          # SrcMember: `self.bounds` is the outline's bounding box
    'collections.py::Track.__init__': '01f0c36a2b9a4fbb',            # SrcColl: `type(self)(xs)` is the model's `rewrap`
    'collections.py::CollectionBase.__init__': '998def96113cc433',
    'utils/functions.py::is_sub_list': 'a65933a1f69295ee',            # SrcRelate: the model's `isSubList`
    '_base.py::BaseShapeProtocol.copy': '0da86b9aedc16b8e',            # SrcMut: abstract in the protocol (= the model's `copy`)
    '_geometry.py::ensure_edge_bounds': 'a705a05bf476cf50',                    # SrcCalc: the model's `ensureEdge` (SrcSweep translates it)
}


def time_unit():
    src = py2lean.Source(_repo('time.py'))
    T = 'TimeInterval'
    insts = [
        Inst(f'{T}.is_instant', 'isInstant', [('self', 'TI')], 'Bool'),
        Inst(f'{T}.elapsed', 'elapsed', [('self', 'TI')], 'Td'),
        Inst(f'{T}.__eq__', 'eq', [('self', 'TI'), ('other', 'TI')], 'Bool'),
        Inst(f'{T}.__hash__', 'hashKey', [('self', 'TI')], 'Pair Dt', doc='the value handed to hash()'),
        Inst(f'{T}.__contains__', 'containsDt', [('self', 'TI'), ('time', 'Dt')], 'Bool'),
        Inst(f'{T}.issubset', 'issubset', [('self', 'TI'), ('other', 'TI')], 'Bool'),
        Inst(f'{T}.issuperset', 'issuperset', [('self', 'TI'), ('other', 'TI')], 'Bool'),
        Inst(f'{T}.__contains__', 'containsTI', [('self', 'TI'), ('time', 'TI')], 'Bool'),
        Inst(f'{T}.isdisjoint', 'isdisjoint', [('self', 'TI'), ('other', 'TI')], 'Bool'),
        Inst(f'{T}.intersects', 'intersectsDt', [('self', 'TI'), ('other', 'Dt')], 'Bool'),
        Inst(f'{T}.intersects', 'intersects', [('self', 'TI'), ('other', 'TI')], 'Bool'),
        Inst(f'{T}.__init__', 'init', [('self', 'None'), ('start', 'Dt'), ('end', 'Dt')], 'Except TI'),
        Inst(f'{T}.__init__', 'initTd', [('self', 'None'), ('start', 'Dt'), ('end', 'Td')], 'Except TI'),
        Inst(f'{T}.intersection', 'intersection', [('self', 'TI'), ('other', 'TI')], 'Except Opt TI'),
        Inst(f'{T}.union', 'union', [('self', 'TI'), ('other', 'TI')], 'Except TI'),
        Inst(f'{T}.copy', 'copy', [('self', 'TI')], 'Except TI'),
    ]

    def isinstance_hook(typ):
        return {'Dt': {'datetime'}, 'Td': {'timedelta'}, 'TI': {'TimeInterval'}, 'None': set()}.get(typ)

    def init_hook(tr, fields):
        if set(fields) != {'start', 'end'}:
            raise Unsupported(f'TimeInterval.__init__ stores fields {sorted(fields)}')
        if fields['start'].typ != 'Dt' or fields['end'].typ != 'Dt':
            raise Unsupported('TimeInterval.__init__ stores non-datetime bounds')
        return f'⟨{fields["start"].text}, {fields["end"].text}⟩'

    def zulu(tr, args):
        # args[0] is the receiver (self / None), args[1] the datetime: identity on instants (pinned helper)
        v = args[-1]
        if v.typ != 'Dt':
            raise Unsupported(f'_default_to_zulu applied to {v.typ}')
        return Val(v.text, 'Dt')

    attr = {('TI', 'start'): ('{}.start', 'Dt'), ('TI', 'end'): ('{}.stop', 'Dt')}
    return Unit('SrcTime', src, 'GV.Src.Time', ['GeoVerif.Model.Time'], insts, {'TI': T, 'None': T},
                pins={f'{T}._default_to_zulu': PINS['time.py::TimeInterval._default_to_zulu']},
                attr_types=attr, intrinsics={f'{T}._default_to_zulu': zulu},
                hooks={'isinstance': isinstance_hook, 'init': init_hook, 'always_truthy': ('TI', 'Dt')})


def _time_externals():
    """instances of SrcTime under their qualified Lean names, for units that call into TimeInterval"""
    ext = {}
    for i in time_unit().insts:
        j = Inst(i.qual, 'GV.Src.Time.' + i.lean, i.params, i.ret, i.doc)
        ext.setdefault(j.key(), j)
    return ext


# ----------------------------------------------------------------------------------------------------------
# geostructures/_base.py :: BaseShapeProtocol — the space-time gates   (C05)
#
# a shape is an opaque `σ`, a coordinate an opaque `κ`; the world `W : GV.ST.World σ κ` supplies `.dt` and the three
# abstract spatial methods, about which nothing is assumed.

def base_unit():
    src = py2lean.Source(_repo('_base.py'))
    B = 'BaseShapeProtocol'
    insts = [
        Inst(f'{B}.contains_time', 'containsTimeDt', [('self', 'σ'), ('dt', 'Dt')], 'Bool'),
        Inst(f'{B}.contains_time', 'containsTimeTI', [('self', 'σ'), ('dt', 'TI')], 'Bool'),
        Inst(f'{B}.intersects_time', 'intersectsTimeDt', [('self', 'σ'), ('dt', 'Dt')], 'Bool'),
        Inst(f'{B}.intersects_time', 'intersectsTimeTI', [('self', 'σ'), ('dt', 'TI')], 'Bool'),
        Inst(f'{B}.contains', 'containsCoord', [('self', 'σ'), ('shape', 'κ')], 'Bool'),
        Inst(f'{B}.contains', 'containsShape', [('self', 'σ'), ('shape', 'σ')], 'Bool'),
        Inst(f'{B}.__contains__', 'dunderContainsCoord', [('self', 'σ'), ('other', 'κ')], 'Bool'),
        Inst(f'{B}.__contains__', 'dunderContainsShape', [('self', 'σ'), ('other', 'σ')], 'Bool'),
        Inst(f'{B}.intersects', 'intersects', [('self', 'σ'), ('shape', 'σ')], 'Bool'),
    ]

    def isinstance_hook(typ):
        return {'σ': {'GeoShape', 'BaseShape', 'BaseShapeProtocol'}, 'κ': {'Coordinate'}, 'Dt': {'datetime'},
                'TI': {'TimeInterval'}}.get(typ)

    abstract = {
        ('σ', 'contains_coordinate', ('κ',)): ('W.containsCoord {} {}', 'Bool'),
        ('σ', 'contains_shape', ('σ',)): ('W.containsShape {} {}', 'Bool'),
        ('σ', 'intersects_shape', ('σ',)): ('W.intersectsShape {} {}', 'Bool'),
    }
    return Unit('SrcBase', src, 'GV.Src.Base', ['GeoVerif.Gen.SrcTime', 'GeoVerif.Model.SpaceTime'], insts,
                {'σ': B, 'TI': 'TimeInterval'}, header='variable {σ κ : Type}',
                attr_types={('σ', 'dt'): ('(W.dt {})', 'Opt TI')},
                hooks={'isinstance': isinstance_hook, 'always_truthy': ('TI', 'Dt')},
                ctx_params=[('W', 'GV.ST.World σ κ')], externals=_time_externals(), abstract=abstract)


# ----------------------------------------------------------------------------------------------------------
# geostructures/_base.py :: MultiShapeBase — the member loops   (C04)
#
# a multi-shape is the list of its members (`μ`), the argument a single shape `σ`, a multi-shape (list of `σ`) or a
# coordinate `κ`; the member-level relations `rc rs ri` are parameters about which nothing is assumed.
#
# round 2: `bounds` (`shape.bounds` of a member is the parameter `bnd`; `list(zip(*…))` over 4-tuples, `min` / `max` of a
# sequence raise ValueError when it is empty), `__iter__`, and `split` — the one instance that works on *objects*: it is
# declared `Heap T` (takes the heap of property dictionaries, returns (heap, result)); a call declared to create an
# object (`shape.copy()` = the model's `copyMember`, `dict.copy()` = a new dictionary with the same items) threads the
# heap, a comprehension over such calls is a left-to-right `GV.Py.mapH`, and `for x in xs: x.f = e` replaces every element
# by the updated record — accepted only over a local list of objects this function created itself (a store through a list
# whose elements may be shared, e.g. `self.geoshapes`, is outside the subset).  The receiver of `split` is
# (members, `dt`, address of `_properties`).

def multi_unit():
    src = py2lean.Source(_repo('_base.py'))
    M = 'MultiShapeBase'
    insts = [
        Inst(f'{M}.contains_coordinate', 'containsCoord', [('self', 'List μ'), ('coord', 'κ')], 'Bool'),
        Inst(f'{M}.contains_shape', 'containsSingle', [('self', 'List μ'), ('shape', 'σ')], 'Bool'),
        Inst(f'{M}.contains_shape', 'containsMulti', [('self', 'List μ'), ('shape', 'List σ')], 'Bool'),
        Inst(f'{M}.intersects_shape', 'intersectsSingle', [('self', 'List μ'), ('shape', 'σ')], 'Bool'),
        Inst(f'{M}.intersects_shape', 'intersectsMulti', [('self', 'List μ'), ('shape', 'List σ')], 'Bool'),
        # round 2
        Inst(f'{M}.bounds', 'bounds', [('self', 'List μ')], 'Except Tuple4 R'),
        Inst(f'{M}.__iter__', 'iter', [('self', 'List μ')], 'Iter μ'),
        # `split` creates objects and stores into them: it takes the heap of property dictionaries and returns (heap, shapes);
        # the receiver is (members, dt, address of `_properties`)
        Inst(f'{M}.split', 'split', [('self', 'MultiH')], 'Heap List Shp'),
    ]
    py2lean.LEAN_TYPE['HeapT'] = 'GV.Multi.Heap'
    py2lean.LEAN_TYPE.setdefault('MultiH', 'List (GV.Multi.Shp γ) × Option GV.TI × Nat')
    py2lean.LEAN_TYPE.setdefault('Shp', 'GV.Multi.Shp γ')
    py2lean.LEAN_TYPE.setdefault('DictRef', 'Nat')
    py2lean.LEAN_TYPE.setdefault('Iter μ', 'List μ')

    class Known(set):
        """classes an abstract type is known to be an instance of; `.no`: known not to be; any other class is undecided"""
        def __init__(self, yes, no):
            super().__init__(yes)
            self.no = set(no)

    def isinstance_hook(typ):
        single = Known({'SingleShapeBase', 'BaseShape', 'BaseShapeProtocol'}, {'MultiShapeBase', 'Coordinate'})
        multi = Known({'MultiShapeBase', 'BaseShape', 'BaseShapeProtocol'}, {'SingleShapeBase', 'Coordinate'})
        return {'List σ': multi, 'List μ': multi, 'MultiH': multi, 'σ': single, 'μ': single,
                'κ': Known({'Coordinate'}, {'MultiShapeBase', 'SingleShapeBase', 'BaseShape', 'BaseShapeProtocol'})}.get(typ)

    abstract = {
        ('μ', 'contains_coordinate', ('κ',)): ('rc {} {}', 'Bool'),
        ('μ', 'contains_shape', ('σ',)): ('rs {} {}', 'Bool'),
        ('μ', 'intersects_shape', ('σ',)): ('ri {} {}', 'Bool'),
        ('List μ', '__iter__', ()): ('{}', 'Iter μ'),          # an iterator can only be handed on (it is consumed by use)
        # objects: a member's `.copy()` is the model's `copyMember` (same geometry, copied `dt`, a *new* dictionary holding
        # a deep copy of the properties); `dict.copy()` allocates a new dictionary with the same items
        ('Shp', 'copy', ()): ('GV.Multi.copyMember {h} {0}', 'Heap Shp'),
        ('DictRef', 'copy', ()): ('GV.Multi.Heap.alloc {h} (GV.Multi.Heap.read {h} {0})', 'Heap DictRef'),
    }
    def iter_of(tr, args):
        # `iter(xs)`: an iterator — a value that can only be handed on (looping over it would consume it)
        if [x.typ for x in args] != ['List μ']:
            raise Unsupported('iter(' + ', '.join(x.typ for x in args) + ')')
        return Val(args[0].text, 'Iter μ')

    return Unit('SrcMulti', src, 'GV.Src.Multi', ['GeoVerif.Model.Multi', 'GeoVerif.Model.PyColl'], insts,
                {'List μ': M, 'List σ': M, 'MultiH': M}, header='variable {μ σ κ γ : Type}',
                attr_types={('List μ', 'geoshapes'): ('{}', 'List μ'), ('List σ', 'geoshapes'): ('{}', 'List σ'),
                            ('μ', 'bounds'): ('(bnd {})', 'Tuple4 R'),
                            ('MultiH', 'geoshapes'): ('{}.1', 'List Shp'), ('MultiH', 'dt'): ('{}.2.1', 'Opt TI'),
                            ('MultiH', '_properties'): ('{}.2.2', 'DictRef')},
                intrinsics={'iter': iter_of},
                hooks={'isinstance': isinstance_hook, 'decorators': {f'{M}.bounds': ['property']}, 'pycoll': True,
                       'stores': {('Shp', '_properties'): ('props', 'DictRef'), ('Shp', 'dt'): ('dt', 'Opt TI')}},
                ctx_params=[('rc', 'μ → κ → Bool'), ('rs', 'μ → σ → Bool'), ('ri', 'μ → σ → Bool'),
                            ('bnd', 'μ → Rat × Rat × Rat × Rat')], abstract=abstract)


# ----------------------------------------------------------------------------------------------------------
# geostructures/collections.py :: CollectionBase — filters and `intersects`   (C18)
#
# a collection is the record `GV.Coll` (tag + member list); `type(self)(xs)` is the model's `rewrap` (a Track constructor
# sorts and may raise); what a member answers about the query shape is abstract: `xi x` = `x.intersects(shape)`,
# `xc x` = `x.contains(shape)`, `qc x` = `shape.contains(x)`, `qdt` = `shape.dt`.

def coll_unit():
    src = py2lean.Source(_repo('collections.py'))
    C = 'CollectionBase'
    insts = [
        Inst(f'{C}.filter_by_dt', 'filterByDtInst', [('self', 'GV.Coll'), ('dt', 'Dt')], 'Except GV.Coll'),
        Inst(f'{C}.filter_by_dt', 'filterByDtIval', [('self', 'GV.Coll'), ('dt', 'TI')], 'Except GV.Coll'),
        Inst(f'{C}.filter_by_intersection', 'filterByIntersection', [('self', 'GV.Coll'), ('shape', 'Query')], 'Except GV.Coll'),
        Inst(f'{C}.filter_contained_by', 'filterContainedBy', [('self', 'GV.Coll'), ('shape', 'Query')], 'Except GV.Coll'),
        Inst(f'{C}.filter_contains', 'filterContains', [('self', 'GV.Coll'), ('shape', 'Query')], 'Except GV.Coll'),
        Inst(f'{C}.intersects', 'intersects', [('self', 'GV.Coll'), ('shape', 'Query')], 'Except Bool'),
        Inst(f'{C}.filter_by_property', 'filterByProperty',
             [('self', 'GV.Coll'), ('property', 'Str'), ('func', 'Fn PVal Bool')], 'Except GV.Coll'),
        Inst(f'{C}.__bool__', 'bool', [('self', 'GV.Coll')], 'Bool'),
        Inst('FeatureCollection.__add__', 'fcAddFc', [('self', 'GV.Coll'), ('other', 'FCA')], 'Except GV.Coll'),
        Inst('FeatureCollection.__add__', 'fcAddTrack', [('self', 'GV.Coll'), ('other', 'TrackA')], 'Except GV.Coll'),
        Inst('Track.__add__', 'trackAddTrack', [('self', 'GV.Coll'), ('other', 'TrackA')], 'Except GV.Coll'),
        Inst('Track.__add__', 'trackAddFc', [('self', 'GV.Coll'), ('other', 'FCA')], 'Except GV.Coll'),
        # the list protocol: every method hands the question to the list `self.geoshapes`
        Inst(f'{C}.__contains__', 'contains', [('self', 'GV.Coll'), ('item', 'Item')], 'Bool'),
        Inst(f'{C}.__iter__', 'iter', [('self', 'GV.Coll')], 'List GV.Coll.Shape'),
        Inst(f'{C}.__len__', 'len', [('self', 'GV.Coll')], 'Nat'),
        Inst('FeatureCollection.__iter__', 'fcIter', [('self', 'GV.Coll')], 'List GV.Coll.Shape'),
        Inst('FeatureCollection.__len__', 'fcLen', [('self', 'GV.Coll')], 'Nat'),
        Inst('FeatureCollection.__getitem__', 'fcGetIdx', [('self', 'GV.Coll'), ('item', 'Int')], 'Except GV.Coll.Shape'),
        Inst('FeatureCollection.__getitem__', 'fcGetSlice', [('self', 'GV.Coll'), ('item', 'Slice3')],
             'Except List GV.Coll.Shape'),
        Inst('FeatureCollection.__eq__', 'fcEqFc', [('self', 'GV.Coll'), ('other', 'FCA')], 'Bool'),
        Inst('FeatureCollection.__eq__', 'fcEqTrack', [('self', 'GV.Coll'), ('other', 'TrackA')], 'Bool'),
        Inst('FeatureCollection.__eq__', 'fcEqOther', [('self', 'GV.Coll'), ('other', 'Query')], 'Bool'),
        Inst('Track.__eq__', 'trackEqTrack', [('self', 'GV.Coll'), ('other', 'TrackA')], 'Bool'),
        Inst('Track.__eq__', 'trackEqFc', [('self', 'GV.Coll'), ('other', 'FCA')], 'Bool'),
        Inst('Track.__eq__', 'trackEqOther', [('self', 'GV.Coll'), ('other', 'Query')], 'Bool'),
    ]
    py2lean.LEAN_TYPE.setdefault('Item', 'GV.Coll.Shape')
    py2lean.LEAN_TYPE.setdefault('Slice3', 'Option Int × Option Int × Option Int')

    SH = 'List GV.Coll.Shape'

    def list_method(tr, recv, attr, args):
        # the dunder methods of the builtin `list` that the collection delegates to, read as the model's list functions
        # (negative indices, slices with a step, IndexError: `getIdx` / `getSlice` on the bare list)
        if recv.typ != SH:
            return None
        if attr == '__iter__' and not args:
            return Val(recv.text, SH)
        if attr == '__len__' and not args:
            return Val(f'({recv.text}).length', 'Nat')
        if attr == 'copy' and not args:
            return Val(recv.text, SH)
        if attr == '__getitem__' and len(args) == 1:
            a = tr.expr(args[0])
            if a.typ == 'Int':
                v = Val(f'(GV.Coll.getIdx (GV.Coll.mkFC {recv.text}) {a.text})', 'GV.Coll.Shape')
            elif a.typ == 'Slice3':
                v = Val(f'(GV.Coll.getSlice (GV.Coll.mkFC {recv.text}) {a.text}.1 {a.text}.2.1 {a.text}.2.2)', SH)
            else:
                raise Unsupported(f'list.__getitem__ at {a.typ}')
            v.raises = True
            return v
        return None

    def list_eq(tr, a, b):
        # `xs == ys` on lists of shapes: same length and pairwise `x is y or x == y`
        if a.typ == b.typ == SH:
            return Val(f'(GV.Coll.listEq {a.text} {b.text})', 'Bool')
        return None
    py2lean.LEAN_TYPE.setdefault('Str', 'String')
    py2lean.LEAN_TYPE.setdefault('PVal', 'GV.Coll.PVal')
    py2lean.LEAN_TYPE.setdefault('Props', 'List (String × GV.Coll.PVal)')
    py2lean.LEAN_TYPE.setdefault('FCA', 'GV.Coll')
    py2lean.LEAN_TYPE.setdefault('TrackA', 'GV.Coll')

    def isinstance_hook(typ):
        return {'Dt': {'datetime'}, 'TI': {'TimeInterval'}, 'GV.Coll': {'CollectionBase'}, 'Query': {'BaseShape'},
                'FCA': {'CollectionBase', 'FeatureCollection'}, 'TrackA': {'CollectionBase', 'Track'}}.get(typ)

    def fc_ctor(tr, args):
        if len(args) != 1 or args[0].typ != 'List GV.Coll.Shape':
            raise Unsupported(f'FeatureCollection({", ".join(a.typ for a in args)})')
        return Val(f'(GV.Coll.mkFC {args[0].text})', 'GV.Coll')

    def track_ctor(tr, args):
        if len(args) != 1 or args[0].typ != 'List GV.Coll.Shape':
            raise Unsupported(f'Track({", ".join(a.typ for a in args)})')
        v = Val(f'(GV.Coll.mkTrack {args[0].text})', 'GV.Coll')
        v.raises = True
        return v

    def type_ctor(tr, recv, args):
        if recv.typ != 'GV.Coll' or len(args) != 1 or args[0].typ != 'List GV.Coll.Shape':
            raise Unsupported(f'type({recv.typ})({", ".join(a.typ for a in args)})')
        v = Val(f'(GV.Coll.rewrap {recv.text}.tag {args[0].text})', 'GV.Coll')
        v.raises = True
        return v

    def zulu(tr, args):
        if args[-1].typ != 'Dt':
            raise Unsupported(f'default_to_zulu applied to {args[-1].typ}')
        return Val(args[-1].text, 'Dt')

    abstract = {
        ('GV.Coll.Shape', 'intersects', ('Query',)): ('xi {0}', 'Bool'),
        ('GV.Coll.Shape', 'contains', ('Query',)): ('xc {0}', 'Bool'),
        ('Query', 'contains', ('GV.Coll.Shape',)): ('qc {1}', 'Bool'),
        # `item in self.geoshapes`: the list's membership test is `x is item or x == item`
        ('List GV.Coll.Shape', '__contains__', ('Item',)): ('({0}).any (GV.Coll.sameOrEq {1})', 'Bool'),
    }
    py2lean.LEAN_TYPE.setdefault('Query', 'Unit')
    return Unit('SrcColl', src, 'GV.Src.Coll', ['GeoVerif.Gen.SrcTime', 'GeoVerif.Model.Collection', 'GeoVerif.Model.PyPrelude'], insts,
                {'GV.Coll': C, 'TI': 'TimeInterval'},
                pins={k: PINS[k] for k in ('utils/functions.py::default_to_zulu', 'collections.py::Track.__init__',
                                           'collections.py::CollectionBase.__init__')},
                attr_types={('GV.Coll', 'geoshapes'): ('{}.shapes', 'List GV.Coll.Shape'),
                            ('FCA', 'geoshapes'): ('{}.shapes', 'List GV.Coll.Shape'),
                            ('TrackA', 'geoshapes'): ('{}.shapes', 'List GV.Coll.Shape'),
                            ('GV.Coll.Shape', 'properties'): ('{}.properties', 'Props'),
                            ('GV.Coll.Shape', 'dt'): ('{}.dt', 'Opt TI'), ('Query', 'dt'): ('qdt', 'Opt TI')},
                intrinsics={'default_to_zulu': zulu, 'FeatureCollection': fc_ctor, 'Track': track_ctor},
                hooks={'isinstance': isinstance_hook, 'type_ctor': type_ctor, 'always_truthy': ('TI', 'Dt'),
                       'method': list_method, 'eq': list_eq,
                       'local_type': lambda qual, name: {('CollectionBase.filter_by_property', 'filtered_shapes'):
                                                         'List GV.Coll.Shape'}.get((qual, name))},
                ctx_params=[('qdt', 'Option GV.TI'), ('xi', 'GV.Coll.Shape → Bool'), ('xc', 'GV.Coll.Shape → Bool'),
                            ('qc', 'GV.Coll.Shape → Bool')],
                externals=_time_externals(), abstract=abstract)


# ----------------------------------------------------------------------------------------------------------
# geostructures/structures.py :: GeoPolygon._point_in_polygon — the even-odd ray rule   (C01)
#
# a coordinate is the exact pair `GV.Pt = Rat × Rat` (floats are exchanged as their exact rational values; the theorems
# are about exact arithmetic, §3 of DESIGN.md); the loop becomes a structural recursion over the edge list.

def pip_unit():
    src = py2lean.Source(_repo('structures.py'))
    insts = [
        Inst('GeoPolygon._point_in_polygon', 'pointInPolygon',
             [('coord', 'Pt'), ('polygon', 'List Pt'), ('include_boundary', 'Bool')], 'Except Bool'),
        Inst('GeoPolygon._point_in_polygon', 'pointInPolygonDefault', [('coord', 'Pt'), ('polygon', 'List Pt')], 'Except Bool',
             doc='`include_boundary` left at its default'),
    ]
    return Unit('SrcPip', src, 'GV.Src.Pip', ['GeoVerif.Model.Pip', 'GeoVerif.Model.PyPrelude'], insts, {},
                attr_types={('Pt', 'longitude'): ('{}.1', 'R'), ('Pt', 'latitude'): ('{}.2', 'R')},
                hooks={'isinstance': lambda typ: None})


def _pip_externals():
    ext = {}
    for i in pip_unit().insts:
        j = Inst(i.qual, 'GV.Src.Pip.' + i.lean, i.params, i.ret, i.doc)
        ext.setdefault(j.key(), j)
    return ext


# geostructures/structures.py :: GeoBox.contains_coordinate, GeoPolygon.contains_coordinate   (C01)
#
# the receiver is given by its fields: `nw se` (corners), `outline`, `holes` (each hole an outline), `bnd` = `self.bounds`
# (a cached property computed elsewhere: min/max over the outline); `hc h c` = `c in h` for a hole `h`.

def member_unit():
    src = py2lean.Source(_repo('structures.py'))
    insts = [
        Inst('GeoBox.contains_coordinate', 'boxContainsCoordinate', [('self', 'Box'), ('coord', 'Pt')], 'Bool'),
        Inst('GeoPolygon.contains_coordinate', 'polyContainsCoordinate', [('self', 'Poly'), ('coord', 'Pt')], 'Except Bool'),
    ]
    py2lean.LEAN_TYPE.setdefault('Box', 'Unit')
    py2lean.LEAN_TYPE.setdefault('Poly', 'Unit')
    py2lean.LEAN_TYPE.setdefault('Hole', 'List GV.Pt')
    abstract = {('Hole', '__contains__', ('Pt',)): ('hc {0} {1}', 'Bool')}
    attr = {('Pt', 'longitude'): ('{}.1', 'R'), ('Pt', 'latitude'): ('{}.2', 'R'),
            ('Box', 'nw_bound'): ('nw', 'Pt'), ('Box', 'se_bound'): ('se', 'Pt'), ('Box', 'holes'): ('holes', 'List Hole'),
            ('Poly', 'outline'): ('outline', 'List Pt'), ('Poly', 'holes'): ('holes', 'List Hole'),
            ('Poly', 'bounds'): ('bnd', 'Tuple4 R')}
    return Unit('SrcMember', src, 'GV.Src.Member', ['GeoVerif.Gen.SrcPip', 'GeoVerif.Model.Pip'], insts,
                {'Poly': 'GeoPolygon', 'Box': 'GeoBox'}, attr_types=attr, abstract=abstract,
                pins={'structures.py::GeoPolygon.bounds': PINS['structures.py::GeoPolygon.bounds']},
                hooks={'isinstance': lambda typ: None},
                ctx_params=[('hc', 'List GV.Pt → GV.Pt → Bool'), ('nw', 'GV.Pt'), ('se', 'GV.Pt'), ('outline', 'List GV.Pt'),
                            ('holes', 'List (List GV.Pt)'), ('bnd', 'Rat × Rat × Rat × Rat')],
                externals=_pip_externals())


# ----------------------------------------------------------------------------------------------------------
# geostructures/collections.py :: Track.__getitem__ (slice by datetime), Track.has_duplicate_timestamps   (C17)
#
# the slice bounds are `a b : Option Int` (`val.start`, `val.stop` as instants; `default_to_zulu` pinned as for SrcColl);
# `x.start` / `x.end` of a member are the model's `startD` / `endD` (a Track holds no time-less shape); `Track(xs)` is
# the model's `mkTrack`; the local set `_ts` is the list of its elements, newest first.
#
# round 2 — the rest of the class: `first` / `last` / `start` / `end` (`xs[0]`, `xs[-1]` with Python's index rule),
# `time_start_diffs` / `centroid_distances` (`[f(x, y) for x, y in zip(xs, xs[1:])]` -> `List.map`, `np.array` the
# identity), `copy`, `__eq__` (one instance per class of the other operand; `xs == ys` on member lists is pairwise
# `x is y or x == y`), `convolve_duplicate_timestamps` (the `defaultdict(list)` is an insertion-ordered association list,
# `d[k].append(v)` is `GV.Py.ddAppend`; the loop over `.items()` with `continue`; `list(zip(*pairs))`, `sum`, `/` — which
# raises on a zero divisor —, the dict comprehension and the `GeoPoint(Coordinate(…), _ts, properties=…)` record),
# `filter_by_time` (`.time()` of an instant is the model's `tod`), `filter_impossible_journeys` (`range`, `len`, lists indexed
# by the int variables `i`, `j` — every lookup may raise IndexError —, `continue`, `np.isnan` of an exact rational is
# False).  The haversine distance of two centroids is the parameter `dist` of the two shapes: nothing is assumed of it.

def track_unit():
    src = py2lean.Source(_repo('collections.py'))
    T = 'Track'
    insts = [
        Inst(f'{T}.__init__', 'init', [('self', 'None'), ('geoshapes', 'List GV.Coll.Shape')], 'Except GV.Coll'),
        Inst(f'{T}.__getitem__', 'getitem', [('self', 'GV.Coll'), ('val', 'Slice')], 'Except GV.Coll'),
        Inst(f'{T}.has_duplicate_timestamps', 'hasDup', [('self', 'GV.Coll')], 'Bool'),
        # the rest of the class (round 2): views, pairwise differences, copy, convolution, time-of-day and speed filters
        Inst(f'{T}.copy', 'copy', [('self', 'GV.Coll')], 'Except GV.Coll'),
        Inst(f'{T}.first', 'first', [('self', 'GV.Coll')], 'Except GV.Coll.Shape'),
        Inst(f'{T}.last', 'last', [('self', 'GV.Coll')], 'Except GV.Coll.Shape'),
        Inst(f'{T}.start', 'startT', [('self', 'GV.Coll')], 'Except Dt'),
        Inst(f'{T}.end', 'endT', [('self', 'GV.Coll')], 'Except Dt'),
        Inst(f'{T}.time_start_diffs', 'timeStartDiffs', [('self', 'GV.Coll')], 'Except List Td'),
        Inst(f'{T}.centroid_distances', 'centroidDistances', [('self', 'GV.Coll')], 'Except List R'),
        Inst(f'{T}.convolve_duplicate_timestamps', 'convolve', [('self', 'GV.Coll')], 'Except GV.Coll'),
        Inst(f'{T}.filter_by_time', 'filterByTime', [('self', 'GV.Coll'), ('start_time', 'Int'), ('end_time', 'Int')],
             'Except GV.Coll', doc='times of day as microseconds since midnight'),
        Inst(f'{T}.filter_impossible_journeys', 'journeys', [('self', 'GV.Coll'), ('max_speed', 'R')], 'Except GV.Coll'),
        Inst(f'{T}.__eq__', 'eqTrack', [('self', 'GV.Coll'), ('other', 'TrackA')], 'Bool'),
        Inst(f'{T}.__eq__', 'eqOther', [('self', 'GV.Coll'), ('other', 'FCA')], 'Bool', doc='an operand that is not a Track'),
    ]
    py2lean.LEAN_TYPE.setdefault('FCA', 'GV.Coll')
    py2lean.LEAN_TYPE.setdefault('TrackA', 'GV.Coll')
    py2lean.LEAN_TYPE.setdefault('Slice', 'Unit')
    py2lean.LEAN_TYPE.setdefault('Str', 'String')
    py2lean.LEAN_TYPE.setdefault('PVal', 'GV.Coll.PVal')
    py2lean.LEAN_TYPE.setdefault('Props', 'List (String × GV.Coll.PVal)')
    py2lean.LEAN_TYPE.setdefault('Cen', 'GV.Coll.Shape')          # a centroid is known by the shape it belongs to
    py2lean.LEAN_TYPE.setdefault('TrkXY', 'Rat × Rat')

    def zulu(tr, args):
        if args[-1].typ != 'Dt':
            raise Unsupported(f'default_to_zulu applied to {args[-1].typ}')
        return Val(args[-1].text, 'Dt')

    def track_ctor(tr, args):
        if len(args) != 1 or args[0].typ != 'List GV.Coll.Shape':
            raise Unsupported(f'Track({", ".join(a.typ for a in args)})')
        v = Val(f'(GV.Coll.mkTrack {args[0].text})', 'GV.Coll')
        v.raises = True
        return v

    def local_type(qual, name):
        return {('Track.has_duplicate_timestamps', '_ts'): 'Set Opt TI',
                ('Track.convolve_duplicate_timestamps', '_timestamp_grouping'): 'DDL (Opt TI) GV.Coll.Shape',
                ('Track.convolve_duplicate_timestamps', 'new_pings'): 'List GV.Coll.Shape'}.get((qual, name))

    def haversine(tr, args):
        # the distance of two centroids is the parameter `dist` (of the two shapes), about which nothing is assumed
        if [x.typ for x in args] != ['Cen', 'Cen']:
            raise Unsupported('haversine_distance_meters(' + ', '.join(x.typ for x in args) + ')')
        return Val(f'(dist {py2lean._paren(args[0].text)} {py2lean._paren(args[1].text)})', 'R')

    def np_array(tr, args):
        if len(args) != 1 or not args[0].typ.startswith('List '):
            raise Unsupported('np.array(' + ', '.join(x.typ for x in args) + ')')
        return args[0]

    def np_isnan(tr, args):
        if [x.typ for x in args] not in (['R'], ['Int']):
            raise Unsupported('np.isnan(' + ', '.join(x.typ for x in args) + ')')
        return Val('false', 'Bool')                   # an exact rational is a number

    def coordinate(tr, args):
        # `Coordinate(lon, lat)`: the pair (normalisation is C08's subject; a mean of in-range values is in range)
        if [x.typ for x in args] != ['R', 'R']:
            raise Unsupported('Coordinate(' + ', '.join(x.typ for x in args) + ')')
        return Val(f'({args[0].text}, {args[1].text})', 'TrkXY')

    def geopoint(tr, args):
        # `GeoPoint(coord, dt, properties=p)`: a new shape (identity / equality class -1 as in the model)
        props = getattr(tr, 'kw_props', None)
        tr.kw_props = None
        if [x.typ for x in args] != ['TrkXY', 'Opt TI'] or props is None or props.typ != 'Props':
            raise Unsupported('GeoPoint(' + ', '.join(x.typ for x in args) + ', properties=…)')
        return Val(f'({{ id := -1, eqc := -1, dt := {args[1].text}, props := {props.text}, lon := {args[0].text}.1, '
                   f'lat := {args[0].text}.2 }} : GV.Coll.Shape)', 'GV.Coll.Shape')

    def keywords(tr, e):
        name = getattr(e.func, 'id', None)
        if name == 'sorted':
            return True
        if name == 'GeoPoint' and [k.arg for k in e.keywords] == ['properties']:
            tr.kw_props = tr.expr(e.keywords[0].value)
            return True
        return False

    def isinstance_hook(typ):
        return {'GV.Coll': {'CollectionBase', 'Track'}, 'TrackA': {'CollectionBase', 'Track'},
                'FCA': {'CollectionBase', 'FeatureCollection'}}.get(typ)

    def eq_hook(tr, x, y):
        # `xs == ys` on lists of shapes: same length and, pairwise, `x is y or x == y`
        if x.typ == y.typ == 'List GV.Coll.Shape':
            return Val(f'(GV.Py.listEq GV.Coll.sameOrEq {x.text} {y.text})', 'Bool')
        return None

    def expr_stmt(tr, e):
        import ast as _ast
        return isinstance(e, _ast.Call) and isinstance(e.func, _ast.Name) and e.func.id == 'warn_once'      # a warning

    def sorted_hook(tr, e):
        # `sorted(xs, key=lambda x: x.start)`: Python's sort is stable, so is the model's merge sort by start
        import ast as _ast
        ok = (len(e.args) == 1 and len(e.keywords) == 1 and e.keywords[0].arg == 'key' and isinstance(e.keywords[0].value, _ast.Lambda)
              and _ast.unparse(e.keywords[0].value) == 'lambda x: x.start')
        xs = tr.expr(e.args[0]) if ok else None
        if not ok or xs.typ != 'List GV.Coll.Shape':
            raise Unsupported(f'`{_ast.unparse(e)[:80]}`: only `sorted(<shapes>, key=lambda x: x.start)` is read as sortByStart')
        return Val(f'(GV.Coll.sortByStart {xs.text})', xs.typ)

    def super_init(tr, vals):
        # CollectionBase.__init__ (pinned) stores its argument as `geoshapes`
        if len(vals) != 1 or vals[0].typ != 'List GV.Coll.Shape':
            raise Unsupported('super().__init__ of a Track with other arguments')
        tr.fields['geoshapes'] = vals[0]

    def init_hook(tr, fields):
        if set(fields) != {'geoshapes'}:
            raise Unsupported(f'Track.__init__ stores fields {sorted(fields)}')
        return f'⟨.track, {fields["geoshapes"].text}⟩'

    attr = {('GV.Coll', 'geoshapes'): ('{}.shapes', 'List GV.Coll.Shape'),
            ('GV.Coll.Shape', 'dt'): ('{}.dt', 'Opt TI'), ('GV.Coll.Shape', 'start'): ('{}.startD', 'Dt'),
            ('GV.Coll.Shape', 'end'): ('{}.endD', 'Dt'),
            ('Slice', 'start'): ('a', 'Opt Dt'), ('Slice', 'stop'): ('b', 'Opt Dt'),
            ('GV.Coll.Shape', 'centroid'): ('{}', 'Cen'), ('GV.Coll.Shape', '_properties'): ('{}.props', 'Props'),
            ('TrackA', 'geoshapes'): ('{}.shapes', 'List GV.Coll.Shape'), ('FCA', 'geoshapes'): ('{}.shapes', 'List GV.Coll.Shape')}
    abstract = {
        ('Td', 'total_seconds', ()): ('GV.Py.totalSeconds {0}', 'R'),
        ('Dt', 'time', ()): ('GV.Coll.Track.tod {0}', 'Int'),            # time of day of a UTC instant
        ('Cen', 'to_float', ()): ('({0}.lon, {0}.lat)', 'Prod R R'),
        ('Props', 'items', ()): ('{0}', 'List Prod Str PVal'),
    }
    return Unit('SrcTrack', src, 'GV.Src.Track', ['GeoVerif.Model.Track', 'GeoVerif.Model.PyPrelude', 'GeoVerif.Model.PyColl'], insts,
                {'GV.Coll': T}, attr_types=attr, abstract=abstract,
                pins={k: PINS[k] for k in ('utils/functions.py::default_to_zulu', 'collections.py::CollectionBase.__init__')},
                intrinsics={'default_to_zulu': zulu, 'Track': track_ctor, 'haversine_distance_meters': haversine,
                            'np.array': np_array, 'np.isnan': np_isnan, 'Coordinate': coordinate, 'GeoPoint': geopoint},
                hooks={'isinstance': isinstance_hook, 'always_truthy': ('TI', 'Dt'), 'local_type': local_type,
                       'sorted': sorted_hook, 'super_init': super_init, 'init': init_hook,
                       'keywords': keywords, 'expr_stmt': expr_stmt, 'eq': eq_hook, 'pycoll': True},
                ctx_params=[('a', 'Option Int'), ('b', 'Option Int'), ('dist', 'GV.Coll.Shape → GV.Coll.Shape → Rat')])


# ----------------------------------------------------------------------------------------------------------
# geostructures/structures.py :: PolygonBase.contains_shape / intersects_shape — the relation logic around the sweep   (C02)
#
# every shape is a `GV.Shape`; the static tag of the argument (multi / point-like / polygon-like / line-like) picks the
# instance.  What the logic *uses* is abstract: `edgesOf` (`edges()`), `segsOf` (`segments`), `cc` (`coord in shape`,
# `contains_coordinate`), `tc` (`_touches_coordinate`), `holesOf`, `cen` (`centroid`), `rs ri` (the recursive calls on a
# member of a multi-shape argument).  `do_edges_intersect` is read as the model's sweep: no longer pinned — SrcSweep translates
# it and Props/C02SrcSweep proves the translation equal to that sweep (`doEdgesIntersect_eq_model`).

def relate_unit():
    src = py2lean.Source(_repo('structures.py'))
    P = 'PolygonBase'
    E = 'Except Bool'
    insts = [
        Inst('_is_on_segment', 'isOnSegment', [('coord', 'Pt'), ('start', 'Pt'), ('end', 'Pt')], 'Bool'),
        Inst(f'{P}._touches_coordinate', 'touchesCoordinate', [('self', 'PolyS'), ('coord', 'Pt')], 'Bool'),
        Inst(f'{P}.contains_shape', 'containsMulti', [('self', 'PolyS'), ('shape', 'MultiA')], 'Bool'),
        Inst(f'{P}.contains_shape', 'containsPoint', [('self', 'PolyS'), ('shape', 'PtA')], 'Bool'),
        Inst(f'{P}.contains_shape', 'containsPoly', [('self', 'PolyS'), ('shape', 'PolyA')], E),
        Inst(f'{P}.contains_shape', 'containsLine', [('self', 'PolyS'), ('shape', 'LineA')], E),
        Inst(f'{P}.intersects_shape', 'intersectsMulti', [('self', 'PolyS'), ('shape', 'MultiA')], 'Bool'),
        Inst(f'{P}.intersects_shape', 'intersectsPoint', [('self', 'PolyS'), ('shape', 'PtA')], 'Bool'),
        Inst(f'{P}.intersects_shape', 'intersectsPoly', [('self', 'PolyS'), ('shape', 'PolyA')], E),
        Inst(f'{P}.intersects_shape', 'intersectsLine', [('self', 'PolyS'), ('shape', 'LineA')], E),
        # GeoLineString as the receiver
        Inst('GeoLineString.contains_coordinate', 'lineContainsCoordinate', [('self', 'LineS'), ('coord', 'Pt')], 'Bool'),
        Inst('GeoLineString.contains_shape', 'lineContainsMulti', [('self', 'LineS'), ('shape', 'MultiA')], 'Bool'),
        Inst('GeoLineString.contains_shape', 'lineContainsPoly', [('self', 'LineS'), ('shape', 'PolyA')], 'Bool'),
        Inst('GeoLineString.contains_shape', 'lineContainsPoint', [('self', 'LineS'), ('shape', 'PtA')], 'Bool'),
        Inst('GeoLineString.contains_shape', 'lineContainsLine', [('self', 'LineS'), ('shape', 'LineA')], 'Bool'),
        Inst('GeoLineString.intersects_shape', 'lineIntersectsMulti', [('self', 'LineS'), ('shape', 'MultiA')], 'Bool'),
        Inst('GeoLineString.intersects_shape', 'lineIntersectsPoint', [('self', 'LineS'), ('shape', 'PtA')], 'Bool'),
        Inst('GeoLineString.intersects_shape', 'lineIntersectsPoly', [('self', 'LineS'), ('shape', 'PolyA')], E),
        Inst('GeoLineString.intersects_shape', 'lineIntersectsLine', [('self', 'LineS'), ('shape', 'LineA')], E),
        # GeoPoint as the receiver
        Inst('GeoPoint.contains_coordinate', 'pointContainsCoordinate', [('self', 'PtS'), ('coord', 'Pt')], 'Bool'),
        Inst('GeoPoint.contains_shape', 'pointContainsMulti', [('self', 'PtS'), ('shape', 'MultiA')], 'Bool'),
        Inst('GeoPoint.contains_shape', 'pointContainsPoint', [('self', 'PtS'), ('shape', 'PtA')], 'Bool'),
        Inst('GeoPoint.contains_shape', 'pointContainsPoly', [('self', 'PtS'), ('shape', 'PolyA')], 'Bool'),
        Inst('GeoPoint.contains_shape', 'pointContainsLine', [('self', 'PtS'), ('shape', 'LineA')], 'Bool'),
        Inst('GeoPoint.intersects_shape', 'pointIntersectsPoint', [('self', 'PtS'), ('shape', 'PtA')], 'Bool'),
        Inst('GeoPoint.intersects_shape', 'pointIntersectsPoly', [('self', 'PtS'), ('shape', 'PolyA')], 'Bool'),
        Inst('GeoPoint.intersects_shape', 'pointIntersectsLine', [('self', 'PtS'), ('shape', 'LineA')], 'Bool'),
    ]
    for t in ('PolyS', 'PolyA', 'LineA', 'PtA', 'Any', 'LineS', 'PtS'):
        py2lean.LEAN_TYPE.setdefault(t, 'GV.Shape')
    py2lean.LEAN_TYPE.setdefault('MultiA', 'List GV.Shape')
    py2lean.LEAN_TYPE.setdefault('Hole', 'List GV.Pt')
    py2lean.LEAN_TYPE.setdefault('Edge', 'GV.Edge')

    def isinstance_hook(typ):
        return {'MultiA': {'MultiShape'}, 'PtA': {'PointLike', 'GeoPoint'}, 'PolyA': {'PolygonLike'}, 'LineA': {'LineLike'},
                'PolyS': {'PolygonLike'}, 'LineS': {'LineLike'}, 'PtS': {'PointLike', 'GeoPoint'}}.get(typ)

    def sweep(tr, args):
        if [a.typ for a in args] != ['List Prod Pt Pt', 'List Prod Pt Pt']:
            raise Unsupported(f'do_edges_intersect({", ".join(a.typ for a in args)})')
        return Val(f'(GV.doEdgesIntersect {args[0].text} {args[1].text})', 'Bool')

    def sub_list(tr, args):
        if [a.typ for a in args] != ['List Pt', 'List Pt']:
            raise Unsupported(f'is_sub_list({", ".join(a.typ for a in args)})')
        return Val(f'(GV.isSubList {args[0].text} {args[1].text})', 'Bool')

    ER = 'List List Prod Pt Pt'
    abstract = {
        ('LineS', '__contains__', ('Pt',)): ('cc {0} {1}', 'Bool'),
        ('LineS', 'contains_shape', ('Any',)): ('rs {0} {1}', 'Bool'), ('LineS', 'intersects_shape', ('Any',)): ('ri {0} {1}', 'Bool'),
        ('PtS', 'contains_shape', ('Any',)): ('rs {0} {1}', 'Bool'),
        ('PolyA', 'intersects_shape', ('PtS',)): ('ri {0} {1}', 'Bool'), ('LineA', 'intersects_shape', ('PtS',)): ('ri {0} {1}', 'Bool'),
        ('PolyS', 'edges', ()): ('edgesOf {0}', ER), ('PolyA', 'edges', ()): ('edgesOf {0}', ER),
        ('PolyS', 'contains_coordinate', ('Pt',)): ('cc {0} {1}', 'Bool'),
        ('PolyS', '__contains__', ('Pt',)): ('cc {0} {1}', 'Bool'), ('PolyA', '__contains__', ('Pt',)): ('cc {0} {1}', 'Bool'),
        ('LineA', '__contains__', ('Pt',)): ('cc {0} {1}', 'Bool'),
        ('PolyS', 'contains_shape', ('Any',)): ('rs {0} {1}', 'Bool'), ('PolyS', 'intersects_shape', ('Any',)): ('ri {0} {1}', 'Bool'),
        ('Hole', 'bounding_coords', ()): ('{0}', 'List Pt'),
    }
    attr = {('MultiA', 'geoshapes'): ('{}', 'List Any'), ('PtA', 'centroid'): ('(cen {})', 'Pt'),
            ('PtS', 'centroid'): ('(cen {})', 'Pt'), ('PtS', 'coordinate'): ('(cen {})', 'Pt'), ('PtA', 'coordinate'): ('(cen {})', 'Pt'),
            ('LineA', 'segments'): ('(segsOf {})', 'List Prod Pt Pt'), ('LineS', 'segments'): ('(segsOf {})', 'List Prod Pt Pt'),
            ('LineA', 'vertices'): ('(vertsOf {})', 'List Pt'), ('LineS', 'vertices'): ('(vertsOf {})', 'List Pt'),
            ('Pt', 'longitude'): ('{}.1', 'R'), ('Pt', 'latitude'): ('{}.2', 'R'),
            ('PolyS', 'holes'): ('(holesOf {})', 'List Hole')}
    return Unit('SrcRelate', src, 'GV.Src.Relate', ['GeoVerif.Model.Relate', 'GeoVerif.Model.PyPrelude'], insts,
                {'PolyS': P, 'LineS': 'GeoLineString', 'PtS': 'GeoPoint'}, attr_types=attr, abstract=abstract,
                pins={k: PINS[k] for k in ('utils/functions.py::is_sub_list',)},
                intrinsics={'do_edges_intersect': sweep, 'is_sub_list': sub_list},
                hooks={'isinstance': isinstance_hook, 'keywords': lambda tr, e: True},
                ctx_params=[('edgesOf', 'GV.Shape → List (List GV.Edge)'), ('segsOf', 'GV.Shape → List GV.Edge'),
                            ('cc', 'GV.Shape → GV.Pt → Bool'), ('tc', 'GV.Shape → GV.Pt → Bool'),
                            ('holesOf', 'GV.Shape → List (List GV.Pt)'), ('cen', 'GV.Shape → GV.Pt'),
                            ('vertsOf', 'GV.Shape → List GV.Pt'),
                            ('rs', 'GV.Shape → GV.Shape → Bool'), ('ri', 'GV.Shape → GV.Shape → Bool')])


# ----------------------------------------------------------------------------------------------------------
# geostructures/coordinates.py :: Coordinate.__init__ — normalisation   (C08)
#
# floats are exact rationals (§3); the two `while` loops are fuelled recursions whose fuel is the model's computed bound
# (`fuelLat`, `fuelLon`; Props/C08 proves the bounds are never exhausted); the result is the stored (longitude, latitude),
# and `z`, `m` must be stored exactly as given.

def coord_unit():
    src = py2lean.Source(_repo('coordinates.py'))
    insts = [
        Inst('Coordinate.__init__', 'init', [('self', 'None'), ('longitude', 'R'), ('latitude', 'R'), ('z', 'ZM'), ('m', 'ZM'),
                                             ('_bounded', 'Bool')], 'Prod R R'),
    ]
    py2lean.LEAN_TYPE.setdefault('ZM', 'Option Rat')

    def init_hook(tr, fields):
        if set(fields) != {'longitude', 'latitude', 'z', 'm'}:
            raise Unsupported(f'Coordinate.__init__ stores fields {sorted(fields)}')
        if fields['z'].path != 'z' or fields['m'].path != 'm':
            raise Unsupported('Coordinate.__init__ does not store z / m exactly as given')
        if fields['longitude'].typ != 'R' or fields['latitude'].typ != 'R':
            raise Unsupported('Coordinate.__init__ stores non-float longitude / latitude')
        return f'({fields["longitude"].text}, {fields["latitude"].text})'

    def fuel(qual, index):
        return {1: 'GV.fuelLat {lat}', 2: 'GV.fuelLon {lon}'}.get(index)

    return Unit('SrcCoord', src, 'GV.Src.Coord', ['GeoVerif.Model.Coord'], insts, {},
                hooks={'isinstance': lambda typ: None, 'init': init_hook, 'fuel': fuel})


# ----------------------------------------------------------------------------------------------------------
# geostructures/structures.py :: contains_coordinate of GeoCircle, GeoEllipse, GeoRing — the analytic membership   (C03)
#
# generic over the numeric class `Num α` of Model/Sphere.lean (real numbers in the proofs, binary64 in the driver);
# `haversine_distance_meters`, `bearing_degrees`, `_radius_at_angle`, `math.radians` are the model's functions (the
# calculator is C07's subject); the receiver is given by its fields; a hole is its membership test.

def curved_unit():
    src = py2lean.Source(_repo('structures.py'))
    insts = [
        Inst('GeoCircle.contains_coordinate', 'containsCircle', [('self', 'Circle'), ('coord', 'C')], 'Bool'),
        Inst('GeoEllipse.contains_coordinate', 'containsEllipse', [('self', 'Ellipse'), ('coord', 'C')], 'Bool'),
        Inst('GeoRing.contains_coordinate', 'containsRing', [('self', 'Ring'), ('coord', 'C')], 'Bool'),
    ]
    for t in ('Circle', 'Ellipse', 'Ring'):
        py2lean.LEAN_TYPE.setdefault(t, 'Unit')
    py2lean.LEAN_TYPE.setdefault('N', 'α')
    py2lean.LEAN_TYPE.setdefault('C', 'GV.Sphere.Coord α')
    py2lean.LEAN_TYPE.setdefault('HoleF', 'GV.Sphere.Coord α → Bool')

    def hav(tr, args):
        if [a.typ for a in args] != ['C', 'C']:
            raise Unsupported('haversine_distance_meters(' + ', '.join(a.typ for a in args) + ')')
        return Val(f'(GV.Sphere.haversine R {args[0].text} {args[1].text})', 'N')

    def brg(tr, args):
        if [a.typ for a in args] != ['C', 'C']:
            raise Unsupported('bearing_degrees(' + ', '.join(a.typ for a in args) + ')')
        return Val(f'(GV.Sphere.bearing rnd5 {args[0].text} {args[1].text})', 'N')

    def radians(tr, args):
        if [a.typ for a in args] != ['N']:
            raise Unsupported('math.radians of ' + ', '.join(a.typ for a in args))
        return Val(f'(GV.Sphere.radians {args[0].text})', 'N')

    attr = {}
    for cls in ('Circle', 'Ellipse', 'Ring'):
        attr[(cls, 'center')] = ('center', 'C')
        attr[(cls, 'holes')] = ('holes', 'List HoleF')
    attr.update({('Circle', 'radius'): ('radius', 'N'), ('Ellipse', 'rotation'): ('rotDeg', 'N'),
                 ('Ring', 'inner_radius'): ('inner', 'N'), ('Ring', 'outer_radius'): ('outer', 'N'),
                 ('Ring', 'angle_min'): ('amin', 'N'), ('Ring', 'angle_max'): ('amax', 'N')})
    abstract = {('HoleF', '__contains__', ('C',)): ('{0} {1}', 'Bool'),
                ('Ellipse', '_radius_at_angle', ('N',)): ('GV.Sphere.radiusAtAngle a b {1}', 'N')}
    return Unit('SrcCurved', src, 'GV.Src.Curved', ['GeoVerif.Model.Sphere'], insts, {},
                header='open GV Num\nvariable {α : Type} [Num α]', attr_types=attr, abstract=abstract,
                intrinsics={'haversine_distance_meters': hav, 'bearing_degrees': brg, 'math.radians': radians},
                hooks={'isinstance': lambda typ: None},
                ctx_params=[('rnd5', 'α → α'), ('R', 'α'), ('center', 'GV.Sphere.Coord α'), ('radius', 'α'), ('a', 'α'), ('b', 'α'),
                            ('rotDeg', 'α'), ('inner', 'α'), ('outer', 'α'), ('amin', 'α'), ('amax', 'α'),
                            ('holes', 'List (GV.Sphere.Coord α → Bool)')])


# ----------------------------------------------------------------------------------------------------------
# geostructures/calc.py :: haversine_distance_meters, bearing_degrees, inverse_haversine_radians / _degrees   (C07)
#
# the formulas themselves, generic over `Num α`: every arithmetic operation in source order (so that the binary64 instance
# reproduces the floating-point results); `math.*` are the class's functions, `x ** 2` its `pow2`, `%` Python's float
# modulo, `min`/`max` return the first extremal argument; `EARTH_RADIUS` is the parameter `R` (regenerated from `_const.py`
# where the model is used); `ensure_edge_bounds` is the model's `ensureEdge` (pinned); `round_half_up(x, p)` is the
# parameter `rnd` (the rounding at the requested precision; the theorems are about the un-rounded values); the
# destination is the (lon, lat) pair handed to the `Coordinate` constructor (C08's subject), `z` passes through.

def calc_unit():
    src = py2lean.Source(_repo('calc.py'))
    insts = [
        Inst('haversine_distance_meters', 'haversine', [('coord1', 'C'), ('coord2', 'C')], 'N'),
        Inst('bearing_degrees', 'bearing', [('coord1', 'C'), ('coord2', 'C')], 'N'),
        Inst('inverse_haversine_radians', 'destination', [('start', 'C'), ('angle_radians', 'N'), ('distance_meters', 'N')], 'C'),
        Inst('inverse_haversine_degrees', 'destinationDeg', [('start', 'C'), ('angle_degrees', 'N'), ('distance_meters', 'N')], 'C'),
    ]
    py2lean.LEAN_TYPE.setdefault('N', 'α')
    py2lean.LEAN_TYPE.setdefault('C', 'GV.Sphere.Coord α')

    def fn1(name):
        def f(tr, args):
            if [a.typ for a in args] not in (['N'], ['Int']):
                raise Unsupported(f'math function applied to {", ".join(a.typ for a in args)}')
            x = args[0].text if args[0].typ == 'N' else f'(Num.ofI {args[0].text})'
            return Val(f'({name} {x})', 'N')
        return f

    def atan2(tr, args):
        if [a.typ for a in args] != ['N', 'N']:
            raise Unsupported('math.atan2 of ' + ', '.join(a.typ for a in args))
        return Val(f'(Num.atan2 {args[0].text} {args[1].text})', 'N')

    def edge(tr, args):
        if [a.typ for a in args] != ['C', 'C']:
            raise Unsupported('ensure_edge_bounds(' + ', '.join(a.typ for a in args) + ')')
        return Val(f'(GV.Sphere.ensureEdge {args[0].text} {args[1].text})', 'Prod C C')

    def rnd(tr, args):
        if not args or args[0].typ != 'N':
            raise Unsupported('round_half_up of ' + ', '.join(a.typ for a in args))
        return Val(f'(rnd {args[0].text})', 'N')      # the precision argument selects which rounding `rnd` stands for

    def coordinate(tr, args):
        if [a.typ for a in args] != ['N', 'N']:
            raise Unsupported('Coordinate(' + ', '.join(a.typ for a in args) + ')')
        return Val(f'({args[0].text}, {args[1].text})', 'C')

    def kw(tr, e):
        f = e.func
        name = f.id if isinstance(f, py2lean.ast.Name) else None
        return name == 'Coordinate' and [k.arg for k in e.keywords] == ['z'] and py2lean.ast.unparse(e.keywords[0].value) == 'start.z'

    def method(tr, recv, attr, args):
        # `kwargs.get('precision', 5)`: the requested precision (a parameter of the rounding, not of the formula)
        return Val('()', 'None') if (recv.typ == 'Kw' and attr == 'get') else None

    intr = {'math.sin': fn1('Num.sin'), 'math.cos': fn1('Num.cos'), 'math.asin': fn1('Num.asin'), 'math.sqrt': fn1('Num.sqrt'),
            'math.radians': fn1('GV.Sphere.radians'), 'math.degrees': fn1('GV.Sphere.degrees'), 'math.atan2': atan2,
            'ensure_edge_bounds': edge, 'round_half_up': rnd, 'Coordinate': coordinate}
    unit = Unit('SrcCalc', src, 'GV.Src.Calc', ['GeoVerif.Model.Sphere'], insts, {},
                header='open GV Num\nvariable {α : Type} [Num α]',
                attr_types={('C', 'longitude'): ('{}.1', 'N'), ('C', 'latitude'): ('{}.2', 'N')},
                pins={'_geometry.py::ensure_edge_bounds': PINS['_geometry.py::ensure_edge_bounds']},
                intrinsics=intr,
                hooks={'isinstance': lambda typ: None, 'float_as_int': True, 'keywords': kw, 'method': method,
                       'constants': {'EARTH_RADIUS': ('R', 'N'), 'math.pi': ('Num.pi', 'N')}},
                ctx_params=[('rnd', 'α → α'), ('R', 'α')])
    return unit


# ----------------------------------------------------------------------------------------------------------
# geostructures/structures.py :: the vertex generators and analytic bounds of GeoCircle, GeoEllipse, GeoRing   (C03, C09)
#
# generic over `Num α` like SrcCurved / SrcCalc.  Translated from the text: the sample count (`kwargs.get('k') or default`,
# the defaults `36`, `math.ceil(36 * a / b)`, `max(math.ceil((amax - amin) / 10), 10)`), the schedule `range(k, -1, -1)`,
# the angle formulas operation by operation, the loops with their `append`s (structural recursions over the schedule),
# `_radius_at_angle`, the wedge / full-ring assembly (`[*outer, *inner[::-1], outer[0]]`: `outer[0]` may raise IndexError,
# the equality theorem shows it does not), the corner / axis destinations of `bounds`.  Declared, not translated:
# `inverse_haversine_radians` / `_degrees` are the parameters `dest` / `destDeg` (SrcCalc's subject: Props/C03SrcGen
# instantiates them with the model's `destination rnd R` — equal to the translated calculator by C07Src — and with the
# un-rounded `destRaw R` the C03 theorems are about); the `**kwargs` binder is the number `k` (0 = absent, both falsy).

def curvedgen_unit():
    src = py2lean.Source(_repo('structures.py'))
    kw = ('kwargs', 'KwK')
    insts = [
        Inst('GeoCircle.centroid', 'circleCentroid', [('self', 'Circle')], 'C'),
        Inst('GeoEllipse.centroid', 'ellipseCentroid', [('self', 'Ellipse')], 'C'),
        Inst('GeoEllipse._radius_at_angle', 'radiusAtAngle', [('self', 'Ellipse'), ('angle', 'N')], 'N'),
        Inst('GeoCircle.bounding_coords', 'circleRing', [('self', 'Circle')], 'List C', kw=kw),
        Inst('GeoEllipse.bounding_coords', 'ellipseRing', [('self', 'Ellipse')], 'List C', kw=kw),
        Inst('GeoRing._draw_bounds', 'ringArcs', [('self', 'Ring')], 'Pair List C', kw=kw),
        Inst('GeoRing.bounding_coords', 'wedgeRing', [('self', 'Ring')], 'Except List C', kw=kw),
        Inst('GeoCircle.bounds', 'circleBounds', [('self', 'Circle')], 'Tuple4 N'),
        Inst('GeoEllipse.bounds', 'ellipseBounds', [('self', 'Ellipse')], 'Tuple4 N'),
        Inst('GeoEllipse.circumscribing_circle', 'ellipseCircle', [('self', 'Ellipse')], 'Prod C N'),
        Inst('GeoRing.bounds', 'ringBounds', [('self', 'Ring')], 'Except Tuple4 N'),
    ]
    for t in ('Circle', 'Ellipse', 'Ring'):
        py2lean.LEAN_TYPE.setdefault(t, 'Unit')
    py2lean.LEAN_TYPE.setdefault('N', 'α')
    py2lean.LEAN_TYPE.setdefault('C', 'GV.Sphere.Coord α')
    py2lean.LEAN_TYPE.setdefault('KwK', 'Nat')

    def num(a):
        if a.typ == 'N':
            return a.text
        if a.typ == 'Int':
            return f'(Num.ofI {a.text})'
        if a.typ == 'Nat':
            return f'(Num.ofN {a.text})'
        raise Unsupported(f'a number of type {a.typ}')

    def fn1(name):
        def f(tr, args):
            if len(args) != 1:
                raise Unsupported(f'math function applied to {len(args)} arguments')
            return Val(f'({name} {num(args[0])})', 'N')
        return f

    def ceil(tr, args):
        if [a.typ for a in args] != ['N']:
            raise Unsupported('math.ceil of ' + ', '.join(a.typ for a in args))
        return Val(f'(Num.ceilI {args[0].text})', 'Int')

    def dest(name):
        def f(tr, args):
            if len(args) != 3 or args[0].typ != 'C':
                raise Unsupported(f'{name}(' + ', '.join(a.typ for a in args) + ')')
            return Val(f'({name} {args[0].text} {num(args[1])} {num(args[2])})', 'C')
        return f

    def geocircle(tr, args):
        # `GeoCircle(center, radius, dt=self.dt)`: the circle is its (centre, radius) pair
        if [x.typ for x in args] != ['C', 'N']:
            raise Unsupported('GeoCircle(' + ', '.join(x.typ for x in args) + ')')
        return Val(f'({args[0].text}, {args[1].text})', 'Prod C N')

    def keywords(tr, e):
        f = e.func
        return isinstance(f, py2lean.ast.Name) and f.id == 'GeoCircle' and [k.arg for k in e.keywords] == ['dt'] \
            and py2lean.ast.unparse(e.keywords[0].value) == 'self.dt'

    def method(tr, recv, attr, args):
        # `kwargs.get('k')`: the requested sample count (0 when absent)
        if recv.typ == 'KwK' and attr == 'get' and len(args) == 1 and isinstance(args[0], py2lean.ast.Constant) and args[0].value == 'k':
            return Val(recv.text, 'Nat')
        # `y.to_float()`: a tuple that starts with (longitude, latitude) (pinned)
        if recv.typ == 'C' and attr == 'to_float' and not args:
            return Val(recv.text, 'CoordTupleN')
        return None

    def subscript(tr, v, sl):
        A = py2lean.ast
        if v.typ != 'CoordTupleN':
            return None
        if isinstance(sl, A.Slice) and sl.lower is None and sl.step is None and isinstance(sl.upper, A.Constant) and sl.upper.value == 2 \
                and not isinstance(sl.upper.value, bool):
            return Val(v.text, 'Pair N')
        raise Unsupported(f'subscript `[{A.unparse(sl)}]` of `to_float()`')

    attr = {('C', 'longitude'): ('{}.1', 'N'), ('C', 'latitude'): ('{}.2', 'N')}
    for cls in ('Circle', 'Ellipse', 'Ring'):
        attr[(cls, 'center')] = ('center', 'C')
    attr.update({('Circle', 'radius'): ('radius', 'N'), ('Ellipse', 'rotation'): ('rotDeg', 'N'),
                 ('Ellipse', 'semi_major'): ('a', 'N'), ('Ellipse', 'semi_minor'): ('b', 'N'),
                 ('Ring', 'inner_radius'): ('inner', 'N'), ('Ring', 'outer_radius'): ('outer', 'N'),
                 ('Ring', 'angle_min'): ('amin', 'N'), ('Ring', 'angle_max'): ('amax', 'N')})
    py2lean.LEAN_TYPE.setdefault('CoordTupleN', 'GV.Sphere.Coord α')
    return Unit('SrcCurvedGen', src, 'GV.Src.CurvedGen', ['GeoVerif.Model.Sphere', 'GeoVerif.Model.PyPrelude', 'GeoVerif.Model.PyBounds'], insts,
                {'Circle': 'GeoCircle', 'Ellipse': 'GeoEllipse', 'Ring': 'GeoRing'},
                header='open GV Num\nvariable {α : Type} [Num α]', attr_types=attr,
                intrinsics={'math.sin': fn1('Num.sin'), 'math.cos': fn1('Num.cos'), 'math.sqrt': fn1('Num.sqrt'),
                            'math.radians': fn1('GV.Sphere.radians'), 'math.ceil': ceil,
                            'inverse_haversine_radians': dest('dest'), 'inverse_haversine_degrees': dest('destDeg'),
                            'GeoCircle': geocircle},
                pins={'coordinates.py::Coordinate.to_float': PINS['coordinates.py::Coordinate.to_float']},
                hooks={'isinstance': lambda typ: None, 'curved_gen': True, 'float_as_int': True, 'method': method, 'subscript': subscript, 'keywords': keywords,
                       'prune_loop_params': True, 'local_type': lambda qual, name: 'List C',
                       'decorators': {'GeoCircle.centroid': ['property'], 'GeoEllipse.centroid': ['property']},
                       'constants': {'math.pi': ('Num.pi', 'N')}},
                ctx_params=[('dest', 'GV.Sphere.Coord α → α → α → GV.Sphere.Coord α'),
                            ('destDeg', 'GV.Sphere.Coord α → α → α → GV.Sphere.Coord α'),
                            ('center', 'GV.Sphere.Coord α'), ('radius', 'α'), ('a', 'α'), ('b', 'α'),
                            ('rotDeg', 'α'), ('inner', 'α'), ('outer', 'α'), ('amin', 'α'), ('amax', 'α')])


# ----------------------------------------------------------------------------------------------------------
# geostructures/coordinates.py :: Coordinate.xyz, Coordinate._from_xyz; _geometry.py :: dist_xyz_meters   (C07)
#
# generic over `Num α`; a Python list of floats is a Lean list (`xyz` returns a 3-element list display, `_from_xyz` reads
# `xyz[0..2]` behind `assert len(xyz) == 3`: AssertionError / IndexError are `Except` errors, the equality shows a
# 3-element list raises neither); `sum([...])` is Python 3.12's compensated float sum for a list of any length
# (`Model/SphereSum.lean`, pinned reading of the runtime), the comprehension over `zip` a map over the list of pairs;
# `Coordinate(lon, lat)` is the pair handed to the constructor (C08's subject: `normCoord 4` on top, as in SrcCalc);
# `EARTH_RADIUS` is the parameter `R`; `max(-1.0, min(1.0, dot))` returns the first extremal argument.

def xyz_unit():
    src = py2lean.Sources([_repo('coordinates.py'), _repo('_geometry.py')])
    insts = [
        Inst('Coordinate.xyz', 'xyz', [('self', 'C')], 'List N'),
        Inst('Coordinate._from_xyz', 'fromXyz', [('cls', 'None'), ('xyz', 'List N')], 'Except C'),
        Inst('dist_xyz_meters', 'distXyz', [('coord1', 'C'), ('coord2', 'C')], 'N'),
    ]
    py2lean.LEAN_TYPE.setdefault('N', 'α')
    py2lean.LEAN_TYPE.setdefault('C', 'GV.Sphere.Coord α')

    def num(a):
        if a.typ == 'N':
            return a.text
        if a.typ == 'Int':
            return f'(Num.ofI {a.text})'
        raise Unsupported(f'a number of type {a.typ}')

    def fn(name, n=1):
        def f(tr, args):
            if len(args) != n:
                raise Unsupported(f'{name} applied to {len(args)} arguments')
            return Val('(' + ' '.join([name] + [num(x) for x in args]) + ')', 'N')
        return f

    def pysum(tr, args):
        if [x.typ for x in args] != ['List N']:
            raise Unsupported('sum(' + ', '.join(x.typ for x in args) + ')')
        return Val(f'(GV.Sphere.pySumList {args[0].text})', 'N')

    def coordinate(tr, args):
        if [x.typ for x in args] != ['N', 'N']:
            raise Unsupported('Coordinate(' + ', '.join(x.typ for x in args) + ')')
        return Val(f'({args[0].text}, {args[1].text})', 'C')

    return Unit('SrcXyz', src, 'GV.Src.Xyz', ['GeoVerif.Model.Sphere', 'GeoVerif.Model.SphereSum', 'GeoVerif.Model.PyPrelude'], insts,
                {'C': 'Coordinate'}, header='open GV Num\nvariable {α : Type} [Num α]',
                attr_types={('C', 'longitude'): ('{}.1', 'N'), ('C', 'latitude'): ('{}.2', 'N')},
                intrinsics={'math.sin': fn('Num.sin'), 'math.cos': fn('Num.cos'), 'math.asin': fn('Num.asin'),
                            'math.acos': fn('Num.acos'), 'math.atan2': fn('Num.atan2', 2),
                            'math.radians': fn('GV.Sphere.radians'), 'math.degrees': fn('GV.Sphere.degrees'),
                            'sum': pysum, 'Coordinate': coordinate},
                hooks={'isinstance': lambda typ: None, 'curved_gen': True, 'float_as_int': True,
                       'decorators': {'Coordinate.xyz': ['cached_property'], 'Coordinate._from_xyz': ['classmethod']},
                       'constants': {'EARTH_RADIUS': ('R', 'N')}},
                ctx_params=[('R', 'α')])


# ----------------------------------------------------------------------------------------------------------
# geostructures/coordinates.py :: Coordinate.to_dms / from_dms / to_qdms / from_qdms and their local helpers   (C19)
#
# a `str` is the list of its characters (`Chars`), a float an exact rational (§3), the receiver the model's `Coord`
# record; the local functions (`convert` ×3, `zero_pad` at an int and at a str) are instances of their own
# (`outer.inner`).  Translated from the text: hemisphere selection, `abs`, the `divmod` chain, `int(...)`, the tuple
# plumbing (`*convert(...)`, `*lon_dms`), `zero_pad` (`str`, `.replace`, `'0' * (length - len(_)) + _`), the list of
# fields and the f-string assembly, the slices `lon[1:4]` … on the way back, `lon[0]` (IndexError), the evaluation
# order of the `float(...)` calls (ValueError), the sign factor.  Declared, not translated: `round_half_up` (pinned;
# the model's exact half-up rounding, DESIGN §6 C19), `float(text)` and `f'{x:.2f}'` (Python runtime, read as
# `Model/Dms.lean` reads them: `GV.PyStr.parseFloat`, `GV.PyStr.fmtF2`), `Coordinate(x, y)` (the model's `Coord.new`;
# the constructor is SrcCoord's subject).

PINS.setdefault('utils/functions.py::round_half_up', '77e90ff33328c6e2')          # SrcDms: the model's `roundHalfUp`


def dms_unit():
    import ast as _ast
    import re as _re
    src = py2lean.Source(_repo('coordinates.py'))
    C = 'Coordinate'
    DI, DF = 'Prod Int Int R Chars', 'Prod R R R Chars'
    insts = [
        Inst(f'{C}.to_dms.convert', 'toDms.convert', [('dd', 'R')], 'Prod Int Int R'),
        Inst(f'{C}.to_dms', 'toDms', [('self', 'CoordO')], f'Pair {DI}'),
        Inst(f'{C}.from_dms.convert', 'fromDms.convert', [('dms', DF)], 'R'),
        Inst(f'{C}.from_dms', 'fromDms', [('cls', 'None'), ('lon', DF), ('lat', DF)], 'CoordO'),
        Inst(f'{C}.to_qdms.zero_pad', 'toQdms.zeroPadInt', [('num', 'Int'), ('length', 'Int')], 'Chars'),
        Inst(f'{C}.to_qdms.zero_pad', 'toQdms.zeroPadStr', [('num', 'Chars'), ('length', 'Int')], 'Chars'),
        Inst(f'{C}.to_qdms', 'toQdms', [('self', 'CoordO'), ('reverse', 'Bool')], 'Pair Chars'),
        Inst(f'{C}.from_qdms.convert', 'fromQdms.convert', [('q', 'Chars'), ('d', 'Chars'), ('m', 'Chars'), ('s', 'Chars')], 'Except R'),
        Inst(f'{C}.from_qdms', 'fromQdms', [('cls', 'None'), ('lon', 'Chars'), ('lat', 'Chars')], 'Except CoordO'),
    ]
    py2lean.LEAN_TYPE.setdefault('Chars', 'List Char')
    py2lean.LEAN_TYPE.setdefault('CoordO', 'GV.CoordObj.Coord')

    def nat_literal(v):
        m = _re.fullmatch(r'\((\d+) : Int\)', v.text)
        return int(m.group(1)) if m and v.typ == 'Int' else None

    def types(args):
        return [a.typ for a in args]

    def rhu(tr, args):
        # round_half_up(value, precision) with a literal precision: the model's exact half-up rounding (pinned helper)
        if len(args) != 2 or args[0].typ != 'R' or nat_literal(args[1]) is None:
            raise Unsupported('round_half_up(' + ', '.join(a.text for a in args)[:60] + ')')
        return Val(f'(GV.Dms.roundHalfUp {args[0].text} {nat_literal(args[1])})', 'R')

    def divmod_(tr, args):
        # divmod(float, positive literal): cannot raise
        if len(args) != 2 or args[0].typ != 'R' or not nat_literal(args[1]):
            raise Unsupported('divmod(' + ', '.join(a.text for a in args)[:60] + ')')
        return Val(f'(GV.PyStr.divmodR {args[0].text} ({args[1].text} : Rat))', 'Prod R R')

    def abs_(tr, args):
        if types(args) == ['R']:
            return Val(f'(GV.absR {args[0].text})', 'R')
        if types(args) == ['Int']:
            return Val(f'(GV.PyStr.absI {args[0].text})', 'Int')
        raise Unsupported(f'abs of {types(args)}')

    def int_(tr, args):
        if types(args) == ['R']:
            return Val(f'(GV.PyStr.truncR {args[0].text})', 'Int')
        if types(args) == ['Int']:
            return args[0]
        raise Unsupported(f'int() of {types(args)}')          # int(text) is not part of the unit

    def str_(tr, args):
        if types(args) == ['Int']:
            return Val(f'(GV.PyStr.strInt {args[0].text})', 'Chars')
        if types(args) == ['Chars']:
            return args[0]
        raise Unsupported(f'str() of {types(args)}')          # str(float) is runtime: not part of the unit

    def len_(tr, args):
        if types(args) == ['Chars']:
            return Val(f'((({args[0].text}).length : Nat) : Int)', 'Int')
        raise Unsupported(f'len() of {types(args)}')

    def float_(tr, args):
        if types(args) == ['R']:
            return args[0]
        if types(args) == ['Int']:
            return Val(f'({args[0].text} : Rat)', 'R')
        if types(args) == ['Chars']:
            v = Val(f'(GV.PyStr.parseFloat {args[0].text})', 'R')
            v.raises = True                                      # ValueError
            return v
        raise Unsupported(f'float() of {types(args)}')

    def coordinate(tr, args):
        if types(args) != ['R', 'R']:
            raise Unsupported('Coordinate(' + ', '.join(types(args)) + ')')
        return Val(f'(GV.CoordObj.Coord.new {args[0].text} {args[1].text})', 'CoordO')

    def fmt2f(tr, args):
        if types(args) != ['R']:
            raise Unsupported(f'format spec .2f of {types(args)}')
        return Val(f'(GV.PyStr.fmtF2 {args[0].text})', 'Chars')

    def method(tr, recv, attr, args):
        if recv.typ != 'Chars':
            return None
        if attr == 'replace' and len(args) == 2 and isinstance(args[0], _ast.Constant) and isinstance(args[0].value, str) \
                and len(args[0].value) == 1:
            new = tr.expr(args[1])
            if new.typ != 'Chars':
                raise Unsupported(f'str.replace with a replacement of type {new.typ}')
            c = py2lean.chars_literal(args[0].value)[2:].split(']')[0]
            return Val(f'(GV.PyStr.replace1 {recv.text} {c} {new.text})', 'Chars')
        if attr == 'join' and len(args) == 1:
            xs = tr.expr(args[0])
            if xs.typ != 'List Chars':
                raise Unsupported(f'str.join of {xs.typ}')
            return Val(f'(GV.PyStr.join {recv.text} {xs.text})', 'Chars')
        raise Unsupported(f'str method `.{attr}`')

    intr = {'round_half_up': rhu, 'divmod': divmod_, 'abs': abs_, 'int': int_, 'str': str_, 'len': len_, 'float': float_,
            'Coordinate': coordinate, 'format:.2f': fmt2f}
    return Unit('SrcDms', src, 'GV.Src.Dms', ['GeoVerif.Model.Dms', 'GeoVerif.Model.PyStr'], insts, {'CoordO': C},
                attr_types={('CoordO', 'longitude'): ('{}.lon', 'R'), ('CoordO', 'latitude'): ('{}.lat', 'R')},
                pins={'utils/functions.py::round_half_up': PINS['utils/functions.py::round_half_up']},
                intrinsics=intr,
                hooks={'isinstance': lambda typ: None, 'str_const': True, 'tuples': True, 'method': method,
                       'intrinsics_first': ('float', 'int', 'str', 'len', 'abs', 'divmod')})


# ----------------------------------------------------------------------------------------------------------
# geostructures/geohash.py :: NiemeyerHasher — the work-list flood fill and what is built on it   (C12)
#
# generic over a cell type `C` (decidable equality), a coordinate type `K`, single shapes `S`, shapes of any kind `G` and an
# aggregate type `A`.  The geometry is abstract, exactly as in Model/Flood.lean: `nbrs` is `self._get_surrounding(·, self.base)`,
# `touches s c` is `niemeyer_to_geobox(c, self.base).intersects_shape(s)`, `cellOf` is `_coord_to_niemeyer(·, self.length,
# self.base)`; `cen`, `verts`, `bcoords` read `.centroid`, `.vertices`, `.bounding_coords()`; a multi-shape is the list of its
# members.  `queue.pop()` returns `pick queue` (Python pops an arbitrary member: the schedule is a parameter, `none` is the
# KeyError of an empty set); local sets are duplicate-free lists (`set.add` is the model's `addSet`), `defaultdict(list)` an
# association list in insertion order; the `while queue:` loop is a fuelled recursion that reports running out of fuel.
# In `hash_collection` the dynamic dispatch `self.hash_shape(shape)` over a mixed collection is the parameter `hashOf`;
# `kwargs.get('agg_fn', len)` is the parameter `aggG` / `aggK` (the aggregator in force).

def flood_unit():
    src = py2lean.Source(_repo('geohash.py'))
    N = 'NiemeyerHasher'
    for tag, lean in (('FlCell', 'C'), ('FlCoord', 'K'), ('FlPoint', 'S'), ('FlSLine', 'S'), ('FlSPoly', 'S'), ('FlMPoint', 'List S'),
                      ('FlMLine', 'List S'), ('FlMPoly', 'List S'), ('FlShape', 'G'), ('FlColl', 'List G'), ('FlHasher', 'Unit'),
                      ('FlAgg', 'A'), ('FlListG', 'List G'), ('FlListK', 'List K'), ('FlLen', 'Unit'), ('FlBase', 'Unit'),
                      ('FlBox', 'C')):
        py2lean.LEAN_TYPE.setdefault(tag, lean)
    H = ('self', 'FlHasher')
    cells, ecells = 'Set FlCell', 'Except Set FlCell'
    insts = [
        Inst(f'{N}._hash_point', 'hashPointS', [H, ('point', 'FlPoint')], cells),
        Inst(f'{N}._hash_point', 'hashPointM', [H, ('point', 'FlMPoint')], cells),
        Inst(f'{N}._hash_linestring', 'hashLineS', [H, ('linestring', 'FlSLine')], ecells),
        Inst(f'{N}._hash_linestring', 'hashLineM', [H, ('linestring', 'FlMLine')], ecells),
        Inst(f'{N}._hash_polygon', 'hashPolyS', [H, ('polygon', 'FlSPoly')], ecells),
        Inst(f'{N}._hash_polygon', 'hashPolyM', [H, ('polygon', 'FlMPoly')], ecells),
        Inst(f'{N}.hash_shape', 'hashShapePoint', [H, ('shape', 'FlPoint')], cells),
        Inst(f'{N}.hash_shape', 'hashShapeMPoint', [H, ('shape', 'FlMPoint')], cells),
        Inst(f'{N}.hash_shape', 'hashShapeLine', [H, ('shape', 'FlSLine')], ecells),
        Inst(f'{N}.hash_shape', 'hashShapeMLine', [H, ('shape', 'FlMLine')], ecells),
        Inst(f'{N}.hash_shape', 'hashShapePoly', [H, ('shape', 'FlSPoly')], ecells),
        Inst(f'{N}.hash_shape', 'hashShapeMPoly', [H, ('shape', 'FlMPoly')], ecells),
        Inst(f'{N}.hash_coordinates', 'hashCoordinates', [H, ('coordinates', 'List FlCoord')], 'Dict FlCell FlAgg'),
        Inst(f'{N}.hash_collection', 'hashCollection', [H, ('collection', 'FlColl')], 'Dict FlCell FlAgg'),
    ]
    kinds = {'FlPoint': ('PointLike', 'PointLikeMixin', 'GeoPoint', 'SingleShape'),
             'FlMPoint': ('PointLike', 'PointLikeMixin', 'MultiGeoPoint', 'MultiShape', 'MultiShapeBase'),
             'FlSLine': ('LineLike', 'LineLikeMixin', 'GeoLineString', 'SingleShape'),
             'FlMLine': ('LineLike', 'LineLikeMixin', 'MultiGeoLineString', 'MultiShape', 'MultiShapeBase'),
             'FlSPoly': ('PolygonLike', 'PolygonLikeMixin', 'SinglePolygon', 'PolygonBase', 'SingleShape'),
             'FlMPoly': ('PolygonLike', 'PolygonLikeMixin', 'MultiGeoPolygon', 'MultiShape', 'MultiShapeBase')}

    def isinstance_hook(typ):
        return kinds.get(typ)

    def cell_of(tr, args):
        # `_coord_to_niemeyer(coordinate, self.length, self.base)`: the cell of a coordinate on this hasher's grid (C11)
        if [a.typ for a in args] != ['FlCoord', 'FlLen', 'FlBase']:
            raise Unsupported(f'_coord_to_niemeyer at {[a.typ for a in args]}: only (coordinate, self.length, self.base) is the grid cell')
        return Val(f'(cellOf {py2lean._paren(args[0].text)})', 'FlCell')

    def surrounding(tr, args):
        # `self._get_surrounding(gh, self.base)`: the neighbours of a cell (C11's `surrounding`)
        if [a.typ for a in args] != ['FlHasher', 'FlCell', 'FlBase']:
            raise Unsupported(f'_get_surrounding at {[a.typ for a in args[1:]]}: only (cell, self.base) is the neighbour list')
        return Val(f'(nbrs {py2lean._paren(args[1].text)})', 'List FlCell')

    def cell_box(tr, args):
        # `niemeyer_to_geobox(cell, self.base)`: the rectangle of a cell; only ever asked whether it intersects a shape
        if [a.typ for a in args] != ['FlCell', 'FlBase']:
            raise Unsupported(f'niemeyer_to_geobox at {[a.typ for a in args]}: only (cell, self.base) is the rectangle of a cell')
        return Val(args[0].text, 'FlBox')

    def method(tr, recv, attr, raw_args):
        import ast as _ast
        if recv.typ == 'Kw':
            # `kwargs.get('agg_fn', len)`: the aggregator in force (the caller's, or `len`)
            ok = (attr == 'get' and len(raw_args) == 2 and isinstance(raw_args[0], _ast.Constant) and raw_args[0].value == 'agg_fn'
                  and isinstance(raw_args[1], _ast.Name) and raw_args[1].id == 'len' and 'len' not in tr.env)
            if not ok:
                raise Unsupported(f'`{tr.inst.qual}`: kwargs.{attr}({", ".join(_ast.unparse(a) for a in raw_args)})')
            coll = tr.inst.qual.endswith('hash_collection')
            return Val('aggG' if coll else 'aggK', 'Fn FlListG FlAgg' if coll else 'Fn FlListK FlAgg')
        return None

    def local_type(qual, name):
        if name in ('valid', 'checked', 'queue') or qual.split('.')[-1] in ('_hash_linestring', '_hash_polygon', '_hash_point'):
            return 'Set FlCell'                      # every local set of the hashers holds cells
        if qual.endswith('hash_coordinates'):
            return 'DDict FlCell FlCoord'
        if qual.endswith('hash_collection'):
            return 'DDict FlCell FlShape'
        return None

    def fuel(qual, index):
        return 'fuel'

    attr = {('FlHasher', 'length'): ('()', 'FlLen'), ('FlHasher', 'base'): ('()', 'FlBase'),
            ('FlPoint', 'centroid'): ('(cen {})', 'FlCoord'), ('FlSLine', 'vertices'): ('(verts {})', 'List FlCoord'),
            ('FlMPoint', 'geoshapes'): ('{}', 'List FlPoint'), ('FlMLine', 'geoshapes'): ('{}', 'List FlSLine'),
            ('FlMPoly', 'geoshapes'): ('{}', 'List FlSPoly'), ('FlColl', 'geoshapes'): ('{}', 'List FlShape')}
    abstract = {('FlSPoly', 'bounding_coords', ()): ('bcoords {0}', 'List FlCoord'),
                ('FlBox', 'intersects_shape', ('FlSPoly',)): ('touches {1} {0}', 'Bool'),
                ('FlBox', 'intersects_shape', ('FlSLine',)): ('touches {1} {0}', 'Bool'),
                ('FlHasher', 'hash_shape', ('FlShape',)): ('hashOf {1}', 'Set FlCell')}
    ctx = [('nbrs', 'C → List C'), ('touches', 'S → C → Bool'), ('pick', 'List C → Option C'), ('fuel', 'Nat'),
           ('cellOf', 'K → C'), ('cen', 'S → K'), ('verts', 'S → List K'), ('bcoords', 'S → List K'),
           ('hashOf', 'G → List C'), ('aggK', 'List K → A'), ('aggG', 'List G → A')]
    return Unit('SrcFlood', src, 'GV.Src.Flood', ['GeoVerif.Model.Flood', 'GeoVerif.Model.PyPrelude', 'GeoVerif.Model.FloodPrelude'],
                insts, {'FlHasher': N}, attr_types=attr, abstract=abstract,
                header='variable {C K S G A : Type} [DecidableEq C]',
                intrinsics={'_coord_to_niemeyer': cell_of, f'{N}._get_surrounding': surrounding, 'niemeyer_to_geobox': cell_box},
                hooks={'worklist': True, 'isinstance': isinstance_hook, 'method': method, 'local_type': local_type, 'fuel': fuel,
                       'fuel_out': 'Except.error "ERR:Fuel"',
                       'set_add': 'GV.Flood.addSet {x} {s}', 'set_pop': 'pick {s}',
                       'set_union': 'GV.Flood.unionAll ({xs}.map {f})',
                       'set_union_e': '(GV.FloodPy.mapE {f} {xs}).map GV.Flood.unionAll',
                       'dict_append': 'GV.Flood.dictAppend {d} {k} {v}'},
                ctx_params=ctx)


# ----------------------------------------------------------------------------------------------------------
# geostructures/_geometry.py :: coordinate_vector_cross_product, convex_hull — Andrew's monotone chain   (C10)
#
# a coordinate is the exact pair `GV.Pt` (floats as exact rationals, §3).  Translated from the text: the cross product,
# the `len(...) <= 1` shortcut, both `for` loops (structural recursions over the sorted / reversed list whose state is the
# stack), the `while len(st) >= 2 and cross(st[-2], st[-1], coord) <= 0: st.pop()` inside them (a fuelled recursion that
# returns the stack; fuel = the stack's length, running out while the test holds is an error), `append`, `xs[:-1] + ys`.
# A Python list is the Lean list in the same order (the model keeps its stacks top-first: the proofs bridge the two).
# `xs[-k]` and `pop()` raise IndexError on a short list, so the instance is in `Except`; the equality with the model
# says no exception is ever raised.
# *Not* translated (declared intrinsic): `sorted(set(xs), key=lambda x: (x.longitude, x.latitude))` is read as the model's
# `GV.Hull.sortedSet` (duplicate removal + stable merge sort on the key; `sorted_set_canonical` in Props/C10 shows the
# result does not depend on the set's iteration order); any other `sorted(...)` call is rejected.

def hull_unit():
    import ast as _ast
    src = py2lean.Source(_repo('_geometry.py'))
    insts = [
        Inst('coordinate_vector_cross_product', 'cross', [('o', 'Pt'), ('a', 'Pt'), ('b', 'Pt')], 'R'),
        Inst('convex_hull', 'convexHull', [('coordinates', 'List Pt')], 'Except List Pt'),
    ]

    def sorted_hook(tr, e):
        def is_key(lam):
            if not (isinstance(lam, _ast.Lambda) and len(lam.args.args) == 1 and not lam.args.defaults and not lam.args.vararg
                    and not lam.args.kwarg and not lam.args.kwonlyargs and isinstance(lam.body, _ast.Tuple) and len(lam.body.elts) == 2):
                return False
            x = lam.args.args[0].arg
            return [(_ast.unparse(c.value), c.attr) if isinstance(c, _ast.Attribute) else None for c in lam.body.elts] == \
                [(x, 'longitude'), (x, 'latitude')]
        ok = (len(e.args) == 1 and len(e.keywords) == 1 and e.keywords[0].arg == 'key' and is_key(e.keywords[0].value)
              and isinstance(e.args[0], _ast.Call) and isinstance(e.args[0].func, _ast.Name) and e.args[0].func.id == 'set'
              and len(e.args[0].args) == 1 and not e.args[0].keywords)
        xs = tr.expr(e.args[0].args[0]) if ok else None
        if not ok or xs.typ != 'List Pt':
            raise Unsupported(f'`{_ast.unparse(e)[:90]}`: only `sorted(set(<coordinates>), key=lambda x: (x.longitude, x.latitude))` '
                              'is read as the model\'s sortedSet')
        return Val(f'(GV.Hull.sortedSet {xs.text})', 'List Pt')

    def loop_fuel(qual, state):
        # each iteration of the inner loop pops one entry: the stack's length bounds the number of iterations
        return ' + '.join('({' + n + '}).length' for n in state)

    return Unit('SrcHull', src, 'GV.Src.Hull', ['GeoVerif.Model.Hull', 'GeoVerif.Model.PyList'], insts, {},
                attr_types={('Pt', 'longitude'): ('{}.1', 'R'), ('Pt', 'latitude'): ('{}.2', 'R')},
                hooks={'isinstance': lambda typ: None, 'sorted': sorted_hook, 'loop_fuel': loop_fuel, 'float_as_int': True,
                       'keywords': lambda tr, e: getattr(e.func, 'id', None) == 'sorted',
                       'ann_type': lambda ann: {'List[Coordinate]': 'List Pt', 'list[Coordinate]': 'List Pt'}.get(ann),
                       'local_type': lambda qual, name: 'List Pt' if qual == 'convex_hull' else None})


# geostructures/structures.py :: GeoPolygon.__init__ — what the hull wrappers' `GeoPolygon(ring)` does to the ring   (C10)
#
# the instance with every optional parameter at its default (`holes=None`, `_is_hole=False`); the result is the stored
# `self.outline`.  `outline[0]` / `outline[-1]` raise IndexError on an empty ring.  `is_counter_clockwise` is the model's
# `isCCW` and `super().__init__` (PolygonBase: stores holes/dt/properties, cannot raise without holes) are pinned; the
# two logging calls have no effect on the value.

HULL_PINS = {
    '_geometry.py::is_counter_clockwise': '029b036eea7a5394',
    'structures.py::PolygonBase.__init__': 'e3b6c67c55a7b8b4',
}


def hullpoly_unit():
    import ast as _ast
    src = py2lean.Source(_repo('structures.py'))
    insts = [Inst('GeoPolygon.__init__', 'init', [('self', 'None'), ('outline', 'List Pt')], 'Except List Pt',
                  doc='holes, dt, properties, _is_hole at their defaults')]

    def init_hook(tr, fields):
        if set(fields) != {'outline'} or fields['outline'].typ != 'List Pt':
            raise Unsupported(f'GeoPolygon.__init__ stores fields {sorted(fields)}')
        return fields['outline'].text

    def expr_stmt(tr, call):
        if tr.is_super_init(_ast.Call(func=call.func, args=[], keywords=[])) and isinstance(call, _ast.Call) and not call.args \
                and all(k.arg in ('holes', 'dt', 'properties') and isinstance(k.value, _ast.Name) and k.value.id == k.arg
                        for k in call.keywords):
            return True               # PolygonBase.__init__(holes=None, dt=None, properties=None): pinned
        return isinstance(call, _ast.Call) and _ast.unparse(call.func) in ('LOGGER.warning', 'warn_once')

    def ccw(tr, args):
        if [a.typ for a in args] != ['List Pt']:
            raise Unsupported('is_counter_clockwise(' + ', '.join(a.typ for a in args) + ')')
        return Val(f'(GV.isCCW {args[0].text})', 'Bool')

    return Unit('SrcHullPoly', src, 'GV.Src.HullPoly', ['GeoVerif.Model.Plane', 'GeoVerif.Model.PyPrelude', 'GeoVerif.Model.PyList'],
                insts, {}, pins=dict(HULL_PINS), intrinsics={'is_counter_clockwise': ccw},
                hooks={'isinstance': lambda typ: None, 'init': init_hook, 'expr_stmt': expr_stmt,
                       'keywords': lambda tr, e: tr.is_super_init(_ast.Call(func=e.func, args=[], keywords=[]))})


# geostructures/multistructures.py :: MultiGeoPoint / MultiGeoLineString / MultiGeoPolygon .convex_hull   (C10)
#
# a multi-shape is the list of its members (`μ`); what a member contributes is abstract: `cen m` = `m.centroid`,
# `verts m` = `m.vertices`, `bc m` = `m.bounding_coords(**kwargs)`.  `convex_hull(...)` is SrcHull's translated function,
# `GeoPolygon(...)` SrcHullPoly's translated constructor.

def hullmulti_unit():
    src = py2lean.Source(_repo('multistructures.py'))
    insts = [
        Inst('MultiGeoPoint.convex_hull', 'multiPointHull', [('self', 'HMulti')], 'Except List Pt'),
        Inst('MultiGeoLineString.convex_hull', 'multiLineHull', [('self', 'HMulti')], 'Except List Pt'),
        Inst('MultiGeoPolygon.convex_hull', 'multiPolyHull', [('self', 'HMulti')], 'Except List Pt'),
    ]
    py2lean.LEAN_TYPE.setdefault('HMulti', 'List μ')

    def hull(tr, args):
        if [a.typ for a in args] != ['List Pt']:
            raise Unsupported('convex_hull(' + ', '.join(a.typ for a in args) + ')')
        v = Val(f'(GV.Src.Hull.convexHull {args[0].text})', 'List Pt')
        v.raises = True
        return v

    def poly(tr, args):
        if [a.typ for a in args] != ['List Pt']:
            raise Unsupported('GeoPolygon(' + ', '.join(a.typ for a in args) + ')')
        v = Val(f'(GV.Src.HullPoly.init {args[0].text})', 'List Pt')
        v.raises = True
        return v

    return Unit('SrcHullMulti', src, 'GV.Src.HullMulti', ['GeoVerif.Gen.SrcHull', 'GeoVerif.Gen.SrcHullPoly'], insts, {},
                header='variable {μ : Type}',
                attr_types={('HMulti', 'geoshapes'): ('{}', 'List μ'), ('μ', 'centroid'): ('(cen {})', 'Pt'),
                            ('μ', 'vertices'): ('(verts {})', 'List Pt')},
                abstract={('μ', 'bounding_coords', ()): ('bc {0}', 'List Pt')},
                intrinsics={'convex_hull': hull, 'GeoPolygon': poly},
                hooks={'isinstance': lambda typ: None},
                ctx_params=[('cen', 'μ → GV.Pt'), ('verts', 'μ → List GV.Pt'), ('bc', 'μ → List GV.Pt')])


# ----------------------------------------------------------------------------------------------------------
# geostructures/structures.py, _base.py, collections.py :: `bounds` and `circumscribing_rectangle`   (C09)
#
# the receiver is its defining data: a box its two corners, a polygon / linestring its vertex list, a point its
# coordinate (`GV.Pt = Rat × Rat`, floats as exact rationals); a member of a multi-shape / collection, and the receiver of
# the mixins' `circumscribing_rectangle`, is given by its `bounds`.  `y.to_float()` is a tuple that starts with
# (longitude, latitude) (pinned) of which only `[:2]`, `[0]`, `[1]` may be read; `Coordinate(lon, lat)` is the model's
# normalising constructor (C08's subject, tied to the source by SrcCoord); `GeoBox(a, b, dt=self.dt)` is its two corners.

PINS['coordinates.py::Coordinate.to_float'] = 'b613877e945e9836'       # SrcBounds: a tuple that starts with (longitude, latitude)


def bounds_unit():
    src = py2lean.Sources([_repo('structures.py'), _repo('_base.py'), _repo('collections.py')])
    insts = [
        Inst('GeoBox.bounds', 'boxBounds', [('self', 'BdBox')], 'Tuple4 R'),
        Inst('GeoPoint.bounds', 'pointBounds', [('self', 'BdPoint')], 'Tuple4 R'),
        Inst('GeoPolygon.bounds', 'polygonBounds', [('self', 'BdPoly')], 'Except Tuple4 R'),
        Inst('GeoLineString.bounds', 'lineBounds', [('self', 'BdLine')], 'Except Tuple4 R'),
        Inst('MultiShapeBase.bounds', 'multiBounds', [('self', 'BdMulti')], 'Except Tuple4 R'),
        Inst('CollectionBase.bounds', 'collBounds', [('self', 'BdColl')], 'Except Tuple4 R'),
        Inst('PolygonLikeMixin.circumscribing_rectangle', 'polyLikeRect', [('self', 'BdShape')], 'BdBox'),
        Inst('LineLikeMixin.circumscribing_rectangle', 'lineLikeRect', [('self', 'BdShape')], 'BdBox'),
        Inst('GeoLineString.circumscribing_rectangle', 'lineRect', [('self', 'BdLine')], 'Except BdBox'),
        Inst('GeoBox.circumscribing_rectangle', 'boxRect', [('self', 'BdBox')], 'BdBox'),
    ]
    for tag, lean in (('BdBox', 'GV.Pt × GV.Pt'), ('BdPoint', 'GV.Pt'), ('BdPoly', 'List GV.Pt'), ('BdLine', 'List GV.Pt'),
                      ('BdShape', 'GV.Bounds.BBox'), ('BdMulti', 'List GV.Bounds.BBox'), ('BdColl', 'List GV.Bounds.BBox'),
                      ('CoordTuple', 'GV.Pt')):
        py2lean.LEAN_TYPE.setdefault(tag, lean)
    attr = {('Pt', 'longitude'): ('{}.1', 'R'), ('Pt', 'latitude'): ('{}.2', 'R'),
            ('BdBox', 'nw_bound'): ('{}.1', 'Pt'), ('BdBox', 'se_bound'): ('{}.2', 'Pt'),
            ('BdPoint', 'coordinate'): ('{}', 'Pt'), ('BdPoly', 'outline'): ('{}', 'List Pt'),
            ('BdLine', 'vertices'): ('{}', 'List Pt'), ('BdShape', 'bounds'): ('{}', 'Tuple4 R'),
            ('BdMulti', 'geoshapes'): ('{}', 'List BdShape'), ('BdColl', 'geoshapes'): ('{}', 'List BdShape')}

    def method(tr, recv, attr_name, args):
        if recv.typ == 'Pt' and attr_name == 'to_float' and not args:
            return Val(recv.text, 'CoordTuple')
        return None

    def subscript(tr, v, sl):
        A = py2lean.ast
        if v.typ != 'CoordTuple':
            return None
        if isinstance(sl, A.Slice) and sl.lower is None and sl.step is None and isinstance(sl.upper, A.Constant) and sl.upper.value == 2 \
                and not isinstance(sl.upper.value, bool):
            return Val(v.text, 'Pair R')
        if isinstance(sl, A.Constant) and sl.value in (0, 1) and not isinstance(sl.value, bool):
            return Val(f'{v.text}.{sl.value + 1}', 'R')
        raise Unsupported(f'subscript `[{A.unparse(sl)}]` of `to_float()`')

    def coordinate(tr, args):
        if [a.typ for a in args] != ['R', 'R']:
            raise Unsupported('Coordinate(' + ', '.join(a.typ for a in args) + ')')
        return Val(f'(GV.normalize true {args[0].text} {args[1].text})', 'Pt')

    def geobox(tr, args):
        if [a.typ for a in args] != ['Pt', 'Pt']:
            raise Unsupported('GeoBox(' + ', '.join(a.typ for a in args) + ')')
        return Val(f'({args[0].text}, {args[1].text})', 'BdBox')

    def kw(tr, e):
        f = e.func
        name = f.id if isinstance(f, py2lean.ast.Name) else None
        return name == 'GeoBox' and [k.arg for k in e.keywords] == ['dt'] and py2lean.ast.unparse(e.keywords[0].value) == 'self.dt'

    return Unit('SrcBounds', src, 'GV.Src.Bounds', ['GeoVerif.Model.Bounds', 'GeoVerif.Model.PyBounds'], insts,
                {'BdBox': 'GeoBox', 'BdPoint': 'GeoPoint', 'BdPoly': 'GeoPolygon', 'BdLine': 'GeoLineString'},
                attr_types=attr, intrinsics={'Coordinate': coordinate, 'GeoBox': geobox},
                pins={'coordinates.py::Coordinate.to_float': PINS['coordinates.py::Coordinate.to_float']},
                hooks={'isinstance': lambda typ: None, 'method': method, 'subscript': subscript, 'keywords': kw})


# ----------------------------------------------------------------------------------------------------------
# geostructures/_base.py :: BaseShapeProtocol — the updating methods and the observations they feed   (C16)
#
# a shape is a *reference* (`ORef`, a Nat) into the activation `fr : GV.OS.Act G H W` (Model/ObjAct.lean: the heap of
# Model/ObjState.lean + the shape records in scope, the receiver at reference 0) that every definition receives;
# `x.copy()` (abstract in the protocol, pinned as such) is the model's `copy` bound to a new reference; the stores
# `x.dt = v`, `x._properties[k] = v` rebind the activation; an updating method returns (activation, reference).
# `self.area` is the memoised area as a function `areaOf` of the inputs it was computed from, `total_seconds` is `secs`.

def mut_unit():
    src = py2lean.Source(_repo('_base.py'))
    B = 'BaseShapeProtocol'
    S, U = ('self', 'ORef'), 'Except Upd'
    IP = ('inplace', 'Bool')
    insts = [
        Inst(f'{B}.start', 'startDt', [S], 'Except Dt'),
        Inst(f'{B}.end', 'endDt', [S], 'Except Dt'),
        Inst(f'{B}.properties', 'properties', [S], 'Except RDict'),
        Inst('PolygonLikeMixin.volume', 'volume', [S], 'N'),
        Inst(f'{B}.set_dt', 'setDtNone', [S, ('dt', 'None'), IP], U),
        Inst(f'{B}.set_dt', 'setDtTI', [S, ('dt', 'TI'), IP], U),
        Inst(f'{B}.set_dt', 'setDtDt', [S, ('dt', 'Dt'), IP], U),
        Inst(f'{B}.buffer_dt', 'bufferDt', [S, ('buffer', 'Td'), IP], U),
        Inst(f'{B}.strip_dt', 'stripDt', [S, IP], U),
        Inst(f'{B}.set_property', 'setProperty', [S, ('key', 'Str'), ('value', 'PArg'), IP], U),
        # `inplace` left at its default
        Inst(f'{B}.set_dt', 'setDtNoneDefault', [S, ('dt', 'None')], U, doc='`inplace` left at its default'),
        Inst(f'{B}.set_dt', 'setDtTIDefault', [S, ('dt', 'TI')], U, doc='`inplace` left at its default'),
        Inst(f'{B}.set_dt', 'setDtDtDefault', [S, ('dt', 'Dt')], U, doc='`inplace` left at its default'),
        Inst(f'{B}.buffer_dt', 'bufferDtDefault', [S, ('buffer', 'Td')], U, doc='`inplace` left at its default'),
        Inst(f'{B}.strip_dt', 'stripDtDefault', [S], U, doc='`inplace` left at its default'),
        Inst(f'{B}.set_property', 'setPropertyDefault', [S, ('key', 'Str'), ('value', 'PArg')], U,
             doc='`inplace` left at its default'),
    ]
    # an observation must be recomputed on every read (a memoised one goes stale under the updates: that is C16), an
    # updating method must be the plain function
    for i in insts:
        want = ['property'] if i.value_type != 'Upd' else []
        if src.decorators(i.qual) != want:
            raise Unsupported(f'`{i.qual}` is decorated {src.decorators(i.qual)}, the unit reads it as {want or "a plain method"}')
    py2lean.LEAN_TYPE.setdefault('Str', 'String')
    py2lean.LEAN_TYPE.setdefault('N', 'α')
    py2lean.LEAN_TYPE.setdefault('ORef', 'Nat')
    py2lean.LEAN_TYPE.setdefault('DictRef', 'Nat')
    py2lean.LEAN_TYPE.setdefault('Upd', 'GV.OS.Act G H W × Nat')
    py2lean.LEAN_TYPE.setdefault('PArg', 'GV.OS.PArg')
    py2lean.LEAN_TYPE.setdefault('RDict', 'List (String × GV.OS.RVal)')

    def isinstance_hook(typ):
        return {'Dt': {'datetime'}, 'Td': {'timedelta'}, 'TI': {'TimeInterval'}, 'None': set(),
                'ORef': {'BaseShapeProtocol', 'BaseShape', 'GeoShape'}}.get(typ)

    def zulu(tr, args):
        if args[-1].typ != 'Dt':
            raise Unsupported(f'default_to_zulu applied to {args[-1].typ}')
        return Val(args[-1].text, 'Dt')

    def method(tr, recv, attr, args):
        if recv.typ == 'ORef' and attr == 'copy' and not args:
            return tr.effect(f'GV.OS.Act.copyOf {tr.frame()} {recv.text}', 'ORef')
        if recv.typ == 'DictRef' and attr == 'copy' and not args and recv.path and recv.path.endswith('._properties'):
            # `x._properties.copy()`: a dict *value*; the only way this unit reads the property dict
            return Val(f'(GV.OS.Act.propsCopy {tr.frame()} {recv.text})', 'RDict')
        return None

    frame = {
        'name': 'fr', 'result': 'Upd', 'ref': 'ORef',
        'getattr': {('ORef', 'dt'): ('(GV.OS.Act.dt {fr} {0})', 'Opt TI'),
                    ('ORef', '_properties'): ('{0}', 'DictRef'),
                    ('ORef', 'area'): ('(areaOf (GV.OS.Act.areaStamp {fr} {0}))', 'N')},
        'setattr': {('ORef', 'dt', 'None'): 'GV.OS.Act.setDt {fr} {0} none',
                    ('ORef', 'dt', 'TI'): 'GV.OS.Act.setDt {fr} {0} (some {1})',
                    ('ORef', 'dt', 'Opt TI'): 'GV.OS.Act.setDt {fr} {0} {1}'},
        'setitem': {('ORef', '_properties', 'Str', 'PArg'): 'GV.OS.Act.setProp {fr} {0} {1} {2}'},
        'setlocal': {('RDict', 'Str', 'Dt'): 'GV.OS.rdictPut {0} {1} (GV.OS.RVal.atom {2})'},
    }
    return Unit('SrcMut', src, 'GV.Src.Mut', ['GeoVerif.Gen.SrcTime', 'GeoVerif.Model.ObjAct'], insts,
                {'ORef': B, 'TI': 'TimeInterval'},
                header='open GV Num\nvariable {G H W : Type} {α : Type} [Num α]',
                pins={'utils/functions.py::default_to_zulu': PINS['utils/functions.py::default_to_zulu'],
                      f'{B}.copy': PINS['_base.py::BaseShapeProtocol.copy']},
                attr_types={('TI', 'start'): ('{}.start', 'Dt'), ('TI', 'end'): ('{}.stop', 'Dt')},
                intrinsics={'default_to_zulu': zulu},
                abstract={('Td', 'total_seconds', ()): ('secs {0}', 'N')},
                hooks={'isinstance': isinstance_hook, 'always_truthy': ('TI', 'Dt'), 'method': method, 'frame': frame,
                       'str_lit': True, 'float_as_int': True},
                ctx_params=[('fr', 'GV.OS.Act G H W'), ('areaOf', 'GV.OS.Stamp H W → α'), ('secs', 'Int → α')],
                externals=_time_externals())


# ----------------------------------------------------------------------------------------------------------
# geostructures/geohash.py :: the Niemeyer codec   (C11)
#
# a geohash is the list of its characters (`List Char`; a one-character string is a `Char`), `_NIEMEYER_CONFIG` is the
# generated table `Gen/Geohash.lean` (a dict as its association list, a config as the record of its keys), ints that can
# not be negative (literals, table entries, `len`, `ord`) are `Nat` — widened where they meet an `int` —, floats are exact
# rationals.  The two-element interval lists are pairs; the `while` loop is fuelled with `length · len(bits)`.
# `coordinate.to_float()` is a tuple that starts with `(longitude, latitude)` (then Z and M when present; pinned, not
# translated), so `to_float()[:2]` is the stored pair for every coordinate, with or without Z and M; unpacking the whole
# tuple into two names is *not* in the subset (it raises for a coordinate that carries Z or M).
# `Coordinate(lon, lat)` is the model's normalising constructor (tied to the source by SrcCoord / C08Src); `GeoBox(nw, se)`
# is the pair of its corners (`dt=` and `properties=` do not enter the geometry).

PINS['coordinates.py::Coordinate.to_float'] = 'b613877e945e9836'     # SrcGeohash: a tuple that starts with `(longitude, latitude)`


def geohash_unit():
    src = py2lean.Source(_repo('geohash.py'))
    for tag, lean in (('Nat', 'Nat'), ('Ch', 'Char'), ('NCfg', 'GV.Geohash.Gen.NiemeyerCfg'), ('GhBox', 'GV.Geohash.Box'),
                      ('PtTuple', 'GV.Pt')):
        py2lean.LEAN_TYPE.setdefault(tag, lean)
    GH = 'List Ch'
    insts = [
        Inst('_decode_niemeyer', 'decodeNiemeyer', [('geohash', GH), ('base', 'Nat')], 'Except Tuple4 R'),
        Inst('_coord_to_niemeyer', 'coordToNiemeyer', [('coordinate', 'Pt'), ('length', 'Int'), ('base', 'Nat')], 'Except ' + GH),
        Inst('_get_niemeyer_subhashes', 'subhashes', [('geohash', GH), ('base', 'Nat')], 'Except Set ' + GH),
        Inst('niemeyer_to_geobox', 'niemeyerToGeobox', [('geohash', GH), ('base', 'Nat')], 'Except GhBox',
             doc='`dt`, `properties` left at their defaults'),
        Inst('NiemeyerHasher._get_surrounding', 'getSurrounding', [('geohash', GH), ('base', 'Nat')], 'Except List ' + GH),
    ]
    items = {('NCfg', 'bits'): ('{}.bits', 'List Nat'), ('NCfg', 'charset'): ('{}.charset', GH),
             ('NCfg', 'inverse'): ('{}.inverse', 'Dict Nat Nat'),
             ('NCfg', 'min_x'): ('{}.minX', 'R'), ('NCfg', 'max_x'): ('{}.maxX', 'R'),
             ('NCfg', 'min_y'): ('{}.minY', 'R'), ('NCfg', 'max_y'): ('{}.maxY', 'R')}

    def fuel(qual, index):
        # one iteration per bit: `length` characters of `len(bits)` bits each (proved sufficient in Props/C11Src)
        if qual == '_coord_to_niemeyer' and index == 1:
            return '((Int.toNat {length}) * (match GV.Geohash.cfgOf {base} with | some c => c.bits.length | none => 0))'
        return None

    def real(v):
        return v.text if v.typ == 'R' else f'({v.text} : Rat)' if v.typ in ('Int', 'Nat') else None

    def coordinate(tr, args):
        xs = [real(a) for a in args]
        if len(xs) != 2 or None in xs:
            raise Unsupported('Coordinate(' + ', '.join(a.typ for a in args) + ')')
        return Val(f'(GV.normalize true {xs[0]} {xs[1]})', 'Pt')

    def geobox(tr, args):
        if [a.typ for a in args] != ['Pt', 'Pt']:
            raise Unsupported('GeoBox(' + ', '.join(a.typ for a in args) + ')')
        return Val(f'(GV.Geohash.Box.mk {args[0].text} {args[1].text})', 'GhBox')

    def subscript(tr, v, sl):
        # `coordinate.to_float()[:2]`: the first two ordinates of the pinned tuple
        if v.typ == 'PtTuple':
            zero = sl.lower is None or (isinstance(sl.lower, py2lean.ast.Constant) and sl.lower.value == 0
                                        and not isinstance(sl.lower.value, bool)) if isinstance(sl, py2lean.ast.Slice) else False
            if isinstance(sl, py2lean.ast.Slice) and zero and sl.step is None \
                    and isinstance(sl.upper, py2lean.ast.Constant) and sl.upper.value == 2 and not isinstance(sl.upper.value, bool):
                return Val(v.text, 'Prod R R')
            raise Unsupported(f'`{py2lean.ast.unparse(sl)}` of the tuple `to_float()` returns')
        return None

    def kw(tr, e):
        f = e.func
        return isinstance(f, py2lean.ast.Name) and f.id == 'GeoBox' and {k.arg for k in e.keywords} <= {'dt', 'properties'}

    return Unit('SrcGeohash', src, 'GV.Src.Geohash', ['GeoVerif.Model.Geohash', 'GeoVerif.Model.PyPrelude'], insts,
                {'NH': 'NiemeyerHasher'},
                pins={k: PINS[k] for k in ('coordinates.py::Coordinate.to_float',)},
                abstract={('Pt', 'to_float', ()): ('{}', 'PtTuple')},
                intrinsics={'Coordinate': coordinate, 'GeoBox': geobox},
                hooks={'isinstance': lambda typ: None, 'fuel': fuel, 'items': items, 'nat_literals': True, 'float_as_int': True,
                       'str_as_chars': True, 'cells': True, 'body_locals': True, 'aug_assign': True, 'nested_fold': True,
                       'subscript': subscript, 'set_of': 'GV.Geohash.toSet', 'keywords': kw,
                       'constants': {'_NIEMEYER_CONFIG': ('GV.Geohash.Gen.niemeyerConfigs', 'Dict Nat NCfg')}})


# coordinates.py / structures.py / _base.py / multistructures.py :: `__eq__` and `__hash__` of every kind   (C15)
#
# a coordinate is the model's record `GV.Obj.Coord`, a single shape the record view of its class (`Model/ObjRec.lean`:
# the fields under the names the class uses), a multi-shape the model's `GV.Obj.Multi`; `isinstance(other, X)` is decided
# per instance (`other` of the same class / anything else).  `==` on `Optional`, lists, tuples and sets, the membership
# relation of a set (hash, then `==`) and the *key* handed to `hash()` are generated from the static types (py2lean
# `eq_fn` / `mem_fn` / `key_of`).  Abstract: `heq` (`hole == hole'`: a dynamic dispatch on the class of the hole — closed in
# Props/C15Src by `srcHoleEq`), `bc` (`hole.bounding_coords()`), `wedge` (`GeoRing.to_polygon().centroid`), and for the
# members of a multi-shape `meq` / `mheq` / `mkey` (`==`, hash equality and hash key of two members: the dispatch over the
# single-shape instances of this unit).

def eq_unit():
    src = py2lean.Sources([_repo('structures.py'), _repo('coordinates.py'), _repo('_base.py'), _repo('multistructures.py')])
    types = {'CoordV': 'GV.Obj.Coord', 'PointV': 'GV.Obj.PointR', 'LineV': 'GV.Obj.LineR', 'BoxV': 'GV.Obj.BoxR',
             'CircleV': 'GV.Obj.CircleR', 'EllipseV': 'GV.Obj.EllipseR', 'RingV': 'GV.Obj.RingR', 'PolyV': 'GV.Obj.PolyR',
             'HoleV': 'GV.Obj.Hole', 'MultiV': 'GV.Obj.Multi', 'MPointV': 'GV.Obj.Multi', 'MemberV': 'GV.Obj.Shape',
             'OtherV': 'Unit', 'MKindV': 'GV.Obj.MKind', 'SKeyV': 'GV.Obj.SKey', 'WedgeV': 'GV.Obj.Coord'}
    for k, v in types.items():
        py2lean.LEAN_TYPE.setdefault(k, v)
    prod = py2lean.mk_prod
    CK = prod(['R', 'R', 'Opt R'])            # (longitude, latitude, z)
    DK = 'Opt Pair Dt'                        # the key of `self.dt`
    single = [('Coordinate', 'coord', 'CoordV', CK),
              ('GeoPoint', 'point', 'PointV', prod([CK, DK])),
              ('GeoBox', 'box', 'BoxV', prod([CK, CK, DK])),
              ('GeoCircle', 'circle', 'CircleV', prod([CK, 'R', DK])),
              ('GeoEllipse', 'ellipse', 'EllipseV', prod([CK, 'R', 'R', 'R', DK])),
              ('GeoRing', 'ring', 'RingV', prod([CK, 'R', 'R', 'R', 'R', DK])),
              ('GeoLineString', 'line', 'LineV', prod(['List ' + CK, DK])),
              ('GeoPolygon', 'poly', 'PolyV', prod(['List ' + CK, DK]))]
    insts = []
    for cls, nm, t, key in single:
        if cls in ('GeoCircle', 'GeoEllipse', 'GeoRing'):
            insts.append(Inst(f'{cls}.centroid', nm + 'Centroid', [('self', t)], 'CoordV'))
        insts.append(Inst(f'{cls}.__eq__', nm + 'Eq', [('self', t), ('other', t)], 'Except Bool' if cls == 'GeoPolygon' else 'Bool'))
        insts.append(Inst(f'{cls}.__eq__', nm + 'EqOther', [('self', t), ('other', 'OtherV')], 'Bool',
                          doc='`other` is not an instance of the class'))
        insts.append(Inst(f'{cls}.__hash__', nm + 'Hash', [('self', t)], key, doc='the key of the value handed to hash()'))
    insts += [
        Inst('MultiShapeBase.__eq__', 'multiEq', [('self', 'MultiV'), ('other', 'MultiV')], 'Opt Bool', doc='`none` is NotImplemented'),
        Inst('MultiShapeBase.__eq__', 'multiEqOther', [('self', 'MultiV'), ('other', 'OtherV')], 'Opt Bool',
             doc='`other` is not a multi-shape; `none` is NotImplemented'),
        Inst('MultiShapeBase.__hash__', 'multiHash', [('self', 'MultiV')], prod(['List SKeyV', DK]), doc='the key of the value handed to hash()'),
        Inst('MultiGeoPoint.__hash__', 'mpointHash', [('self', 'MPointV')], 'List SKeyV', doc='the key of the value handed to hash()'),
    ]
    # what the unit assumes about the class layout: the multi-shape classes take `__eq__` from MultiShapeBase, and only
    # MultiGeoPoint has a `__hash__` of its own
    for q in ('MultiGeoPoint.__eq__', 'MultiGeoLineString.__eq__', 'MultiGeoPolygon.__eq__', 'MultiGeoLineString.__hash__',
              'MultiGeoPolygon.__hash__', 'PolygonBase.__eq__', 'PolygonBase.__hash__', 'SingleShapeBase.__eq__',
              'SingleShapeBase.__hash__', 'BaseShape.__eq__', 'BaseShape.__hash__'):
        if q in src.defs:
            raise Unsupported(f'`{q}` is defined: the unit assumes it is inherited')

    def isinstance_hook(typ):
        own = {'CoordV': 'Coordinate', 'PointV': 'GeoPoint', 'LineV': 'GeoLineString', 'BoxV': 'GeoBox', 'CircleV': 'GeoCircle',
               'EllipseV': 'GeoEllipse', 'RingV': 'GeoRing', 'PolyV': 'GeoPolygon'}
        if typ in own:
            return {own[typ]}
        return {'MultiV': {'MultiShapeBase'}, 'MPointV': {'MultiShapeBase', 'MultiGeoPoint'}, 'OtherV': set()}.get(typ)

    dt = ('{}.dt', 'Opt TI')
    holes = ('{}.holes', 'List HoleV')
    attr = {('CoordV', 'latitude'): ('{}.lat', 'R'), ('CoordV', 'longitude'): ('{}.lon', 'R'), ('CoordV', 'z'): ('{}.z', 'Opt R'),
            ('PointV', 'coordinate'): ('{}.coordinate', 'CoordV'), ('PointV', 'dt'): dt,
            ('LineV', 'vertices'): ('{}.vertices', 'List CoordV'), ('LineV', 'dt'): dt,
            ('BoxV', 'nw_bound'): ('{}.nw', 'CoordV'), ('BoxV', 'se_bound'): ('{}.se', 'CoordV'), ('BoxV', 'holes'): holes, ('BoxV', 'dt'): dt,
            ('CircleV', 'center'): ('{}.center', 'CoordV'), ('CircleV', 'radius'): ('{}.radius', 'R'),
            ('CircleV', 'holes'): holes, ('CircleV', 'dt'): dt,
            ('EllipseV', 'center'): ('{}.center', 'CoordV'), ('EllipseV', 'semi_major'): ('{}.major', 'R'),
            ('EllipseV', 'semi_minor'): ('{}.minor', 'R'), ('EllipseV', 'rotation'): ('{}.rotation', 'R'),
            ('EllipseV', 'holes'): holes, ('EllipseV', 'dt'): dt,
            ('RingV', 'center'): ('{}.center', 'CoordV'), ('RingV', 'inner_radius'): ('{}.inner', 'R'),
            ('RingV', 'outer_radius'): ('{}.outer', 'R'), ('RingV', 'angle_min'): ('{}.amin', 'R'),
            ('RingV', 'angle_max'): ('{}.amax', 'R'), ('RingV', 'holes'): holes, ('RingV', 'dt'): dt,
            ('PolyV', 'outline'): ('{}.outline', 'List CoordV'), ('PolyV', 'holes'): holes, ('PolyV', 'dt'): dt,
            ('MultiV', 'geoshapes'): ('{}.members', 'List MemberV'), ('MultiV', 'dt'): dt,
            ('MPointV', 'geoshapes'): ('{}.members', 'List MemberV'), ('MPointV', 'dt'): dt,
            ('WedgeV', 'centroid'): ('{}', 'CoordV')}
    abstract = {('HoleV', 'bounding_coords', ()): ('bc {0}', 'List CoordV'),
                ('RingV', 'to_polygon', ()): ('wedge {0}', 'WedgeV')}
    classes = {t: cls for cls, _nm, t, _k in single}
    classes.update({'MultiV': 'MultiShapeBase', 'MPointV': 'MultiGeoPoint', 'TI': 'TimeInterval'})
    return Unit('SrcEq', src, 'GV.Src.Eq', ['GeoVerif.Gen.SrcTime', 'GeoVerif.Model.ObjRec', 'GeoVerif.Model.PyPrelude'], insts,
                classes, attr_types=attr, abstract=abstract,
                header='-- source files: ' + ', '.join(os.path.basename(q) for q in src.paths),
                hooks={'isinstance': isinstance_hook, 'always_truthy': ('TI', 'Dt'), 'value_semantics': True, 'hash_keys': True, 'operand_boolop': True, 'prune_loop_params': True,
                       'eq_abstract': {'HoleV': 'heq', 'MemberV': 'meq'}, 'hasheq_abstract': {'MemberV': 'mheq'},
                       'key_abstract': {'MemberV': ('mkey', 'SKeyV')},
                       'constants': {'NotImplemented': ('()', 'None')},
                       'type_of': {'MultiV': ('{}.kind', 'MKindV')}, 'identity_types': ('MKindV',)},
                ctx_params=[('heq', 'GV.Obj.Hole → GV.Obj.Hole → Bool'), ('bc', 'GV.Obj.Hole → List GV.Obj.Coord'),
                            ('wedge', 'GV.Obj.RingR → GV.Obj.Coord'), ('meq', 'GV.Obj.Shape → GV.Obj.Shape → Bool'),
                            ('mheq', 'GV.Obj.Shape → GV.Obj.Shape → Bool'), ('mkey', 'GV.Obj.Shape → GV.Obj.SKey')],
                externals=_time_externals())


# ----------------------------------------------------------------------------------------------------------
# geostructures/_geometry.py :: do_bounds_overlap, ensure_edge_bounds, find_line_intersection, do_edges_intersect   (C02)
#
# a coordinate is the exact pair `GV.Pt` (lon, lat) — no z / m, so `to_float()` is that pair (pinned); floats are exact
# rationals, so `round_half_up(x, 10)` is `x` (§3: the model drops the rounding; only the literal precision 10 is read so);
# `Coordinate(x, y)` is the pair handed to the constructor (normalisation is C08's subject; with `_bounded=False` it is
# exactly that pair).  The nested functions (`det`, `get_line_bounds`, `_create_events`) are lifted to definitions of their
# own, the local class `_Event` to a structure with its `__lt__` / `__eq__` / `__hash__`; `events.sort()` is the stable
# merge sort that asks only `b < a`; the active `set` is the list of its elements without `__eq__`-duplicates
# (`GV.Py.setAdd` / `setDiscard`); the group labels 'a' / 'b' are read as `false` / `true` (the model's encoding).

PINS.setdefault('coordinates.py::Coordinate.to_float', 'b613877e945e9836')     # SrcSweep: (longitude, latitude) of a coordinate without z / m


def sweep_unit():
    src = py2lean.Source(_repo('_geometry.py'))
    SEG = 'Prod Pt Pt'
    insts = [
        Inst('do_bounds_overlap', 'doBoundsOverlap', [('bounds1', 'Prod R R'), ('bounds2', 'Prod R R')], 'Bool'),
        Inst('ensure_edge_bounds', 'ensureEdgeBounds', [('coord1', 'Pt'), ('coord2', 'Pt')], SEG),
        Inst('find_line_intersection', 'findLineIntersection', [('line1', SEG), ('line2', SEG)], 'Opt Prod Pt Bool'),
        Inst('do_edges_intersect', 'doEdgesIntersect', [('edges_a', 'List ' + SEG), ('edges_b', 'List ' + SEG)], 'Bool'),
    ]
    A = py2lean.ast

    def rnd(tr, args):
        if [a.typ for a in args] != ['R', 'Int'] or args[1].text != '(10 : Int)':
            raise Unsupported('round_half_up(' + ', '.join(f'{a.text}: {a.typ}' for a in args)[:80] + '): only `round_half_up(<float>, 10)` is '
                              'read as the identity on exact rationals')
        return Val(args[0].text, 'R')

    def coordinate(tr, args):
        if [a.typ for a in args] != ['R', 'R']:
            raise Unsupported('Coordinate(' + ', '.join(a.typ for a in args) + ')')
        return Val(f'({args[0].text}, {args[1].text})', 'Pt')

    def kw(tr, e):
        # `Coordinate(lon, lat, _bounded=False)`: the pair as given
        return (isinstance(e.func, A.Name) and e.func.id == 'Coordinate' and [k.arg for k in e.keywords] == ['_bounded']
                and isinstance(e.keywords[0].value, A.Constant) and e.keywords[0].value.value is False)

    def sorted_hook(tr, e):
        # `sorted([a, b])` of two floats: the pair (smaller, larger), swapped only if `b < a` (stable)
        ok = len(e.args) == 1 and not e.keywords and isinstance(e.args[0], A.List) and len(e.args[0].elts) == 2 \
            and not any(isinstance(x, A.Starred) for x in e.args[0].elts)
        vals = [tr.expr(x) for x in e.args[0].elts] if ok else []
        if not ok or [v.typ for v in vals] != ['R', 'R']:
            raise Unsupported(f'`{A.unparse(e)[:80]}`: only `sorted([<float>, <float>])` is read (as `GV.Py.sort2`)')
        return Val(f'(GV.Py.sort2 {vals[0].text} {vals[1].text})', 'Prod R R')

    def local_type(qual, name):
        return {('do_edges_intersect._create_events', '_events'): 'List doEdgesIntersect.Event',
                ('do_edges_intersect', 'active_events'): 'Set doEdgesIntersect.Event'}.get((qual, name))

    attr = {('Pt', 'longitude'): ('{}.1', 'R'), ('Pt', 'latitude'): ('{}.2', 'R')}
    abstract = {('Pt', 'to_float', ()): ('{0}', 'Prod R R')}
    return Unit('SrcSweep', src, 'GV.Src.Sweep', ['GeoVerif.Model.Sweep', 'GeoVerif.Model.PySeq'], insts, {},
                attr_types=attr, abstract=abstract,
                pins={'coordinates.py::Coordinate.to_float': PINS['coordinates.py::Coordinate.to_float']},
                intrinsics={'round_half_up': rnd, 'Coordinate': coordinate},
                hooks={'isinstance': lambda typ: None, 'prod_tuples': True, 'join_ifs': True, 'map_comprehensions': True,
                       'group_labels': {'a': ('false', 'Bool'), 'b': ('true', 'Bool')}, 'always_truthy': ('Prod Pt Bool',),
                       'local_type': local_type, 'sorted': sorted_hook, 'keywords': kw, 'opt_tests_as_issome': True, 'local_defs': True})


# ----------------------------------------------------------------------------------------------------------
# coordinates.py, _base.py, structures.py, multistructures.py :: the WKT writers   (C13)
#
# abstraction (that of Model/Wkt.lean): a float is an opaque `F`, `str(x)` is `io.shw x` (the only thing the writers do with a
# number); a `Coordinate` is the record `GV.Wkt.Coord F`; a shape is what the WKT code reads of it: a point its coordinate,
# a linestring its vertices, a polygon-like shape its `bounding_coords()` and its holes' `bounding_coords()` (`GV.Wkt.Poly F`,
# whatever `k`), a multi-shape the list of its members; a full ring additionally the two circles `GeoCircle(center, r)
# .bounding_coords()` and what `_draw_bounds()` returns (parameters `outerC innerC outerB innerB`).  Strings are Lean
# strings: f-strings and `+` are `++`, `sep.join(xs)` is `String.intercalate` (the translator subset behind the hook
# `wkt_text`).  The method a call reaches is found through
# the class hierarchy of the four files (C3 order), the instance of a class's writer is the definition *that class* inherits.

WKT_FILES = ('structures.py', 'multistructures.py', '_base.py', 'coordinates.py')


def wkt_unit():
    src = py2lean.SourceSet([_repo(f) for f in WKT_FILES])
    for t, lt in {'WFl': 'F', 'WCoord': 'GV.Wkt.Coord F', 'Str': 'String', 'WPoint': 'GV.Wkt.Coord F',
                  'WLine': 'List (GV.Wkt.Coord F)', 'WHole': 'List (GV.Wkt.Coord F)', 'WMPoint': 'List (GV.Wkt.Coord F)',
                  'WMLine': 'List (List (GV.Wkt.Coord F))', 'WMPoly': 'List (GV.Wkt.Poly F)', 'WRing': 'RingView F',
                  'WCen': 'Unit', 'WOutR': 'Unit', 'WInR': 'Unit',
                  # readers: the whole text is the WKT value the model reads it as, a ring text its coordinate texts, a
                  # coordinate text its tokens (`text.split(' ')`), a regex match of a coordinate that coordinate text
                  'Chr': 'Char', 'WText': 'GV.Wkt.Wkt', 'WRingT': 'List GV.Wkt.CoordT', 'WCoordT': 'GV.Wkt.CoordT',
                  'WMatch': 'GV.Wkt.CoordT', 'WTok': 'String', 'ZmDict': 'List (Char × F)', 'WK': 'Unit'}.items():
        py2lean.LEAN_TYPE.setdefault(t, lt)
    poly_like = {'WPolygon': ('GeoPolygon', 'polygon'), 'WBox': ('GeoBox', 'box'), 'WCircle': ('GeoCircle', 'circle'),
                 'WEllipse': ('GeoEllipse', 'ellipse')}
    for t in poly_like:
        py2lean.LEAN_TYPE.setdefault(t, 'GV.Wkt.Poly F')
    classes = {'WCoord': 'Coordinate', 'WPoint': 'GeoPoint', 'WLine': 'GeoLineString', 'WMPoint': 'MultiGeoPoint',
               'WMLine': 'MultiGeoLineString', 'WMPoly': 'MultiGeoPolygon', 'WRing': 'GeoRing'}
    classes.update({t: c for t, (c, _s) in poly_like.items()})

    def R(cls, attr, after=None):
        q = src.resolve(cls, attr, after=after)
        if q is None:
            raise Unsupported(f'no class of the hierarchy of `{cls}` defines `{attr}`')
        return q

    RINGS = 'List List WCoord'
    insts = [
        Inst('Coordinate.to_str', 'toStr', [('self', 'WCoord')], 'List Str', doc='`reverse` left at its default'),
        Inst('Coordinate.to_str', 'toStrRev', [('self', 'WCoord'), ('reverse', 'Bool')], 'List Str'),
        Inst('Coordinate.to_float', 'toFloat', [('self', 'WCoord')], 'List WFl', doc='`reverse` left at its default'),
        Inst(R('GeoPoint', '_linear_ring_to_wkt'), 'linearRingToWkt', [('ring', 'List WCoord')], 'Str'),
        Inst(R('GeoPoint', 'centroid'), 'pointCentroid', [('self', 'WPoint')], 'WCoord'),
        Inst(R('GeoPoint', 'has_z'), 'pointHasZ', [('self', 'WPoint')], 'Bool'),
        Inst(R('GeoPoint', 'has_m'), 'pointHasM', [('self', 'WPoint')], 'Bool'),
        Inst(R('GeoPoint', 'to_wkt'), 'pointToWkt', [('self', 'WPoint')], 'Str'),
        Inst(R('GeoLineString', 'has_z'), 'lineHasZ', [('self', 'WLine')], 'Bool'),
        Inst(R('GeoLineString', 'has_m'), 'lineHasM', [('self', 'WLine')], 'Bool'),
        Inst(R('GeoLineString', 'to_wkt'), 'lineToWkt', [('self', 'WLine')], 'Str'),
    ]
    for t, (cls, short) in poly_like.items():
        insts.append(Inst(R(cls, 'linear_rings'), short + 'LinearRings', [('self', t)], RINGS,
                          doc=f'as `{cls}` inherits it'))
        insts.append(Inst(R(cls, 'to_wkt'), short + 'ToWkt', [('self', t)], 'Str', doc=f'as `{cls}` inherits it'))
    ring_to_wkt = R('GeoRing', 'to_wkt')
    insts += [
        Inst(R('GeoRing', 'bounding_coords'), 'ringBoundingCoords', [('self', 'WRing')], 'Except List WCoord'),
        Inst(R('GeoRing', 'linear_rings'), 'ringLinearRings', [('self', 'WRing')], 'Except ' + RINGS),
        # what `super().to_wkt()` inside GeoRing.to_wkt reaches, on a ring (its `linear_rings()` is GeoRing's)
        Inst(R('GeoRing', 'to_wkt', after=ring_to_wkt.rsplit('.', 1)[0]), 'ringSuperToWkt', [('self', 'WRing')], 'Except Str',
             doc='as `super().to_wkt()` of a `GeoRing` reaches it'),
        Inst(ring_to_wkt, 'ringToWkt', [('self', 'WRing')], 'Except Str'),
        Inst(R('MultiGeoPoint', 'to_wkt'), 'multiPointToWkt', [('self', 'WMPoint')], 'Str'),
        Inst(R('MultiGeoLineString', 'to_wkt'), 'multiLineToWkt', [('self', 'WMLine')], 'Str'),
        Inst(R('MultiGeoPolygon', 'linear_rings'), 'multiPolyLinearRings', [('self', 'WMPoly')], 'List ' + RINGS),
        Inst(R('MultiGeoPolygon', 'to_wkt'), 'multiPolyToWkt', [('self', 'WMPoly')], 'Str'),
        # ---- readers: the hand-written logic behind the regular expressions
        Inst('Coordinate.__eq__', 'coordEq', [('self', 'WCoord'), ('other', 'WCoord')], 'Bool'),
        Inst('Coordinate.from_wkt', 'coordFromWkt', [('cls', 'WK'), ('wkt_str', 'WCoordT'), ('zm_order', 'Str')], 'Except WCoord'),
        Inst(R('GeoPoint', '_parse_wkt_linear_ring'), 'parseLinearRing',
             [('wkt_str', 'WText'), ('wkt_coords', 'WRingT'), ('min_points', 'Int'), ('closed', 'Bool')], 'Except List WCoord'),
        Inst(R('GeoPoint', '_parse_wkt_linear_ring'), 'parseLinearRingDefault', [('wkt_str', 'WText'), ('wkt_coords', 'WRingT')],
             'Except List WCoord', doc='`min_points`, `closed` left at their defaults'),
    ]

    def str_(tr, args):
        if [a.typ for a in args] != ['WFl']:
            raise Unsupported('str() of ' + ', '.join(a.typ for a in args))
        return Val(f'(io.shw {args[0].text})', 'Str')

    def circle(tr, args):
        # `GeoCircle(self.center, self.outer_radius)` / `… self.inner_radius)`: only its `bounding_coords()` is read
        which = {('WCen', 'WOutR'): 'outerC', ('WCen', 'WInR'): 'innerC'}.get(tuple(a.typ for a in args))
        if which is None or any(a.path is None or not a.path.startswith('self.') for a in args):
            raise Unsupported('GeoCircle(' + ', '.join(a.typ for a in args) + ')')
        return Val(f'{tr.env["self"].text}.{which}', 'WHole')

    ast = py2lean.ast

    def re_findall_coord(tr, args):
        if [a.typ for a in args] != ['WRingT']:
            raise Unsupported('_RE_COORD.findall(' + ', '.join(a.typ for a in args) + ')')
        return Val(args[0].text, 'List WCoordT')

    def re_findall_zm(tr, args):
        if [a.typ for a in args] != ['WText']:
            raise Unsupported('_RE_ZM.findall(' + ', '.join(a.typ for a in args) + ')')
        return Val(f'(tagList {args[0].text})', 'List Str')

    def re_search_coord(tr, args):
        if [a.typ for a in args] != ['WText']:
            raise Unsupported('_RE_COORD.search(' + ', '.join(a.typ for a in args) + ')')
        return Val(f'({args[0].text}.body.firstCoord)', 'Opt WMatch')

    def dict_(tr, args):
        if [a.typ for a in args] != ['List Prod Chr WTok']:
            raise Unsupported('dict(' + ', '.join(a.typ for a in args) + ')')
        v = Val(f'(dictFloat io {args[0].text})', 'ZmDict')
        v.raises = True                            # float() of a token that is not a number: ValueError
        return v

    def method(tr, recv, attr, args):
        if recv.typ == 'WCoordT' and attr == 'split' and len(args) == 1 and isinstance(args[0], ast.Constant) and args[0].value == ' ':
            return Val(recv.text, 'List Str')
        if recv.typ == 'ZmDict' and attr == 'get' and len(args) == 1 and isinstance(args[0], ast.Constant) \
                and isinstance(args[0].value, str) and len(args[0].value) == 1 and args[0].value.isalpha():
            return Val(f"(dictGet {recv.text} '{args[0].value}')", 'Opt WFl')
        return None

    def call_hook(tr, e):
        f = e.func
        # `map(float, xs)` is lazy: a list of tokens, each converted when (and if) it is consumed
        if isinstance(f, ast.Name) and f.id == 'map' and len(e.args) == 2 and not e.keywords and isinstance(e.args[0], ast.Name) \
                and e.args[0].id == 'float':
            xs = tr.expr(e.args[1])
            if xs.typ != 'List Str':
                raise Unsupported(f'map(float, {xs.typ})')
            return Val(xs.text, 'List WTok')
        # `Coordinate(*two_strings, z=…, m=…)`: `Coordinate.__init__` (float() of both, then the range wrapping: C08)
        if isinstance(f, ast.Name) and f.id == 'Coordinate' and len(e.args) == 1 and isinstance(e.args[0], ast.Starred) \
                and [k.arg for k in e.keywords] == ['z', 'm']:
            inner = e.args[0].value
            if isinstance(inner, ast.Call) and isinstance(inner.func, ast.Name) and inner.func.id == 'cast' and len(inner.args) == 2:
                inner = inner.args[1]
            xs, z, m = tr.expr(inner), tr.expr(e.keywords[0].value), tr.expr(e.keywords[1].value)
            if (xs.typ, z.typ, m.typ) != ('List Str', 'Opt WFl', 'Opt WFl'):
                raise Unsupported(f'Coordinate(*{xs.typ}, z={z.typ}, m={m.typ})')
            v = Val(f'(coordOfStrs io {xs.text} {z.text} {m.text})', 'WCoord')
            v.raises = True
            return v
        return None

    def bind_keywords(tr, e):
        # keyword arguments of a method call put in their positions (parameters skipped in between take their default)
        f = e.func
        if not isinstance(f, ast.Attribute) or not isinstance(f.value, ast.Name) or any(k.arg is None for k in e.keywords):
            return None
        cls = f.value.id if f.value.id in src.bases and f.value.id not in tr.env else \
            tr.u.class_of(tr.env[f.value.id].typ) if f.value.id in tr.env else None
        q = src.resolve(cls, f.attr) if cls in src.bases else None
        if q is None or len(e.keywords) != 1:
            return None                          # (several keyword values: their evaluation order would have to be kept)
        fn = src.get(q)
        names = [a.arg for a in fn.args.args]
        if 'staticmethod' not in src.decorators(q):
            names = names[1:]
        defaults = dict(zip(reversed(names), reversed(fn.args.defaults)))
        kw = {k.arg: k.value for k in e.keywords}
        if not set(kw) <= set(names[len(e.args):]):
            return None
        pos = list(e.args)
        for n in names[len(e.args): max(names.index(k) for k in kw) + 1]:
            if n in kw:
                pos.append(kw[n])
            elif n in defaults:
                pos.append(defaults[n])
            else:
                return None
        return ast.Call(func=f, args=pos, keywords=[])

    def eq_hook(tr, a, b):
        if a.typ == b.typ == 'WFl':
            return Val(f'(io.val {a.text} == io.val {b.text})', 'Bool')         # float == float: equal values
        if a.typ == b.typ == 'Opt WFl':
            return Val(f'(GV.Wkt.optEqv io {a.text} {b.text})', 'Bool')         # None == None, float == float, else False
        return None

    def super_method(tr, attr, args):
        # `super().m(**kwargs)` inside a method of class C on a receiver of class D: the next definition behind C in D's order
        owner = tr.inst.qual.rsplit('.', 1)[0]
        recv = tr.env.get('self')
        cls = tr.u.class_of(recv.typ) if recv else None
        q = src.resolve(cls, attr, after=owner) if cls else None
        if q is None or args:
            raise Unsupported(f'`{tr.inst.qual}`: super().{attr}')
        return tr.apply(tr.wk_find(q, (), recv.typ), [recv])

    attr = {('WCoord', 'longitude'): ('{}.lon', 'WFl'), ('WCoord', 'latitude'): ('{}.lat', 'WFl'),
            ('WCoord', 'z'): ('{}.z', 'Opt WFl'), ('WCoord', 'm'): ('{}.m', 'Opt WFl'),
            ('WPoint', 'coordinate'): ('{}', 'WCoord'), ('WLine', 'vertices'): ('{}', 'List WCoord'),
            ('WMPoint', 'geoshapes'): ('{}', 'List WPoint'), ('WMLine', 'geoshapes'): ('{}', 'List WLine'),
            ('WMPoly', 'geoshapes'): ('{}', 'List WPolygon'),
            ('WRing', 'holes'): ('{}.holes', 'List WHole'), ('WRing', 'angle_min'): ('{}.amin', 'R'),
            ('WRing', 'angle_max'): ('{}.amax', 'R'), ('WRing', 'center'): ('()', 'WCen'),
            ('WRing', 'outer_radius'): ('()', 'WOutR'), ('WRing', 'inner_radius'): ('()', 'WInR')}
    abstract = {('WHole', 'bounding_coords', ()): ('{0}', 'List WCoord'),
                ('WRing', '_draw_bounds', ()): ('({0}.outerB, {0}.innerB)', 'Prod (List WCoord) (List WCoord)'),
                ('WMatch', 'group', ()): ('{0}', 'WCoordT')}
    for t in poly_like:
        attr[(t, 'holes')] = ('{}.holes', 'List WHole')
        attr[(t, 'outline')] = ('{}.outline', 'List WCoord')
        abstract[(t, 'bounding_coords', ())] = ('{0}.outline', 'List WCoord')
    header = '\n'.join([
        'variable {F : Type}', '',
        '/-- what the WKT writers read of a `GeoRing`: the two angles, `GeoCircle(center, outer_radius / inner_radius)',
        '    .bounding_coords(**kwargs)`, the pair `_draw_bounds(**kwargs)` returns, and the holes\' `bounding_coords(**kwargs)` -/',
        'structure RingView (F : Type) where',
        '  amin : Rat', '  amax : Rat',
        '  outerC : List (GV.Wkt.Coord F)', '  innerC : List (GV.Wkt.Coord F)',
        '  outerB : List (GV.Wkt.Coord F)', '  innerB : List (GV.Wkt.Coord F)',
        '  holes : List (List (GV.Wkt.Coord F))', '',
        '/-- `_RE_ZM.findall(wkt_str)`: the Z/M tag of the text as a string, if the text has one -/',
        'def tagList (w : GV.Wkt.Wkt) : List String := if w.tag.isEmpty then [] else [String.ofList w.tag]', '',
        '/-- `dict(zip(keys, map(float, tokens)))`: `map` is lazy, only the tokens `zip` pairs with a key are converted -/',
        'def dictFloat (io : GV.Wkt.NumIO F) : List (Char × String) → Except String (List (Char × F))',
        '  | [] => .ok []',
        '  | (k, t) :: r =>',
        '    match io.rd t with',
        '    | none => .error "ERR:Value"',
        '    | some x =>',
        '      match dictFloat io r with',
        '      | .error e => .error e',
        '      | .ok d => .ok ((k, x) :: d)', '',
        '/-- `d.get(k)` of a dict built from pairs: the last pair with that key -/',
        'def dictGet (d : List (Char × F)) (k : Char) : Option F := (d.reverse.find? (·.1 == k)).map (·.2)', '',
        '/-- `Coordinate(*strs, z=z, m=m)`: two strings for longitude and latitude (`float()` of each: `ValueError`), then',
        '    the range wrapping of `Coordinate.__init__` (the model\'s `mkCoord`, tied to the source by C08) -/',
        'def coordOfStrs (io : GV.Wkt.NumIO F) : List String → Option F → Option F → Except String (GV.Wkt.Coord F)',
        '  | [lonT, latT], z, m =>',
        '    match io.rd lonT, io.rd latT with',
        '    | some lon, some lat => .ok (GV.Wkt.mkCoord io lon lat z m)',
        '    | _, _ => .error "ERR:Value"',
        '  | _, _, _ => .error "ERR:Type"'])
    classes['WK'] = 'GeoPoint'          # `cls` inside a reader: any shape class (they inherit `_parse_wkt_linear_ring` alike)

    def local_type(qual, name):
        if qual.endswith('.to_wkt'):
            return {'bbox_strs': 'List Str'}.get(name)
        return {('Coordinate.from_wkt', 'zm'): 'ZmDict'}.get((qual, name))

    def expr_stmt(tr, value):
        # `warn_once(…)` only logs
        return isinstance(value, ast.Call) and isinstance(value.func, ast.Name) and value.func.id == 'warn_once'

    return Unit('SrcWkt', src, 'GV.Src.Wkt', ['GeoVerif.Model.Wkt', 'GeoVerif.Model.PyPrelude', 'GeoVerif.Model.PyPreludeSeq'],
                insts, classes, header=header, attr_types=attr, abstract=abstract,
                intrinsics={'str': str_, 'GeoCircle': circle, '_RE_COORD.findall': re_findall_coord,
                            '_RE_ZM.findall': re_findall_zm, '_RE_COORD.search': re_search_coord, 'dict': dict_},
                hooks={'isinstance': lambda typ: {'WCoord': {'Coordinate'}}.get(typ), 'wkt_text': True,
                       'resolve': src.resolve, 'always_truthy': ('WMatch',), 'super_method': super_method,
                       'local_type': local_type, 'method': method, 'call_whole': call_hook, 'bind_keywords': bind_keywords,
                       'eq': eq_hook, 'expr_stmt': expr_stmt},
                ctx_params=[('io', 'GV.Wkt.NumIO F')])


UNITS = {'SrcTime': time_unit, 'SrcBase': base_unit, 'SrcMulti': multi_unit, 'SrcColl': coll_unit, 'SrcPip': pip_unit,
         'SrcMember': member_unit, 'SrcTrack': track_unit, 'SrcRelate': relate_unit, 'SrcCoord': coord_unit,
         'SrcCurved': curved_unit, 'SrcCalc': calc_unit}
UNITS['SrcFlood'] = flood_unit
UNITS['SrcHull'] = hull_unit
UNITS['SrcHullPoly'] = hullpoly_unit
UNITS['SrcHullMulti'] = hullmulti_unit
UNITS['SrcBounds'] = bounds_unit
UNITS['SrcMut'] = mut_unit
UNITS['SrcGeohash'] = geohash_unit
UNITS['SrcEq'] = eq_unit
UNITS['SrcSweep'] = sweep_unit
UNITS['SrcWkt'] = wkt_unit
UNITS['SrcCurvedGen'] = curvedgen_unit
UNITS['SrcXyz'] = xyz_unit


def geojson_unit():
    # geostructures GeoJSON exporters, ring orientation, time fields (C14): declared in srcunits_geojson.py
    import srcunits_geojson
    return srcunits_geojson.unit()


UNITS['SrcGeoJson'] = geojson_unit


def render(name):
    """(lean text, None) or (stub text, reason) when the current source is outside the translated subset"""
    try:
        return UNITS[name]().render(), None
    except Unsupported as e:
        reason = str(e)
    except (SyntaxError, OSError) as e:
        reason = f'{type(e).__name__}: {e}'
    except Exception as e:  # noqa - a construct the translator stumbles over (KeyError, RecursionError … inside py2lean or a
        # unit's own translator) is a source it cannot read: the unit is untranslatable, the run goes on (seeded change
        # C20-v1 sent SrcIo's reader into unbounded recursion and ended the run with exit 2 instead of a verdict)
        reason = f'translator error {type(e).__name__}: {str(e)[:200]}'
    stub = ('/-!\n# GENERATED by harness/py2lean.py — the current source could NOT be translated:\n'
            f'{reason}\n-/\n')
    return stub, reason


UNITS['SrcDms'] = dms_unit


def io_unit():
    # geostructures shapefile / GeoPandas adapters (C20): declared in srcunits_io.py (its own reading `io_adapters`)
    import srcunits_io
    return srcunits_io.unit()


UNITS['SrcIo'] = io_unit
