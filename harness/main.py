"""./check <Cxx> quick|thorough [--replay <file>]"""
import importlib
import json
import os
import sys
import traceback

sys.path.insert(0, os.path.dirname(os.path.abspath(__file__)))

# Every check runs in a process whose local time zone is NOT UTC (and has a fractional offset): the library promises that
# naive datetimes are read as UTC, and "naive = local time" slips (astimezone(), timestamp(), fromtimestamp() …) are
# invisible on a UTC host (seeded changes C05-n1, C06-n3).
os.environ['TZ'] = 'VRF-05:30'
import time as _time  # noqa: E402
_time.tzset()

import common  # noqa: E402


def main(argv):
    if argv[:1] == ['--regenerate']:
        # setup: bring lean/GeoVerif/Gen/*.lean in line with the current source before the cold build
        try:
            common.import_repo()
            import extract
            changed = extract.regenerate()
            broken = {u: w for u, w in extract.SOURCE_TIE.items() if w}
            print(f'regenerated: {changed or "nothing changed"}' + (f'; untranslatable units: {broken}' if broken else ''))
            return 0
        except Exception:
            traceback.print_exc()
            return 2
    if len(argv) < 2:
        print('usage: check <Cxx> quick|thorough | check <Cxx> --replay <file>')
        return 2
    pid = argv[0].upper()
    try:
        mod = importlib.import_module(pid.lower())
    except ModuleNotFoundError:
        print(f'no check for {pid}')
        return 2
    seed = int(os.environ.get('VERIF_SEED', '0') or 0)
    try:
        common.import_repo()
        if argv[1] == '--replay':
            return replay(mod, pid, argv[2])
        tier = argv[1]
        if tier not in ('quick', 'thorough'):
            print('tier must be quick or thorough')
            return 2
        import extract
        extract.regenerate()
        run = common.Run(pid, tier, seed)
        # wall-clock limit of the whole run: a generator (outside the per-call watchdog) that drives the library into a loop
        # must not hang the check forever
        import signal
        import threading
        limit = float(os.environ.get('VERIF_WALL_LIMIT', '1800' if tier == 'quick' else '7200'))

        def _expired(signum, frame):
            raise common.RunAborted(f'wall-clock limit of {limit:.0f} s reached')
        signal.signal(signal.SIGUSR1, _expired)
        timer = threading.Timer(limit, lambda: os.kill(os.getpid(), signal.SIGUSR1))
        timer.daemon = True
        timer.start()
        try:
            return mod.check(run)
        except common.InfraError:
            raise
        except common.RunAborted as e:
            print(f'[{pid}] run ended early: {e}')
            rc = run.finish(rule='run ended early (' + str(e) + '); the cases counted here were judged',
                            assumptions=['aborted run: later streams were not reached'],
                            checker_cmd='cd lean && lake build && lake env lean .lake/audit/%s.lean' % pid)
            # a limit reached without anything to report is a time-out (exit 2), never a clean verdict
            return rc if rc != 0 else 2
        except Exception as e:  # noqa
            # A generator (not a protected case) hit an exception.  If it was raised *inside the library* — the generators only
            # make calls that are valid on the unchanged tree — or if violations were already recorded, this is a verdict
            # about the code, not an infrastructure failure: report what there is.
            tb = traceback.extract_tb(sys.exc_info()[2])
            root = os.path.realpath(common.REPO) + os.sep
            in_impl = bool(tb) and os.path.realpath(tb[-1].filename).startswith(root)
            if not (in_impl or run.violations or run.disagreements):
                raise
            traceback.print_exc()
            if in_impl:
                where = f'{os.path.relpath(tb[-1].filename, common.REPO)}:{tb[-1].lineno} in {tb[-1].name}'
                caller = next((f for f in reversed(tb) if not os.path.realpath(f.filename).startswith(root)), tb[0])
                run.report('generator/library-call-raises',
                           f'a call the generators make on every run ({os.path.basename(caller.filename)}:{caller.lineno}: '
                           f'`{(caller.line or "").strip()[:120]}`) now raises {type(e).__name__}: {str(e)[:200]}',
                           {'stream': 'generator', 'line': (caller.line or '').strip(), 'impl': common.err_name(e),
                            'spec': 'no exception', 'raised_at': where, 'message': str(e)[:500]})
            return run.finish(rule='run aborted by an exception in a generator after the cases counted here; see the violation',
                              assumptions=['aborted run: later streams were not reached'],
                              checker_cmd='cd lean && lake build && lake env lean .lake/audit/%s.lean' % pid)
        finally:
            timer.cancel()
    except common.InfraError as e:
        print(f'INFRA-ERROR {pid}: {e}')
        return 2
    except Exception:
        traceback.print_exc()
        print(f'INFRA-ERROR {pid}: harness exception')
        return 2


def replay(mod, pid, path):
    """Re-run the cases of a replay file on the current tree: impl / model / spec side by side."""
    if not os.path.isabs(path):
        path = os.path.join(common.VERIF, path)
    doc = json.load(open(path))
    cases = doc.get('cases') or doc.get('correspondence_disagreements') or []
    lines = [c['line'] for c in cases if 'line' in c]
    print(f'replay of {path}: finding_key={doc.get("finding_key")} broken={doc.get("broken")}')
    if not lines:
        print(json.dumps(doc, indent=1)[:3000])
        return 0
    run = common.Run(pid, 'quick', 0)
    outs, err = common.run_driver(lines)
    bad = 0
    for i, ln in enumerate(lines):
        fn = mod.impl_for(ln)
        a = run.call_impl(fn, ln) if fn else '<no impl interpreter>'
        s = mod.spec_for(ln)(ln) if hasattr(mod, 'spec_for') and mod.spec_for(ln) else None
        m = outs[i] if outs else f'<driver error {err}>'
        print(f'  line : {ln[:400]}\n  impl : {a}\n  model: {m}\n  spec : {s}')
        if (s is not None and a != s) or (m != 'bad-op' and outs and a != m):
            bad += 1
    print(f'{bad} of {len(lines)} replayed cases still differ')
    return 1 if bad else 0


if __name__ == '__main__':
    sys.exit(main(sys.argv[1:]))
