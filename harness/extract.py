"""
Translator for *data*: imports the live geostructures from /repo and regenerates
lean/GeoVerif/Gen/*.lean (tables and constants the models and table theorems are stated over).
Files are rewritten only when their content changes, so an untouched repo costs no rebuild.
"""
import os
import common


def _write_if_changed(path, text):
    old = open(path).read() if os.path.exists(path) else None
    if old != text:
        os.makedirs(os.path.dirname(path), exist_ok=True)
        with open(path, 'w') as f:
            f.write(text)
        return True
    return False


def regenerate():
    changed = []
    gen = os.path.join(common.LEAN_DIR, 'GeoVerif', 'Gen')
    for name, fn in GENERATORS.items():
        if _write_if_changed(os.path.join(gen, name + '.lean'), fn()):
            changed.append(name)
    return changed


GENERATORS = {}
