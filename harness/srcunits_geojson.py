"""
Source unit SrcGeoJson (C14): the GeoJSON exporters, the ring-orientation logic and the time fields, translated from the
current text of `_geometry.py`, `structures.py`, `multistructures.py`, `_base.py`, `coordinates.py`, `utils/functions.py`.

Reading of the Python objects (the abstraction the equalities of `Props/C14Src.lean` are stated under):

* a `Coordinate` is the model's `GV.GeoJson.Pos` (longitude, latitude, z; instances are declared at `m = None`: M is outside
  C14's quantifier); `Coordinate(x, y, z=…)` is `Pos` after the constructor's normalisation (`GV.normalize`, C08's
  subject), `Coordinate(x, y, _bounded=False)` stores its arguments;
* a dict with string keys is the model's `Obj` (insertion order, `oset` / `oupdate` / `oerase`), a JSON value its `J`;
* a receiver is the record of the fields the code reads (`PolygonS`, `BoxS`, `CurvedS`, `RingS`, … declared in the generated
  file's header); a method that is dispatched dynamically (`to_geo_interface` in `to_geojson`, `linear_rings` of the members
  of a multi-polygon, `bounding_coords` of a hole or of a curved shape, `_draw_bounds`) is a *field* of the record, i.e.
  nothing is assumed about it;
* `**kwargs` of the exporters is the record `Kw` (`k`, truthiness of `include_bbox`, every other entry): `pop` removes
  the entry, `**kwargs` in a dict display spreads what is left;
* `datetime.isoformat` / `fromisoformat` are the model's runtime record `rt`; a datetime is its UTC instant.

Pinned (meaning assumed, body not translated): `sanitize_json` (the model's `sanitize rt`), the `bounds` of `GeoPolygon`,
`GeoLineString`, `GeoRing` and `MultiShapeBase` (C09's subject: they enter as the model's `bboxPos` / a field),
`BaseShape.__init__` (a `datetime` given as `dt` becomes the instant interval), `PolygonBase.__init__`.
"""
import ast
import os

import py2lean
from py2lean import Inst, Unit, Val, Unsupported, _paren, lean_type


class MultiSource(py2lean.Source):
    """the functions and methods of several source files under one roof (qualified names are unique across them)"""

    def __init__(self, paths):
        self.path = paths[0]
        self.tree = None
        self.defs = {}
        for p in paths:
            one = py2lean.Source(p)
            for k, v in one.defs.items():
                if k in self.defs:
                    raise Unsupported(f'`{k}` is defined in more than one of the unit\'s source files')
                self.defs[k] = v


HEADER = '''open GV GV.GeoJson

/-- `**kwargs` of the exporters, as far as they look at it: `k` (absent or `None`: `none`), the truthiness of
    `include_bbox`, and every other entry in call order -/
structure Kw where
  k : Option Nat := none
  bbox : Bool := false
  extra : Obj := []

/-- `**kwargs` spread into a dict display: what has not been popped -/
def Kw.rest (kw : Kw) : Obj :=
  (match kw.k with | some n => [("k", J.num n)] | none => []) ++
    (if kw.bbox then [("include_bbox", J.bool true)] else []) ++ kw.extra

/-- a `GeoPolygon` as far as the exporters read it -/
structure PolygonS where
  outline : List Pos
  holes : List HoleSrc

/-- a `GeoBox` -/
structure BoxS where
  nw : Pos
  se : Pos
  holes : List HoleSrc

/-- a `GeoCircle` / `GeoEllipse`: `bounding k` = `bounding_coords(k=k)` (C03's subject), `bounds` (C09's) -/
structure CurvedS where
  bounding : Option Nat → List Pos
  bounds : Except String (Rat × Rat × Rat × Rat)
  holes : List HoleSrc

/-- a `GeoRing`: `(outer k, inner k)` = `_draw_bounds(k=k)` -/
structure RingS where
  outer : Option Nat → List Pos
  inner : Option Nat → List Pos
  amin : Rat
  amax : Rat
  bounds : Except String (Rat × Rat × Rat × Rat)
  holes : List HoleSrc

/-- a `GeoLineString` -/
structure LineS where
  vertices : List Pos

/-- a `GeoPoint` -/
structure PointS where
  coordinate : Pos

/-- a member of a `MultiGeoPolygon`: `linear_rings(**kwargs)` is dispatched on its class -/
structure PolyM where
  linearRings : Kw → Except String (List (List Pos))

/-- the multi-shapes: their members, and `bounds` (`MultiShapeBase.bounds`, C09's subject) -/
structure MPolyS where
  geoshapes : List PolyM
  bounds : Except String (Rat × Rat × Rat × Rat)

structure MLineS where
  geoshapes : List LineS
  bounds : Except String (Rat × Rat × Rat × Rat)

structure MPointS where
  geoshapes : List PointS
  bounds : Except String (Rat × Rat × Rat × Rat)

/-- iterating a JSON value as Python does: a list gives its items, a string its characters, a dict its keys; anything
    else is a `TypeError` -/
def jIter : J → Except String (List J)
  | .arr xs => .ok xs
  | .str s => .ok (s.toList.map fun c => J.str (String.singleton c))
  | .obj kvs => .ok (kvs.map fun kv => J.str kv.1)
  | _ => .error "ERR:Type"

/-- any shape, for `to_geojson` and the time fields: `dt`, `_properties`, and `to_geo_interface(**kwargs)` (dispatched
    on the class) -/
structure ShapeS where
  dt : Option TI
  props : Obj
  geoInterface : Kw → Except String Obj'''


PINS = {
    # helpers whose meaning this unit assumes without translating them (py2lean.pin_of)
    'structures.py::GeoLineString.bounds': '3b08d5f18e5fcc58',       # the vertex list's bounding box (`bboxPos`), C09's subject
    'structures.py::GeoRing.bounds': '8203a28ab6dec734',             # enters as a field of the receiver
    '_base.py::MultiShapeBase.bounds': '841b11fa2c70a0c3',           # enters as a field of the receiver
    'utils/functions.py::sanitize_json': '4fe0b40e67ddbf69',          # the model's `sanitize rt` (recursion over a JSON value)
    '_base.py::BaseShape.__init__': '9f9f957bce376782',              # a datetime `dt` becomes the instant interval
    'structures.py::PolygonBase.__init__': 'e3b6c67c55a7b8b4',       # stores `holes`; GeoPolygon.__init__ adds `outline`
}

RECEIVERS = ('GjPolygon', 'GjBox', 'GjCurved', 'GjRing', 'GjLine', 'GjPoint', 'GjMPoly', 'GjMLine', 'GjMPoint', 'GjShape')


def unit():
    import srcunits
    repo = srcunits._repo
    src = MultiSource([repo('structures.py'), repo('_geometry.py'), repo('_base.py'), repo('multistructures.py'),
                       repo('coordinates.py'), os.path.join(os.path.dirname(repo('x')), 'utils', 'functions.py')])
    B4 = 'Tuple4 R'
    KW = ('kwargs', 'GjKw')
    IMPORT_PARAMS = [('cls', 'None'), ('gjson', 'JObj'), ('time_start_property', 'Str'), ('time_end_property', 'Str'),
                     ('time_format', 'None')]
    RINGS = 'List List Pos'
    insts = [
        # --- ring orientation
        Inst('Coordinate.__eq__', 'coordEq', [('self', 'Pos'), ('other', 'Pos')], 'Bool'),
        Inst('ensure_edge_bounds', 'ensureEdgeBounds', [('coord1', 'Pos'), ('coord2', 'Pos')], 'Prod Pos Pos'),
        Inst('is_counter_clockwise', 'isCounterClockwise', [('bounds', 'List Pos')], 'Except Bool'),
        Inst('GeoPolygon.__init__', 'polygonInit',
             [('self', 'None'), ('outline', 'List Pos'), ('holes', 'List HoleSrc'), ('dt', 'Opt TI'), ('properties', 'JObj'),
              ('_is_hole', 'Bool')], 'Except List Pos', doc='the outline the constructor stores'),
        Inst('GeoPolygon.__init__', 'polygonInitDefault', [('self', 'None'), ('outline', 'List Pos')], 'Except List Pos',
             doc='`GeoPolygon(outline)`: the outline the constructor stores'),
        # --- positions, rings
        Inst('Coordinate.to_float', 'toFloat', [('self', 'Pos')], 'List R'),
        Inst('GeoPolygon.bounding_coords', 'polygonBoundingCoords', [('self', 'GjPolygon')], 'List Pos', kw=KW),
        Inst('GeoBox.bounding_coords', 'boxBoundingCoords', [('self', 'GjBox')], 'Except List Pos', kw=KW),
        Inst('GeoRing.bounding_coords', 'ringBoundingCoords', [('self', 'GjRing')], 'Except List Pos', kw=KW),
        Inst('PolygonBase.linear_rings', 'polygonLinearRings', [('self', 'GjPolygon')], 'Except ' + RINGS, kw=KW),
        Inst('PolygonBase.linear_rings', 'boxLinearRings', [('self', 'GjBox')], 'Except ' + RINGS, kw=KW),
        Inst('PolygonBase.linear_rings', 'curvedLinearRings', [('self', 'GjCurved')], 'Except ' + RINGS, kw=KW),
        Inst('GeoRing.linear_rings', 'ringLinearRings', [('self', 'GjRing')], 'Except ' + RINGS, kw=KW),
        Inst('MultiGeoPolygon.linear_rings', 'mpolyLinearRings', [('self', 'GjMPoly')], 'Except List ' + RINGS, kw=KW),
        # --- bounds that are plain field reads
        Inst('GeoBox.bounds', 'boxBounds', [('self', 'GjBox')], B4),
        Inst('GeoPoint.bounds', 'pointBounds', [('self', 'GjPoint')], B4),
        Inst('GeoPoint.centroid', 'pointCentroid', [('self', 'GjPoint')], 'Pos'),
        # --- the geometry member
        Inst('PolygonBase.to_geo_interface', 'polygonToGeoInterface', [('self', 'GjPolygon')], 'Except JObj', kw=KW),
        Inst('PolygonBase.to_geo_interface', 'boxToGeoInterface', [('self', 'GjBox')], 'Except JObj', kw=KW),
        Inst('PolygonBase.to_geo_interface', 'curvedToGeoInterface', [('self', 'GjCurved')], 'Except JObj', kw=KW),
        Inst('PolygonBase.to_geo_interface', 'ringToGeoInterface', [('self', 'GjRing')], 'Except JObj', kw=KW),
        Inst('GeoLineString.__geo_interface__', 'lineGeoInterface', [('self', 'GjLine')], 'JObj'),
        Inst('GeoLineString.to_geo_interface', 'lineToGeoInterface', [('self', 'GjLine')], 'Except JObj', kw=KW),
        Inst('GeoPoint.__geo_interface__', 'pointGeoInterface', [('self', 'GjPoint')], 'JObj'),
        Inst('GeoPoint.to_geo_interface', 'pointToGeoInterface', [('self', 'GjPoint')], 'Except JObj', kw=KW),
        Inst('MultiGeoLineString.__geo_interface__', 'mlineGeoInterface', [('self', 'GjMLine')], 'JObj'),
        Inst('MultiGeoLineString.to_geo_interface', 'mlineToGeoInterface', [('self', 'GjMLine')], 'Except JObj', kw=KW),
        Inst('MultiGeoPoint.__geo_interface__', 'mpointGeoInterface', [('self', 'GjMPoint')], 'JObj'),
        Inst('MultiGeoPoint.to_geo_interface', 'mpointToGeoInterface', [('self', 'GjMPoint')], 'Except JObj', kw=KW),
        Inst('MultiGeoPolygon.to_geo_interface', 'mpolyToGeoInterface', [('self', 'GjMPoly')], 'Except JObj', kw=KW),
        # --- the Feature, its properties and the time fields
        Inst('BaseShapeProtocol.start', 'startDt', [('self', 'GjShape')], 'Except Dt'),
        Inst('BaseShapeProtocol.end', 'endDt', [('self', 'GjShape')], 'Except Dt'),
        Inst('BaseShapeProtocol.properties', 'properties', [('self', 'GjShape')], 'Except JObj'),
        Inst('BaseShapeProtocol._properties_json', 'propertiesJson', [('self', 'GjShape')], 'Except JObj'),
        Inst('BaseShapeProtocol.to_geojson', 'toGeoJson', [('self', 'GjShape'), ('properties', 'Opt JObj')], 'Except JObj', kw=KW),
        Inst('get_dt_from_geojson_props', 'getDtFromGeojsonProps',
             [('rec', 'JObj'), ('time_start_field', 'Str'), ('time_end_field', 'Str'), ('time_format', 'None')],
             'Except Prod (Opt TI) JObj', state=['rec'], doc='the result and `rec` after the call'),
        # --- the importers
        Inst('GeoPoint.from_geojson', 'pointFromGeoJson', IMPORT_PARAMS, 'Except ShapeT'),
        Inst('GeoLineString.from_geojson', 'lineFromGeoJson', IMPORT_PARAMS, 'Except ShapeT'),
        Inst('MultiGeoPoint.from_geojson', 'mpointFromGeoJson', IMPORT_PARAMS, 'Except ShapeT'),
        Inst('MultiGeoLineString.from_geojson', 'mlineFromGeoJson', IMPORT_PARAMS, 'Except ShapeT'),
        Inst('GeoPolygon.from_geojson', 'polygonFromGeoJson', IMPORT_PARAMS, 'Except ShapeT'),
        Inst('MultiGeoPolygon.from_geojson', 'mpolyFromGeoJson', IMPORT_PARAMS, 'Except ShapeT'),
    ]
    METHODS = {}
    for i in insts:
        if i.params and i.params[0][0] == 'self' and i.params[0][1] != 'None':
            METHODS[(i.params[0][1], i.qual.split('.')[-1])] = i
    for t, lt in (('Pos', 'GV.GeoJson.Pos'), ('HoleSrc', 'GV.GeoJson.HoleSrc'), ('J', 'GV.GeoJson.J'), ('JObj', 'GV.GeoJson.Obj'),
                  ('Str', 'String'), ('GjKw', 'Kw'), ('Nat', 'Nat'), ('ShapeT', 'GV.GeoJson.Shape'), ('GjPolyV', 'GV.GeoJson.Poly')):
        py2lean.LEAN_TYPE.setdefault(t, lt)
    # the receiver records are declared in the generated file's header
    for t, lt in (('GjPolygon', 'PolygonS'), ('GjBox', 'BoxS'), ('GjCurved', 'CurvedS'), ('GjRing', 'RingS'), ('GjLine', 'LineS'),
                  ('GjPoint', 'PointS'), ('GjMPoly', 'MPolyS'), ('GjMLine', 'MLineS'), ('GjMPoint', 'MPointS'), ('GjShape', 'ShapeS'),
                  ('GjPolyM', 'PolyM')):
        py2lean.LEAN_TYPE.setdefault(t, lt)

    # ---- values as JSON values ---------------------------------------------------------------------------
    def to_j(tr, v):
        t = v.typ
        if t == 'J':
            return v.text
        if t == 'JObj':
            return f'(GV.GeoJson.J.obj {v.text})'
        if t == 'Str':
            return f'(GV.GeoJson.J.str {v.text})'
        if t == 'R':
            return f'(GV.GeoJson.J.num {v.text})'
        if t == 'Dt':
            return f'(GV.GeoJson.J.dt {v.text})'
        if t == 'Bool':
            return f'(GV.GeoJson.J.bool {v.text})'
        if t == 'None':
            return 'GV.GeoJson.J.null'
        if t == 'Tuple4 R':
            x = _paren(v.text)
            return (f'(GV.GeoJson.J.arr [GV.GeoJson.J.num {x}.1, GV.GeoJson.J.num {x}.2.1, GV.GeoJson.J.num {x}.2.2.1, '
                    f'GV.GeoJson.J.num {x}.2.2.2])')
        if t.startswith('List '):
            x = tr.gensym('j')
            return f'(GV.GeoJson.J.arr (({v.text}).map (fun {x} => {to_j(tr, Val(x, t[5:]))})))'
        raise Unsupported(f'a value of type {t} inside a JSON document')

    # ---- hooks ------------------------------------------------------------------------------------------
    def eq_hook(tr, a, b):
        if a.typ == b.typ and a.typ in ('Str', 'Opt R'):
            return Val(f'({a.text} == {b.text})', 'Bool')
        if a.typ == 'J' and b.typ == 'Str':
            x = tr.gensym('s')
            return Val(f'(match {a.text} with | GV.GeoJson.J.str {x} => {x} == {b.text} | _ => false)', 'Bool')
        return None

    def truth_hook(tr, v):
        if v.typ == 'JObj':
            return f'!({v.text}).isEmpty'
        if v.typ == 'J':
            return f'({v.text}).truthy'
        if v.typ == 'R':
            return f'({v.text} != 0)'
        return None

    def coerce_hook(tr, v, want):
        if v.typ.startswith('Pair ') and want == f'Prod {v.typ[5:]} {v.typ[5:]}':
            return v.text
        if want == 'Opt TI' and v.typ == 'Dt':
            # a datetime handed on as a shape's `dt` is the instant interval (`BaseShape.__init__`, pinned)
            return f'some ⟨{v.text}, {v.text}⟩'
        if want == 'Opt TI' and v.typ == 'Opt Dt':
            x = tr.gensym('x')
            return f'(({v.text}).map (fun {x} => (⟨{x}, {x}⟩ : GV.TI)))'
        return None

    def expr_stmt(tr, e):
        # logging has no effect on the values; `super().__init__(holes=…, dt=…, properties=…)` stores those (pinned bases)
        if isinstance(e, ast.Call):
            f = ast.unparse(e.func)
            if f in ('LOGGER.warning', 'LOGGER.info', 'LOGGER.debug', 'warn_once'):
                return True
            if tr.is_super_init(ast.Call(func=e.func, args=e.args, keywords=[]), any_args=True) and tr.inst.qual == 'GeoPolygon.__init__' \
                    and not e.args and all(k.arg in ('holes', 'dt', 'properties') and isinstance(k.value, ast.Name) and k.value.id == k.arg
                                           for k in e.keywords):
                return True
        return False

    def call_hook(tr, e):
        f = e.func
        if isinstance(f, ast.Name) and f.id == 'Coordinate' and e.args:
            args = [tr.expr(a) for a in e.args]
            kws = {k.arg: k.value for k in e.keywords}
            if len(args) != 2 or any(a.typ != 'R' for a in args) or not set(kws) <= {'z', '_bounded'}:
                raise Unsupported(f'`{ast.unparse(e)[:80]}`: only Coordinate(lon, lat[, z=…][, _bounded=False]) is read')
            z = 'none'
            if 'z' in kws:
                zv = tr.expr(kws['z'])
                if zv.typ not in ('Opt R', 'None'):
                    raise Unsupported(f'Coordinate(z=…) of type {zv.typ}')
                z = zv.text if zv.typ == 'Opt R' else 'none'
            if '_bounded' in kws:
                bv = kws['_bounded']
                if not (isinstance(bv, ast.Constant) and bv.value is False):
                    raise Unsupported('Coordinate(_bounded=…) other than the literal False')
                return Val(f'(GV.GeoJson.Pos.mk {args[0].text} {args[1].text} {z})', 'Pos')
            ll = f'(GV.normalize true {args[0].text} {args[1].text})'
            return Val(f'(GV.GeoJson.Pos.mk {ll}.1 {ll}.2 {z})', 'Pos')
        if isinstance(f, ast.Name) and f.id == 'Coordinate' and not e.args and len(e.keywords) == 1 and e.keywords[0].arg is None:
            # `Coordinate(**dict(zip(('longitude', 'latitude', 'z'), x)))`: the model's `posOfJ` (constructor: C08's subject)
            inner = e.keywords[0].value
            ok = (isinstance(inner, ast.Call) and ast.unparse(inner.func) == 'dict' and len(inner.args) == 1 and not inner.keywords
                  and isinstance(inner.args[0], ast.Call) and ast.unparse(inner.args[0].func) == 'zip' and len(inner.args[0].args) == 2
                  and ast.unparse(inner.args[0].args[0]) == "('longitude', 'latitude', 'z')")
            x = tr.expr(inner.args[0].args[1]) if ok else None
            if not ok or x.typ != 'J':
                raise Unsupported(f'`{ast.unparse(e)[:80]}`: only the (longitude, latitude, z) keyword spread of a JSON position is read')
            r = Val(f'(GV.GeoJson.posOfJ {x.text})', 'Pos')
            r.raises = True
            return r
        if isinstance(f, ast.Name) and f.id in src.defs and any(i.state for i in insts if i.qual == f.id) and not e.keywords:
            # a function that mutates a dict it is handed: only a dict made in this function may be handed over
            args = [tr.expr(a) for a in e.args]
            inst = tr.u.find(f.id, tuple(a.typ for a in args))
            names = [p for p, _t in inst.params]
            for sname in inst.state:
                a_node, a_val = e.args[names.index(sname)], args[names.index(sname)]
                if not (isinstance(a_node, ast.Name) and getattr(a_val, 'fresh_dict', False)):
                    raise Unsupported(f'`{tr.inst.qual}`: `{f.id}` mutates `{ast.unparse(a_node)}`, which is not a dict made in this function')
            call = ' '.join([inst.lean] + [n for n, _t in tr.u.ctx_params] + [_paren(a.text) for a, (_n, t) in zip(args, inst.params) if t != 'None'])
            r = tr.gensym('r')
            tr.pending.append((r, f'({call})'))
            for k_, sname in enumerate(inst.state):
                a_node = e.args[names.index(sname)]
                proj = f'{r}.2' if len(inst.state) == 1 else None
                if proj is None:
                    raise Unsupported('several mutated parameters')
                nv = Val(proj, 'JObj', path=a_node.id)
                nv.fresh_dict = True
                tr.env[a_node.id] = nv
            return Val(f'{r}.1', py2lean._prod_parts(inst.value_type)[0])
        if isinstance(f, ast.Name) and f.id in CTORS:
            return CTORS[f.id](tr, e)
        if isinstance(f, ast.Name) and f.id == 'dict' and len(e.args) == 1 and not e.keywords:
            v = tr.expr(e.args[0])
            if v.typ == 'J':
                p_ = tr.gensym('p')
                r = Val(f'(match {v.text} with | GV.GeoJson.J.obj {p_} => Except.ok {p_} | _ => Except.error "ERR:Type")', 'JObj')
                r.raises = True                    # `dict(x)` of a non-dict (the importers only meet it on malformed input)
                r.fresh_dict = True
                return r
            if v.typ != 'JObj':
                raise Unsupported(f'dict() of {v.typ}')
            r = Val(v.text, 'JObj')                  # a new dict with the same entries
            r.fresh_dict = True
            return r
        if isinstance(f, ast.Attribute):
            r = method_call(tr, e)
            if r is not None:
                return r
        if e.keywords:
            raise Unsupported(f'`{tr.inst.qual}`: keyword arguments in `{ast.unparse(e)[:80]}`')
        return None

    def ctor_shape(geom_of):
        """`Cls(x, dt=dt, properties=properties)`: the imported shape (the model's `Shape`); `Cls(x)`: a member"""
        def f(tr, e):
            kws = {k.arg: k.value for k in e.keywords}
            if len(e.args) != 1 or not set(kws) <= {'dt', 'properties', 'holes'}:
                raise Unsupported(f'`{ast.unparse(e)[:80]}`')
            return geom_of(tr, e, tr.expr(e.args[0]), kws)
        return f

    def shape_of_vals(geom_text, dt, props):
        if dt.typ not in ('Opt TI',) or props.typ != 'JObj':
            raise Unsupported(f'shape constructor with dt: {dt.typ}, properties: {props.typ}')
        return Val(f'(GV.GeoJson.Shape.mk {geom_text} {dt.text} {props.text})', 'ShapeT')

    def shape_of(tr, geom_text, kws):
        return shape_of_vals(geom_text, tr.expr(kws['dt']), tr.expr(kws['properties']))

    def point_ctor(tr, e, x, kws):
        if x.typ != 'Pos' or 'holes' in kws:
            raise Unsupported(f'GeoPoint({x.typ})')
        if not kws:
            return Val(f'(PointS.mk {x.text})', 'GjPoint')
        return shape_of(tr, f'(GV.GeoJson.SGeom.point {x.text})', kws)

    def line_ctor(tr, e, x, kws):
        if x.typ != 'List Pos' or 'holes' in kws:
            raise Unsupported(f'GeoLineString({x.typ})')
        if not kws:
            return Val(f'(LineS.mk {x.text})', 'GjLine')
        return shape_of(tr, f'(GV.GeoJson.SGeom.line {x.text})', kws)

    def mpoint_ctor(tr, e, x, kws):
        if x.typ != 'List GjPoint' or set(kws) != {'dt', 'properties'}:
            raise Unsupported(f'MultiGeoPoint({x.typ})')
        m = tr.gensym('m')
        return shape_of(tr, f'(GV.GeoJson.SGeom.mpoint (({x.text}).map (fun {m} => {m}.coordinate)))', kws)

    def mline_ctor(tr, e, x, kws):
        if x.typ != 'List GjLine' or set(kws) != {'dt', 'properties'}:
            raise Unsupported(f'MultiGeoLineString({x.typ})')
        m = tr.gensym('m')
        return shape_of(tr, f'(GV.GeoJson.SGeom.mline (({x.text}).map (fun {m} => {m}.vertices)))', kws)

    def polygon_ctor(tr, e, x, kws):
        # the outline goes through the translated constructor (`polygonInitDefault`); a hole object is its outline
        if x.typ != 'List Pos':
            raise Unsupported(f'GeoPolygon({x.typ})')
        ctx = ' '.join(n for n, _t in tr.u.ctx_params)
        init = Val(f'(polygonInitDefault {ctx} {_paren(x.text)})', 'List Pos')
        init.raises = True
        if not kws:
            return init
        holes = tr.expr(kws['holes']) if 'holes' in kws else Val('()', 'None')
        if holes.typ not in ('List List Pos', 'None'):
            raise Unsupported(f'GeoPolygon(holes=…) of type {holes.typ}')
        hs = holes.text if holes.typ != 'None' else '[]'
        if set(kws) == {'holes'}:
            o = tr.gj_bind(init)
            return Val(f'(GV.GeoJson.Poly.mk {o} {hs})', 'GjPolyV')
        if set(kws) != {'holes', 'dt', 'properties'}:
            raise Unsupported(f'`{ast.unparse(e)[:80]}`')
        dt, props = tr.expr(kws['dt']), tr.expr(kws['properties'])       # arguments first, then the constructor's body
        o = tr.gj_bind(init)
        return shape_of_vals(f'(GV.GeoJson.SGeom.polygon (GV.GeoJson.Poly.mk {o} {hs}))', dt, props)

    def mpoly_ctor(tr, e, x, kws):
        if x.typ != 'List GjPolyV' or set(kws) != {'dt', 'properties'}:
            raise Unsupported(f'MultiGeoPolygon({x.typ})')
        return shape_of(tr, f'(GV.GeoJson.SGeom.mpoly {x.text})', kws)

    CTORS = {'GeoPolygon': ctor_shape(polygon_ctor), 'MultiGeoPolygon': ctor_shape(mpoly_ctor), 'GeoPoint': ctor_shape(point_ctor), 'GeoLineString': ctor_shape(line_ctor), 'MultiGeoPoint': ctor_shape(mpoint_ctor),
             'MultiGeoLineString': ctor_shape(mline_ctor)}

    def j_default(node):
        if node is None or (isinstance(node, ast.Constant) and node.value is None):
            return 'GV.GeoJson.J.null'
        if isinstance(node, ast.Dict) and not node.keys:
            return '(GV.GeoJson.J.obj [])'
        if isinstance(node, ast.List) and not node.elts:
            return '(GV.GeoJson.J.arr [])'
        raise Unsupported(f'default `{ast.unparse(node)}` of a dict lookup')

    def or_dict(tr, v):
        # `x or {}` where x is a JSON value
        if v.typ != 'J':
            raise Unsupported(f'`… or {{}}` on {v.typ}')
        return Val(f'(if ({v.text}).truthy then {v.text} else GV.GeoJson.J.obj [])', 'J')

    def iter_hook(tr, xs):
        if xs.typ == 'J':
            r = tr.gensym('r')
            tr.pending.append((r, f'(jIter {xs.text})'))
            return Val(r, 'List J')
        return None

    def const_key(node, allowed):
        return isinstance(node, ast.Constant) and node.value in allowed

    def kw_of_call(tr, e):
        """the `Kw` record a call hands to a `**kwargs` parameter: `k=…`, `include_bbox=…`, `**kwargs`"""
        if not e.keywords:
            return '({} : Kw)'
        if len(e.keywords) == 1 and e.keywords[0].arg is None:
            v = tr.expr(e.keywords[0].value)
            if v.typ != 'GjKw':
                raise Unsupported(f'`**` of {v.typ} in a call')
            return v.text
        fields = {}
        for k in e.keywords:                     # evaluated left to right
            if k.arg == 'k':
                v = tr.expr(k.value)
                if v.typ not in ('Opt Nat', 'None'):
                    raise Unsupported(f'k= of type {v.typ}')
                fields['k'] = v.text if v.typ == 'Opt Nat' else 'none'
            elif k.arg == 'include_bbox':
                v = tr.expr(k.value)
                fields['bbox'] = 'false' if v.typ == 'None' else tr.truth(v)
            else:
                raise Unsupported(f'`{tr.inst.qual}`: keyword `{k.arg}` in `{ast.unparse(e)[:80]}`')
        return '({ ' + ', '.join(f'{n} := {t}' for n, t in fields.items()) + ' } : Kw)'

    def method_call(tr, e):
        f = e.func
        if not isinstance(f.value, (ast.Name, ast.Attribute)):
            return None
        try:
            recv = tr.expr(f.value)
        except Unsupported:
            return None
        t, m = recv.typ, f.attr
        name = f.value.id if isinstance(f.value, ast.Name) else None
        if t == 'GjKw' and not e.keywords:
            # the keyword dictionary of an exporter
            if m == 'get' and len(e.args) == 1 and const_key(e.args[0], ('k',)):
                return Val(f'{recv.text}.k', 'Opt Nat')
            if m == 'get' and len(e.args) == 1 and const_key(e.args[0], ('include_bbox',)):
                return Val(f'{recv.text}.bbox', 'Bool')
            if m == 'pop' and len(e.args) == 2 and const_key(e.args[1], (None,)) and name and const_key(e.args[0], ('k', 'include_bbox')):
                fld = 'k' if e.args[0].value == 'k' else 'bbox'
                tr.env[name] = Val(f'({{ {recv.text} with {fld} := {"none" if fld == "k" else "false"} }} : Kw)', 'GjKw', path=name)
                return Val(f'{recv.text}.{fld}', 'Opt Nat' if fld == 'k' else 'Bool')
            raise Unsupported(f'`{tr.inst.qual}`: `{ast.unparse(e)[:80]}` on the keyword dictionary')
        if t in ('JObj', 'J') and m == 'get' and not e.keywords and len(e.args) in (1, 2):
            key = tr.expr(e.args[0])
            if key.typ != 'Str':
                raise Unsupported(f'dict lookup with a key of type {key.typ}')
            dflt = j_default(e.args[1] if len(e.args) == 2 else None)
            if t == 'JObj':
                return Val(f'((GV.GeoJson.oget {recv.text} {key.text}).getD {dflt})', 'J')
            g_ = tr.gensym('g')                 # a JSON value that is not a dict has no `.get` (AttributeError)
            r = Val(f'(match {recv.text} with | GV.GeoJson.J.obj {g_} => Except.ok ((GV.GeoJson.oget {g_} {key.text}).getD {dflt}) '
                    f'| _ => Except.error "ERR:Attr")', 'J')
            r.raises = True
            return r
        if t == 'JObj' and not e.keywords:
            if m == 'copy' and not e.args:
                r = Val(recv.text, 'JObj')
                r.fresh_dict = True
                return r
            if m == 'pop' and len(e.args) == 2 and const_key(e.args[1], (None,)) and name and name in tr.inst.state:
                key = tr.expr(e.args[0])
                if key.typ != 'Str':
                    raise Unsupported(f'dict pop with a key of type {key.typ}')
                tr.env[name] = Val(f'(GV.GeoJson.oerase {recv.text} {key.text})', 'JObj', path=name)
                return Val(f'((GV.GeoJson.oget {recv.text} {key.text}).getD GV.GeoJson.J.null)', 'J')      # `None` is JSON null
            raise Unsupported(f'`{tr.inst.qual}`: `{ast.unparse(e)[:80]}` on a dict')
        if t == 'HoleSrc' and m == 'bounding_coords' and not e.args:
            kw = kw_of_call(tr, e)
            return Val(f'({recv.text}.bounding {kw}.k)', 'List Pos')
        if t == 'GjCurved' and m == 'bounding_coords' and not e.args:
            kw = kw_of_call(tr, e)
            return Val(f'({recv.text}.bounding {kw}.k)', 'List Pos')
        if t == 'GjRing' and m == '_draw_bounds' and not e.args:
            kw = kw_of_call(tr, e)
            return Val(f'({recv.text}.outer {kw}.k, {recv.text}.inner {kw}.k)', 'Prod (List Pos) (List Pos)')
        if t == 'GjPolyM' and m == 'linear_rings' and not e.args:
            r = Val(f'({recv.text}.linearRings {kw_of_call(tr, e)})', RINGS)
            r.raises = True
            return r
        if t == 'GjShape' and m == 'to_geo_interface' and not e.args:
            r = Val(f'({recv.text}.geoInterface {kw_of_call(tr, e)})', 'JObj')
            r.raises = True
            return r
        inst = METHODS.get((t, m))
        if inst is not None:
            args = [tr.expr(a) for a in e.args]
            if [a.typ for a in args] != [pt for _n, pt in inst.params[1:]]:
                raise Unsupported(f'`{inst.qual}` applied to ({", ".join(a.typ for a in args)})')
            if e.keywords and not inst.kw:
                raise Unsupported(f'`{inst.qual}` takes no keyword arguments here')
            ctx = [n for n, _t in tr.u.ctx_params]
            parts = [inst.lean] + ctx + [_paren(a.text) for a in [recv] + args] + ([kw_of_call(tr, e)] if inst.kw else [])
            v = Val('(' + ' '.join(parts) + ')', inst.value_type)
            v.raises = inst.raises
            return v
        if t in RECEIVERS or t in ('GjKw', 'JObj', 'HoleSrc', 'GjPolyM', 'Pos'):
            raise Unsupported(f'`{tr.inst.qual}`: method `.{m}` of {t}')
        return None

    def as_dict(tr, d):
        if d.typ == 'GjKw':
            return Val(f'(Kw.rest {d.text})', 'JObj')
        return None

    PINNED_BOUNDS = {'GjPolygon': '(GV.GeoJson.bboxPos {}.outline)', 'GjLine': '(GV.GeoJson.bboxPos {}.vertices)',
                     'GjCurved': '{}.bounds', 'GjRing': '{}.bounds', 'GjMPoly': '{}.bounds', 'GjMLine': '{}.bounds', 'GjMPoint': '{}.bounds'}

    def expr_hook(tr, e):
        # `self.bounds` of the shapes whose `bounds` is pinned / abstract (may raise ValueError on an empty vertex list)
        if isinstance(e, ast.Attribute) and e.attr == 'bounds' and isinstance(e.value, ast.Name) and e.value.id in tr.env \
                and tr.env[e.value.id].typ in PINNED_BOUNDS:
            recv = tr.env[e.value.id]
            r = Val(PINNED_BOUNDS[recv.typ].format(recv.text), B4)
            r.raises = True
            return r
        if isinstance(e, ast.Subscript) and isinstance(e.slice, ast.Constant) and isinstance(e.slice.value, str) \
                and isinstance(e.value, ast.Name) and e.value.id in tr.env and tr.env[e.value.id].typ in ('JObj', 'J'):
            recv = tr.expr(e.value)
            key = py2lean._lean_str(e.slice.value)
            c_ = tr.gensym('c')
            look = lambda g: f'(match GV.GeoJson.oget {g} {key} with | some {c_} => Except.ok {c_} | none => Except.error "ERR:Key")'
            if recv.typ == 'JObj':
                r = Val(look(recv.text), 'J')
            else:
                g_ = tr.gensym('g')             # subscripting a non-dict JSON value with a string: TypeError
                r = Val(f'(match {recv.text} with | GV.GeoJson.J.obj {g_} => {look(g_)} | _ => Except.error "ERR:Type")', 'J')
            r.raises = True
            return r
        return None

    def sanitize(tr, args):
        if [a.typ for a in args] != ['JObj']:
            raise Unsupported('sanitize_json(' + ', '.join(a.typ for a in args) + ')')
        return Val(f'(GV.GeoJson.sanKvs rt {args[0].text})', 'JObj')

    def fromiso(tr, args):
        if [a.typ for a in args] != ['J']:
            raise Unsupported('datetime.fromisoformat(' + ', '.join(a.typ for a in args) + ')')
        s_ = tr.gensym('s')
        r = Val(f'(match {args[0].text} with | GV.GeoJson.J.str {s_} => rt.parse {s_} | _ => Except.error "ERR:Type")', 'Dt')
        r.raises = True                      # ValueError on malformed text (the runtime's), TypeError on a non-string
        return r

    def local_type(qual, name):
        return {('GeoPolygon.from_geojson', 'rings'): 'List List Pos', ('GeoPolygon.from_geojson', 'holes'): 'List List Pos',
                ('MultiGeoPolygon.from_geojson', 'shapes'): 'List GjPolyV'}.get((qual, name))

    def local_fn(qual, name):
        return {('get_dt_from_geojson_props', '_convert'): ([('dt', 'J'), ('_format', 'None')], 'Except Opt Dt')}.get((qual, name))

    def init_hook(tr, fields):
        if tr.inst.qual == 'GeoPolygon.__init__':
            if set(fields) != {'outline'}:
                raise Unsupported(f'GeoPolygon.__init__ stores fields {sorted(fields)}')
            return fields['outline'].text
        raise Unsupported(f'`{tr.inst.qual}`: constructor without a record hook')

    attr = {('Pos', 'longitude'): ('{}.lon', 'R'), ('Pos', 'latitude'): ('{}.lat', 'R'), ('Pos', 'z'): ('{}.z', 'Opt R'),
            ('Pos', 'm'): ('()', 'None'),
            ('GjPolygon', 'outline'): ('{}.outline', 'List Pos'), ('GjBox', 'nw_bound'): ('{}.nw', 'Pos'), ('GjBox', 'se_bound'): ('{}.se', 'Pos'),
            ('GjRing', 'angle_min'): ('{}.amin', 'R'), ('GjRing', 'angle_max'): ('{}.amax', 'R'),
            ('GjLine', 'vertices'): ('{}.vertices', 'List Pos'), ('GjPoint', 'coordinate'): ('{}.coordinate', 'Pos'),
            ('GjMPoly', 'geoshapes'): ('{}.geoshapes', 'List GjPolyM'), ('GjMLine', 'geoshapes'): ('{}.geoshapes', 'List GjLine'),
            ('GjMPoint', 'geoshapes'): ('{}.geoshapes', 'List GjPoint'),
            ('GjShape', 'dt'): ('{}.dt', 'Opt TI'), ('GjShape', '_properties'): ('{}.props', 'JObj'),
            ('TI', 'start'): ('{}.start', 'Dt'), ('TI', 'end'): ('{}.stop', 'Dt')}
    for t in ('GjPolygon', 'GjBox', 'GjCurved', 'GjRing'):
        attr[(t, 'holes')] = ('{}.holes', 'List HoleSrc')
    classes = {'Pos': 'Coordinate', 'GjPolygon': 'GeoPolygon', 'GjBox': 'GeoBox', 'GjRing': 'GeoRing', 'GjLine': 'GeoLineString',
               'GjPoint': 'GeoPoint', 'GjMPoly': 'MultiGeoPolygon', 'GjMLine': 'MultiGeoLineString', 'GjMPoint': 'MultiGeoPoint',
               'GjShape': 'BaseShapeProtocol', 'TI': 'TimeInterval'}
    P = dict(srcunits.PINS)
    P.update(PINS)
    pins = {k: P[k] for k in ('structures.py::GeoPolygon.bounds', 'structures.py::GeoLineString.bounds', 'structures.py::GeoRing.bounds',
                              '_base.py::MultiShapeBase.bounds', 'utils/functions.py::sanitize_json', '_base.py::BaseShape.__init__',
                              'structures.py::PolygonBase.__init__')}
    hooks = {'geojson_doc': True,        # the master switch of this unit's constructs in py2lean.py (`gj_*`)
             'isinstance': lambda typ: {'Pos': {'Coordinate'}}.get(typ), 'eq': eq_hook, 'gj_truth': truth_hook,
             'gj_coerce': coerce_hook, 'gj_to_j': to_j, 'expr_stmt': expr_stmt, 'keywords': lambda tr, e: True,
             'gj_call': call_hook, 'init': init_hook, 'gj_as_dict': as_dict, 'gj_expr': expr_hook, 'gj_local_fn': local_fn,
             'gj_or_dict': or_dict, 'gj_iter': iter_hook, 'local_type': local_type, 'always_truthy': ('TI', 'Dt')}
    return Unit('SrcGeoJson', src, 'GV.Src.GeoJson',
                ['GeoVerif.Model.GeoJson', 'GeoVerif.Model.PyPrelude', 'GeoVerif.Model.PyPreludeSeq', 'GeoVerif.Gen.SrcTime'], insts,
                classes, pins=pins, header=HEADER, attr_types=attr, hooks=hooks, externals=srcunits._time_externals(),
                intrinsics={'sanitize_json': sanitize, 'datetime.fromisoformat': fromiso},
                abstract={('JObj', '__contains__', ('Str',)): ('GV.GeoJson.ohas {0} {1}', 'Bool')},
                ctx_params=[('rt', 'GV.GeoJson.Rt')])
