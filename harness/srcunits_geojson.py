"""
Source unit SrcGeoJson (C14): the GeoJSON exporters, the ring-orientation logic and the time fields, translated from the
current text of `_geometry.py`, `structures.py`, `multistructures.py`, `_base.py`, `coordinates.py`, `utils/functions.py`.

Reading of the Python objects (the abstraction the equalities of `Props/C14Src.lean` are stated under):

* a `Coordinate` is the model's `GV.GeoJson.Pos` (longitude, latitude, z; instances are declared at `m = None`: M is outside
  C14's quantifier); `Coordinate(x, y, z=…)` is `Pos` after the constructor's normalisation (`GV.normalize`, C08's
  subject), `Coordinate(x, y, _bounded=False)` stores its arguments;
* a dict with string keys is the model's `Obj` (insertion order, `oset` / `oupdate` / `oerase`), a JSON value its `J`;
* a receiver is the record of the fields the code reads (`PolygonS`, `BoxS`, `CurvedS`, `RingS`, … declared in the generated
  file's header); a method that is dispatched dynamically (`to_geo_interface` in `to_geojson`, `linear_rings` of the members
  of a multi-polygon, `bounding_coords` of a hole or of a curved shape, `_draw_bounds`) is a *field* of the record, i.e.
  nothing is assumed about it;
* `**kwargs` of the exporters is the record `Kw` (`k`, truthiness of `include_bbox`, every other entry): `pop` removes
  the entry, `**kwargs` in a dict display spreads what is left;
* `datetime.isoformat` / `fromisoformat` are the model's runtime record `rt`; a datetime is its UTC instant.

Pinned (meaning assumed, body not translated): `sanitize_json` (the model's `sanitize rt`), the `bounds` of `GeoPolygon`,
`GeoLineString`, `GeoRing` and `MultiShapeBase` (C09's subject: they enter as the model's `bboxPos` / a field),
`BaseShape.__init__` (a `datetime` given as `dt` becomes the instant interval), `PolygonBase.__init__`.
"""
import ast
import os

import py2lean
from py2lean import Inst, Unit, Val, Unsupported, _paren, lean_type


class MultiSource(py2lean.Source):
    """the functions and methods of several source files under one roof (qualified names are unique across them)"""

    def __init__(self, paths):
        self.path = paths[0]
        self.tree = None
        self.defs = {}
        for p in paths:
            one = py2lean.Source(p)
            for k, v in one.defs.items():
                if k in self.defs:
                    raise Unsupported(f'`{k}` is defined in more than one of the unit\'s source files')
                self.defs[k] = v


HEADER = '''open GV GV.GeoJson

/-- `**kwargs` of the exporters, as far as they look at it: `k` (absent or `None`: `none`), the truthiness of
    `include_bbox`, and every other entry in call order -/
structure Kw where
  k : Option Nat := none
  bbox : Bool := false
  extra : Obj := []

/-- `**kwargs` spread into a dict display: what has not been popped -/
def Kw.rest (kw : Kw) : Obj :=
  (match kw.k with | some n => [("k", J.num n)] | none => []) ++
    (if kw.bbox then [("include_bbox", J.bool true)] else []) ++ kw.extra

/-- a `GeoPolygon` as far as the exporters read it -/
structure PolygonS where
  outline : List Pos
  holes : List HoleSrc

/-- a `GeoBox` -/
structure BoxS where
  nw : Pos
  se : Pos
  holes : List HoleSrc

/-- a `GeoCircle` / `GeoEllipse`: `bounding k` = `bounding_coords(k=k)` (C03's subject), `bounds` (C09's) -/
structure CurvedS where
  bounding : Option Nat → List Pos
  bounds : Except String (Rat × Rat × Rat × Rat)
  holes : List HoleSrc

/-- a `GeoRing`: `(outer k, inner k)` = `_draw_bounds(k=k)` -/
structure RingS where
  outer : Option Nat → List Pos
  inner : Option Nat → List Pos
  amin : Rat
  amax : Rat
  bounds : Except String (Rat × Rat × Rat × Rat)
  holes : List HoleSrc

/-- a `GeoLineString` -/
structure LineS where
  vertices : List Pos

/-- a member of a `MultiGeoPolygon`: `linear_rings(**kwargs)` is dispatched on its class -/
structure PolyM where
  linearRings : Kw → Except String (List (List Pos))

/-- the multi-shapes: their members, and `bounds` (`MultiShapeBase.bounds`, C09's subject) -/
structure MPolyS where
  geoshapes : List PolyM
  bounds : Except String (Rat × Rat × Rat × Rat)

structure MLineS where
  geoshapes : List LineS
  bounds : Except String (Rat × Rat × Rat × Rat)

structure MPointS where
  geoshapes : List Pos
  bounds : Except String (Rat × Rat × Rat × Rat)

/-- any shape, for `to_geojson` and the time fields: `dt`, `_properties`, and `to_geo_interface(**kwargs)` (dispatched
    on the class) -/
structure ShapeS where
  dt : Option TI
  props : Obj
  geoInterface : Kw → Except String Obj'''


RECEIVERS = ('PolygonS', 'BoxS', 'CurvedS', 'RingS', 'LineS', 'PointS', 'MPolyS', 'MLineS', 'MPointS', 'ShapeS')


def unit():
    import srcunits
    repo = srcunits._repo
    src = MultiSource([repo('structures.py'), repo('_geometry.py'), repo('_base.py'), repo('multistructures.py'),
                       repo('coordinates.py'), os.path.join(os.path.dirname(repo('x')), 'utils', 'functions.py')])
    B4 = 'Tuple4 R'
    RINGS = 'List List Pos'
    insts = [
        # --- ring orientation
        Inst('ensure_edge_bounds', 'ensureEdgeBounds', [('coord1', 'Pos'), ('coord2', 'Pos')], 'Prod Pos Pos'),
        Inst('is_counter_clockwise', 'isCounterClockwise', [('bounds', 'List Pos')], 'Except Bool'),
        Inst('GeoPolygon.__init__', 'polygonInit',
             [('self', 'None'), ('outline', 'List Pos'), ('holes', 'List HoleSrc'), ('dt', 'Opt TI'), ('properties', 'JObj'),
              ('_is_hole', 'Bool')], 'Except List Pos', doc='the outline the constructor stores'),
        Inst('GeoPolygon.__init__', 'polygonInitDefault', [('self', 'None'), ('outline', 'List Pos')], 'Except List Pos',
             doc='`GeoPolygon(outline)`: the outline the constructor stores'),
    ]
    for t, lt in (('Pos', 'GV.GeoJson.Pos'), ('HoleSrc', 'GV.GeoJson.HoleSrc'), ('J', 'GV.GeoJson.J'), ('JObj', 'GV.GeoJson.Obj'),
                  ('Str', 'String'), ('KwT', 'Kw'), ('Nat', 'Nat'), ('PointS', 'GV.GeoJson.Pos')):
        py2lean.LEAN_TYPE.setdefault(t, lt)

    # ---- values as JSON values ---------------------------------------------------------------------------
    def to_j(tr, v):
        t = v.typ
        if t == 'J':
            return v.text
        if t == 'JObj':
            return f'(GV.GeoJson.J.obj {v.text})'
        if t == 'Str':
            return f'(GV.GeoJson.J.str {v.text})'
        if t == 'R':
            return f'(GV.GeoJson.J.num {v.text})'
        if t == 'Dt':
            return f'(GV.GeoJson.J.dt {v.text})'
        if t == 'Bool':
            return f'(GV.GeoJson.J.bool {v.text})'
        if t == 'None':
            return 'GV.GeoJson.J.null'
        if t == 'Tuple4 R':
            x = _paren(v.text)
            return (f'(GV.GeoJson.J.arr [GV.GeoJson.J.num {x}.1, GV.GeoJson.J.num {x}.2.1, GV.GeoJson.J.num {x}.2.2.1, '
                    f'GV.GeoJson.J.num {x}.2.2.2])')
        if t.startswith('List '):
            x = tr.gensym('j')
            return f'(GV.GeoJson.J.arr (({v.text}).map (fun {x} => {to_j(tr, Val(x, t[5:]))})))'
        raise Unsupported(f'a value of type {t} inside a JSON document')

    # ---- hooks ------------------------------------------------------------------------------------------
    def eq_hook(tr, a, b):
        if a.typ == b.typ and a.typ in ('Pos', 'Str'):
            return Val(f'({a.text} == {b.text})', 'Bool')       # `Coordinate.__eq__` compares longitude, latitude and z
        return None

    def truth_hook(tr, v):
        if v.typ == 'JObj':
            return f'!({v.text}).isEmpty'
        if v.typ == 'J':
            return f'({v.text}).truthy'
        return None

    def coerce_hook(tr, v, want):
        if v.typ.startswith('Pair ') and want == f'Prod {v.typ[5:]} {v.typ[5:]}':
            return v.text
        return None

    def expr_stmt(tr, e):
        # logging has no effect on the values; `super().__init__(holes=…, dt=…, properties=…)` stores those (pinned bases)
        if isinstance(e, ast.Call):
            f = ast.unparse(e.func)
            if f in ('LOGGER.warning', 'LOGGER.info', 'LOGGER.debug', 'warn_once'):
                return True
            if tr.is_super_init(ast.Call(func=e.func, args=e.args, keywords=[]), any_args=True) and tr.inst.qual == 'GeoPolygon.__init__' \
                    and not e.args and all(k.arg in ('holes', 'dt', 'properties') and isinstance(k.value, ast.Name) and k.value.id == k.arg
                                           for k in e.keywords):
                return True
        return False

    def keywords_hook(tr, e):
        f = e.func
        if isinstance(f, ast.Name) and f.id == 'Coordinate':
            return True
        if isinstance(f, ast.Attribute) and f.attr == '__init__':
            return True
        return False

    def call_hook(tr, e):
        f = e.func
        if isinstance(f, ast.Name) and f.id == 'Coordinate':
            args = [tr.expr(a) for a in e.args]
            kws = {k.arg: k.value for k in e.keywords}
            if len(args) != 2 or any(a.typ != 'R' for a in args) or not set(kws) <= {'z', '_bounded'}:
                raise Unsupported(f'`{ast.unparse(e)[:80]}`: only Coordinate(lon, lat[, z=…][, _bounded=False]) is read')
            z = 'none'
            if 'z' in kws:
                zv = tr.expr(kws['z'])
                if zv.typ not in ('Opt R', 'None'):
                    raise Unsupported(f'Coordinate(z=…) of type {zv.typ}')
                z = zv.text if zv.typ == 'Opt R' else 'none'
            if '_bounded' in kws:
                bv = kws['_bounded']
                if not (isinstance(bv, ast.Constant) and bv.value is False):
                    raise Unsupported('Coordinate(_bounded=…) other than the literal False')
                return Val(f'(GV.GeoJson.Pos.mk {args[0].text} {args[1].text} {z})', 'Pos')
            ll = f'(GV.normalize true {args[0].text} {args[1].text})'
            return Val(f'(GV.GeoJson.Pos.mk {ll}.1 {ll}.2 {z})', 'Pos')
        return None

    def init_hook(tr, fields):
        if tr.inst.qual == 'GeoPolygon.__init__':
            if set(fields) != {'outline'}:
                raise Unsupported(f'GeoPolygon.__init__ stores fields {sorted(fields)}')
            return fields['outline'].text
        raise Unsupported(f'`{tr.inst.qual}`: constructor without a record hook')

    attr = {('Pos', 'longitude'): ('{}.lon', 'R'), ('Pos', 'latitude'): ('{}.lat', 'R'), ('Pos', 'z'): ('{}.z', 'Opt R'),
            ('Pos', 'm'): ('()', 'None')}
    pins = {}
    hooks = {'isinstance': lambda typ: None, 'eq': eq_hook, 'truth': truth_hook, 'coerce': coerce_hook, 'to_j': to_j,
             'expr_stmt': expr_stmt, 'keywords': keywords_hook, 'call': call_hook, 'init': init_hook,
             'always_truthy': ('TI', 'Dt')}
    return Unit('SrcGeoJson', src, 'GV.Src.GeoJson',
                ['GeoVerif.Model.GeoJson', 'GeoVerif.Model.PyPrelude', 'GeoVerif.Gen.SrcTime'], insts,
                {}, pins=pins, header=HEADER, attr_types=attr, hooks=hooks, externals=srcunits._time_externals())
