"""
Source unit SrcIo (C20): the adapter logic of the shapefile / GeoPandas round trips, translated from the current text
of `collections.py`.

Unlike the other units the adapters are *dynamically typed* code (a record field may be a string, a number, a datetime,
None, NaT …) wrapped around third-party objects.  The unit therefore has its own small reading, `IoTr` below (hook family
`io_adapters`: nothing in py2lean.py changes, no other unit's text depends on it):

* every Python value is a `GV.Io.Py.V` (`Model/IoPy.lean`: None, a property value, a TimeInterval) evaluated with Python's
  own truthiness, `==`, `or` / `and` (short-circuit, value-returning), `isinstance`, `is None`; a call that may raise is an
  `Except`, sequenced left to right;
* a nested helper (`_get_dt`, `_convert_dt`) is a definition of its own; the names it reads from the enclosing function's
  parameters (`time_start_field`, …) become its leading parameters (declared in `closure`);
* the classification loop of `to_shapefile` is read as a structural recursion over the collection (`io_loop`);
* the builtins it knows (`CALLS`) map to the trusted readings of `Model/IoPy.lean`; anything else is `Unsupported`.

What is NOT translated (stays with the channel contracts / the correspondence harness): every call on a pyshp `Writer` /
`Reader`, pandas / geopandas / fastkml object, the zip and temp-file plumbing.
"""
import ast
import os

import py2lean
from py2lean import Unsupported, lname

class IoTr:
    """one function body -> Lean text.  kinds: 'V' dynamic value, 'Str' a Lean String, 'Dict' a `Dict PVal`"""

    CLASS_TAGS = {'datetime': 'PTag.dt', 'date': 'PTag.dt', 'str': 'PTag.str', 'int': 'PTag.int', 'float': 'PTag.float',
                  'bool': 'PTag.bool'}

    def __init__(self, qual, fn, env, nt, intrinsics=None):
        self.qual, self.fn, self.nt = qual, fn, nt
        self.env = dict(env)          # python name -> (lean text, kind)
        self.fresh = 0
        self.intrinsics = intrinsics or {}

    def gensym(self, base='x'):
        self.fresh += 1
        return f'{base}_{self.fresh}'

    def bad(self, node, why=''):
        raise Unsupported(f'`{self.qual}`: {why or "outside the io_adapters subset"}: `{ast.unparse(node)[:90]}`')

    # ---- expressions: (lean text, pure?, kind) -----------------------------------------------------------
    def expr(self, e):
        if isinstance(e, ast.Name):
            if e.id not in self.env:
                self.bad(e, 'unknown name')
            t, k = self.env[e.id]
            return t, True, k
        if isinstance(e, ast.Constant):
            if e.value is None:
                return 'V.none', True, 'V'
            if isinstance(e.value, bool):
                return f'(V.p (.bool {"true" if e.value else "false"}))', True, 'V'
            if isinstance(e.value, str):
                return py2lean._lean_str(e.value), True, 'Str'
            self.bad(e, 'constant')
        if isinstance(e, ast.BoolOp):
            return self.boolop(e.op, e.values)
        if isinstance(e, (ast.Compare, ast.UnaryOp)) or self.is_test_call(e):
            t, pure = self.test(e)
            return (f'(V.p (.bool {t}))' if pure else f'(({t}) >>= fun b => pure (V.p (.bool b)))'), pure, 'V'
        if isinstance(e, ast.Call):
            return self.call(e)
        self.bad(e)

    def is_test_call(self, e):
        return isinstance(e, ast.Call) and ast.unparse(e.func) in ('isinstance', 'pd.isnull')

    def as_v(self, e):
        t, pure, k = self.expr(e)
        if k != 'V':
            self.bad(e, f'a {k} where a Python value is expected')
        return t, pure

    def boolop(self, op, values):
        """`a or b` / `a and b` return an operand; b is evaluated only when a does not decide"""
        first, rest = values[0], values[1:]
        a, apure = self.as_v(first)
        if not rest:
            return a, apure, 'V'
        b, bpure, _k = self.boolop(op, rest)
        x = self.gensym('o')
        cond = f'V.truthy {self.nt} {x}'
        keep, go = (f'pure {x}', b if not bpure else f'pure {b}')
        body = f'if {cond} then {keep} else {go}' if isinstance(op, ast.Or) else f'if {cond} then {go} else {keep}'
        if apure and bpure:
            pk, pg = x, b
            body = f'if {cond} then {pk} else {pg}' if isinstance(op, ast.Or) else f'if {cond} then {pg} else {pk}'
            return f'(let {x} := {a}; {body})', True, 'V'
        if apure:
            return f'(let {x} := {a}; {body})', False, 'V'
        return f'(({a}) >>= fun {x} => {body})', False, 'V'

    def bind_args(self, nodes, k):
        """evaluate the argument expressions left to right, then `k(texts)` (an `Except` text)"""
        texts, wraps = [], []
        for n in nodes:
            t, pure, kind = self.expr(n)
            if pure:
                texts.append((t, kind))
            else:
                x = self.gensym('a')
                wraps.append((x, t))
                texts.append((x, kind))
        inner = k(texts)
        for x, t in reversed(wraps):
            inner = f'(({t}) >>= fun {x} => {inner})'
        return inner, not wraps

    def call(self, e):
        f = ast.unparse(e.func)
        if e.keywords:
            self.bad(e, 'keyword arguments')
        if isinstance(e.func, ast.Attribute) and e.func.attr == 'get' and len(e.args) == 1:
            d, dpure, dk = self.expr(e.func.value)
            k, kpure, kk = self.expr(e.args[0])
            if dk == 'Dict' and kk == 'Str' and dpure and kpure:
                return f'(V.get {d} {k})', True, 'V'
            self.bad(e, '.get on something that is not (dict, string)')
        if f == 'datetime.fromisoformat' and len(e.args) == 1:
            t, _p = self.bind_args(e.args, lambda a: f'V.fromiso {a[0][0]}')
            return t, False, 'V'
        if f == 'TimeInterval' and len(e.args) == 2:
            t, _p = self.bind_args(e.args, lambda a: f'V.mkTI {a[0][0]} {a[1][0]}')
            return t, False, 'V'
        if isinstance(e.func, ast.Attribute) and e.func.attr == 'isoformat' and not e.args:
            t, _p = self.bind_args([e.func.value], lambda a: f'V.isoformat {a[0][0]}')
            return t, False, 'V'
        if isinstance(e.func, ast.Name) and e.func.id in self.intrinsics:
            return self.intrinsics[e.func.id](self, e)
        self.bad(e, 'call')

    # ---- tests: (lean Bool text, pure?) ------------------------------------------------------------------
    def test(self, e):
        if isinstance(e, ast.UnaryOp) and isinstance(e.op, ast.Not):
            t, pure = self.test(e.operand)
            return (f'(!{t})' if pure else f'(({t}) >>= fun b => pure (!b))'), pure
        if isinstance(e, ast.BoolOp):
            parts = [self.test(v) for v in e.values]
            if all(p for _t, p in parts):
                return '(' + (' || ' if isinstance(e.op, ast.Or) else ' && ').join(t for t, _p in parts) + ')', True
            # a later operand may raise: it is evaluated only when the earlier ones do not decide
            acc, accpure = parts[-1]
            for t, p in reversed(parts[:-1]):
                nxt = acc if not accpure else f'pure {acc}'
                stop = 'pure true' if isinstance(e.op, ast.Or) else 'pure false'
                arms = f'if b then {stop} else {nxt}' if isinstance(e.op, ast.Or) else f'if b then {nxt} else {stop}'
                acc = f'(({t if not p else "pure " + t}) >>= fun b => {arms})'
                accpure = False
            return acc, False
        if isinstance(e, ast.Compare) and len(e.ops) == 1:
            op, l, r = e.ops[0], e.left, e.comparators[0]
            if isinstance(op, (ast.Is, ast.IsNot)) and isinstance(r, ast.Constant) and r.value is None:
                t, pure = self.as_v(l)
                neg = '!' if isinstance(op, ast.IsNot) else ''
                return (f'({neg}decide ({t} = V.none))' if pure else f'(({t}) >>= fun v => pure ({neg}decide (v = V.none)))'), pure
            if isinstance(op, (ast.Eq, ast.NotEq)):
                return self._cmp('!' if isinstance(op, ast.NotEq) else '', e)
        if isinstance(e, ast.Call) and ast.unparse(e.func) == 'isinstance' and len(e.args) == 2:
            t, pure = self.as_v(e.args[0])
            cls = e.args[1].elts if isinstance(e.args[1], ast.Tuple) else [e.args[1]]
            tags = []
            for c in cls:
                if not (isinstance(c, ast.Name) and c.id in self.CLASS_TAGS):
                    self.bad(e, 'isinstance against a class the unit has no reading for')
                tags.append(self.CLASS_TAGS[c.id])
            tl = '[' + ', '.join(tags) + ']'
            return (f'(V.isInst {tl} {t})' if pure else f'(({t}) >>= fun v => pure (V.isInst {tl} v))'), pure
        if isinstance(e, ast.Call) and ast.unparse(e.func) == 'pd.isnull' and len(e.args) == 1 and not e.keywords:
            t, pure = self.as_v(e.args[0])
            return (f'(V.isNull {t})' if pure else f'(({t}) >>= fun v => pure (V.isNull v))'), pure
        t, pure, k = self.expr(e)
        if k == 'List':
            return f'(!({t}).isEmpty)', pure
        if k != 'V':
            self.bad(e, f'truthiness of a {k}')
        return (f'(V.truthy {self.nt} {t})' if pure else f'(({t}) >>= fun v => pure (V.truthy {self.nt} v))'), pure

    def _cmp(self, neg, e):
        l, r = e.left, e.comparators[0]
        a, apure, ak = self.expr(l)
        b, bpure, bk = self.expr(r)
        if ak != bk:
            self.bad(e, f'== between a {ak} and a {bk}')
        if apure and bpure:
            return f'({neg}decide ({a} = {b}))', True
        self.bad(e, '== on operands that may raise')

    # ---- statements ------------------------------------------------------------------------------------------
    def block(self, stmts, fall='pure V.none'):
        if not stmts:
            return fall
        s, rest = stmts[0], stmts[1:]
        if isinstance(s, ast.Expr) and isinstance(s.value, ast.Constant):
            return self.block(rest, fall)
        if isinstance(s, ast.Pass):
            return self.block(rest, fall)
        if isinstance(s, ast.Return):
            if s.value is None:
                return 'pure V.none'
            t, pure, k = self.expr(s.value)
            if k != 'V':
                self.bad(s, f'returns a {k}')
            return f'pure {t}' if pure else t
        if isinstance(s, ast.Assign) and len(s.targets) == 1 and isinstance(s.targets[0], ast.Name):
            name = s.targets[0].id
            t, pure, k = self.expr(s.value)
            x = lname(name)
            saved = self.env.get(name)
            self.env[name] = (x, k)
            tail = self.block(rest, fall)
            if saved is None:
                self.env.pop(name)
            else:
                self.env[name] = saved
            if pure:
                return f'let {x} := {t}\n{tail}'
            return f'({t}) >>= fun {x} =>\n{tail}'
        if isinstance(s, ast.If):
            t, pure = self.test(s.test)
            saved = dict(self.env)
            a = self.block(list(s.body) + rest, fall)
            self.env = dict(saved)
            b = self.block(list(s.orelse) + rest, fall)
            self.env = saved
            ind = py2lean._indent
            if pure:
                return f'if {t} then\n{ind(a)}\nelse\n{ind(b)}'
            return f'({t}) >>= fun c =>\nif c then\n{ind(a)}\nelse\n{ind(b)}'
        self.bad(s, 'statement')


class Fn:
    """one translated definition: `qual` (dotted path, nested defs included), Lean name, parameters [(python name, kind)],
    `closure`: names read from the enclosing function's parameters, `nt`: truthiness of the channel's null"""

    def __init__(self, qual, lean, params, closure=(), nt='false', doc=''):
        self.qual, self.lean, self.params, self.closure, self.nt, self.doc = qual, lean, list(params), list(closure), nt, doc


KIND_TYPE = {'V': 'V', 'Str': 'String', 'Dict': 'Dict PVal'}


def find_def(tree, qual):
    """the FunctionDef at a dotted path (class / function / nested function), and the chain of enclosing functions"""
    body, chain, node = tree.body, [], None
    for part in qual.split('.'):
        node = next((n for n in body if isinstance(n, (ast.FunctionDef, ast.ClassDef)) and n.name == part), None)
        if node is None:
            raise Unsupported(f'collections.py: `{qual}` not found')
        if isinstance(node, ast.FunctionDef):
            chain.append(node)
        body = node.body
    if not isinstance(node, ast.FunctionDef):
        raise Unsupported(f'collections.py: `{qual}` is not a function')
    return node, chain[:-1]


class IoUnit:
    name = 'SrcIo'

    def __init__(self, path, fns, pins, base):
        self.path, self.fns, self.pins, self.base = path, fns, pins, base

    def render(self):
        for qual, digest in self.pins.items():
            rel, q = qual.split('::', 1)
            got = py2lean.pin_of(py2lean.Source(os.path.join(self.base, rel)).get(q))
            if got != digest:
                raise Unsupported(f'pinned helper `{qual}` changed (AST digest {got}, pinned {digest})')
        tree = ast.parse(open(self.path).read())
        out = ['import GeoVerif.Model.IoPy', '/-!',
               '# GENERATED by harness/srcunits_io.py (reading `io_adapters`) from `geostructures/collections.py` on every run. Do not edit.',
               '', 'One definition per translated function of the current source text; values are `GV.Io.Py.V`.', '-/', '',
               'set_option linter.unusedVariables false', '', 'namespace GV.SrcIo', 'open GV.Io GV.Io.Py', '']
        for f in self.fns:
            out += self.render_fn(tree, f) + ['']
        out += ['end GV.SrcIo', '']
        return '\n'.join(out)

    def render_fn(self, tree, f):
        node, outers = find_def(tree, f.qual)
        a = node.args
        if a.vararg or a.kwarg or a.kwonlyargs or a.posonlyargs:
            raise Unsupported(f'`{f.qual}`: star / keyword-only parameters')
        have = [x.arg for x in a.args]
        if have != [n for n, _k in f.params]:
            raise Unsupported(f'`{f.qual}`: parameters {have} do not match the declared {[n for n, _k in f.params]}')
        env = {}
        for n, k in f.closure:
            # a closure variable must be a parameter of an enclosing function that is never re-bound there
            owner = next((o for o in reversed(outers) if n in [x.arg for x in o.args.args]), None)
            if owner is None:
                raise Unsupported(f'`{f.qual}`: `{n}` is not a parameter of an enclosing function')
            for o in outers:
                for sub in ast.walk(o):
                    if isinstance(sub, ast.Name) and sub.id == n and isinstance(sub.ctx, (ast.Store, ast.Del)):
                        raise Unsupported(f'`{f.qual}`: the closure variable `{n}` is re-bound in `{o.name}`')
            env[n] = (lname(n), k)
        for n, k in f.params:
            env[n] = (lname(n), k)
        # every other free name must be known to the reading (builtins / classes); locals are bound by assignment
        tr = IoTr(f.qual, node, env, f.nt)
        body = tr.block(list(node.body))
        binders = ' '.join(f'({lname(n)} : {KIND_TYPE[k]})' for n, k in list(f.closure) + list(f.params))
        shown = ast.parse(ast.unparse(node)).body[0]
        if shown.body and isinstance(shown.body[0], ast.Expr) and isinstance(shown.body[0].value, ast.Constant) and len(shown.body) > 1:
            shown.body = shown.body[1:]
        doc = [f'/-- `{f.qual}`' + (f' — {f.doc}' if f.doc else ''), '```']
        doc += [ln.replace('-/', '- /') for ln in ast.unparse(shown).split('\n')][:40] + ['```', '-/']
        return doc + [f'def {f.lean} {binders} : Except String V :='] + ['  ' + ln for ln in body.split('\n')]


def unit():
    import srcunits
    repo = srcunits._repo
    path = repo('collections.py')
    FS = [('time_start_field', 'Str'), ('time_end_field', 'Str')]
    fns = [
        Fn('CollectionBase.to_shapefile._convert_dt', 'convertDt', [('val', 'V')], nt='false'),
        Fn('CollectionBase.from_shapefile._get_dt', 'shpGetDt', [('rec', 'Dict')], closure=FS, nt='false',
           doc='a dbf null is `None`'),
        Fn('CollectionBase.from_geopandas._get_dt', 'gpdGetDt', [('rec', 'Dict')], closure=FS, nt='true',
           doc='a null cell is `NaN` / `NaT` (truthy); a `None` cell is absent'),
    ]
    pins = {
        'time.py::TimeInterval.__init__': PIN_TI,        # `V.mkTI`
        '_base.py::BaseShape.__init__': PIN_BASE,        # `dtOfArg`
    }
    return IoUnit(path, fns, pins, os.path.dirname(path))


PIN_TI = '6f42465261678d41'
PIN_BASE = '9f9f957bce376782'
