"""
Source unit SrcIo (C20): the adapter logic of the shapefile / GeoPandas round trips, translated from the current text
of `collections.py`.

Unlike the other units the adapters are *dynamically typed* code (a record field may be a string, a number, a datetime,
None, NaT …) wrapped around third-party objects.  The unit therefore has its own small reading, `IoTr` below (hook family
`io_adapters`: nothing in py2lean.py changes, no other unit's text depends on it):

* every Python value is a `GV.Io.Py.V` (`Model/IoPy.lean`: None, a property value, a TimeInterval) evaluated with Python's
  own truthiness, `==`, `or` / `and` (short-circuit, value-returning), `isinstance`, `is None`; a call that may raise is an
  `Except`, sequenced left to right;
* a nested helper (`_get_dt`, `_convert_dt`) is a definition of its own; the names it reads from the enclosing function's
  parameters (`time_start_field`, …) become its leading parameters (declared in `closure`);
* the classification loop of `to_shapefile` is read as a structural recursion over the collection (`io_loop`);
* the builtins it knows (`CALLS`) map to the trusted readings of `Model/IoPy.lean`; anything else is `Unsupported`.

What is NOT translated (stays with the channel contracts / the correspondence harness): every call on a pyshp `Writer` /
`Reader`, pandas / geopandas / fastkml object, the zip and temp-file plumbing.
"""
import ast
import os

import py2lean
from py2lean import Unsupported, lname

class IoTr:
    """one function body -> Lean text.  kinds: 'V' dynamic value, 'Str' a Lean String, 'Dict' a `Dict PVal`"""

    CLASS_TAGS = {'datetime': 'PTag.dt', 'date': 'PTag.dt', 'str': 'PTag.str', 'int': 'PTag.int', 'float': 'PTag.float',
                  'bool': 'PTag.bool'}

    def __init__(self, qual, fn, env, nt, intrinsics=None):
        self.qual, self.fn, self.nt = qual, fn, nt
        self.env = dict(env)          # python name -> (lean text, kind)
        self.fresh = 0
        self.intrinsics = intrinsics or {}

    def gensym(self, base='x'):
        self.fresh += 1
        return f'{base}_{self.fresh}'

    def bad(self, node, why=''):
        raise Unsupported(f'`{self.qual}`: {why or "outside the io_adapters subset"}: `{ast.unparse(node)[:90]}`')

    # ---- expressions: (lean text, pure?, kind) -----------------------------------------------------------
    def expr(self, e):
        if isinstance(e, ast.Name):
            if e.id not in self.env:
                self.bad(e, 'unknown name')
            t, k = self.env[e.id]
            return t, True, k
        if isinstance(e, ast.Constant):
            if e.value is None:
                return 'V.none', True, 'V'
            if isinstance(e.value, bool):
                return f'(V.p (.bool {"true" if e.value else "false"}))', True, 'V'
            if isinstance(e.value, str):
                return py2lean._lean_str(e.value), True, 'Str'
            self.bad(e, 'constant')
        if isinstance(e, ast.BoolOp):
            return self.boolop(e.op, e.values)
        if isinstance(e, (ast.Compare, ast.UnaryOp)) or self.is_test_call(e):
            t, pure = self.test(e)
            return (f'(V.p (.bool {t}))' if pure else f'(({t}) >>= fun b => pure (V.p (.bool b)))'), pure, 'V'
        if isinstance(e, ast.Call):
            return self.call(e)
        self.bad(e)

    def is_test_call(self, e):
        return isinstance(e, ast.Call) and ast.unparse(e.func) in ('isinstance', 'pd.isnull')

    def as_v(self, e):
        t, pure, k = self.expr(e)
        if k != 'V':
            self.bad(e, f'a {k} where a Python value is expected')
        return t, pure

    def boolop(self, op, values):
        """`a or b` / `a and b` return an operand; b is evaluated only when a does not decide"""
        first, rest = values[0], values[1:]
        a, apure = self.as_v(first)
        if not rest:
            return a, apure, 'V'
        b, bpure, _k = self.boolop(op, rest)
        x = self.gensym('o')
        cond = f'V.truthy {self.nt} {x}'
        keep, go = (f'pure {x}', b if not bpure else f'pure {b}')
        body = f'if {cond} then {keep} else {go}' if isinstance(op, ast.Or) else f'if {cond} then {go} else {keep}'
        if apure and bpure:
            pk, pg = x, b
            body = f'if {cond} then {pk} else {pg}' if isinstance(op, ast.Or) else f'if {cond} then {pg} else {pk}'
            return f'(let {x} := {a}; {body})', True, 'V'
        if apure:
            return f'(let {x} := {a}; {body})', False, 'V'
        return f'(({a}) >>= fun {x} => {body})', False, 'V'

    def bind_args(self, nodes, k):
        """evaluate the argument expressions left to right, then `k(texts)` (an `Except` text)"""
        texts, wraps = [], []
        for n in nodes:
            t, pure, kind = self.expr(n)
            if pure:
                texts.append((t, kind))
            else:
                x = self.gensym('a')
                wraps.append((x, t))
                texts.append((x, kind))
        inner = k(texts)
        for x, t in reversed(wraps):
            inner = f'(({t}) >>= fun {x} => {inner})'
        return inner, not wraps

    def call(self, e):
        f = ast.unparse(e.func)
        if e.keywords:
            self.bad(e, 'keyword arguments')
        if isinstance(e.func, ast.Attribute) and e.func.attr == 'get' and len(e.args) == 1:
            d, dpure, dk = self.expr(e.func.value)
            k, kpure, kk = self.expr(e.args[0])
            if dk == 'Dict' and kk == 'Str' and dpure and kpure:
                return f'(V.get {d} {k})', True, 'V'
            self.bad(e, '.get on something that is not (dict, string)')
        if f == 'datetime.fromisoformat' and len(e.args) == 1:
            t, _p = self.bind_args(e.args, lambda a: f'V.fromiso {a[0][0]}')
            return t, False, 'V'
        if f == 'TimeInterval' and len(e.args) == 2:
            t, _p = self.bind_args(e.args, lambda a: f'V.mkTI {a[0][0]} {a[1][0]}')
            return t, False, 'V'
        if isinstance(e.func, ast.Attribute) and e.func.attr == 'isoformat' and not e.args:
            t, _p = self.bind_args([e.func.value], lambda a: f'V.isoformat {a[0][0]}')
            return t, False, 'V'
        if isinstance(e.func, ast.Name) and e.func.id in self.intrinsics:
            return self.intrinsics[e.func.id](self, e)
        self.bad(e, 'call')

    # ---- tests: (lean Bool text, pure?) ------------------------------------------------------------------
    def test(self, e):
        if isinstance(e, ast.UnaryOp) and isinstance(e.op, ast.Not):
            t, pure = self.test(e.operand)
            return (f'(!{t})' if pure else f'(({t}) >>= fun b => pure (!b))'), pure
        if isinstance(e, ast.BoolOp):
            parts = [self.test(v) for v in e.values]
            if all(p for _t, p in parts):
                return '(' + (' || ' if isinstance(e.op, ast.Or) else ' && ').join(t for t, _p in parts) + ')', True
            # a later operand may raise: it is evaluated only when the earlier ones do not decide
            acc, accpure = parts[-1]
            for t, p in reversed(parts[:-1]):
                nxt = acc if not accpure else f'pure {acc}'
                stop = 'pure true' if isinstance(e.op, ast.Or) else 'pure false'
                arms = f'if b then {stop} else {nxt}' if isinstance(e.op, ast.Or) else f'if b then {nxt} else {stop}'
                acc = f'(({t if not p else "pure " + t}) >>= fun b => {arms})'
                accpure = False
            return acc, False
        if isinstance(e, ast.Compare) and len(e.ops) == 1:
            op, l, r = e.ops[0], e.left, e.comparators[0]
            if isinstance(op, (ast.Is, ast.IsNot)) and isinstance(r, ast.Constant) and r.value is None:
                t, pure = self.as_v(l)
                neg = '!' if isinstance(op, ast.IsNot) else ''
                return (f'({neg}decide ({t} = V.none))' if pure else f'(({t}) >>= fun v => pure ({neg}decide (v = V.none)))'), pure
            if isinstance(op, (ast.Eq, ast.NotEq)):
                return self._cmp('!' if isinstance(op, ast.NotEq) else '', e)
        if isinstance(e, ast.Call) and ast.unparse(e.func) == 'isinstance' and len(e.args) == 2:
            t, pure = self.as_v(e.args[0])
            cls = e.args[1].elts if isinstance(e.args[1], ast.Tuple) else [e.args[1]]
            tags = []
            for c in cls:
                if not (isinstance(c, ast.Name) and c.id in self.CLASS_TAGS):
                    self.bad(e, 'isinstance against a class the unit has no reading for')
                tags.append(self.CLASS_TAGS[c.id])
            tl = '[' + ', '.join(tags) + ']'
            return (f'(V.isInst {tl} {t})' if pure else f'(({t}) >>= fun v => pure (V.isInst {tl} v))'), pure
        if isinstance(e, ast.Call) and ast.unparse(e.func) == 'pd.isnull' and len(e.args) == 1 and not e.keywords:
            t, pure = self.as_v(e.args[0])
            return (f'(V.isNull {t})' if pure else f'(({t}) >>= fun v => pure (V.isNull v))'), pure
        t, pure, k = self.expr(e)
        if k == 'List':
            return f'(!({t}).isEmpty)', pure
        if k != 'V':
            self.bad(e, f'truthiness of a {k}')
        return (f'(V.truthy {self.nt} {t})' if pure else f'(({t}) >>= fun v => pure (V.truthy {self.nt} v))'), pure

    def _cmp(self, neg, e):
        l, r = e.left, e.comparators[0]
        a, apure, ak = self.expr(l)
        b, bpure, bk = self.expr(r)
        if ak != bk:
            self.bad(e, f'== between a {ak} and a {bk}')
        if apure and bpure:
            return f'({neg}decide ({a} = {b}))', True
        self.bad(e, '== on operands that may raise')

    # ---- statements ------------------------------------------------------------------------------------------
    def block(self, stmts, fall='pure V.none'):
        if not stmts:
            return fall
        s, rest = stmts[0], stmts[1:]
        if isinstance(s, ast.Expr) and isinstance(s.value, ast.Constant):
            return self.block(rest, fall)
        if isinstance(s, ast.Pass):
            return self.block(rest, fall)
        if isinstance(s, ast.Return):
            if s.value is None:
                return 'pure V.none'
            t, pure, k = self.expr(s.value)
            if k != 'V':
                self.bad(s, f'returns a {k}')
            return f'pure {t}' if pure else t
        if isinstance(s, ast.Assign) and len(s.targets) == 1 and isinstance(s.targets[0], ast.Name):
            name = s.targets[0].id
            t, pure, k = self.expr(s.value)
            x = lname(name)
            saved = self.env.get(name)
            self.env[name] = (x, k)
            tail = self.block(rest, fall)
            if saved is None:
                self.env.pop(name)
            else:
                self.env[name] = saved
            if pure:
                return f'let {x} := {t}\n{tail}'
            return f'({t}) >>= fun {x} =>\n{tail}'
        if isinstance(s, ast.If):
            t, pure = self.test(s.test)
            saved = dict(self.env)
            a = self.block(list(s.body) + rest, fall)
            self.env = dict(saved)
            b = self.block(list(s.orelse) + rest, fall)
            self.env = saved
            ind = py2lean._indent
            if pure:
                return f'if {t} then\n{ind(a)}\nelse\n{ind(b)}'
            return f'({t}) >>= fun c =>\nif c then\n{ind(a)}\nelse\n{ind(b)}'
        self.bad(s, 'statement')


def _par(t):
    return f'({t})' if ' ' in t and not (t.startswith('(') and t.endswith(')')) else t


def lean_t(k):
    if isinstance(k, tuple):
        if k[0] == 'List':
            return f'List {_par(lean_t(k[1]))}'
        if k[0] == 'Pair':
            return f'{_par(lean_t(k[1]))} × {_par(lean_t(k[2]))}'
    return KIND_TYPE[k]


def _loaded(nodes):
    return {n.id for x in nodes for n in ast.walk(x) if isinstance(n, ast.Name) and isinstance(n.ctx, ast.Load)}


def _stored(nodes):
    return {n.id for x in nodes for n in ast.walk(x) if isinstance(n, ast.Name) and isinstance(n.ctx, (ast.Store, ast.Del))}


class IoTr2(IoTr):
    """the writer side: typed locals (lists of shapes, the type map, the pyshp writer as `WriterS`, the files written so
    far as `zip_out`), `for` loops as `List.foldlM` over a named body `<fn>.loop<n>` (state = the variables the body
    changes, in order of definition; closure = the other variables it reads), comprehensions as map / filter / flatten,
    plumbing statements (temp dir, zip members, the .prj text, the type-conflict warning) skipped when they bind nothing
    that is read later and call only what `SKIP_CALLS` lists"""

    SHAPE_CLASSES = ('GeoPoint', 'MultiGeoPoint', 'LineLikeMixin', 'PolygonLikeMixin')
    SKIP_CALLS = ('Counter', 'LOGGER.warning', 'LOGGER.info', 'zip_file.write', 'open', 'os.path.join')
    FTYPES = {('L', None): 'FType.L', ('N', None): '(FType.N 0)', ('C', None): 'FType.C'}

    def __init__(self, qual, fn, env, nt, lean, localfns, shared=None):
        super().__init__(qual, fn, env, nt)
        self.lean, self.localfns = lean, localfns
        self.shared = shared if shared is not None else {'loops': 0, 'aux': []}
        self.cont = None
        self.ret_bare = 'pure zip_out'

    def gensym(self, base='x'):
        self.shared['sym'] = self.shared.get('sym', 0) + 1
        return f'{base}_{self.shared["sym"]}'

    # ---- iterables: (lean list text, element kind) -----------------------------------------------------------------
    def iterable(self, e, keys=False):
        if isinstance(e, ast.Tuple) and e.elts and all(isinstance(x, ast.Tuple) and len(x.elts) == 2 for x in e.elts):
            items = [[self.expr(y) for y in x.elts] for x in e.elts]
            kinds = {(a[2], b[2]) for a, b in items}
            if len(kinds) != 1 or not all(a[1] and b[1] for a, b in items):
                self.bad(e, 'a tuple of pairs of differing types')
            (ka, kb), = kinds
            return '[' + ', '.join(f'({a[0]}, {b[0]})' for a, b in items) + ']', ('Pair', ka, kb)
        if isinstance(e, ast.Call) and ast.unparse(e.func) == 'zip' and len(e.args) == 2 and not e.keywords \
                and all(isinstance(a, ast.Call) and isinstance(a.func, ast.Attribute) and isinstance(a.func.value, ast.Name) and not a.args
                        for a in e.args) and e.args[0].func.value.id == e.args[1].func.value.id \
                and (e.args[0].func.attr, e.args[1].func.attr) == ('shapes', 'records') \
                and self.env.get(e.args[0].func.value.id, (None, None))[1] == 'Reader':
            return f'({self.env[e.args[0].func.value.id][0]}).rows', ('Pair', 'ShpShape', 'Dict')
        if isinstance(e, ast.Call) and isinstance(e.func, ast.Attribute) and e.func.attr == 'to_dict' and isinstance(e.func.value, ast.Name) \
                and self.env.get(e.func.value.id, (None, None))[1] == 'Frame' and len(e.args) == 1 and not e.keywords \
                and isinstance(e.args[0], ast.Constant) and e.args[0].value == 'records':
            return f'({self.env[e.func.value.id][0]}).rows', 'GRow'
        if isinstance(e, ast.Call) and ast.unparse(e.func) == 'enumerate' and len(e.args) == 1 and not e.keywords:
            t, pure, k = self.expr(e.args[0])
            if pure and isinstance(k, tuple) and k[0] == 'List':
                return f'(enumFrom 0 {t})', ('Pair', 'Nat', k[1])
        if isinstance(e, ast.Call) and isinstance(e.func, ast.Attribute) and e.func.attr in ('items', 'keys') and not e.args:
            t, pure, k = self.expr(e.func.value)
            vk = {'Dict': 'PVal', 'TagDict': 'PTag'}.get(k)
            if pure and vk:
                return (t, ('Pair', 'Str', vk)) if e.func.attr == 'items' else (f'({t}.map (·.1))', 'Str')
        t, pure, k = self.expr(e)
        if pure and isinstance(k, tuple) and k[0] == 'List':
            return t, k[1]
        if pure and k in ('Dict', 'TagDict'):
            return f'({t}.map (·.1))', 'Str'            # iterating a dict gives its keys
        if pure and k == 'Coll':
            return t, 'Shape'
        self.bad(e, 'iteration over')

    def bind_target(self, target, x, kind):
        """bind the loop / comprehension target(s) to the element `x`; returns the `let` prefix"""
        if isinstance(target, ast.Name):
            self.env[target.id] = (lname(target.id), kind)
            return f'let {lname(target.id)} := {x}; '
        if isinstance(target, ast.Tuple) and len(target.elts) == 2 and all(isinstance(t, ast.Name) for t in target.elts) \
                and isinstance(kind, tuple) and kind[0] == 'Pair':
            a, b = target.elts
            self.env[a.id] = (lname(a.id), kind[1])
            self.env[b.id] = (lname(b.id), kind[2])
            return f'let {lname(a.id)} := {x}.1; let {lname(b.id)} := {x}.2; '
        self.bad(target, 'loop target')

    def comp(self, elt, gens):
        saved = dict(self.env)
        g = gens[0]
        xs, ek = self.iterable(g.iter)
        x = self.gensym('e')
        binds = self.bind_target(g.target, x, ek)
        src = xs
        if g.ifs:
            cs = [self.test(c) for c in g.ifs]
            if not all(p for _t, p in cs):
                self.bad(g.ifs[0], 'a comprehension filter that may raise')
            src = f'({xs}.filter fun {x} => {binds}' + ' && '.join(t for t, _p in cs) + ')'
        if len(gens) == 1:
            t, pure, k = self.expr(elt)
            text = f'({src}.map fun {x} => {binds}{t})' if pure else f'(mapExcept (fun {x} => {binds}{t}) {src})'
        else:
            inner, k, pure = self.comp(elt, gens[1:])
            if not pure:
                self.bad(elt, 'a nested comprehension whose element may raise')
            k = k[1]
            text = f'(({src}.map fun {x} => {binds}{inner}).flatten)'
        self.env = saved
        return text, ('List', k), pure

    # ---- expressions -----------------------------------------------------------------------------------------------------
    KIND_OF_CLASS = {'GeoPoint': 'Kind.point', 'GeoLineString': 'Kind.line', 'GeoPolygon': 'Kind.poly', 'MultiGeoPoint': 'Kind.mpoint',
                     'MultiGeoLineString': 'Kind.mline', 'MultiGeoPolygon': 'Kind.mpoly'}

    def kml_expr(self, e, u):
        """the KML exporters: fastkml objects as the model's `KTime` / `Placemark` / `KNode`"""
        narrow = getattr(self, 'narrow', {})
        if u in narrow:
            return narrow[u][0], True, narrow[u][1]
        if isinstance(e, ast.Attribute) and isinstance(e.value, ast.Name) and e.value.id in self.env:
            t, k = self.env[e.value.id]
            if k == 'TI' and e.attr in ('start', 'end'):
                return f'({t}).{1 if e.attr == "start" else 2}', True, 'Int'
            if k == 'Shape' and e.attr == '_properties':
                return f'({t}).props', True, 'Dict'
            if k == 'Shape' and e.attr == 'dt':
                return f'({t}).dt', True, 'OptTI'
        if isinstance(e, ast.Attribute) and e.attr == 'dt' and isinstance(e.value, ast.Attribute) and isinstance(e.value.value, ast.Name) \
                and self.env.get(e.value.value.id, (None, None))[1] == 'KTime' and e.value.attr in ('timestamp', 'begin', 'end'):
            acc = {'timestamp': 'ktTimestampDt', 'begin': 'ktBeginDt', 'end': 'ktEndDt'}[e.value.attr]
            return f'{acc} {self.env[e.value.value.id][0]}', False, 'Int'
        if isinstance(e, ast.Call) and isinstance(e.func, ast.Name) and e.func.id == 'TimeInterval' and len(e.args) == 2 and not e.keywords:
            def mkti(a):
                if [x[1] for x in a] != ['Int', 'Int']:
                    return None
                return f'tiOfInts {a[0][0]} {a[1][0]}'
            sub = IoTr2(self.qual, self.fn, self.env, self.nt, self.lean, self.localfns, self.shared)
            sub.narrow = narrow
            kinds = [sub.expr(a)[2] for a in e.args]
            if kinds == ['Int', 'Int']:
                t, _p = self.bind_args(e.args, mkti)
                return t, False, 'TI'
        if isinstance(e, ast.Call) and isinstance(e.func, ast.Name):
            f, kws = e.func.id, {k.arg: k.value for k in e.keywords}
            if f == 'KmlDateTime' and len(e.args) + len(kws) == 1 and set(kws) <= {'dt'}:
                t, p, k = self.expr(e.args[0] if e.args else kws['dt'])
                if p and k == 'Int':
                    return t, True, 'Int'
            if f == 'TimeStamp' and not e.args and set(kws) == {'timestamp'}:
                t, p, k = self.expr(kws['timestamp'])
                if p and k == 'Int':
                    return f'(KTime.stamp {t})', True, 'KTime'
            if f == 'TimeSpan' and not e.args and list(kws) == ['begin', 'end']:
                (a, ap, ak), (b, bp, bk) = self.expr(kws['begin']), self.expr(kws['end'])
                if ap and bp and ak == bk == 'Int':
                    return f'(KTime.span {a} {b})', True, 'KTime'
            if f == 'Data' and not e.args and list(kws) == ['name', 'value']:
                (a, ap, ak), (b, bp, bk) = self.expr(kws['name']), self.expr(kws['value'])
                if ap and bp and ak == 'Str' and bk == 'PVal':
                    return f'({a}, {b})', True, ('Pair', 'Str', 'PVal')
            if f == 'ExtendedData' and not e.args and list(kws) == ['elements']:
                t, p, k = self.expr(kws['elements'])
                if p and k == ('List', ('Pair', 'Str', 'PVal')):
                    return t, True, 'Dict'
            if f == 'Placemark' and not e.args and [k.arg for k in e.keywords] == ['geometry', 'extended_data', 'times', None] \
                    and isinstance(e.keywords[3].value, ast.Name) and self.env.get(e.keywords[3].value.id, (None, None))[1] == 'NoKw':
                def mkp(a):
                    if [x[1] for x in a] != ['GI', 'Dict', 'KTime']:
                        self.bad(e, 'Placemark(geometry=…, extended_data=…, times=…) at other types')
                    return f'pure {{ geom := Option.some {a[0][0]}, data := Option.some {a[1][0]}, times := {a[2][0]} }}'
                self.shape_as_geometry = True
                try:
                    t, _p = self.bind_args([k.value for k in e.keywords[:3]], mkp)
                finally:
                    self.shape_as_geometry = False
                return t, False, 'PM'
            if f == 'Folder' and not e.args and list(kws) == ['name', 'features']:
                def mkf(a):
                    if [x[1] for x in a] != ['Str', ('List', 'PM')]:
                        self.bad(e, 'Folder(name=…, features=…) at other types')
                    return f'pure (KNode.folder (Option.some {a[0][0]}) ({a[1][0]}.map KNode.pm))'
                t, _p = self.bind_args([kws['name'], kws['features']], mkf)
                return t, False, 'KNode'
        if isinstance(e, ast.Name) and getattr(self, 'shape_as_geometry', False) and self.env.get(e.id, (None, None))[1] == 'Shape':
            return f'giOrErr {self.env[e.id][0]}', False, 'GI'        # fastkml reads the shape's geo interface (not translated)
        if isinstance(e, ast.Call) and isinstance(e.func, ast.Attribute) and not e.args and not e.keywords \
                and e.func.attr in getattr(self, 'methods', {}):
            t, p, k = self.expr(e.func.value)
            lean, want, ret = self.methods[e.func.attr]
            if p and k == want:
                return f'{lean} {t}', False, ret
        if isinstance(e, ast.IfExp) and isinstance(e.test, ast.Compare) and len(e.test.ops) == 1 and isinstance(e.test.ops[0], ast.IsNot) \
                and isinstance(e.test.comparators[0], ast.Constant) and e.test.comparators[0].value is None \
                and isinstance(e.orelse, ast.Constant) and e.orelse.value is None:
            t, p, k = self.expr(e.test.left)
            if p and k == 'OptTI':
                x = self.gensym('ti')
                self.narrow = dict(narrow)
                self.narrow[ast.unparse(e.test.left)] = (x, 'TI')
                try:
                    b, bp, bk = self.expr(e.body)
                finally:
                    self.narrow = narrow
                if bk == 'KTime':
                    return (f'(match {t} with | Option.some {x} => {b if not bp else "pure " + b} | Option.none => pure KTime.none)'), False, 'KTime'
        return None

    def reader_expr(self, e):
        """the reader side (`from_shapefile`): archive members, the pyshp reader's rows, the class map"""
        u = ast.unparse(e)
        r = self.kml_expr(e, u)
        if r is not None:
            return r
        if isinstance(e, ast.Dict) and e.keys and all(isinstance(k, ast.Constant) and isinstance(k.value, str) for k in e.keys) \
                and all(isinstance(v, ast.Name) and v.id in self.KIND_OF_CLASS for v in e.values):
            return '[' + ', '.join(f'({py2lean._lean_str(k.value)}, {self.KIND_OF_CLASS[v.id]})' for k, v in zip(e.keys, e.values)) + ']', True, 'ClassMap'
        if isinstance(e, ast.Call) and isinstance(e.func, ast.Attribute) and isinstance(e.func.value, ast.Name) and e.func.value.id in self.env \
                and not e.keywords:
            t, k = self.env[e.func.value.id]
            m, n = e.func.attr, len(e.args)
            if k == 'Archive' and m == 'namelist' and n == 0:
                return t, True, ('List', 'Member')
            if k == 'Reader' and m == 'shapes' and n == 0:
                return f'(({t}).rows.map (·.1))', True, ('List', 'ShpShape')
            if k == 'Reader' and m == 'records' and n == 0:
                return f'(({t}).rows.map (·.2))', True, ('List', 'Dict')
            if k == 'Dict' and m == 'as_dict' and n == 0:
                return t, True, 'Dict'
            if k == 'Kind' and m == 'from_pyshp':
                pass
        if isinstance(e, ast.Call) and isinstance(e.func, ast.Attribute) and e.func.attr == 'from_pyshp' and isinstance(e.func.value, ast.Name) \
                and self.env.get(e.func.value.id, (None, None))[1] == 'Kind' and len(e.args) == 1 and [k.arg for k in e.keywords] == ['dt', 'properties']:
            def mk(a):
                if [x[1] for x in a] != ['ShpShape', 'V', 'Dict']:
                    self.bad(e, 'from_pyshp(shape, dt=…, properties=…) at other types')
                return f'fromPyshpV {self.env[e.func.value.id][0]} {a[0][0]} {a[1][0]} {a[2][0]}'
            t, _p = self.bind_args([e.args[0], e.keywords[0].value, e.keywords[1].value], mk)
            return t, False, 'Shape'
        if u.endswith(".__geo_interface__.get('type')") and isinstance(e, ast.Call) and isinstance(e.func.value, ast.Attribute) \
                and isinstance(e.func.value.value, ast.Name) and self.env.get(e.func.value.value.id, (None, None))[1] == 'ShpShape':
            return f'({self.env[e.func.value.value.id][0]}).gtype', True, 'Str'
        if isinstance(e, ast.Call) and u.startswith('shapefile.Reader(') and len(e.args) == 1 and isinstance(e.args[0], ast.BinOp) \
                and isinstance(e.args[0].op, ast.Div) and isinstance(e.args[0].left, ast.Call) and ast.unparse(e.args[0].left.func) == 'Path' \
                and len(e.args[0].left.args) == 1:
            a, _ap, ak = self.expr(e.args[0].left.args[0])
            b, bp, bk = self.expr(e.args[0].right)
            if ak == 'Archive' and bk == 'Member' and bp:
                return f'({b}).reader', True, 'Reader'
        if isinstance(e, ast.Subscript) and isinstance(e.value, ast.Name) and self.env.get(e.value.id, (None, None))[1] == 'ClassMap':
            t, _p = self.bind_args([e.slice], lambda a: f'classGet {self.env[e.value.id][0]} {a[0][0]}')
            return t, False, 'Kind'
        if isinstance(e, ast.DictComp) and len(e.generators) == 1 and isinstance(e.generators[0].target, ast.Tuple) \
                and ast.unparse(e.generators[0].target) == f'({ast.unparse(e.key)}, {ast.unparse(e.value)})':
            g = e.generators[0]
            if isinstance(g.iter, ast.Call) and isinstance(g.iter.func, ast.Attribute) and g.iter.func.attr == 'items':
                self.row_as_dict = True
                try:
                    d, dp, dk = self.expr(g.iter.func.value)
                finally:
                    self.row_as_dict = False
                if dp and dk == 'Dict':
                    saved = dict(self.env)
                    x = self.gensym('kv')
                    binds = self.bind_target(g.target, x, ('Pair', 'Str', 'PVal'))
                    cs = [self.test(c) for c in g.ifs]
                    self.env = saved
                    if all(p for _t, p in cs):
                        return f'({d}.filter fun {x} => {binds}' + (' && '.join(t for t, _p in cs) or 'true') + ')', True, 'Dict'
        if isinstance(e, ast.BoolOp) and isinstance(e.op, ast.Or) and len(e.values) == 2 and isinstance(e.values[0], ast.Name) \
                and self.env.get(e.values[0].id, (None, None))[1] == 'Incl':
            b, bp, bk = self.expr(e.values[1])
            if bp and bk == ('List', 'Str'):
                return f'(inclOr {self.env[e.values[0].id][0]} {b})', True, ('List', 'Str')
        if isinstance(e, ast.Call) and isinstance(e.func, ast.Name) and e.func.id == 'set' and len(e.args) == 1 and not e.keywords \
                and isinstance(e.args[0], ast.GeneratorExp):
            t, k, pure = self.comp(e.args[0].elt, e.args[0].generators)
            if pure and k == ('List', 'Str'):
                return f'(strSet {t})', True, k
        if isinstance(e, ast.DictComp) and len(e.generators) == 1 and isinstance(e.generators[0].target, ast.Name) \
                and isinstance(e.key, ast.Name) and e.key.id == e.generators[0].target.id and not e.generators[0].ifs:
            g = e.generators[0]
            xs, ek = self.iterable(g.iter)
            if ek == 'Str':
                saved = dict(self.env)
                x = self.gensym('key')
                binds = self.bind_target(g.target, x, 'Str')
                v, vp, vk = self.expr(e.value)
                self.env = saved
                if vp and vk == 'V':
                    return f'({xs}.map fun {x} => {binds}({lname(g.target.id)}, V.toP {v}))', True, 'Dict'
        if isinstance(e, ast.Call) and isinstance(e.func, ast.Attribute) and e.func.attr == 'to_wkt' and not e.args and not e.keywords:
            t, tp, tk = self.expr(e.func.value)
            if tp and tk == 'Shape':
                return f'giOrErr {t}', False, 'GI'          # the per-shape adapter (not translated)
        if isinstance(e, ast.Call) and u.startswith('gpd.GeoDataFrame(') and not e.args and [k.arg for k in e.keywords] == ['data', 'geometry']:
            d, g = e.keywords[0].value, e.keywords[1].value
            if isinstance(d, ast.Call) and ast.unparse(d.func) == 'pd.DataFrame' and len(d.args) == 1 and not d.keywords \
                    and isinstance(g, ast.Call) and ast.unparse(g.func) == 'gpd.GeoSeries.from_wkt' and len(g.args) == 1 and not g.keywords:
                def mk(a):
                    if [x[1] for x in a] != [('List', 'Dict'), ('List', 'GI')]:
                        self.bad(e, 'GeoDataFrame(data=DataFrame(rows), geometry=GeoSeries.from_wkt(texts)) at other types')
                    return f'pure (GpdFrameW.mk {a[0][0]} {a[1][0]})'
                t, _p = self.bind_args([d.args[0], g.args[0]], mk)
                return t, False, 'FrameW'
        if isinstance(e, ast.Call) and isinstance(e.func, ast.Name) and e.func.id == 'cast' and len(e.args) == 2 and not e.keywords:
            return self.expr(e.args[1])              # typing.cast is the identity
        if isinstance(e, ast.Attribute) and isinstance(e.value, ast.Name) and self.env.get(e.value.id, (None, None))[1] == 'Frame' \
                and e.attr == 'columns':
            return f'({self.env[e.value.id][0]}).columns', True, ('List', 'Str')
        if isinstance(e, ast.Attribute) and e.attr in ('geom_type', 'wkt') and isinstance(e.value, ast.Subscript) \
                and isinstance(e.value.value, ast.Name) and self.env.get(e.value.value.id, (None, None))[1] == 'GRow' \
                and isinstance(e.value.slice, ast.Constant) and e.value.slice.value == 'geometry':
            r = self.env[e.value.value.id][0]
            return (f'({r}).geomType', True, 'Str') if e.attr == 'geom_type' else (f'({r}).wkt', True, 'GI')
        if isinstance(e, ast.Name) and self.env.get(e.id, (None, None))[1] == 'GRow' and getattr(self, 'row_as_dict', False):
            return f'({self.env[e.id][0]}).cells', True, 'Dict'
        if isinstance(e, ast.Call) and isinstance(e.func, ast.Attribute) and e.func.attr == 'from_wkt' and len(e.args) == 1 \
                and [k.arg for k in e.keywords] == ['dt', 'properties']:
            def mkw(a):
                if [x[1] for x in a] != ['Kind', 'GI', 'V', 'Dict']:
                    self.bad(e, 'from_wkt(text, dt=…, properties=…) at other types')
                return f'fromWktV {a[0][0]} {a[1][0]} {a[2][0]} {a[3][0]}'
            t, _p = self.bind_args([e.func.value, e.args[0], e.keywords[0].value, e.keywords[1].value], mkw)
            return t, False, 'Shape'
        if isinstance(e, ast.List) and not e.elts and getattr(self, 'empty_list_kind', None):
            return f'([] : {lean_t(self.empty_list_kind)})', True, self.empty_list_kind
        return None

    def expr(self, e):
        r = self.reader_expr(e)
        if r is not None:
            return r
        if isinstance(e, ast.Attribute) and isinstance(e.value, ast.Name) and e.value.id in self.env:
            t, k = self.env[e.value.id]
            if k == 'Coll' and e.attr == 'geoshapes':
                return t, True, ('List', 'Shape')
            if k == 'Shape' and e.attr == 'properties':
                return f'(Shape.properties {t})', True, 'Dict'        # pinned `BaseShapeProtocol.properties`
            self.bad(e, 'attribute')
        if isinstance(e, ast.Name) and e.id in self.env and self.env[e.id][1] == 'Nat':
            return self.env[e.id][0], True, 'Nat'
        if isinstance(e, (ast.ListComp, ast.GeneratorExp)):
            t, k, pure = self.comp(e.elt, e.generators)
            return t, pure, k
        if isinstance(e, ast.Tuple) and len(e.elts) == 2:
            (a, ap, ak), (b, bp, bk) = self.expr(e.elts[0]), self.expr(e.elts[1])
            if ap and bp:
                return f'({a}, {b})', True, ('Pair', ak, bk)
        if isinstance(e, ast.Call) and isinstance(e.func, ast.Name) and not e.keywords:
            f = e.func.id
            if f == 'type' and len(e.args) == 1:
                t, pure, k = self.expr(e.args[0])
                if pure and k == 'PVal':
                    return f'(PVal.tag {t})', True, 'PTag'
            if f == 'set' and len(e.args) == 1 and isinstance(e.args[0], ast.GeneratorExp):
                # a set of (key, type) pairs: its iteration order is modelled as generation order (Model/Io.lean)
                t, pure, k = self.expr(e.args[0])
                if pure and k == ('List', ('Pair', 'Str', 'PTag')):
                    return t, True, k
            if f == 'dict' and len(e.args) == 1:
                t, pure, k = self.expr(e.args[0])
                if pure and k == ('List', ('Pair', 'Str', 'PTag')):
                    return f'(dictOf {t})', True, 'TagDict'
            if f in self.localfns and len(e.args) == 1:
                self.row_as_dict = True
                try:
                    t, _p = self.bind_args(e.args, lambda a: f'{self.localfns[f]} {a[0][0]}')
                finally:
                    self.row_as_dict = False
                return t, False, 'V'
        return super().expr(e)

    def test(self, e):
        if isinstance(e, ast.Call) and isinstance(e.func, ast.Name) and e.func.id in ('isinstance', 'issubclass') \
                and len(e.args) == 2 and isinstance(e.args[1], ast.Name):
            t, pure, k = self.expr(e.args[0])
            c = e.args[1].id
            if e.func.id == 'isinstance' and k == 'Shape' and pure and c in self.SHAPE_CLASSES:
                return f'(shapeIsA Cls.{c} {t})', True
            if e.func.id == 'issubclass' and k == 'PTag' and pure and c in self.CLASS_TAGS:
                return f'(PTag.isSub {t} {self.CLASS_TAGS[c]})', True
        if isinstance(e, ast.Call) and isinstance(e.func, ast.Name) and e.func.id == 'isinstance' and len(e.args) == 2 \
                and isinstance(e.args[1], ast.Name) and e.args[1].id in ('TimeStamp', 'TimeSpan') and isinstance(e.args[0], ast.Name) \
                and self.env.get(e.args[0].id, (None, None))[1] == 'KTime':
            return f'({"ktIsStamp" if e.args[1].id == "TimeStamp" else "ktIsSpan"} {self.env[e.args[0].id][0]})', True
        if isinstance(e, ast.BoolOp) and isinstance(e.op, ast.And) and isinstance(e.values[0], ast.Name) \
                and self.env.get(e.values[0].id, (None, None))[1] == 'NoneT':
            return 'false', True            # `None and …`: the instance is declared at None, the rest is not evaluated
        if isinstance(e, ast.Call) and isinstance(e.func, ast.Attribute) and e.func.attr == 'endswith' and len(e.args) == 1 \
                and isinstance(e.args[0], ast.Constant) and e.args[0].value == '.shp':
            t, pure, k = self.expr(e.func.value)
            if pure and k == 'Member':
                return f'({t}).isShp', True
        if isinstance(e, ast.Compare) and len(e.ops) == 1 and isinstance(e.ops[0], (ast.In, ast.NotIn)) \
                and isinstance(e.comparators[0], ast.Tuple):
            a, ap, ak = self.expr(e.left)
            items = [self.expr(x) for x in e.comparators[0].elts]
            if ap and ak == 'Str' and all(p and k == 'Str' for _t, p, k in items):
                neg = '!' if isinstance(e.ops[0], ast.NotIn) else ''
                return f'({neg}(' + ' || '.join(f'{a} == {t}' for t, _p, _k in items) + '))', True
        if isinstance(e, ast.Compare) and len(e.ops) == 1 and isinstance(e.ops[0], (ast.In, ast.NotIn)) \
                and isinstance(e.comparators[0], ast.Name) and self.env.get(e.comparators[0].id, (None, None))[1] == 'ClassMap':
            a, ap, ak = self.expr(e.left)
            if ap and ak == 'Str':
                neg = '!' if isinstance(e.ops[0], ast.In) else ''
                return f'({neg}(dictGet {self.env[e.comparators[0].id][0]} {a}).isNone)', True
        if isinstance(e, ast.Compare) and len(e.ops) == 1 and isinstance(e.ops[0], (ast.In, ast.NotIn)):
            (a, ap, ak), (b, bp, bk) = self.expr(e.left), self.expr(e.comparators[0])
            if ap and bp and ak == 'Str' and bk == ('List', 'Str'):
                neg = '!' if isinstance(e.ops[0], ast.NotIn) else ''
                return f'({neg}({b}).contains {a})', True
            if ap and bp and ak == 'Str' and bk == 'Incl':
                neg = '!' if isinstance(e.ops[0], ast.NotIn) else ''
                return f'({neg}inclContains {b} {a})', True
        if isinstance(e, ast.Call):
            r = self.reader_expr(e)
            if r is not None and r[1] and isinstance(r[2], tuple) and r[2][0] == 'List':
                return f'(!({r[0]}).isEmpty)', True
        if isinstance(e, ast.Name) and e.id in self.env:
            t, k = self.env[e.id]
            if k == 'Incl':
                return f'(inclTruthy {t})', True
            if isinstance(k, tuple) and k[0] == 'List':
                return f'(!({t}).isEmpty)', True
        return super().test(e)

    # ---- statements ------------------------------------------------------------------------------------------------------
    def skippable(self, s, rest):
        if any(isinstance(n, (ast.Return, ast.Raise, ast.Continue, ast.Break, ast.Yield, ast.For, ast.While)) for n in ast.walk(s)):
            return False
        st = _stored([s])
        if st & set(self.env) or st & _loaded(rest):
            return False
        for n in ast.walk(s):
            if isinstance(n, ast.Call):
                f = ast.unparse(n.func)
                if f in self.SKIP_CALLS:
                    continue
                if isinstance(n.func, ast.Attribute) and n.func.attr in ('most_common', 'split'):
                    continue
                if isinstance(n.func, ast.Attribute) and n.func.attr == 'write' and isinstance(n.func.value, ast.Name) \
                        and n.func.value.id in st:
                    continue
                return False
        return True

    def mutated(self, body):
        m = set(_stored(body))
        for n in (x for b in body for x in ast.walk(b)):
            if isinstance(n, ast.Call) and isinstance(n.func, ast.Attribute) and isinstance(n.func.value, ast.Name):
                if n.func.attr in ('append', 'field', 'record'):
                    m.add(n.func.value.id)
                if n.func.attr == 'close':
                    m.add('zip_out')
                if n.func.attr == 'to_pyshp' and n.args and isinstance(n.args[0], ast.Name):
                    m.add(n.args[0].id)
        return m

    def block(self, stmts, fall='pure zip_out'):
        if not stmts:
            return fall
        s, rest = stmts[0], stmts[1:]
        if isinstance(s, (ast.Import, ast.ImportFrom)):
            return self.block(rest, fall)
        if isinstance(s, ast.FunctionDef) and s.name in self.localfns:
            return self.block(rest, fall)           # translated as a definition of its own
        if isinstance(s, ast.Return) and s.value is None:
            return self.ret_bare
        if isinstance(s, ast.Continue) and self.cont is not None:
            return self.cont
        if isinstance(s, ast.Raise) and isinstance(s.exc, ast.Call) and isinstance(s.exc.func, ast.Name) \
                and s.exc.func.id in ('ValueError', 'TypeError', 'KeyError'):
            return f'.error "ERR:{s.exc.func.id[:-5]}"'
        if isinstance(s, ast.AnnAssign) and isinstance(s.target, ast.Name) and isinstance(s.value, ast.List) and not s.value.elts:
            ann = ast.unparse(s.annotation)
            inner = ann[5:-1] if ann.startswith('List[') else None
            if inner not in self.SHAPE_CLASSES + ('BaseShape',):
                self.bad(s, 'annotation')
            self.env[s.target.id] = (lname(s.target.id), ('List', 'Shape'))
            return f'let {lname(s.target.id)} : List Shape := []\n' + self.block(rest, fall)
        if isinstance(s, ast.With) and len(s.items) == 1 and ast.unparse(s.items[0].context_expr) == 'tempfile.TemporaryDirectory()' \
                and isinstance(s.items[0].optional_vars, ast.Name):
            self.env[s.items[0].optional_vars.id] = ('()', 'Path')
            return self.block(list(s.body) + rest, fall)
        if isinstance(s, ast.With) and len(s.items) == 1 and isinstance(s.items[0].context_expr, ast.Call) \
                and ast.unparse(s.items[0].context_expr.func) == 'ZipFile' and isinstance(s.items[0].optional_vars, ast.Name) \
                and len(s.items[0].context_expr.args) == 2 and ast.unparse(s.items[0].context_expr.args[1]) == "'r'":
            a, ap, ak = self.expr(s.items[0].context_expr.args[0])
            if ak == 'Archive':
                self.env[s.items[0].optional_vars.id] = (a, 'Archive')
                return self.block(list(s.body) + rest, fall)
        if isinstance(s, ast.Return) and isinstance(s.value, ast.Call) and isinstance(s.value.func, ast.Name) and s.value.func.id == 'cls' \
                and len(s.value.args) == 1 and not s.value.keywords:
            t, pure, k = self.expr(s.value.args[0])
            if pure and k == ('List', 'Shape'):
                return f'pure {t}'
        if isinstance(s, ast.Return) and s.value is not None and getattr(self, 'ret_kind', None):
            t, pure, k = self.expr(s.value)
            if k == self.ret_kind:
                return f'pure {t}' if pure else t
        if isinstance(s, ast.For) and not s.orelse:
            return self.for_stmt(s, rest, fall)
        if isinstance(s, ast.Expr) and isinstance(s.value, ast.Call) and isinstance(s.value.func, ast.Attribute) \
                and isinstance(s.value.func.value, ast.Name) and s.value.func.value.id in self.env:
            r = self.method_stmt(s.value, rest, fall)
            if r is not None:
                return r
        if isinstance(s, ast.Assign) and len(s.targets) == 1 and isinstance(s.targets[0], ast.Name) \
                and ast.unparse(s.value.func if isinstance(s.value, ast.Call) else s.value) == 'shapefile.Writer':
            a = s.value.args
            if len(a) == 1 and isinstance(a[0], ast.Call) and ast.unparse(a[0].func) == 'os.path.join' and len(a[0].args) == 2:
                d, _p, dk = self.expr(a[0].args[0])
                n, npure, nk = self.expr(a[0].args[1])
                if dk == 'Path' and nk == 'Str' and npure:
                    self.env[s.targets[0].id] = (lname(s.targets[0].id), 'Writer')
                    return f'let {lname(s.targets[0].id)} := WriterS.new {n}\n' + self.block(rest, fall)
            self.bad(s, 'only shapefile.Writer(os.path.join(<temp dir>, <layer name>)) is read')
        if isinstance(s, (ast.If, ast.With, ast.Expr, ast.Assign, ast.AugAssign)) and self.skippable(s, rest) \
                and not (isinstance(s, ast.Assign)):
            return self.block(rest, fall)
        return super().block(stmts, fall)

    def method_stmt(self, c, rest, fall):
        recv = c.func.value.id
        rt, rk = self.env[recv]
        m = c.func.attr
        if m == 'append' and isinstance(rk, tuple) and rk[0] == 'List' and len(c.args) == 1 and not c.keywords:
            t, pure, k = self.expr(c.args[0])
            if pure and k == rk[1]:
                return f'let {rt} := {rt} ++ [{t}]\n' + self.block(rest, fall)
            if k == rk[1]:
                x = self.gensym('v')
                return f'({t}) >>= fun {x} =>\nlet {rt} := {rt} ++ [{x}]\n' + self.block(rest, fall)
        if m == 'field' and rk == 'Writer' and len(c.args) == 2 and isinstance(c.args[1], ast.Constant):
            k, kp, kk = self.expr(c.args[0])
            kws = {x.arg: x.value for x in c.keywords}
            code = c.args[1].value
            ft = None
            if not kws and (code, None) in self.FTYPES:
                ft = self.FTYPES[(code, None)]
            elif code == 'N' and set(kws) == {'decimal'} and isinstance(kws['decimal'], ast.Constant) and isinstance(kws['decimal'].value, int):
                ft = f'(FType.N {kws["decimal"].value})'
            if ft and kp and kk == 'Str':
                return f'let {rt} := WriterS.field {rt} {k} {ft}\n' + self.block(rest, fall)
        if m == 'record' and rk == 'Writer' and not c.keywords:
            parts, wraps = [], []
            for a in c.args:
                if isinstance(a, ast.Starred):
                    t, pure, k = self.expr(a.value)
                    if k != ('List', 'V'):
                        self.bad(a, 'a starred argument that is not a list of values')
                    if not pure:
                        x = self.gensym('r')
                        wraps.append((x, t))
                        t = x
                    parts.append(f'({t}.map V.toP)')
                else:
                    t, pure, k = self.expr(a)
                    if not pure or k not in ('Nat', 'V'):
                        self.bad(a, 'record value')
                    parts.append(f'[PVal.int {t}]' if k == 'Nat' else f'[V.toP {t}]')
            tail = f'let {rt} := WriterS.record {rt} (' + ' ++ '.join(parts) + ')\n' + self.block(rest, fall)
            for x, t in reversed(wraps):
                tail = f'({t}) >>= fun {x} =>\n{tail}'
            return tail
        if m == 'to_pyshp' and rk == 'Shape' and len(c.args) == 1 and isinstance(c.args[0], ast.Name) \
                and self.env.get(c.args[0].id, (None, None))[1] == 'Writer':
            w = self.env[c.args[0].id][0]
            x = self.gensym('call')
            tail = py2lean._indent(f'let {w} := WriterS.shape {w} {x}\n' + self.block(rest, fall))
            return f'match toPyshp ({rt}).geom with\n| Option.none => .error "ERR:Attr"\n| Option.some {x} =>\n{tail}'
        if m == 'close' and rk == 'Writer' and not c.args:
            return f'let zip_out := zip_out ++ [({rt}).file]\n' + self.block(rest, fall)
        return None

    def for_stmt(self, s, rest, fall):
        self.shared['loops'] += 1
        num = self.shared['loops']
        name = f'{self.lean}.loop{num}'
        xs, ek = self.iterable(s.iter)
        muts = self.mutated(s.body)
        tnames = _stored([s.target])
        state = [v for v in self.env if v in muts and v not in tnames]
        if not state:
            self.bad(s, 'a loop that changes nothing')
        loaded = _loaded(s.body) | ({'zip_out'} if 'zip_out' in muts else set())
        for f_ in list(loaded):
            if f_ in self.localfns:         # what a nested helper reads from the enclosing function's parameters
                loaded |= set(self.localfns[f_].split()[1:])
        closure = [v for v in self.env if v in loaded and v not in state and v not in tnames and self.env[v][1] != 'Path']
        sub = IoTr2(self.qual, self.fn, {v: self.env[v] for v in self.env if v in closure or v in state or self.env[v][1] == 'Path'},
                    self.nt, self.lean, self.localfns, self.shared)
        sub.ret_bare = None
        tup = '(' + ', '.join(self.env[v][0] for v in state) + ')' if len(state) > 1 else self.env[state[0]][0]
        sub.cont = f'pure {tup}'
        binds = sub.bind_target(s.target, 'x', ek).replace('; ', '\n')
        projs = []
        for i, v in enumerate(state):
            p = 'st' + '.2' * i + ('.1' if i < len(state) - 1 else '')
            projs.append(f'let {self.env[v][0]} := {p}' if len(state) > 1 else f'let {self.env[v][0]} := st')
        body = sub.block(list(s.body), sub.cont)
        st_t = ' × '.join(_par(lean_t(self.env[v][1])) for v in state)
        cb = ' '.join(f'({self.env[v][0]} : {lean_t(self.env[v][1])})' for v in closure)
        aux = (f'/-- body of the {num}. loop of `{self.qual}`: `for {ast.unparse(s.target)} in {ast.unparse(s.iter)[:60]}` -/\n'
               f'def {name} {cb} (st : {st_t}) (x : {lean_t(ek)}) : Except String ({st_t}) :=\n' +
               py2lean._indent('\n'.join(projs) + '\n' + binds + body))
        self.shared['aux'].append(aux)
        call = f'List.foldlM ({name}' + ''.join(' ' + self.env[v][0] for v in closure) + f') {tup} {xs}'
        return f'({call}) >>= fun st =>\n' + '\n'.join(projs) + '\n' + self.block(rest, fall)


class Fn:
    """one translated definition: `qual` (dotted path, nested defs included), Lean name, parameters [(python name, kind)],
    `closure`: names read from the enclosing function's parameters, `nt`: truthiness of the channel's null"""

    def __init__(self, qual, lean, params, closure=(), nt='false', doc='', writer=False, localfns=None):
        self.qual, self.lean, self.params, self.closure, self.nt, self.doc = qual, lean, list(params), list(closure), nt, doc
        self.writer, self.localfns = writer, localfns or {}
        self.reader = False
        self.file = 'collections.py'


KIND_TYPE = {'V': 'V', 'Str': 'String', 'Dict': 'Dict PVal', 'Shape': 'Shape', 'Nat': 'Nat', 'PVal': 'PVal', 'PTag': 'PTag',
             'TagDict': 'Dict PTag', 'Incl': 'Option (List String)', 'Writer': 'WriterS', 'Out': 'List ShpFileW', 'Path': 'Unit',
             'Coll': 'List Shape', 'Archive': 'List Member', 'Member': 'Member', 'Reader': 'ShpFileR', 'ShpShape': 'ShpShapeR',
             'ClassMap': 'List (String × Kind)', 'Kind': 'Kind', 'NoneT': 'Unit', 'GI': 'GI', 'FrameW': 'GpdFrameW', 'Frame': 'GpdFrameR',
             'GRow': 'GpdRowR', 'TI': 'Int × Int', 'Int': 'Int', 'KTime': 'KTime', 'PM': 'Placemark', 'KNode': 'KNode',
             'OptTI': 'Dt', 'NoKw': 'Unit'}


def find_def(tree, qual):
    """the FunctionDef at a dotted path (class / function / nested function), and the chain of enclosing functions"""
    body, chain, node = tree.body, [], None
    for part in qual.split('.'):
        node = next((n for n in body if isinstance(n, (ast.FunctionDef, ast.ClassDef)) and n.name == part), None)
        if node is None:
            raise Unsupported(f'collections.py: `{qual}` not found')
        if isinstance(node, ast.FunctionDef):
            chain.append(node)
        body = node.body
    if not isinstance(node, ast.FunctionDef):
        raise Unsupported(f'collections.py: `{qual}` is not a function')
    return node, chain[:-1]


class IoUnit:
    name = 'SrcIo'

    def __init__(self, path, fns, pins, base):
        self.path, self.fns, self.pins, self.base = path, fns, pins, base

    def render(self):
        for qual, digest in self.pins.items():
            rel, q = qual.split('::', 1)
            got = py2lean.pin_of(py2lean.Source(os.path.join(self.base, rel)).get(q))
            if got != digest:
                raise Unsupported(f'pinned helper `{qual}` changed (AST digest {got}, pinned {digest})')
        trees = {}
        out = ['import GeoVerif.Model.IoPy', '/-!',
               '# GENERATED by harness/srcunits_io.py (reading `io_adapters`) from `geostructures/collections.py` on every run. Do not edit.',
               '', 'One definition per translated function of the current source text; values are `GV.Io.Py.V`.', '-/', '',
               'set_option linter.unusedVariables false', '', 'namespace GV.SrcIo', 'open GV.Io GV.Io.Py', '']
        for f in self.fns:
            if f.file not in trees:
                trees[f.file] = ast.parse(open(os.path.join(self.base, f.file)).read())
            out += self.render_fn(trees[f.file], f) + ['']
        out += ['end GV.SrcIo', '']
        return '\n'.join(out)

    def render_fn(self, tree, f):
        node, outers = find_def(tree, f.qual)
        a = node.args
        if a.vararg or a.kwonlyargs or a.posonlyargs or (a.kwarg and a.kwarg.arg not in [n for n, k in f.params if k == 'NoKw']):
            raise Unsupported(f'`{f.qual}`: star / keyword-only parameters')
        have = [x.arg for x in a.args] + ([a.kwarg.arg] if a.kwarg else [])
        if have != [n for n, _k in f.params]:
            raise Unsupported(f'`{f.qual}`: parameters {have} do not match the declared {[n for n, _k in f.params]}')
        env = {}
        for n, k in f.closure:
            # a closure variable must be a parameter of an enclosing function that is never re-bound there
            owner = next((o for o in reversed(outers) if n in [x.arg for x in o.args.args]), None)
            if owner is None:
                raise Unsupported(f'`{f.qual}`: `{n}` is not a parameter of an enclosing function')
            for o in outers:
                for sub in ast.walk(o):
                    if isinstance(sub, ast.Name) and sub.id == n and isinstance(sub.ctx, (ast.Store, ast.Del)):
                        raise Unsupported(f'`{f.qual}`: the closure variable `{n}` is re-bound in `{o.name}`')
            env[n] = (lname(n), k)
        for n, k in f.params:
            env[n] = (lname(n), k)
        # every other free name must be known to the reading (builtins / classes); locals are bound by assignment
        pre, ret = [], 'Except String V'
        if f.writer:
            env['zip_out'] = ('zip_out', 'Out')
            tr = IoTr2(f.qual, node, env, f.nt, f.lean, f.localfns)
            body = 'let zip_out : List ShpFileW := []\n' + tr.block(list(node.body))
            for a_ in tr.shared['aux']:
                pre += a_.split('\n') + ['']
            ret = 'Except String (List ShpFileW)'
        elif f.reader:
            tr = IoTr2(f.qual, node, env, f.nt, f.lean, f.localfns)
            tr.empty_list_kind = ('List', 'Shape')
            tr.ret_kind = getattr(f, 'ret_kind', None)
            tr.methods = getattr(f, 'methods', {})
            tr.ret_bare = None
            body = tr.block(list(node.body), fall='.error "ERR:NoReturn"')
            for a_ in tr.shared['aux']:
                pre += a_.split('\n') + ['']
            ret = 'Except String (List Shape)'
            if getattr(f, 'ret_kind', None):
                ret = f'Except String {_par(lean_t(f.ret_kind))}'
        else:
            tr = IoTr(f.qual, node, env, f.nt)
            body = tr.block(list(node.body))
        binders = ' '.join(f'({lname(n)} : {lean_t(k)})' for n, k in list(f.closure) + list(f.params) if k not in ('Path', 'NoKw'))
        shown = ast.parse(ast.unparse(node)).body[0]
        if shown.body and isinstance(shown.body[0], ast.Expr) and isinstance(shown.body[0].value, ast.Constant) and len(shown.body) > 1:
            shown.body = shown.body[1:]
        doc = [f'/-- `{f.qual}`' + (f' — {f.doc}' if f.doc else ''), '```']
        doc += [ln.replace('-/', '- /') for ln in ast.unparse(shown).split('\n')][:40] + ['```', '-/']
        return pre + doc + [f'def {f.lean} {binders} : {ret} :='] + ['  ' + ln for ln in body.split('\n')]


def unit():
    import srcunits
    repo = srcunits._repo
    path = repo('collections.py')
    FS = [('time_start_field', 'Str'), ('time_end_field', 'Str')]
    fns = [
        Fn('CollectionBase.to_shapefile._convert_dt', 'convertDt', [('val', 'V')], nt='false'),
        Fn('CollectionBase.from_shapefile._get_dt', 'shpGetDt', [('rec', 'Dict')], closure=FS, nt='false',
           doc='a dbf null is `None`'),
        Fn('CollectionBase.from_geopandas._get_dt', 'gpdGetDt', [('rec', 'Dict')], closure=FS, nt='true',
           doc='a null cell is `NaN` / `NaT` (truthy); a `None` cell is absent'),
        Fn('CollectionBase.to_shapefile', 'toShapefile', [('self', 'Coll'), ('zip_file', 'Path'), ('include_properties', 'Incl')],
           nt='false', writer=True, localfns={'_convert_dt': 'convertDt'},
           doc='what reaches the pyshp writers, file after file (`zip_out`)'),
    ]
    rd = Fn('CollectionBase.from_shapefile', 'fromShapefile',
            [('cls', 'Path'), ('zip_fpath', 'Archive'), ('time_start_field', 'Str'), ('time_end_field', 'Str'), ('read_layers', 'NoneT')],
            nt='false', localfns={'_get_dt': 'shpGetDt time_start_field time_end_field'},
            doc='at `read_layers=None`; the archive is the list of its members')
    rd.reader = True
    fns.append(rd)
    fg = Fn('CollectionBase.from_geopandas', 'fromGeopandas',
            [('cls', 'Path'), ('df', 'Frame'), ('time_start_field', 'Str'), ('time_end_field', 'Str')],
            nt='true', localfns={'_get_dt': 'gpdGetDt time_start_field time_end_field'},
            doc='the frame as `GpdFrameR`: `columns` and the cells of a row are without the geometry column')
    fg.reader = True
    fns.append(fg)
    k1 = Fn('TimeInterval._to_fastkml', 'tiToFastkml', [('self', 'TI')], doc='`KmlDateTime` is the instant')
    k1.reader, k1.ret_kind, k1.file = True, 'KTime', 'time.py'
    k2 = Fn('BaseShapeProtocol.to_fastkml_placemark', 'toFastkmlPlacemark', [('self', 'Shape'), ('kwargs', 'NoKw')],
            doc='at no keyword arguments; `geometry=self` is read by fastkml through the geo interface (`giOrErr`)')
    k2.reader, k2.ret_kind, k2.file = True, 'PM', '_base.py'
    k2.methods = {'_to_fastkml': ('tiToFastkml', 'TI', 'KTime')}
    k3 = Fn('CollectionBase.to_fastkml_folder', 'toFastkmlFolder', [('self', 'Coll'), ('folder_name', 'Str')])
    k3.reader, k3.ret_kind = True, 'KNode'
    k3.methods = {'to_fastkml_placemark': ('toFastkmlPlacemark', 'Shape', 'PM')}
    k4 = Fn('TimeInterval._from_fastkml', 'tiFromFastkml', [('fastkml_time', 'KTime')], doc='`x.timestamp.dt` is the instant')
    k4.reader, k4.ret_kind, k4.file = True, 'TI', 'time.py'
    fns += [k1, k2, k3, k4]
    tg = Fn('CollectionBase.to_geopandas', 'toGeopandas', [('self', 'Coll'), ('include_properties', 'Incl')], nt='true',
            doc='what reaches `pd.DataFrame` / `GeoSeries.from_wkt`')
    tg.reader, tg.ret_kind = True, 'FrameW'
    fns.append(tg)
    pins = {
        'time.py::TimeInterval.__init__': PIN_TI,        # `V.mkTI`
        '_base.py::BaseShape.__init__': PIN_BASE,        # `dtOfArg`
        '_base.py::BaseShapeProtocol.properties': PIN_PROPS,   # the model's `Shape.properties`
    }
    return IoUnit(path, fns, pins, os.path.dirname(path))


PIN_TI = '6f42465261678d41'
PIN_BASE = '9f9f957bce376782'
PIN_PROPS = 'c3680611154b60f9'
