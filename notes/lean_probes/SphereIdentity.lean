import Mathlib.Analysis.SpecialFunctions.Trigonometric.Inverse
import Mathlib.Analysis.SpecialFunctions.Complex.Arg
import Mathlib.Tactic.LinearCombination
import Mathlib.Tactic.Ring
import Mathlib.Tactic.Positivity
import Mathlib.Tactic.NormNum

open Real

theorem dest_core (s1 c1 sd cd st ct : ℝ)
    (h1 : s1^2 + c1^2 = 1) (hd : sd^2 + cd^2 = 1) (ht : st^2 + ct^2 = 1) :
    (cd - s1 * (s1 * cd + c1 * sd * ct))^2 + (st * sd * c1)^2
      = c1^2 * (1 - (s1 * cd + c1 * sd * ct)^2) := by
  have hx : cd - s1 * (s1 * cd + c1 * sd * ct) = c1 * (c1 * cd - s1 * sd * ct) := by
    linear_combination (-cd) * h1
  have hu : (c1 * cd - s1 * sd * ct)^2 + (s1 * cd + c1 * sd * ct)^2 = cd^2 + sd^2 * ct^2 := by
    linear_combination (cd^2 + sd^2 * ct^2) * h1
  rw [hx]
  linear_combination c1^2 * hu + c1^2 * sd^2 * ht + c1^2 * hd

-- distance from haversine "a": 2 * atan2(sqrt a, sqrt (1-a)) with a = sin^2(δ/2) is δ
noncomputable def atan2 (y x : ℝ) : ℝ := Complex.arg ⟨x, y⟩

theorem atan2_sin_cos (t : ℝ) (h1 : -π < t) (h2 : t ≤ π) : atan2 (sin t) (cos t) = t := by
  unfold atan2
  have : (⟨cos t, sin t⟩ : ℂ) = Complex.exp (t * Complex.I) := by
    apply Complex.ext <;> simp [Complex.exp_ofReal_mul_I_re, Complex.exp_ofReal_mul_I_im]
  rw [this, Complex.arg_exp_mul_I]
  exact toIocMod_eq_self Real.two_pi_pos |>.mpr ⟨by linarith, by linarith⟩ |> fun h => by simpa using h
