import Probe.HullFull
import Mathlib.Data.List.Chain

/-! Assembling the ring `lower[:-1] + upper` (both bottom→top). -/

def LeftOf (q u v : HPt) : Prop := 0 ≤ hcross u v q

theorem edgesGe_iff_chain (q : HPt) : ∀ (st : List HPt),
    EdgesGe q st ↔ List.IsChain (fun a b => LeftOf q b a) st
  | [] => by simp [EdgesGe]
  | [_] => by simp [EdgesGe]
  | a :: b :: rest => by
    have ih := edgesGe_iff_chain q (b :: rest)
    unfold EdgesGe
    rw [List.isChain_cons_cons, ih]; rfl

theorem chain_bottom (S : List HPt) (hS : S.Pairwise lexLt) : (hchain S).getLast? = S.head? := by
  cases S with
  | nil => simp [hchain]
  | cons s0 rest =>
    obtain ⟨hI, _, hsub⟩ := chain_inv (s0 :: rest) hS
    obtain ⟨b, hb, hbq⟩ := hI.bottom s0 (by simp)
    rw [hb]; simp only [List.head?_cons]; congr 1
    rcases hbq with h | h
    · exact h.symm
    · exfalso
      have hbS := hsub b (List.mem_of_getLast? hb)
      rcases List.mem_cons.mp hbS with rfl | hbr
      · exact lexLt_irrefl _ h
      · exact lexLt_asymm ((List.pairwise_cons.mp hS).1 b hbr) h

theorem chain_top (S : List HPt) (hS : S.Pairwise lexLt) : (hchain S).head? = S.getLast? :=
  (chain_inv S hS).2.1

theorem upper_bottom (S : List HPt) (hS : S.Pairwise lexLt) :
    (hchain S.reverse).getLast? = S.getLast? := by
  have hS' : (S.reverse.map hneg).Pairwise lexLt := by
    rw [List.pairwise_map, List.pairwise_reverse]
    exact hS.imp (fun h => lexLt_neg.mpr h)
  have h := chain_bottom _ hS'
  rw [hchain_neg] at h
  have h2 : ((hchain S.reverse).map hneg).getLast? = ((hchain S.reverse).getLast?).map hneg := by
    simp [List.getLast?_map]
  rw [h2] at h
  simp only [List.head?_map, List.head?_reverse] at h
  -- hneg is injective on options
  cases h1 : (hchain S.reverse).getLast? <;> cases h3 : S.getLast? <;> simp [h1, h3] at h ⊢
  have := congrArg hneg h; rwa [hneg_hneg, hneg_hneg] at this

/-- the last two elements of a chain are related -/
theorem chain_last_two {R : HPt → HPt → Prop} : ∀ (l : List HPt), List.IsChain R l →
    ∀ x ∈ l.dropLast.getLast?, ∀ y ∈ l.getLast?, R x y
  | [], _, x, hx, _, _ => by simp at hx
  | [_], _, x, hx, _, _ => by simp at hx
  | [a, b], h, x, hx, y, hy => by
    simp at hx hy; subst hx; subst hy
    exact (List.isChain_cons_cons.mp h).1
  | a :: b :: c :: rest, h, x, hx, y, hy => by
    have ih := chain_last_two (b :: c :: rest) (List.isChain_cons_cons.mp h).2
    apply ih x _ y _
    · simpa [List.dropLast] using hx
    · simpa using hy

def hullRing (S : List HPt) : List HPt :=
  ((hchain S).reverse).dropLast ++ (hchain S.reverse).reverse

/-- **C10 containment**: for a strictly sorted input, every input point is on or to the left of
    every directed edge of the ring `lower[:-1] + upper`, and the ring's vertices are inputs. -/
theorem hullRing_correct (S : List HPt) (hS : S.Pairwise lexLt) :
    (∀ q ∈ S, List.IsChain (fun u v => LeftOf q u v) (hullRing S)) ∧ (∀ x ∈ hullRing S, x ∈ S) := by
  obtain ⟨hl1, _, hl3⟩ := lower_chain_correct S hS
  obtain ⟨hu1, _, hu3⟩ := upper_chain_correct S hS
  refine ⟨?_, ?_⟩
  · intro q hq
    have hL : List.IsChain (fun u v => LeftOf q u v) (hchain S).reverse := by
      rw [List.isChain_reverse]; exact (edgesGe_iff_chain q _).mp (hl1 q hq)
    have hU : List.IsChain (fun u v => LeftOf q u v) (hchain S.reverse).reverse := by
      rw [List.isChain_reverse]; exact (edgesGe_iff_chain q _).mp (hu1 q hq)
    unfold hullRing
    rw [List.isChain_append]
    refine ⟨hL.prefix (List.dropLast_prefix _), hU, ?_⟩
    intro x hx y hy
    -- y is the head of the upper list = bottom of the upper stack = max S = last of the lower list
    have hy' : y ∈ ((hchain S).reverse).getLast? := by
      rw [List.head?_reverse, upper_bottom S hS] at hy
      rw [List.getLast?_reverse, chain_top S hS]; exact hy
    exact chain_last_two _ hL x hx y hy'
  · intro x hx
    unfold hullRing at hx
    rcases List.mem_append.mp hx with h | h
    · exact hl3 x (List.mem_reverse.mp (List.mem_of_mem_dropLast h))
    · exact hu3 x (List.mem_reverse.mp h)

-- TODO (implementation round): `hullRing_closed`, strict turns at the two junctions for ≥ 3 hull
-- vertices, and `sorted dedup ⇒ Pairwise lexLt` to lift this to `hullOf pts` for arbitrary `pts`.

#print axioms hullRing_correct
