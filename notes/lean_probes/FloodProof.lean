import Probe.Flood
import Mathlib.Data.List.Basic
import Mathlib.Data.List.Nodup
import Mathlib.Tactic

namespace GV
variable {C : Type} [DecidableEq C]

theorem mem_addSet {x y : C} {l : List C} : x ∈ addSet y l ↔ x = y ∨ x ∈ l := by
  unfold addSet; split <;> simp_all

theorem nodup_addSet {y : C} {l : List C} (h : l.Nodup) : (addSet y l).Nodup := by
  unfold addSet; split
  · exact h
  · exact List.nodup_cons.mpr ⟨by assumption, h⟩

/-- what the inner loop guarantees -/
structure VisitSpec (touches : C → Bool) (ns : List C) (s s' : FState C) : Prop where
  valid_mono : ∀ c ∈ s.valid, c ∈ s'.valid
  queue_mono : ∀ c ∈ s.queue, c ∈ s'.queue
  checked_mono : ∀ c ∈ s.checked, c ∈ s'.checked
  checked_all : ∀ n ∈ ns, n ∈ s'.checked
  valid_new : ∀ c ∈ s'.valid, c ∈ s.valid ∨ (c ∈ ns ∧ touches c = true)
  queue_new : ∀ c ∈ s'.queue, c ∈ s.queue ∨ (c ∈ ns ∧ touches c = true)
  queue_valid : (∀ c ∈ s.queue, c ∈ s.valid) → ∀ c ∈ s'.queue, c ∈ s'.valid
  checked_ok : (∀ n ∈ s.checked, touches n = true → n ∈ s.valid) →
      ∀ n ∈ s'.checked, touches n = true → n ∈ s'.valid
  nodup : s.queue.Nodup → s'.queue.Nodup
  valid_q : ∀ c ∈ s'.valid, c ∈ s.valid ∨ c ∈ s'.queue

theorem visit_spec (touches : C → Bool) : ∀ (ns : List C) (s : FState C),
    VisitSpec touches ns s (visit touches ns s)
  | [], s => by
    simp only [visit]
    exact ⟨fun _ h => h, fun _ h => h, fun _ h => h, by simp, fun c h => Or.inl h,
      fun c h => Or.inl h, fun h => h, fun h => h, fun h => h, fun c h => Or.inl h⟩
  | n :: ns, s => by
    unfold visit
    by_cases hc : n ∈ s.checked
    · simp only [hc, if_true]
      have ih := visit_spec touches ns s
      refine ⟨ih.valid_mono, ih.queue_mono, ih.checked_mono, ?_, ?_, ?_, ih.queue_valid, ih.checked_ok, ih.nodup, ih.valid_q⟩
      · intro m hm
        rcases List.mem_cons.mp hm with rfl | hm
        · exact ih.checked_mono _ hc
        · exact ih.checked_all m hm
      · intro c h
        rcases ih.valid_new c h with h | ⟨h1, h2⟩
        · exact Or.inl h
        · exact Or.inr ⟨List.mem_cons_of_mem _ h1, h2⟩
      · intro c h
        rcases ih.queue_new c h with h | ⟨h1, h2⟩
        · exact Or.inl h
        · exact Or.inr ⟨List.mem_cons_of_mem _ h1, h2⟩
    · simp only [hc, if_false]
      by_cases ht : touches n = true
      · simp only [ht, if_true]
        set s2 : FState C := { valid := addSet n s.valid, checked := n :: s.checked, queue := addSet n s.queue } with hs2
        have ih := visit_spec touches ns s2
        refine ⟨?_, ?_, ?_, ?_, ?_, ?_, ?_, ?_, ?_, ?_⟩
        · intro c h; exact ih.valid_mono c (mem_addSet.mpr (Or.inr h))
        · intro c h; exact ih.queue_mono c (mem_addSet.mpr (Or.inr h))
        · intro c h; exact ih.checked_mono c (List.mem_cons_of_mem _ h)
        · intro m hm
          rcases List.mem_cons.mp hm with rfl | hm
          · exact ih.checked_mono _ (by simp [hs2])
          · exact ih.checked_all m hm
        · intro c h
          rcases ih.valid_new c h with h | ⟨h1, h2⟩
          · rcases mem_addSet.mp h with rfl | h
            · exact Or.inr ⟨by simp, ht⟩
            · exact Or.inl h
          · exact Or.inr ⟨List.mem_cons_of_mem _ h1, h2⟩
        · intro c h
          rcases ih.queue_new c h with h | ⟨h1, h2⟩
          · rcases mem_addSet.mp h with rfl | h
            · exact Or.inr ⟨by simp, ht⟩
            · exact Or.inl h
          · exact Or.inr ⟨List.mem_cons_of_mem _ h1, h2⟩
        · intro hq
          apply ih.queue_valid
          intro c h
          rcases mem_addSet.mp h with rfl | h
          · exact mem_addSet.mpr (Or.inl rfl)
          · exact mem_addSet.mpr (Or.inr (hq c h))
        · intro hok
          apply ih.checked_ok
          intro m hm htm
          rcases List.mem_cons.mp hm with rfl | hm
          · exact mem_addSet.mpr (Or.inl rfl)
          · exact mem_addSet.mpr (Or.inr (hok m hm htm))
        · intro hnd; exact ih.nodup (nodup_addSet hnd)
        · intro c h
          rcases ih.valid_q c h with h | h
          · rcases mem_addSet.mp h with rfl | h
            · exact Or.inr (ih.queue_mono _ (mem_addSet.mpr (Or.inl rfl)))
            · exact Or.inl h
          · exact Or.inr h
      · simp only [ht, Bool.false_eq_true, if_false]
        set s2 : FState C := { s with checked := n :: s.checked } with hs2
        have ih := visit_spec touches ns s2
        have htf : touches n = false := by simpa using ht
        refine ⟨ih.valid_mono, ih.queue_mono, ?_, ?_, ?_, ?_, ih.queue_valid, ?_, ih.nodup, ih.valid_q⟩
        · intro c h; exact ih.checked_mono c (List.mem_cons_of_mem _ h)
        · intro m hm
          rcases List.mem_cons.mp hm with rfl | hm
          · exact ih.checked_mono _ (by simp [hs2])
          · exact ih.checked_all m hm
        · intro c h
          rcases ih.valid_new c h with h | ⟨h1, h2⟩
          · exact Or.inl h
          · exact Or.inr ⟨List.mem_cons_of_mem _ h1, h2⟩
        · intro c h
          rcases ih.queue_new c h with h | ⟨h1, h2⟩
          · exact Or.inl h
          · exact Or.inr ⟨List.mem_cons_of_mem _ h1, h2⟩
        · intro hok
          apply ih.checked_ok
          intro m hm htm
          rcases List.mem_cons.mp hm with rfl | hm
          · rw [htf] at htm; exact absurd htm (by simp)
          · exact hok m hm htm

/-! ### reachability spec and the loop invariant -/

inductive Reach (nbrs : C → List C) (touches : C → Bool) (start : C) : C → Prop
  | base : Reach nbrs touches start start
  | step {c n : C} : Reach nbrs touches start c → n ∈ nbrs c → touches n = true →
      Reach nbrs touches start n

structure FInv (nbrs : C → List C) (touches : C → Bool) (start : C) (s : FState C) : Prop where
  sound : ∀ c ∈ s.valid, Reach nbrs touches start c
  qv : ∀ c ∈ s.queue, c ∈ s.valid
  hasStart : start ∈ s.valid
  closed : ∀ c ∈ s.valid, c ∉ s.queue → ∀ n ∈ nbrs c, touches n = true → n ∈ s.valid
  chk : ∀ n ∈ s.checked, touches n = true → n ∈ s.valid
  nd : s.queue.Nodup

theorem finv_step {nbrs : C → List C} {touches : C → Bool} {start : C} {s : FState C}
    (hI : FInv nbrs touches start s) {gh : C} (hgh : gh ∈ s.queue) :
    FInv nbrs touches start (visit touches (nbrs gh) { s with queue := s.queue.erase gh }) := by
  set s0 : FState C := { s with queue := s.queue.erase gh } with hs0
  have sp := visit_spec touches (nbrs gh) s0
  have hghv : gh ∈ s.valid := hI.qv gh hgh
  refine ⟨?_, ?_, ?_, ?_, ?_, ?_⟩
  · intro c hc
    rcases sp.valid_new c hc with h | ⟨h1, h2⟩
    · exact hI.sound c h
    · exact Reach.step (hI.sound gh hghv) h1 h2
  · apply sp.queue_valid
    intro c hc; exact hI.qv c (List.mem_of_mem_erase hc)
  · exact sp.valid_mono _ hI.hasStart
  · intro c hc hcq n hn htn
    by_cases hcv : c ∈ s.valid
    · by_cases hcg : c = gh
      · subst hcg
        exact sp.checked_ok hI.chk n (sp.checked_all n hn) htn
      · have : c ∉ s.queue := by
          intro hq
          exact hcq (sp.queue_mono c ((List.mem_erase_of_ne hcg).mpr hq))
        exact sp.valid_mono n (hI.closed c hcv this n hn htn)
    · rcases sp.valid_q c hc with h | h
      · exact absurd h hcv
      · exact absurd h hcq
  · exact sp.checked_ok hI.chk
  · exact sp.nodup (hI.nd.erase gh)


/-- partial correctness: whatever the pop schedule, a completed run returns exactly the reachable set -/
theorem floodGo_correct {nbrs : C → List C} {touches : C → Bool} {start : C}
    (pick : List C → Option C) (hpick : ∀ q gh, pick q = some gh → gh ∈ q) :
    ∀ (fuel : Nat) (s : FState C), FInv nbrs touches start s → ∀ v, floodGo nbrs touches pick fuel s = some v →
      ∀ c, c ∈ v ↔ Reach nbrs touches start c := by
  have final : ∀ s : FState C, FInv nbrs touches start s → s.queue = [] →
      ∀ c, c ∈ s.valid ↔ Reach nbrs touches start c := by
    intro s hI hq c
    constructor
    · exact hI.sound c
    · intro hr
      induction hr with
      | base => exact hI.hasStart
      | step _ hn ht ih => exact hI.closed _ ih (by simp [hq]) _ hn ht
  intro fuel
  induction fuel with
  | zero =>
    intro s hI v hv
    unfold floodGo at hv
    split at hv
    · rename_i hq; simp at hv; subst hv; exact final s hI hq
    · simp at hv
  | succ fuel ih =>
    intro s hI v hv
    unfold floodGo at hv
    split at hv
    · rename_i hq; simp at hv; subst hv; exact final s hI hq
    · rename_i a as hq
      split at hv
      · simp at hv
      · rename_i gh hp
        have hgh : gh ∈ s.queue := hpick _ _ hp
        exact ih _ (finv_step hI hgh) v hv

theorem flood_correct {nbrs : C → List C} {touches : C → Bool} (start : C)
    (pick : List C → Option C) (hpick : ∀ q gh, pick q = some gh → gh ∈ q) (fuel : Nat) (v : List C)
    (h : flood nbrs touches pick fuel start = some v) :
    ∀ c, c ∈ v ↔ Reach nbrs touches start c := by
  unfold flood at h
  refine floodGo_correct pick hpick fuel _ ?_ v h
  refine ⟨?_, ?_, ?_, ?_, ?_, ?_⟩
  · intro c hc; simp at hc; subst hc; exact Reach.base
  · intro c hc; simpa using hc
  · simp
  · intro c hc hcq; simp at hc hcq; exact absurd hc hcq
  · intro n hn; simp at hn
  · simp

#print axioms flood_correct
end GV
