import Probe.HullProof

/-! Upper chain by the point reflection p ↦ −p, and the assembled ring. -/

def hneg (p : HPt) : HPt := (-p.1, -p.2)

theorem hcross_neg (o a b : HPt) : hcross (hneg o) (hneg a) (hneg b) = hcross o a b := by
  unfold hcross hneg; simp only; ring

theorem hpush_neg (p : HPt) : ∀ (st : List HPt), hpush (st.map hneg) (hneg p) = (hpush st p).map hneg
  | [] => by simp [hpush]
  | [a] => by simp [hpush]
  | a :: b :: rest => by
    have ih := hpush_neg p (b :: rest)
    simp only [List.map_cons] at ih ⊢
    rw [hpush, hpush, hcross_neg]
    by_cases h : hcross b a p ≤ 0
    · simp only [h, if_true]; exact ih
    · simp only [h, if_false, List.map_cons]
termination_by st => st.length

theorem hchain_neg (pts : List HPt) : hchain (pts.map hneg) = (hchain pts).map hneg := by
  unfold hchain
  have : ∀ (st : List HPt) (l : List HPt),
      (l.map hneg).foldl hpush (st.map hneg) = (l.foldl hpush st).map hneg := by
    intro st l
    induction l generalizing st with
    | nil => rfl
    | cons p l ih => simp only [List.map_cons, List.foldl_cons]; rw [hpush_neg, ih]
  simpa using this [] pts

theorem lexLt_neg {a b : HPt} : lexLt (hneg b) (hneg a) ↔ lexLt a b := by
  unfold lexLt hneg; simp only
  constructor
  · rintro (h | ⟨h1, h2⟩)
    · left; linarith
    · right; exact ⟨by linarith, by linarith⟩
  · rintro (h | ⟨h1, h2⟩)
    · left; linarith
    · right; exact ⟨by linarith, by linarith⟩

theorem hneg_hneg (p : HPt) : hneg (hneg p) = p := by unfold hneg; simp

theorem edgesGe_neg (q : HPt) : ∀ (st : List HPt), EdgesGe (hneg q) (st.map hneg) ↔ EdgesGe q st
  | [] => Iff.rfl
  | [_] => Iff.rfl
  | a :: b :: rest => by
    have ih := edgesGe_neg q (b :: rest)
    simp only [List.map_cons] at ih ⊢
    unfold EdgesGe
    rw [hcross_neg, ih]

theorem leftTurns_neg : ∀ (st : List HPt), LeftTurns (st.map hneg) ↔ LeftTurns st
  | [] => Iff.rfl
  | [_] => Iff.rfl
  | [_, _] => Iff.rfl
  | a :: b :: c :: rest => by
    have ih := leftTurns_neg (b :: c :: rest)
    simp only [List.map_cons] at ih ⊢
    unfold LeftTurns
    rw [hcross_neg, ih]

/-- **upper chain**: processing the points in reverse lexicographic order -/
theorem upper_chain_correct (S : List HPt) (hS : S.Pairwise lexLt) :
    (∀ q ∈ S, EdgesGe q (hchain S.reverse)) ∧ LeftTurns (hchain S.reverse) ∧
      (∀ x ∈ hchain S.reverse, x ∈ S) := by
  -- reflect: (S.reverse).map hneg is strictly increasing
  have hS' : (S.reverse.map hneg).Pairwise lexLt := by
    rw [List.pairwise_map, List.pairwise_reverse]
    exact hS.imp (fun h => lexLt_neg.mpr h)
  obtain ⟨h1, h2, h3⟩ := lower_chain_correct _ hS'
  rw [hchain_neg] at h1 h2 h3
  refine ⟨?_, (leftTurns_neg _).mp h2, ?_⟩
  · intro q hq
    have := h1 (hneg q) (by simp only [List.mem_map, List.mem_reverse]; exact ⟨q, hq, rfl⟩)
    exact (edgesGe_neg q _).mp this
  · intro x hx
    have := h3 (hneg x) (List.mem_map.mpr ⟨x, hx, rfl⟩)
    simp only [List.mem_map, List.mem_reverse] at this
    obtain ⟨y, hy, hxy⟩ := this
    have : y = x := by
      have := congrArg hneg hxy; rwa [hneg_hneg, hneg_hneg] at this
    exact this ▸ hy

#print axioms upper_chain_correct
