import Probe.Pip
import Probe.Hull
open GV

def parseRat (s : String) : Option Rat :=
  match s.splitOn "/" with
  | [n] => n.toInt?.map (fun i => (i : Rat))
  | [n, d] => do
      let ni ← n.toInt?
      let di ← d.toNat?
      if di = 0 then none else some (mkRat ni di)
  | _ => none

def parsePts : List String → Option (List (Rat × Rat))
  | [] => some []
  | x :: y :: rest => do
      let a ← parseRat x; let b ← parseRat y; let r ← parsePts rest; some ((a, b) :: r)
  | _ => none

def showRat (r : Rat) : String := if r.den = 1 then toString r.num else s!"{r.num}/{r.den}"

def handle (line : String) : String :=
  match line.trimAscii.toString.splitOn " " with
  | "pip" :: px :: py :: rest =>
    match parseRat px, parseRat py, parsePts rest with
    | some x, some y, some ring => if pointInRing (x, y) ring then "T" else "F"
    | _, _, _ => "bad-op"
  | "hull" :: rest =>
    match parsePts rest with
    | some pts => " ".intercalate ((hullOf pts).map fun p => s!"{showRat p.1},{showRat p.2}")
    | none => "bad-op"
  | _ => "bad-op"

partial def loop (h : IO.FS.Stream) (out : IO.FS.Stream) : IO Unit := do
  let line ← h.getLine
  if line.isEmpty then return ()
  out.putStrLn (handle line)
  loop h out

def main : IO Unit := do
  let i ← IO.getStdin; let o ← IO.getStdout
  loop i o
