import Probe.Geohash
import Mathlib.Algebra.Order.Field.Rat
import Mathlib.Tactic

namespace GV

def InIv (x : Rat) (iv : Iv) : Prop := iv.1 ≤ x ∧ x ≤ iv.2

theorem mid_between {iv : Iv} (h : iv.1 < iv.2) : iv.1 < mid iv ∧ mid iv < iv.2 := by
  unfold mid; constructor <;> linarith

/-- G1: the decoded (closed) cell of the encoding contains the coordinate -/
theorem refine_enc_contains (lon lat : Rat) : ∀ (n : Nat) (t : Bool) (lonIv latIv : Iv),
    InIv lon lonIv → InIv lat latIv →
    InIv lon (refine (encBits lon lat n t lonIv latIv) t lonIv latIv).1 ∧
    InIv lat (refine (encBits lon lat n t lonIv latIv) t lonIv latIv).2
  | 0, _, _, _, h1, h2 => by simp [encBits, refine, h1, h2]
  | n+1, true, lonIv, latIv, h1, h2 => by
    unfold encBits
    by_cases h : lon > mid lonIv
    · simp only [h, if_true, refine]
      exact refine_enc_contains lon lat n false _ _ ⟨le_of_lt h, h1.2⟩ h2
    · simp only [h, if_false, refine]
      exact refine_enc_contains lon lat n false _ _ ⟨h1.1, not_lt.mp h⟩ h2
  | n+1, false, lonIv, latIv, h1, h2 => by
    unfold encBits
    by_cases h : lat > mid latIv
    · simp only [h, if_true, refine]
      exact refine_enc_contains lon lat n true _ _ h1 ⟨le_of_lt h, h2.2⟩
    · simp only [h, if_false, refine]
      exact refine_enc_contains lon lat n true _ _ h1 ⟨h2.1, not_lt.mp h⟩

theorem length_encBits (lon lat : Rat) : ∀ n t lonIv latIv, (encBits lon lat n t lonIv latIv).length = n
  | 0, _, _, _ => rfl
  | n+1, true, lonIv, latIv => by unfold encBits; split <;> simp [length_encBits]
  | n+1, false, lonIv, latIv => by unfold encBits; split <;> simp [length_encBits]

/-- G2: prefix property -/
theorem encBits_prefix (lon lat : Rat) : ∀ (n m : Nat) (t : Bool) (lonIv latIv : Iv),
    (encBits lon lat n t lonIv latIv) <+: (encBits lon lat (n + m) t lonIv latIv)
  | 0, m, _, _, _ => by simp [encBits]
  | n+1, m, true, lonIv, latIv => by
    rw [show n + 1 + m = (n + m) + 1 by omega]
    unfold encBits
    split
    · exact List.prefix_cons_inj _ |>.mpr (encBits_prefix lon lat n m false _ _)
    · exact List.prefix_cons_inj _ |>.mpr (encBits_prefix lon lat n m false _ _)
  | n+1, m, false, lonIv, latIv => by
    rw [show n + 1 + m = (n + m) + 1 by omega]
    unfold encBits
    split
    · exact List.prefix_cons_inj _ |>.mpr (encBits_prefix lon lat n m true _ _)
    · exact List.prefix_cons_inj _ |>.mpr (encBits_prefix lon lat n m true _ _)

/-- widths stay positive under refinement -/
theorem refine_pos : ∀ (bs : List Bool) (t : Bool) (lonIv latIv : Iv), lonIv.1 < lonIv.2 → latIv.1 < latIv.2 →
    (refine bs t lonIv latIv).1.1 < (refine bs t lonIv latIv).1.2 ∧
    (refine bs t lonIv latIv).2.1 < (refine bs t lonIv latIv).2.2
  | [], _, _, _, h1, h2 => ⟨h1, h2⟩
  | b :: bs, true, lonIv, latIv, h1, h2 => by
    unfold refine
    apply refine_pos bs false _ _ _ h2
    cases b <;> simp [(mid_between h1).1, (mid_between h1).2]
  | b :: bs, false, lonIv, latIv, h1, h2 => by
    unfold refine
    apply refine_pos bs true _ _ h1
    cases b <;> simp [(mid_between h2).1, (mid_between h2).2]

/-- the refined cell stays inside the cell it refines -/
theorem refine_sub : ∀ (bs : List Bool) (t : Bool) (lonIv latIv : Iv), lonIv.1 < lonIv.2 → latIv.1 < latIv.2 →
    (lonIv.1 ≤ (refine bs t lonIv latIv).1.1 ∧ (refine bs t lonIv latIv).1.2 ≤ lonIv.2) ∧
    (latIv.1 ≤ (refine bs t lonIv latIv).2.1 ∧ (refine bs t lonIv latIv).2.2 ≤ latIv.2)
  | [], _, _, _, _, _ => ⟨⟨le_refl _, le_refl _⟩, ⟨le_refl _, le_refl _⟩⟩
  | b :: bs, true, lonIv, latIv, h1, h2 => by
    unfold refine
    obtain ⟨hm1, hm2⟩ := mid_between h1
    cases b
    · obtain ⟨⟨a1, a2⟩, a3⟩ := refine_sub bs false (lonIv.1, mid lonIv) latIv hm1 h2
      exact ⟨⟨a1, le_trans a2 (le_of_lt hm2)⟩, a3⟩
    · obtain ⟨⟨a1, a2⟩, a3⟩ := refine_sub bs false (mid lonIv, lonIv.2) latIv hm2 h2
      exact ⟨⟨le_trans (le_of_lt hm1) a1, a2⟩, a3⟩
  | b :: bs, false, lonIv, latIv, h1, h2 => by
    unfold refine
    obtain ⟨hm1, hm2⟩ := mid_between h2
    cases b
    · obtain ⟨a3, ⟨a1, a2⟩⟩ := refine_sub bs true lonIv (latIv.1, mid latIv) h1 hm1
      exact ⟨a3, ⟨a1, le_trans a2 (le_of_lt hm2)⟩⟩
    · obtain ⟨a3, ⟨a1, a2⟩⟩ := refine_sub bs true lonIv (mid latIv, latIv.2) h1 hm2
      exact ⟨a3, ⟨le_trans (le_of_lt hm1) a1, a2⟩⟩

/-- G3: re-encoding any point strictly inside the decoded cell (in particular its centre)
    reproduces the bit string -/
theorem enc_of_interior : ∀ (bs : List Bool) (t : Bool) (lonIv latIv : Iv) (lon lat : Rat),
    lonIv.1 < lonIv.2 → latIv.1 < latIv.2 →
    (refine bs t lonIv latIv).1.1 < lon → lon < (refine bs t lonIv latIv).1.2 →
    (refine bs t lonIv latIv).2.1 < lat → lat < (refine bs t lonIv latIv).2.2 →
    encBits lon lat bs.length t lonIv latIv = bs
  | [], _, _, _, _, _, _, _, _, _, _, _ => rfl
  | b :: bs, true, lonIv, latIv, lon, lat, h1, h2, a1, a2, a3, a4 => by
    obtain ⟨hm1, hm2⟩ := mid_between h1
    unfold refine at a1 a2 a3 a4
    simp only [List.length_cons]
    unfold encBits
    cases b
    · simp only [Bool.false_eq_true, if_false] at a1 a2 a3 a4
      have hsub := (refine_sub bs false (lonIv.1, mid lonIv) latIv hm1 h2).1
      have : ¬ lon > mid lonIv := by simp at hsub; linarith [hsub.2]
      simp only [this, if_false]
      rw [enc_of_interior bs false _ _ lon lat hm1 h2 a1 a2 a3 a4]
    · simp only [if_true] at a1 a2 a3 a4
      have hsub := (refine_sub bs false (mid lonIv, lonIv.2) latIv hm2 h2).1
      have : lon > mid lonIv := by simp at hsub; linarith [hsub.1]
      simp only [this, if_true]
      rw [enc_of_interior bs false _ _ lon lat hm2 h2 a1 a2 a3 a4]
  | b :: bs, false, lonIv, latIv, lon, lat, h1, h2, a1, a2, a3, a4 => by
    obtain ⟨hm1, hm2⟩ := mid_between h2
    unfold refine at a1 a2 a3 a4
    simp only [List.length_cons]
    unfold encBits
    cases b
    · simp only [Bool.false_eq_true, if_false] at a1 a2 a3 a4
      have hsub := (refine_sub bs true lonIv (latIv.1, mid latIv) h1 hm1).2
      have : ¬ lat > mid latIv := by simp at hsub; linarith [hsub.2]
      simp only [this, if_false]
      rw [enc_of_interior bs true _ _ lon lat h1 hm1 a1 a2 a3 a4]
    · simp only [if_true] at a1 a2 a3 a4
      have hsub := (refine_sub bs true lonIv (mid latIv, latIv.2) h1 hm2).2
      have : lat > mid latIv := by simp at hsub; linarith [hsub.1]
      simp only [this, if_true]
      rw [enc_of_interior bs true _ _ lon lat h1 hm2 a1 a2 a3 a4]

#print axioms refine_enc_contains
#print axioms enc_of_interior
end GV
