/-! Probe: bit-level core of the Niemeyer codec (`geohash.py:82-182`), exact rationals. -/
namespace GV
abbrev Iv := Rat × Rat

def mid (iv : Iv) : Rat := (iv.1 + iv.2) / 2

/-- encoder: one bit per step, longitude first, alternating; strict `>` at the midpoint -/
def encBits (lon lat : Rat) : Nat → Bool → Iv → Iv → List Bool
  | 0, _, _, _ => []
  | n+1, true, lonIv, latIv =>
      if lon > mid lonIv then true :: encBits lon lat n false (mid lonIv, lonIv.2) latIv
      else false :: encBits lon lat n false (lonIv.1, mid lonIv) latIv
  | n+1, false, lonIv, latIv =>
      if lat > mid latIv then true :: encBits lon lat n true lonIv (mid latIv, latIv.2)
      else false :: encBits lon lat n true lonIv (latIv.1, mid latIv)

/-- decoder: refine the two intervals by a bit string -/
def refine : List Bool → Bool → Iv → Iv → Iv × Iv
  | [], _, lonIv, latIv => (lonIv, latIv)
  | b :: bs, true, lonIv, latIv =>
      refine bs false (if b then (mid lonIv, lonIv.2) else (lonIv.1, mid lonIv)) latIv
  | b :: bs, false, lonIv, latIv =>
      refine bs true lonIv (if b then (mid latIv, latIv.2) else (latIv.1, mid latIv))
end GV
