import Probe.PolyEq
import Mathlib.Data.List.Rotate
import Mathlib.Tactic

namespace GV
variable {α : Type} [DecidableEq α]

theorem rotL_eq_rotate (l : List α) : rotL l = l.rotate 1 := by
  cases l with
  | nil => rfl
  | cons x xs => simp [rotL, List.rotate_cons_succ]

theorem eqLoop_iff (s : List α) : ∀ (n : Nat) (o : List α),
    eqLoop s o n = true ↔ ∃ k < n, s = o.rotate k ∨ s = (o.rotate k).reverse
  | 0, o => by simp [eqLoop]
  | n+1, o => by
    unfold eqLoop
    by_cases h : s = o ∨ s = o.reverse
    · simp only [h, if_true, true_iff]
      exact ⟨0, by omega, by simpa using h⟩
    · simp only [h, if_false]
      rw [eqLoop_iff s n (rotL o), rotL_eq_rotate]
      constructor
      · rintro ⟨k, hk, hs⟩
        refine ⟨k + 1, by omega, ?_⟩
        rw [List.rotate_rotate, Nat.add_comm] at hs; exact hs
      · rintro ⟨k, hk, hs⟩
        cases k with
        | zero => simp at hs; exact absurd hs h
        | succ k =>
          refine ⟨k, by omega, ?_⟩
          rw [List.rotate_rotate, Nat.add_comm]; exact hs

/-- spec: equal up to the start vertex and the direction -/
def RotRev (s o : List α) : Prop := s ~r o ∨ s ~r o.reverse

theorem outlineEq_iff (s o : List α) (ho : o ≠ []) : outlineEq s o = true ↔ RotRev s o := by
  unfold outlineEq RotRev
  by_cases hl : s.length = o.length
  · simp only [hl, ne_eq, not_true_eq_false, if_false]
    rw [eqLoop_iff]
    have hpos : 0 < o.length := List.length_pos_iff.mpr ho
    constructor
    · rintro ⟨k, _, h | h⟩
      · left; exact (List.IsRotated.symm ⟨k, h.symm⟩)
      · right
        have : (o.rotate k).reverse ~r o.reverse := (List.IsRotated.symm ⟨k, rfl⟩ : o.rotate k ~r o).reverse
        rw [h]; exact this
    · rintro (h | h)
      · obtain ⟨k, hk⟩ := h.symm
        refine ⟨k % o.length, Nat.mod_lt _ hpos, Or.inl ?_⟩
        rw [List.rotate_mod]; exact hk.symm
      · -- s ~r o.reverse  ⇒  s.reverse ~r o  ⇒  s.reverse = o.rotate k
        have h' : o ~r s.reverse := by
          have := h.reverse; rw [List.reverse_reverse] at this; exact this.symm
        obtain ⟨k, hk⟩ := h'
        refine ⟨k % o.length, Nat.mod_lt _ hpos, Or.inr ?_⟩
        rw [List.rotate_mod, hk, List.reverse_reverse]
  · simp only [hl, ne_eq, not_false_eq_true, if_true, Bool.false_eq_true, false_iff]
    rintro (h | h)
    · exact hl h.perm.length_eq
    · exact hl (by rw [h.perm.length_eq, List.length_reverse])

theorem RotRev.refl (s : List α) : RotRev s s := Or.inl (List.IsRotated.refl s)

theorem RotRev.symm {s o : List α} (h : RotRev s o) : RotRev o s := by
  rcases h with h | h
  · exact Or.inl h.symm
  · right
    have := h.reverse; rw [List.reverse_reverse] at this; exact this.symm

theorem RotRev.trans {a b c : List α} (h1 : RotRev a b) (h2 : RotRev b c) : RotRev a c := by
  rcases h1 with h1 | h1 <;> rcases h2 with h2 | h2
  · exact Or.inl (h1.trans h2)
  · exact Or.inr (h1.trans h2)
  · right
    have := h2.reverse; exact h1.trans this
  · left
    have := h2.reverse; rw [List.reverse_reverse] at this; exact h1.trans this

/-- F15e: with an empty open outline (one-vertex polygon) the loop body never runs -/
theorem outlineEq_nil_counterexample : outlineEq ([] : List Nat) [] = false := by decide

#print axioms outlineEq_iff
#print axioms RotRev.trans
end GV
