import Probe.Time
import Mathlib.Data.Set.Basic
import Mathlib.Order.Interval.Set.Basic
import Mathlib.Data.Rat.Cast.Order
import Mathlib.Algebra.Order.Field.Rat
import Mathlib.Tactic

namespace GV.TI

/-- the set of (rational, i.e. dense) instants a well-formed interval denotes -/
def den (t : TI) : Set ℚ := if t.start = t.stop then {(t.start : ℚ)} else Set.Ico (t.start : ℚ) (t.stop : ℚ)

def WF (t : TI) : Prop := t.start ≤ t.stop

theorem mem_den_instant {t : TI} (h : t.start = t.stop) (x : ℚ) : x ∈ den t ↔ x = t.start := by
  simp [den, h]
theorem mem_den_proper {t : TI} (h : t.start ≠ t.stop) (x : ℚ) :
    x ∈ den t ↔ (t.start : ℚ) ≤ x ∧ x < t.stop := by
  simp [den, h]

theorem containsDt_iff (t : TI) (x : Int) : t.containsDt x = true ↔ (x : ℚ) ∈ den t := by
  unfold containsDt isInstant
  by_cases h : t.start = t.stop
  · simp [h, mem_den_instant h]; constructor <;> intro h' <;> exact_mod_cast h'.symm
  · simp [h, mem_den_proper h]

/-- midpoint witness: a proper interval contains a point strictly after its start -/
theorem mid_mem {t : TI} (hw : WF t) (h : t.start ≠ t.stop) :
    ((t.start : ℚ) + t.stop) / 2 ∈ den t ∧ (t.start : ℚ) < ((t.start : ℚ) + t.stop) / 2 := by
  have : (t.start : ℚ) < t.stop := by exact_mod_cast lt_of_le_of_ne hw h
  rw [mem_den_proper h]
  refine ⟨⟨by linarith, by linarith⟩, by linarith⟩

theorem issubset_iff (a b : TI) (ha : WF a) (hb : WF b) : a.issubset b = true ↔ den a ⊆ den b := by
  unfold issubset
  by_cases hai : a.start = a.stop
  · have hinst : a.isInstant = true := by simp [isInstant, hai]
    rw [if_pos hinst, containsDt_iff]
    constructor
    · intro h x hx; rw [mem_den_instant hai] at hx; subst hx; exact_mod_cast h
    · intro h; apply h; rw [mem_den_instant hai]
  · have hai' : (a.start == a.stop) = false := by simpa using hai
    simp only [isInstant, hai', Bool.false_eq_true, if_false, Bool.and_eq_true, decide_eq_true_eq]
    have hlt : (a.start : ℚ) < a.stop := by exact_mod_cast lt_of_le_of_ne ha hai
    constructor
    · rintro ⟨h1, h2⟩ x hx
      rw [mem_den_proper hai] at hx
      have h1' : (b.start : ℚ) ≤ a.start := by exact_mod_cast h1
      have h2' : (a.stop : ℚ) ≤ b.stop := by exact_mod_cast h2
      have hbi : b.start ≠ b.stop := by
        intro hb'; have : (b.start : ℚ) = b.stop := by exact_mod_cast hb'
        linarith [hx.1, hx.2]
      rw [mem_den_proper hbi]; exact ⟨by linarith [hx.1], by linarith [hx.2]⟩
    · intro h
      have hs : (a.start : ℚ) ∈ den a := by rw [mem_den_proper hai]; exact ⟨le_refl _, hlt⟩
      obtain ⟨hm, hm'⟩ := mid_mem ha hai
      have hbs := h hs
      have hbm := h hm
      by_cases hbi : b.start = b.stop
      · rw [mem_den_instant hbi] at hbs hbm; linarith
      · rw [mem_den_proper hbi] at hbs
        refine ⟨by exact_mod_cast hbs.1, ?_⟩
        -- every point of [a.start, a.stop) is < b.stop, hence a.stop ≤ b.stop
        by_contra hc; rw [not_le] at hc
        have hc' : (b.stop : ℚ) < a.stop := by exact_mod_cast hc
        -- the point max(a.start, b.stop) ... use p = (max a.start b.stop + a.stop)/2
        have hbs2 : (b.start:ℚ) < b.stop := by exact_mod_cast lt_of_le_of_ne hb hbi
        set p : ℚ := (max (a.start:ℚ) b.stop + a.stop) / 2 with hp
        have hp1 : max (a.start:ℚ) b.stop < a.stop := max_lt hlt hc'
        have hpa : p ∈ den a := by
          rw [mem_den_proper hai]; constructor
          · have := le_max_left (a.start:ℚ) b.stop; linarith
          · linarith
        have := h hpa
        rw [mem_den_proper hbi] at this
        have := le_max_right (a.start:ℚ) b.stop
        linarith [this, hp1]

#print axioms issubset_iff

/-- counter-witness for the pinned commit: the instant 2 is reported as a subset of [0,2) -/
theorem issubset_pinned_counterexample :
    issubset_pinned ⟨2, 2⟩ ⟨0, 2⟩ = true ∧ ¬ (den ⟨2, 2⟩ ⊆ den ⟨0, 2⟩) := by
  refine ⟨by decide, ?_⟩
  intro h
  have : (2 : ℚ) ∈ den ⟨2, 2⟩ := by simp [den]
  have := h this
  simp [den] at this

end GV.TI
