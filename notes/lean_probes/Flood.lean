/-! Probe model of the work-list loop in `NiemeyerHasher._hash_polygon/_hash_linestring`
    (`geohash.py:600-616, 661-677`). Cells are abstract; Python's `set.pop()` order is an
    arbitrary schedule `pick`. -/
namespace GV
variable {C : Type} [DecidableEq C]

structure FState (C : Type) where
  valid : List C
  checked : List C
  queue : List C

def addSet (x : C) (l : List C) : List C := if x ∈ l then l else x :: l

/-- the inner `for near_gh in surrounding:` loop -/
def visit (touches : C → Bool) : List C → FState C → FState C
  | [], s => s
  | n :: ns, s =>
    if n ∈ s.checked then visit touches ns s
    else
      let s1 := { s with checked := n :: s.checked }
      if touches n then
        visit touches ns { s1 with valid := addSet n s1.valid, queue := addSet n s1.queue }
      else visit touches ns s1

/-- the outer `while queue:` loop with fuel; `pick q` chooses which element to pop (must be in q) -/
def floodGo (nbrs : C → List C) (touches : C → Bool) (pick : List C → Option C) :
    Nat → FState C → Option (List C)
  | 0, s => if s.queue = [] then some s.valid else none
  | fuel+1, s =>
    match s.queue with
    | [] => some s.valid
    | _ :: _ =>
      match pick s.queue with
      | none => none
      | some gh =>
        floodGo nbrs touches pick fuel (visit touches (nbrs gh) { s with queue := s.queue.erase gh })

def flood (nbrs : C → List C) (touches : C → Bool) (pick : List C → Option C) (fuel : Nat) (start : C) :
    Option (List C) :=
  floodGo nbrs touches pick fuel ⟨[start], [], [start]⟩
end GV
