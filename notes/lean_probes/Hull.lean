/-! Probe model of `_geometry.convex_hull` (Andrew's monotone chain) over exact rationals. -/
abbrev HPt := Rat × Rat

def hcross (o a b : HPt) : Rat := (a.1 - o.1) * (b.2 - o.2) - (a.2 - o.2) * (b.1 - o.1)

/-- one `for coord in coordinates:` iteration: pop while the last two and `p` do not turn left.
    The stack is kept top-first. -/
def hpush : List HPt → HPt → List HPt
  | a :: b :: rest, p => if hcross b a p ≤ 0 then hpush (b :: rest) p else p :: a :: b :: rest
  | st, p => p :: st
termination_by st => st.length

def hchain (pts : List HPt) : List HPt := pts.foldl hpush []

def lexLe (a b : HPt) : Bool := decide (a.1 < b.1) || (decide (a.1 = b.1) && decide (a.2 ≤ b.2))

/-- `_geometry.py:55-79`; `sorted(set(..))` = dedup then stable sort on (lon, lat) -/
def hullOf (pts : List HPt) : List HPt :=
  let s := (pts.eraseDups).mergeSort lexLe
  if s.length ≤ 1 then s
  else
    let lower := (hchain s).reverse
    let upper := (hchain s.reverse).reverse
    lower.dropLast ++ upper

#eval hullOf [(0,0),(1,0),(2,0),(2,2),(0,2),(1,1),(1,2),(0,0)]
#eval hullOf [(0,0),(1,1),(2,2)]
#eval hullOf [(0,0),(0,0)]
