/-! Probe model of the outline comparison in `GeoPolygon.__eq__` (`structures.py:284-300`). -/
namespace GV
variable {α : Type} [DecidableEq α]

/-- `o_outline = o_outline[1:] + [o_outline[0]]` -/
def rotL : List α → List α
  | [] => []
  | x :: xs => xs ++ [x]

/-- `for _ in range(0, len(o_outline)):` with the early `break` -/
def eqLoop (s : List α) : List α → Nat → Bool
  | _, 0 => false
  | o, n+1 => if s = o ∨ s = o.reverse then true else eqLoop s (rotL o) n

/-- open outlines (closing vertex already removed) -/
def outlineEq (s o : List α) : Bool :=
  if s.length ≠ o.length then false else eqLoop s o o.length
end GV
