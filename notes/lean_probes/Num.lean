/-! Probe: geodesy formulas written once over a numeric signature; core Lean only. -/
class Num (α : Type) extends Add α, Sub α, Mul α, Div α, Neg α where
  ofRat : Rat → α
  sqrt : α → α
  sin : α → α
  cos : α → α
  asin : α → α
  atan2 : α → α → α
  pi : α

namespace Geo
variable {α : Type} [Num α]

def rad (d : α) : α := d * Num.pi / Num.ofRat 180
def sq (x : α) : α := x * x

/-- calc.py:52-75 without ensure_edge_bounds (handled separately) -/
def havA (lat1 lon1 lat2 lon2 : α) : α :=
  sq (Num.sin ((lat2 - lat1) / Num.ofRat 2)) +
    Num.cos lat1 * Num.cos lat2 * sq (Num.sin ((lon2 - lon1) / Num.ofRat 2))

def haversine (R lat1 lon1 lat2 lon2 : α) : α :=
  let a := havA lat1 lon1 lat2 lon2
  R * Num.ofRat 2 * Num.atan2 (Num.sqrt a) (Num.sqrt (Num.ofRat 1 - a))
end Geo

instance : Num Float where
  ofRat r := Float.ofInt r.num / Float.ofNat r.den
  sqrt := Float.sqrt
  sin := Float.sin
  cos := Float.cos
  asin := Float.asin
  atan2 := Float.atan2
  pi := 3.141592653589793

#eval Geo.haversine (α := Float) 6371000.0 (Geo.rad 0.0) (Geo.rad 0.0) (Geo.rad 1.0) (Geo.rad 1.0)
#eval (Geo.haversine (α := Float) 6371000.0 (Geo.rad 0.0) (Geo.rad 0.0) (Geo.rad 1.0) (Geo.rad 1.0)).toBits
