import Mathlib.Analysis.SpecialFunctions.Trigonometric.Inverse
import Mathlib.Analysis.SpecialFunctions.Complex.Arg
import Mathlib.Analysis.SpecialFunctions.Sqrt
import Mathlib.Tactic

open Real

namespace GV

noncomputable def atan2 (y x : ℝ) : ℝ := Complex.arg ⟨x, y⟩

/-- haversine "a" and the distance as in `calc.py:52-75` (angles in radians) -/
noncomputable def havA (φ1 l1 φ2 l2 : ℝ) : ℝ :=
  sin ((φ2 - φ1) / 2) ^ 2 + cos φ1 * cos φ2 * sin ((l2 - l1) / 2) ^ 2
noncomputable def havDist (R φ1 l1 φ2 l2 : ℝ) : ℝ :=
  R * 2 * atan2 (√(havA φ1 l1 φ2 l2)) (√(1 - havA φ1 l1 φ2 l2))

/-- destination as in `calc.py:127-139` before rounding -/
noncomputable def destLat (φ1 θ δ : ℝ) : ℝ := arcsin (sin φ1 * cos δ + cos φ1 * sin δ * cos θ)
noncomputable def destLon (φ1 l1 θ δ : ℝ) : ℝ :=
  l1 + atan2 (sin θ * sin δ * cos φ1) (cos δ - sin φ1 * sin (destLat φ1 θ δ))

theorem sin_sq_half' (x : ℝ) : sin (x / 2) ^ 2 = (1 - cos x) / 2 := by
  have h := cos_sq_add_sin_sq (x / 2)
  have h2 : cos x = cos (x/2) ^ 2 - sin (x/2) ^ 2 := by
    have := cos_two_mul (x / 2)
    rw [show 2 * (x / 2) = x by ring] at this
    rw [this]; nlinarith [h]
  nlinarith [h]

theorem atan2_sin_cos {t : ℝ} (h1 : -π < t) (h2 : t ≤ π) : atan2 (sin t) (cos t) = t := by
  unfold atan2
  have : (⟨cos t, sin t⟩ : ℂ) = Complex.cos t + Complex.sin t * Complex.I := by
    apply Complex.ext <;> simp [Complex.cos_ofReal_re, Complex.sin_ofReal_re]
  rw [this]
  exact Complex.arg_cos_add_sin_mul_I ⟨h1, h2⟩

theorem s2_bound (s1 c1 sd cd ct st : ℝ) (h1 : s1^2 + c1^2 = 1) (hd : sd^2 + cd^2 = 1)
    (ht : st^2 + ct^2 = 1) : (s1 * cd + c1 * sd * ct)^2 ≤ 1 := by
  have hu : (c1 * cd - s1 * sd * ct)^2 + (s1 * cd + c1 * sd * ct)^2 = cd^2 + sd^2 * ct^2 := by
    linear_combination (cd^2 + sd^2 * ct^2) * h1
  nlinarith [sq_nonneg (c1 * cd - s1 * sd * ct), sq_nonneg (sd * st), sq_nonneg sd, sq_nonneg ct, sq_nonneg st]

theorem dest_core (s1 c1 sd cd st ct : ℝ)
    (h1 : s1^2 + c1^2 = 1) (hd : sd^2 + cd^2 = 1) (ht : st^2 + ct^2 = 1) :
    (cd - s1 * (s1 * cd + c1 * sd * ct))^2 + (st * sd * c1)^2
      = c1^2 * (1 - (s1 * cd + c1 * sd * ct)^2) := by
  have hx : cd - s1 * (s1 * cd + c1 * sd * ct) = c1 * (c1 * cd - s1 * sd * ct) := by
    linear_combination (-cd) * h1
  have hu : (c1 * cd - s1 * sd * ct)^2 + (s1 * cd + c1 * sd * ct)^2 = cd^2 + sd^2 * ct^2 := by
    linear_combination (cd^2 + sd^2 * ct^2) * h1
  rw [hx]
  linear_combination c1^2 * hu + c1^2 * sd^2 * ht + c1^2 * hd

/-- the haversine "a" between a start and its destination is sin²(δ/2) -/
theorem havA_dest (φ1 l1 θ δ : ℝ) (hφ : |φ1| ≤ π / 2) :
    havA φ1 l1 (destLat φ1 θ δ) (destLon φ1 l1 θ δ) = sin (δ / 2) ^ 2 := by
  set s2 := sin φ1 * cos δ + cos φ1 * sin δ * cos θ with hs2
  have hc1 : 0 ≤ cos φ1 := cos_nonneg_of_neg_pi_div_two_le_of_le
    (by linarith [neg_abs_le φ1]) (by linarith [le_abs_self φ1])
  have hb : s2 ^ 2 ≤ 1 := s2_bound _ _ _ _ _ _ (sin_sq_add_cos_sq φ1) (sin_sq_add_cos_sq δ) (sin_sq_add_cos_sq θ)
  have hb1 : -1 ≤ s2 := by nlinarith
  have hb2 : s2 ≤ 1 := by nlinarith
  have hsin2 : sin (destLat φ1 θ δ) = s2 := by unfold destLat; exact sin_arcsin hb1 hb2
  have hcos2 : cos (destLat φ1 θ δ) = √(1 - s2 ^ 2) := by unfold destLat; exact cos_arcsin _
  -- the complex number whose argument is Δλ
  set x := cos δ - sin φ1 * s2 with hx
  set y := sin θ * sin δ * cos φ1 with hy
  have hnorm : ‖(⟨x, y⟩ : ℂ)‖ = cos φ1 * √(1 - s2 ^ 2) := by
    rw [Complex.norm_def, Complex.normSq_apply]
    have hcore := dest_core (sin φ1) (cos φ1) (sin δ) (cos δ) (sin θ) (cos θ)
      (sin_sq_add_cos_sq φ1) (sin_sq_add_cos_sq δ) (sin_sq_add_cos_sq θ)
    have : x * x + y * y = (cos φ1) ^ 2 * (1 - s2 ^ 2) := by
      rw [hx, hy, hs2]; nlinarith [hcore]
    simp only
    rw [this, sqrt_mul (sq_nonneg _), sqrt_sq hc1]
  have hdl : destLon φ1 l1 θ δ - l1 = Complex.arg ⟨x, y⟩ := by
    unfold destLon atan2; rw [hsin2]; ring
  have hkey : cos φ1 * cos (destLat φ1 θ δ) * cos (destLon φ1 l1 θ δ - l1) = x := by
    rw [hdl, hcos2, ← hnorm]
    exact Complex.norm_mul_cos_arg _
  unfold havA
  rw [sin_sq_half', sin_sq_half', sin_sq_half', cos_sub, hsin2]
  have : cos φ1 * cos (destLat φ1 θ δ) * ((1 - cos (destLon φ1 l1 θ δ - l1)) / 2)
      = (cos φ1 * cos (destLat φ1 θ δ) - x) / 2 := by rw [← hkey]; ring
  rw [this, hx]; ring

/-- **travelling `d = R·δ` on bearing θ ends at haversine distance `d`** (0 ≤ δ ≤ π, |φ1| ≤ π/2) -/
theorem dest_dist (R φ1 l1 θ δ : ℝ) (hφ : |φ1| ≤ π / 2) (h0 : 0 ≤ δ) (hπ : δ ≤ π) :
    havDist R φ1 l1 (destLat φ1 θ δ) (destLon φ1 l1 θ δ) = R * δ := by
  unfold havDist
  rw [havA_dest φ1 l1 θ δ hφ]
  have hs : 0 ≤ sin (δ / 2) := sin_nonneg_of_nonneg_of_le_pi (by linarith) (by linarith)
  have hc : 0 ≤ cos (δ / 2) := cos_nonneg_of_neg_pi_div_two_le_of_le (by linarith) (by linarith)
  have h1 : √(sin (δ / 2) ^ 2) = sin (δ / 2) := sqrt_sq hs
  have h2 : √(1 - sin (δ / 2) ^ 2) = cos (δ / 2) := by
    rw [← cos_sq' (δ / 2)]; exact sqrt_sq hc
  rw [h1, h2, atan2_sin_cos (by linarith [pi_pos]) (by linarith [pi_pos])]
  ring

#print axioms dest_dist
end GV
