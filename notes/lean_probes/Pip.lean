/-! Probe model of `GeoPolygon._point_in_polygon` as repaired by F01 (exact rationals). -/
namespace GV
abbrev PPt := Rat × Rat
abbrev PEdge := PPt × PPt

def pcross (e : PEdge) (p : PPt) : Rat :=
  (e.2.1 - e.1.1) * (p.2 - e.1.2) - (e.2.2 - e.1.2) * (p.1 - e.1.1)

def minR (a b : Rat) : Rat := if a ≤ b then a else b
def maxR (a b : Rat) : Rat := if a ≤ b then b else a

def onEdge (p : PPt) (e : PEdge) : Bool :=
  decide (pcross e p = 0) &&
  decide (minR e.1.1 e.2.1 ≤ p.1) && decide (p.1 ≤ maxR e.1.1 e.2.1) &&
  decide (minR e.1.2 e.2.2 ≤ p.2) && decide (p.2 ≤ maxR e.1.2 e.2.2)

/-- half-open rule: exactly one endpoint strictly above the ray, and the edge is on the ray's side -/
def crossesRay (p : PPt) (e : PEdge) : Bool :=
  (decide (e.1.2 > p.2) != decide (e.2.2 > p.2)) &&
  (decide (pcross e p > 0) == decide (e.2.2 > e.1.2))

def pipGo (p : PPt) (inclB : Bool) : List PEdge → Bool → Bool
  | [], ins => ins
  | e :: es, ins =>
    if onEdge p e then inclB
    else pipGo p inclB es (if crossesRay p e then !ins else ins)

/-- `zip(polygon, [*polygon[1:], polygon[0]])` -/
def ringEdges : List PPt → List PEdge
  | [] => []
  | v :: vs => (v :: vs).zip (vs ++ [v])

def pointInRing (p : PPt) (ring : List PPt) (inclB : Bool := false) : Bool :=
  pipGo p inclB (ringEdges ring) false

#eval pointInRing (0,0) [(0,1),(1,0),(0,-1),(-1,0),(0,1)]      -- diamond centre: true
#eval pointInRing (3,2) [(0,0),(4,0),(4,4),(2,2),(0,4),(0,0)]  -- notched square: true
#eval pointInRing (2,3) [(0,0),(4,0),(4,4),(2,2),(0,4),(0,0)]  -- in the notch: false
#eval pointInRing (1,3) [(0,0),(4,0),(4,4),(2,2),(0,4),(0,0)]  -- on an edge: false
end GV
