import Probe.Num
import Mathlib.Analysis.SpecialFunctions.Trigonometric.Inverse
import Mathlib.Analysis.SpecialFunctions.Complex.Arg
import Mathlib.Analysis.SpecialFunctions.Sqrt
import Mathlib.Tactic.Ring
import Mathlib.Tactic.Linarith

noncomputable instance : Num ℝ where
  ofRat r := (r : ℝ)
  sqrt := Real.sqrt
  sin := Real.sin
  cos := Real.cos
  asin := Real.arcsin
  atan2 y x := Complex.arg ⟨x, y⟩
  pi := Real.pi

/-- bridging lemma: the generic definition at ℝ *is* the textbook expression (by rfl) -/
theorem havA_real (a b c d : ℝ) :
    Geo.havA a b c d =
      Real.sin ((c - a) / ((2:ℚ):ℝ)) * Real.sin ((c - a) / ((2:ℚ):ℝ)) +
        Real.cos a * Real.cos c * (Real.sin ((d - b) / ((2:ℚ):ℝ)) * Real.sin ((d - b) / ((2:ℚ):ℝ))) := rfl

theorem havA_symm (a b c d : ℝ) : Geo.havA a b c d = Geo.havA c d a b := by
  rw [havA_real, havA_real]
  have h1 : Real.sin ((a - c) / ((2:ℚ):ℝ)) = - Real.sin ((c - a) / ((2:ℚ):ℝ)) := by
    rw [← Real.sin_neg]; congr 1; ring
  have h2 : Real.sin ((b - d) / ((2:ℚ):ℝ)) = - Real.sin ((d - b) / ((2:ℚ):ℝ)) := by
    rw [← Real.sin_neg]; congr 1; ring
  rw [h1, h2]; ring

theorem haversine_symm (R a b c d : ℝ) : Geo.haversine R a b c d = Geo.haversine R c d a b := by
  simp only [Geo.haversine, havA_symm a b c d]

#print axioms haversine_symm
