import Probe.Coord
import Mathlib.Algebra.Order.Floor.Ring
import Mathlib.Data.Rat.Floor
import Mathlib.Algebra.Order.Field.Rat
import Mathlib.Tactic

namespace GV

theorem absR_eq (x : ℚ) : absR x = |x| := by
  unfold absR; split
  · rw [abs_of_neg ‹_›]
  · rw [abs_of_nonneg (not_lt.mp ‹_›)]

/-- measure of the pole loop -/
def mLat (lat : ℚ) : ℤ := ⌊(|lat| + 90) / 180⌋

theorem mLat_nonneg (lat : ℚ) : 0 ≤ mLat lat := by
  unfold mLat; rw [Int.floor_nonneg]; positivity

theorem abs_latStep (lon lat : ℚ) (h : ¬ (-90 ≤ lat ∧ lat ≤ 90)) :
    |(latStep lon lat).2| = |(|lat| - 180)| := by
  unfold latStep
  by_cases h1 : lat > 90
  · simp only [h1, if_true]
    rw [abs_of_pos (by linarith : (0:ℚ) < lat)]
    rw [show (90 : ℚ) - (lat - 90) = -(lat - 180) by ring, abs_neg]
  · have h2 : lat < -90 := by
      by_contra hc; exact h ⟨not_lt.mp hc, not_lt.mp h1⟩
    simp only [h1, if_false]
    rw [abs_of_neg (by linarith : lat < 0)]
    rw [show (-90 : ℚ) - (lat + 90) = -lat - 180 by ring]

theorem mLat_decr (lon lat : ℚ) (h : ¬ (-90 ≤ lat ∧ lat ≤ 90)) :
    mLat (latStep lon lat).2 < mLat lat := by
  have habs : 90 < |lat| := by
    by_contra hc; rw [not_lt, abs_le] at hc; exact h hc
  unfold mLat
  rw [abs_latStep lon lat h]
  by_cases hbig : 180 ≤ |lat|
  · rw [abs_of_nonneg (by linarith)]
    have : (|lat| - 180 + 90) / 180 = (|lat| + 90) / 180 - 1 := by ring
    rw [this, Int.floor_sub_one]; omega
  · rw [not_le] at hbig
    rw [abs_of_neg (by linarith)]
    have h0 : ⌊(-(|lat| - 180) + 90) / 180⌋ = 0 := by
      rw [Int.floor_eq_iff]; constructor
      · simp; apply div_nonneg <;> linarith
      · simp; rw [div_lt_one (by norm_num)]; linarith
    have h1 : 1 ≤ ⌊(|lat| + 90) / 180⌋ := by
      rw [Int.le_floor]; simp; rw [le_div_iff₀ (by norm_num)]; linarith
    omega

theorem latLoop_range : ∀ (n : ℕ) (lon lat : ℚ), mLat lat < n →
    -90 ≤ (latLoop n lon lat).2 ∧ (latLoop n lon lat).2 ≤ 90
  | 0, lon, lat, h => by have := mLat_nonneg lat; omega
  | n+1, lon, lat, h => by
    unfold latLoop
    by_cases hr : -90 ≤ lat ∧ lat ≤ 90
    · simp only [hr, and_self, if_true]
    · simp only [hr, if_false]
      apply latLoop_range n
      have := mLat_decr lon lat hr
      push_cast at h ⊢; omega

theorem lat_range (b : Bool) (lon lat : ℚ) (hb : b = true) :
    -90 ≤ (normalize b lon lat).2 ∧ (normalize b lon lat).2 ≤ 90 := by
  subst hb
  unfold normalize
  simp only [if_true]
  apply latLoop_range
  unfold fuelLat mLat
  rw [absR_eq]
  have h0 : 0 ≤ ⌊(|lat| + 90) / 180⌋ := by rw [Int.floor_nonneg]; positivity
  have : Rat.floor ((|lat| + 90) / 180) = ⌊(|lat| + 90) / 180⌋ := rfl
  rw [this]
  push_cast
  omega

#print axioms lat_range
end GV
