/-! Probe model of `time.py` TimeInterval (µs ticks as Int). `*_pinned` = behaviour at the pinned commit. -/
namespace GV
structure TI where
  start : Int
  stop : Int
deriving DecidableEq, Repr

namespace TI
def mk? (s e : Int) : Except String TI := if e < s then .error "ValueError" else .ok ⟨s, e⟩
def isInstant (t : TI) : Bool := t.start == t.stop
/-- `__contains__(datetime)` -/
def containsDt (t : TI) (x : Int) : Bool :=
  if t.isInstant then t.start == x else decide (t.start ≤ x) && decide (x < t.stop)

-- pinned commit
def issubset_pinned (a b : TI) : Bool := decide (b.start ≤ a.start) && decide (a.stop ≤ b.stop)
def isdisjoint_pinned (a b : TI) : Bool :=
  if a.isInstant || b.isInstant then decide (a.stop < b.start) || decide (a.start > b.stop)
  else decide (a.stop ≤ b.start) || decide (a.start ≥ b.stop)

-- after the F06a repair
def issubset (a b : TI) : Bool :=
  if a.isInstant then b.containsDt a.start
  else decide (b.start ≤ a.start) && decide (a.stop ≤ b.stop)
def issuperset (a b : TI) : Bool := b.issubset a
def isdisjoint (a b : TI) : Bool :=
  if a.isInstant then !b.containsDt a.start
  else if b.isInstant then !a.containsDt b.start
  else decide (a.stop ≤ b.start) || decide (a.start ≥ b.stop)
def intersects (a b : TI) : Bool := !b.isdisjoint a
def intersection (a b : TI) : Option TI :=
  if a.isdisjoint b then none else some ⟨max a.start b.start, min a.stop b.stop⟩
def union (a b : TI) : TI := ⟨min a.start b.start, max a.stop b.stop⟩
def hashKey (t : TI) : Int × Int := (t.start, t.stop)
end TI
end GV
