/-! Probe model of `_geometry.do_edges_intersect` (after the F02a/F02b repairs), core Lean only. -/
abbrev Pt := Rat × Rat          -- (lon, lat)
abbrev Edge := Pt × Pt
abbrev Act := Edge × Bool       -- (segment, group)   group: false = 'a', true = 'b'

structure Ev where
  key : Rat
  isStart : Bool
  edge : Edge
  grp : Bool
deriving DecidableEq

def normEdge (e : Edge) : Edge := if e.1.2 > e.2.2 then (e.2, e.1) else e

def mkEvents (g : Bool) (es : List Edge) : List Ev :=
  es.flatMap fun e =>
    let e' := normEdge e
    [⟨e'.1.2, decide (e'.1.2 ≤ e'.2.2), e', g⟩, ⟨e'.2.2, decide (e'.2.2 ≤ e'.1.2), e', g⟩]

/-- sort key (lat, is_end), lexicographic -/
def evLe (x y : Ev) : Bool :=
  decide (x.key < y.key) || (decide (x.key = y.key) && (x.isStart || !y.isStart))

def ins (x : Act) (l : List Act) : List Act := if x ∈ l then l else x :: l

def step (act : List Act) (ev : Ev) : List Act :=
  if ev.isStart then ins (ev.edge, ev.grp) act else act.erase (ev.edge, ev.grp)

def hit (inter : Edge → Edge → Bool) (act : List Act) (ev : Ev) : Bool :=
  act.any fun a => a.2 != ev.grp && inter a.1 ev.edge

def go (inter : Edge → Edge → Bool) : List Ev → List Act → Bool
  | [], _ => false
  | ev :: rest, act =>
    if !ev.isStart then go inter rest (step act ev)
    else if act.all (fun a => a.2 == ev.grp) then go inter rest (step act ev)
    else if hit inter act ev then true
    else go inter rest (step act ev)

def sweep (inter : Edge → Edge → Bool) (A B : List Edge) : Bool :=
  go inter ((mkEvents false A ++ mkEvents true B).mergeSort evLe) []
