/-! Probe model of `Coordinate.__init__` normalisation (`coordinates.py:26-44`), exact rationals. -/
namespace GV

def latStep (lon lat : Rat) : Rat × Rat :=
  (if lon < 0 then lon + 180 else lon - 180, if lat > 90 then 90 - (lat - 90) else -90 - (lat + 90))

/-- `while not -90 <= lat <= 90:` with fuel -/
def latLoop : Nat → Rat → Rat → Rat × Rat
  | 0, lon, lat => (lon, lat)
  | n+1, lon, lat =>
    if -90 ≤ lat ∧ lat ≤ 90 then (lon, lat)
    else latLoop n (latStep lon lat).1 (latStep lon lat).2

/-- `while not -180 <= lon <= 180:` with fuel -/
def lonLoop : Nat → Rat → Rat
  | 0, lon => lon
  | n+1, lon => if -180 ≤ lon ∧ lon ≤ 180 then lon else lonLoop n (if lon > 180 then lon - 360 else lon + 360)

def absR (x : Rat) : Rat := if x < 0 then -x else x
def fuelLat (lat : Rat) : Nat := ((absR lat + 90) / 180).floor.toNat + 1
def fuelLon (lon : Rat) : Nat := ((absR lon + 180) / 360).floor.toNat + 1

def normalize (bounded : Bool) (lon lat : Rat) : Rat × Rat :=
  let (lon1, lat1) := if bounded then
      let r := latLoop (fuelLat lat) lon lat
      (lonLoop (fuelLon r.1) r.1, r.2)
    else (lon, lat)
  (if lon1 = 180 then -180 else lon1, lat1)

#eval normalize true 181 0
#eval normalize true 1 271
#eval normalize true 10 91
#eval normalize true 180 0
#eval normalize true (-100000) 99999
#eval normalize false 360 180
end GV
