import subprocess, os, sys
REPO='/tmp/bld_io/repo'; F=REPO+'/geostructures/collections.py'
orig=open('/repo/geostructures/collections.py').read()
SHP_START="            dt_start = rec.get(time_start_field) or None\n"
variants=[
 ('HR1 `not (t in conv_map)`', 'H', [("if arc_type not in conv_map:  # pragma: no cover\n                    raise ValueError(\n                        f'Shapefile contains","if not (arc_type in conv_map):  # pragma: no cover\n                    raise ValueError(\n                        f'Shapefile contains")]),
 ('HR2 the two member tests reordered', 'H', [("            if read_layers and file_name.split('.')[0] not in read_layers:\n                continue\n\n            if not file_name.endswith('.shp'):\n                continue\n","            if not file_name.endswith('.shp'):\n                continue\n\n            if read_layers and file_name.split('.')[0] not in read_layers:\n                continue\n")]),
 ('HR3 class looked up after _get_dt', 'H', [("                geostructs_type = conv_map[arc_type]\n\n                props = record.as_dict()\n                dt = _get_dt(props)\n","                props = record.as_dict()\n                dt = _get_dt(props)\n                geostructs_type = conv_map[arc_type]\n")]),
 ('MR1 dt computed after the property filter', 'M', [("                dt = _get_dt(props)\n                props = {\n                    k: v for k, v in props.items() if k not in (time_start_field, time_end_field)\n                }\n","                props = {\n                    k: v for k, v in props.items() if k not in (time_start_field, time_end_field)\n                }\n                dt = _get_dt(props)\n")]),
 ('MR2 time fields kept as properties', 'M', [("k: v for k, v in props.items() if k not in (time_start_field, time_end_field)\n                }\n\n                shapes.append(\n                    geostructs_type.from_pyshp","k: v for k, v in props.items()\n                }\n\n                shapes.append(\n                    geostructs_type.from_pyshp")]),
 ('MR3 Polygon/MultiPolygon classes swapped (from_shapefile)', 'M', [("            'Polygon': GeoPolygon,\n            'MultiPoint': MultiGeoPoint,\n            'MultiLineString': MultiGeoLineString,\n            'MultiPolygon': MultiGeoPolygon,\n        }\n\n        shapes = []","            'Polygon': MultiGeoPolygon,\n            'MultiPoint': MultiGeoPoint,\n            'MultiLineString': MultiGeoLineString,\n            'MultiPolygon': GeoPolygon,\n        }\n\n        shapes = []")]),
 ('MR4 only the end field is filtered out', 'M', [("k: v for k, v in props.items() if k not in (time_start_field, time_end_field)\n                }\n\n                shapes.append(\n                    geostructs_type.from_pyshp","k: v for k, v in props.items() if k not in (time_end_field,)\n                }\n\n                shapes.append(\n                    geostructs_type.from_pyshp")]),
 ('MR5 an empty layer ends the reading', 'M', [("            if not reader.shapes():  # pragma: no cover\n                # Layer is empty\n                continue","            if not reader.shapes():  # pragma: no cover\n                # Layer is empty\n                break")]),
 ('MR6 from_pyshp without dt', 'M', [("geostructs_type.from_pyshp(shape, dt=dt, properties=props)","geostructs_type.from_pyshp(shape, dt=None, properties=props)")]),
]
env=dict(os.environ, GEOSTRUCTURES_REPO=REPO)
for name, kind, reps in variants:
    s=orig
    ok=True
    for a,b in reps:
        if s.count(a)<1: ok=False
        s=s.replace(a,b,1) if kind!='H1' else s.replace(a,b)
    if not ok:
        print(name,'PATTERN NOT FOUND'); continue
    open(F,'w').write(s)
    r=subprocess.run(['/venv/bin/python','-c','import srcunits;t,w=srcunits.render("SrcIo");open("/tmp/bld_io/verif/lean/GeoVerif/Gen/SrcIo.lean","w").write(t)'],cwd='/tmp/bld_io/verif/harness',env=env,capture_output=True,text=True)
    if r.returncode: print(r.stderr[-300:])
    gen=open('/tmp/bld_io/verif/lean/GeoVerif/Gen/SrcIo.lean').read()
    if 'could NOT be translated' in gen:
        tie='untranslatable: '+gen.split('\n')[2][:120]
    else:
        b=subprocess.run(['lake','build','-q','GeoVerif.Props.C20Src'],cwd='/tmp/bld_io/verif/lean',capture_output=True,text=True)
        tie='intact' if b.returncode==0 else 'equivalence-not-proved'
    tests=''
    if kind=='M':
        t=subprocess.run(['/venv/bin/python','-m','pytest','-q','-x','tests/test_collections.py','-p','no:cacheprovider'],cwd=REPO,capture_output=True,text=True)
        tests=' | unit tests: '+(t.stdout.strip().split('\n')[-1] if t.stdout.strip() else t.stderr[-100:])
    print(f'{name}: tie {tie}{tests}',flush=True)
open(F,'w').write(orig)
subprocess.run(['./check','--regenerate'],cwd='/tmp/bld_io/verif',capture_output=True)
subprocess.run(['lake','build','-q','GeoVerif.Props.C20Src'],cwd='/tmp/bld_io/verif/lean',capture_output=True)
print('restored')
