import subprocess, os, sys
REPO='/tmp/bld_io/repo'; F=REPO+'/geostructures/collections.py'
orig=open('/repo/geostructures/collections.py').read()
SHP_START="            dt_start = rec.get(time_start_field) or None\n"
variants=[
 ('HG1 to_geopandas: keys local renamed via extra local', 'H', [("        keys = include_properties or set(\n            _key for x in self.geoshapes\n            for _key in x.properties.keys()\n        )\n","        all_keys = set(\n            _key for x in self.geoshapes\n            for _key in x.properties.keys()\n        )\n        keys = include_properties or all_keys\n")]),
 ('HG2 to_geopandas: iterate the properties dict directly', 'H', [("            for _key in x.properties.keys()\n        )\n\n        return gpd.GeoDataFrame","            for _key in x.properties\n        )\n\n        return gpd.GeoDataFrame")]),
 ('HG3 from_geopandas: `not (t in conv_map)`', 'H', [("if geom_type not in conv_map:  # pragma: no cover\n                # ignored coverage","if not (geom_type in conv_map):  # pragma: no cover\n                # ignored coverage")]),
 ('HG4 from_geopandas: props built before dt', 'H', [("            dt = _get_dt(record)\n            props = {k: v for k, v in record.items() if k in prop_fields}\n","            props = {k: v for k, v in record.items() if k in prop_fields}\n            dt = _get_dt(record)\n")]),
 ('MG1 to_geopandas: _properties instead of properties in the rows', 'M', [("key: x.properties.get(key) for key in keys","key: x._properties.get(key) for key in keys")]),
 ('MG2 to_geopandas: include_properties ignored', 'M', [("        keys = include_properties or set(","        keys = set(")]),
 ('MG3 from_geopandas: time fields kept as properties', 'M', [("x for x in df.columns if x not in (time_start_field, time_end_field, 'geometry')","x for x in df.columns if x not in ('geometry',)")]),
 ('MG4 from_geopandas: only the start field is dropped', 'M', [("x for x in df.columns if x not in (time_start_field, time_end_field, 'geometry')","x for x in df.columns if x not in (time_start_field, 'geometry')")]),
 ('MG5 from_geopandas: shape built without dt', 'M', [("                    dt=dt,\n                    properties=props\n                )\n            )\n\n        return cls(shapes)\n\n    @classmethod\n    def from_shapefile","                    dt=None,\n                    properties=props\n                )\n            )\n\n        return cls(shapes)\n\n    @classmethod\n    def from_shapefile")]),
 ('MG6 from_geopandas: Point/MultiPoint classes swapped', 'M', [("            'Point': GeoPoint,\n            'LineString': GeoLineString,\n            'Polygon': GeoPolygon,\n            'MultiPoint': MultiGeoPoint,\n            'MultiLineString': MultiGeoLineString,\n            'MultiPolygon': MultiGeoPolygon,\n        }\n\n        def _get_dt(rec):","            'Point': MultiGeoPoint,\n            'LineString': GeoLineString,\n            'Polygon': GeoPolygon,\n            'MultiPoint': GeoPoint,\n            'MultiLineString': MultiGeoLineString,\n            'MultiPolygon': MultiGeoPolygon,\n        }\n\n        def _get_dt(rec):")]),
 ('MG7 to_geopandas: wkt list reversed', 'M', [("[x.to_wkt() for x in self.geoshapes]","[x.to_wkt() for x in self.geoshapes[::-1]]")]),
 ('MG8 from_geopandas: geometry not excluded from the property columns (below the model: stays intact)', 'M', [("x for x in df.columns if x not in (time_start_field, time_end_field, 'geometry')","x for x in df.columns if x not in (time_start_field, time_end_field)")]),
]
env=dict(os.environ, GEOSTRUCTURES_REPO=REPO)
for name, kind, reps in variants:
    s=orig
    ok=True
    for a,b in reps:
        if s.count(a)<1: ok=False
        s=s.replace(a,b,1) if kind!='H1' else s.replace(a,b)
    if not ok:
        print(name,'PATTERN NOT FOUND'); continue
    open(F,'w').write(s)
    r=subprocess.run(['/venv/bin/python','-c','import srcunits;t,w=srcunits.render("SrcIo");open("/tmp/bld_io/verif/lean/GeoVerif/Gen/SrcIo.lean","w").write(t)'],cwd='/tmp/bld_io/verif/harness',env=env,capture_output=True,text=True)
    if r.returncode: print(r.stderr[-300:])
    gen=open('/tmp/bld_io/verif/lean/GeoVerif/Gen/SrcIo.lean').read()
    if 'could NOT be translated' in gen:
        tie='untranslatable: '+gen.split('\n')[2][:120]
    else:
        b=subprocess.run(['lake','build','-q','GeoVerif.Props.C20Src'],cwd='/tmp/bld_io/verif/lean',capture_output=True,text=True)
        tie='intact' if b.returncode==0 else 'equivalence-not-proved'
    tests=''
    if kind=='M':
        t=subprocess.run(['/venv/bin/python','-m','pytest','-q','-x','tests/test_collections.py','-p','no:cacheprovider'],cwd=REPO,capture_output=True,text=True)
        tests=' | unit tests: '+(t.stdout.strip().split('\n')[-1] if t.stdout.strip() else t.stderr[-100:])
    print(f'{name}: tie {tie}{tests}',flush=True)
open(F,'w').write(orig)
subprocess.run(['./check','--regenerate'],cwd='/tmp/bld_io/verif',capture_output=True)
subprocess.run(['lake','build','-q','GeoVerif.Props.C20Src'],cwd='/tmp/bld_io/verif/lean',capture_output=True)
print('restored')
