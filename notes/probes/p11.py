import sys
sys.path.insert(0,'/root/scratch/repo_try')
import warnings; warnings.filterwarnings('ignore')
import logging; logging.disable(logging.CRITICAL)
import random, math
from geostructures import *
from geostructures.calc import *
C=Coordinate
R=6371000.0
def xyz(lon,lat):
    lo,la=math.radians(lon),math.radians(lat); return (math.cos(la)*math.cos(lo), math.cos(la)*math.sin(lo), math.sin(la))
def dist(a,b):  # independent: atan2 of cross/dot on unit vectors
    ax,ay,az=xyz(*a); bx,by,bz=xyz(*b)
    cx,cy,cz=ay*bz-az*by, az*bx-ax*bz, ax*by-ay*bx
    return R*math.atan2(math.sqrt(cx*cx+cy*cy+cz*cz), ax*bx+ay*by+az*bz)
def bearing(a,b):
    # independent: local east/north frame at a
    lo,la=math.radians(a[0]),math.radians(a[1])
    e=(-math.sin(lo), math.cos(lo), 0.0); n=(-math.sin(la)*math.cos(lo), -math.sin(la)*math.sin(lo), math.cos(la))
    bx=xyz(*b); de=sum(x*y for x,y in zip(e,bx)); dn=sum(x*y for x,y in zip(n,bx))
    return math.degrees(math.atan2(de,dn))%360
random.seed(11)
worst_c=0; worst_e=0; order_bad=0; worst_w=0
for t in range(300):
    lon=random.choice([random.uniform(-180,180), 179.9+random.uniform(0,0.2), -179.99])
    lat=random.uniform(-75,75); c=C(lon,lat); ctr=c.to_float()[:2]
    r=10**random.uniform(1,5); k=random.choice([None,3,4,7,36,100,360])
    circ=GeoCircle(c,r); bc=circ.bounding_coords(k=k)
    for p in bc: worst_c=max(worst_c, abs(dist(ctr,p.to_float()[:2])-r))
    bs=[bearing(ctr,p.to_float()[:2]) for p in bc]
    kk=k or 36
    exp=[(360.0*i/kk)%360 for i in range(kk,-1,-1)]
    for b,e in zip(bs,exp):
        d=abs(b-e); d=min(d,360-d)
        if d*math.pi/180*r>0.02: order_bad+=1
    a=r; b_=r/random.uniform(1,10); rot=random.uniform(0,360)
    el=GeoEllipse(c,a,b_,rot); ebc=el.bounding_coords(k=k)
    for p in ebc:
        q=p.to_float()[:2]; br=bearing(ctr,q); th=math.radians(br-rot)
        rr=a*b_/math.sqrt(a*a*math.sin(th)**2+b_*b_*math.cos(th)**2)
        worst_e=max(worst_e, abs(dist(ctr,q)-rr))
    amin=random.uniform(0,300); amax=amin+random.uniform(5,359.9-amin) if amin<355 else 359
    w=GeoRing(c,r/3,r,amin,amax); wbc=w.bounding_coords(k=k)
    for p in wbc:
        q=p.to_float()[:2]; d=dist(ctr,q); worst_w=max(worst_w, min(abs(d-r),abs(d-r/3)))
print('circle max |d-r| m', worst_c, 'ellipse', worst_e, 'wedge arcs', worst_w, 'angular misplacements', order_bad)
# contains vs oracle
bad=0; n=0
for t in range(300):
    lon=random.choice([random.uniform(-180,180), 179.95, -179.99]); lat=random.uniform(-75,75); c=C(lon,lat); ctr=c.to_float()[:2]
    r=10**random.uniform(1,5); a=r; b_=r/random.uniform(1,10); rot=random.uniform(0,360)
    el=GeoEllipse(c,a,b_,rot); circ=GeoCircle(c,r)
    amin=random.uniform(0,300); amax=min(359.9,amin+random.uniform(5,200)); w=GeoRing(c,r/3,r,amin,amax); ring=GeoRing(c,r/3,r)
    for j in range(60):
        br=random.uniform(0,360); th=math.radians(br-rot)
        rr=a*b_/math.sqrt(a*a*math.sin(th)**2+b_*b_*math.cos(th)**2)
        f=random.choice([0.5,0.9,0.999,1.001,1.1,2.0])
        q=inverse_haversine_degrees(c,br,rr*f); qq=q.to_float()[:2]
        d=dist(ctr,qq); bq=bearing(ctr,qq); thq=math.radians(bq-rot); rq=a*b_/math.sqrt(a*a*math.sin(thq)**2+b_*b_*math.cos(thq)**2)
        if abs(d-rq)>0.05:
            n+=1
            if el.contains_coordinate(q)!=(d<=rq): bad+=1
        q=inverse_haversine_degrees(c,br,r*f); qq=q.to_float()[:2]; d=dist(ctr,qq); bq=bearing(ctr,qq)
        if abs(d-r)>0.05:
            n+=1
            if circ.contains_coordinate(q)!=(d<=r): bad+=1
            if abs(d-r/3)>0.05:
                if ring.contains_coordinate(q)!=(r/3<=d<=r): bad+=1
                marg=min(abs(bq-amin),abs(bq-amax))*math.pi/180*d
                if marg>0.05:
                    n+=1
                    if w.contains_coordinate(q)!=((r/3<=d<=r) and amin<=bq<=amax): bad+=1; print('wedge', c, r, amin, amax, q, d, bq)
print('contains disagreements', bad, '/', n)
# bounds 1% (<=10km)
worstb=0
for t in range(300):
    c=C(random.uniform(-180,180), random.uniform(-75,75)); r=10**random.uniform(1,4)
    for sh in (GeoCircle(c,r), GeoEllipse(c,r,r/random.uniform(1,5),random.uniform(0,360)), GeoRing(c,r/2,r)):
        bc=sh.bounding_coords(k=720); 
        lons=[p.longitude for p in bc]; lats=[p.latitude for p in bc]
        if max(lons)-min(lons)>180: continue
        tb=(min(lons),min(lats),max(lons),max(lats)); b=sh.bounds
        coslat=math.cos(math.radians(c.latitude))
        errs=[abs(b[0]-tb[0])*111320*coslat, abs(b[2]-tb[2])*111320*coslat, abs(b[1]-tb[1])*110574, abs(b[3]-tb[3])*110574]
        worstb=max(worstb, max(errs)/r)
print('bounds worst error / radius', worstb)
