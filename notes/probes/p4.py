import warnings; warnings.filterwarnings('ignore')
import logging; logging.disable(logging.CRITICAL)
import math, random
from datetime import datetime, timedelta, timezone
from geostructures import *
from geostructures.calc import *
from geostructures._geometry import *
from geostructures.time import TimeInterval
C=Coordinate
def tr(f):
    try: return f()
    except Exception as e: return f'EXC {type(e).__name__}: {e}'
print('--- C07')
print('bearing just west of north', bearing_degrees(C(0,0), C(-1e-9, 1)), bearing_degrees(C(10,10), C(10-1e-8, 11)))
print('bearing identical', bearing_degrees(C(1,1),C(1,1)))
print('bearing across antimeridian', bearing_degrees(C(179,0),C(-179,0)), bearing_degrees(C(-179,0),C(179,0)))
print('dist antipodal', haversine_distance_meters(C(0,0),C(180,0)), math.pi*6371000, tr(lambda: dist_xyz_meters(C(0,0),C(180,0))))
print('dist xyz identical', tr(lambda: dist_xyz_meters(C(10.123,20.456),C(10.123,20.456))), tr(lambda: dist_xyz_meters(C(45,45),C(45,45))))
random.seed(1)
bad=0
for i in range(20000):
    c=C(random.uniform(-180,180), random.uniform(-90,90))
    try: dist_xyz_meters(c,c)
    except Exception as e: bad+=1
print('dist_xyz identical domain errors', bad, '/20000')
print('haversine shift across AM', haversine_distance_meters(C(170,10),C(175,20)), haversine_distance_meters(C(178,10),C(-177,20)))
print('var1>1?', tr(lambda: haversine_distance_meters(C(0,0), C(-180,0))), tr(lambda: haversine_distance_meters(C(0,0.0000001), C(-180,-0.0000001))))
# destination consistency
worst=0
for i in range(20000):
    s=C(random.uniform(-180,180), random.uniform(-80,80)); b=random.uniform(0,360); d=10**random.uniform(0,6.69)
    e=inverse_haversine_degrees(s,b,d)
    dd=haversine_distance_meters(s,e)
    worst=max(worst,abs(dd-d))
print('worst |dist(dest)-d|', worst)
e1=inverse_haversine_degrees(C(179.9,0),90,50000); print('dest across AM', e1)
print('deg vs rad', inverse_haversine_degrees(C(1,2),33,1000)==inverse_haversine_radians(C(1,2),math.radians(33),1000))
print('polar', inverse_haversine_degrees(C(0,89.9),0,50000), inverse_haversine_degrees(C(0,90),90,1000))
print('rotate', rotate_coordinates([C(1,0)],C(0,0),90), rotate_coordinates([C(179.5,0)],C(-179.5,0),180))
print('rotate M dropped/z', rotate_coordinates([C(1,0,z=0.0)],C(0,0),90)[0].z)
print('--- C09')
b=GeoBox(C(0,61),C(2,60)); cc=b.circumscribing_circle()
print('box circ contains corners', [cc.contains_coordinate(x) for x in b.bounding_coords()], cc.radius, [haversine_distance_meters(x,cc.center) for x in b.bounding_coords()])
circ=GeoCircle(C(10,60),10000); print('circle bounds', circ.bounds)
ext=[inverse_haversine_degrees(C(10,60),a,10000) for a in (0,90,180,270)]; print('true ext', ext[3].longitude, ext[2].latitude, ext[1].longitude, ext[0].latitude)
el=GeoEllipse(C(10,60),10000,3000,30); print('ellipse bounds', el.bounds); bc=el.bounding_coords(k=720); print(min(x.longitude for x in bc),min(x.latitude for x in bc),max(x.longitude for x in bc),max(x.latitude for x in bc))
w=GeoRing(C(10,60),1000,10000,20,100); print('wedge bounds', w.bounds)
w2=GeoRing(C(10,60),1000,10000,0,100); print('wedge from 0: centroid', w2.centroid, w2.circumscribing_circle().radius)
print('ring circumscribing contains', all(w.circumscribing_circle().contains_coordinate(x) for x in w.bounding_coords()))
poly=GeoPolygon([C(0,60),C(3,60),C(3,62),C(1,63),C(0,60)])
import random as R
res=set()
for s in range(30):
    R.seed(s); c=poly.circumscribing_circle(); res.add((c.center.to_float(), round(c.radius,3))); ok=all(haversine_distance_meters(x,c.center)<=c.radius*(1+1e-6) for x in poly.outline)
    if not ok: print('seed',s,'not enclosing')
print(len(res), list(res)[:3])
ls=GeoLineString([C(0,60),C(4,60),C(4,61)]); cl=ls.circumscribing_circle(); print('ls circ', [cl.contains_coordinate(v) for v in ls.vertices])
print('--- C10')
pts=[C(0,0),C(1,0),C(2,0),C(2,2),C(0,2),C(1,1),C(1,2),C(0,0)]
print(convex_hull(pts))
print(convex_hull([C(0,0),C(1,1),C(2,2)]), convex_hull([C(0,0),C(1,1)]), convex_hull([C(0,0),C(0,0)]), convex_hull([]))
print(tr(lambda: MultiGeoPoint([GeoPoint(C(0,0)),GeoPoint(C(1,1)),GeoPoint(C(2,2))]).convex_hull().outline))
print(tr(lambda: MultiGeoPoint([GeoPoint(C(0,0))]).convex_hull().outline))
print('with z', convex_hull([C(0,0,z=1.0),C(0,0,z=2.0),C(1,0),C(0,1)]))
