import sys
if len(sys.argv)>1: sys.path.insert(0,'/root/scratch/repo_try')
import warnings; warnings.filterwarnings('ignore')
import logging; logging.disable(logging.CRITICAL)
import itertools
from geostructures import *
import geostructures; print(geostructures.__file__)
from geostructures.geohash import *
from geostructures.geohash import _coord_to_niemeyer, _decode_niemeyer
C=Coordinate
def tr(f):
    try: return f()
    except Exception as e: return f'EXC {type(e).__name__}'
def sq(x,y,w=1,h=1): return GeoPolygon([C(x,y),C(x+w,y),C(x+w,y+h),C(x,y+h),C(x,y)])
A=sq(0,0)
asym=[]
for dx,dy in itertools.product([-1,-0.5,0,0.5,1],[-1,-0.5,0,0.5,1]):
    B=sq(dx,dy)
    r1=tr(lambda: A.intersects_shape(B)); r2=tr(lambda: B.intersects_shape(A))
    if r1!=r2: asym.append((dx,dy,r1,r2))
print('asym squares', asym)
tri=lambda x,y: GeoPolygon([C(x,y),C(x+1,y),C(x+0.5,y+1),C(x,y)])
T=tri(0,0); asym=[]
for dx,dy in itertools.product([-1,-0.5,0,0.5,1],[-1,-0.5,0,0.5,1]):
    B=tri(dx,dy)
    r1=tr(lambda: T.intersects_shape(B)); r2=tr(lambda: B.intersects_shape(T))
    if r1!=r2: asym.append((dx,dy,r1,r2))
print('asym tris', asym)
# diamond corner touching
dm=lambda x,y: GeoPolygon([C(x,y+1),C(x+1,y),C(x,y-1),C(x-1,y),C(x,y+1)])
D=dm(0,0)
for (x,y) in [(2,0),(0,2),(-2,0),(0,-2),(1,1)]:
    B=dm(x,y); print('diamond', (x,y), tr(lambda: D.intersects_shape(B)), tr(lambda: B.intersects_shape(D)))
# line touching
L1=GeoLineString([C(0,0),C(1,1)]); L2=GeoLineString([C(1,1),C(2,0)]); L3=GeoLineString([C(0.5,0.5),C(1,0)])
print('lines', L1.intersects_shape(L2), L2.intersects_shape(L1), L1.intersects_shape(L3), L3.intersects_shape(L1))
# C12 grid aligned
h=NiemeyerHasher(4,32)
lon,lat,le,la=_decode_niemeyer('s000',32)
gsq=GeoPolygon([C(lon-le,lat-la),C(lon+7*le,lat-la),C(lon+7*le,lat+7*la),C(lon-le,lat+7*la),C(lon-le,lat-la)])
cells=h.hash_shape(gsq); sp=gsq.to_shapely(); exp=set()
for i in range(-3,12):
    for j in range(-3,12):
        gh=_coord_to_niemeyer(C(lon+i*2*le,lat+j*2*la),4,32); bx=niemeyer_to_geobox(gh,32)
        if bx.to_shapely().intersects(sp): exp.add((i,j))
got=set()
for i in range(-3,12):
    for j in range(-3,12):
        gh=_coord_to_niemeyer(C(lon+i*2*le,lat+j*2*la),4,32)
        if gh in cells: got.add((i,j))
print('missing', sorted(exp-got), 'extra', sorted(got-exp))
# big polygon w/ interior cells, not aligned
big=GeoPolygon([C(0.05,0.03),C(3.3,0.2),C(2.9,2.4),C(0.3,2.0),C(0.05,0.03)])
cells=h.hash_shape(big); sp=big.to_shapely(); exp=set(); got=set()
for i in range(-3,14):
    for j in range(-3,20):
        gh=_coord_to_niemeyer(C(lon+i*2*le,lat+j*2*la),4,32); bx=niemeyer_to_geobox(gh,32)
        if bx.to_shapely().intersects(sp): exp.add(gh)
print('big', len(cells), len(exp), len(exp-cells), len(cells-exp))
