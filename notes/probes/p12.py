import sys
sys.path.insert(0,'/root/scratch/repo_try')
import warnings; warnings.filterwarnings('ignore')
import logging; logging.disable(logging.CRITICAL)
import random, math, json, copy, pickle
from datetime import datetime, timedelta, timezone
from geostructures import *
from geostructures.parsers import *
from geostructures.time import TimeInterval
import shapely
C=Coordinate
random.seed(7)
t0=datetime(2020,1,1,tzinfo=timezone.utc)
def rc(z=False):
    lon=random.choice([random.uniform(-179,179), round(random.uniform(-179,179),3), float(random.randint(-179,179)), random.uniform(-1e-4,1e-4), random.uniform(-1e-9,1e-9)])
    lat=random.choice([random.uniform(-89,89), round(random.uniform(-89,89),2), float(random.randint(-89,89)), random.uniform(-1e-5,1e-5)])
    return C(lon,lat,z=(random.choice([0.0,1.5,-3.0,100.0]) if z else None))
def star(cx,cy,r,n,z=False):
    pts=[]
    for i in range(n):
        a=2*math.pi*i/n; rr=r*random.uniform(0.5,1.0)
        pts.append(C(cx+rr*math.cos(a), cy+rr*math.sin(a), z=(1.0 if z else None)))
    if random.random()<0.5: pts.reverse()
    k=random.randrange(n); pts=pts[k:]+pts[:k]
    return pts+[pts[0]]
def rpoly(z=False, holes=None):
    cx,cy=random.uniform(-150,150),random.uniform(-60,60); r=random.uniform(0.01,10)
    hs=[]
    nh=random.randint(0,2) if holes is None else holes
    for i in range(nh):
        hs.append(GeoPolygon(star(cx+(i-0.5)*r*0.4, cy, r*0.1, random.randint(3,6), z)))
    return GeoPolygon(star(cx,cy,r,random.randint(3,9),z), holes=hs or None)
def rdt():
    return random.choice([None, t0+timedelta(seconds=random.randint(0,10**6)), TimeInterval(t0, t0+timedelta(hours=random.randint(1,100))), datetime(2021,5,5,12,0,1,123456)])
def rprops():
    return random.choice([{}, {'a':1,'b':'x'}, {'f':1.5,'n':None,'l':[1,2,{'k':'v'}]}, {'datetime_start':'zzz'} if False else {'name':'q'}])
def rshape():
    kind=random.randrange(11); z=random.random()<0.2
    dt=rdt(); pr=copy.deepcopy(rprops())
    if kind==0: return GeoPoint(rc(z),dt=dt,properties=pr)
    if kind==1: return GeoLineString([rc(z) for _ in range(random.randint(2,6))],dt=dt,properties=pr)
    if kind==2:
        p=rpoly(z); return GeoPolygon(p.outline,holes=p.holes,dt=dt,properties=pr)
    if kind==3: return MultiGeoPoint([GeoPoint(rc(z)) for _ in range(random.randint(1,4))],dt=dt,properties=pr)
    if kind==4: return MultiGeoLineString([GeoLineString([rc(z) for _ in range(random.randint(2,5))]) for _ in range(random.randint(1,4))],dt=dt,properties=pr)
    if kind==5: return MultiGeoPolygon([rpoly(z) for _ in range(random.randint(1,4))],dt=dt,properties=pr)
    c=C(random.uniform(-170,170),random.uniform(-70,70))
    if kind==6: return GeoBox(C(c.longitude,c.latitude+1),C(c.longitude+2,c.latitude),dt=dt,properties=pr)
    if kind==7: return GeoCircle(c,random.uniform(100,50000),dt=dt,properties=pr, holes=[GeoCircle(c,50)] if random.random()<0.3 else None)
    if kind==8: return GeoEllipse(c,5000,2000,random.uniform(0,360),dt=dt,properties=pr)
    if kind==9: return GeoRing(c,1000,5000,dt=dt,properties=pr)
    return GeoRing(c,1000,5000,random.uniform(1,100),random.uniform(120,350),dt=dt,properties=pr)
from collections import Counter
fails=Counter(); ex={}
def note(k,s,info=''):
    fails[k]+=1
    if k not in ex: ex[k]=(type(s).__name__, info)
def polyform(s):
    return s if hasattr(s,'from_wkt') else s.to_polygon()
N=1500
for i in range(N):
    s=rshape(); kn=type(s).__name__
    ref=polyform(s)
    # WKT
    try:
        w=s.to_wkt()
        b=parse_wkt(w)
        r2=ref.copy(); r2.strip_dt(); 
        if not (b==r2): note('wkt-roundtrip-neq:'+kn,s,w[:80])
        g=shapely.from_wkt(w); 
        if not g.equals(s.to_shapely()) and not g.equals_exact(s.to_shapely(),1e-12): note('wkt-shapely-diff:'+kn,s,w[:80])
    except Exception as e: note('wkt-exc:%s:%s'%(kn,type(e).__name__),s,str(e)[:80])
    # GeoJSON
    try:
        doc=s.to_geojson(); txt=json.dumps(doc); snap=copy.deepcopy(doc)
        b=parse_geojson(doc); 
        if doc!=snap: note('gj-import-mutates-doc:'+kn,s)
        b2=parse_geojson(doc); b3=parse_geojson(txt)
        if not (b==b2==b3): note('gj-repeat-neq:'+kn,s)
        if not (b==ref and b.dt==s.dt): note('gj-roundtrip-neq:'+kn,s, txt[:100])
        if b._properties!=s._properties: note('gj-props-neq:'+kn,s,(b._properties,s._properties))
    except Exception as e: note('gj-exc:%s:%s'%(kn,type(e).__name__),s,str(e)[:80])
    # value semantics
    try:
        c=s.copy(); p=pickle.loads(pickle.dumps(s))
        if not (c==s and p==s and hash(c)==hash(s)==hash(p)): note('copy/pickle-neq:'+kn,s)
        if not (s==s): note('not-reflexive:'+kn,s)
        c.set_property('zz',1); 
        if 'zz' in s._properties: note('copy-shares-props:'+kn,s)
    except Exception as e: note('vs-exc:%s:%s'%(kn,type(e).__name__),s,str(e)[:80])
for k,v in sorted(fails.items()): print(v,k,ex[k])
print('done',N)
