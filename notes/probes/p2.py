import warnings; warnings.filterwarnings('ignore')
import logging; logging.disable(logging.CRITICAL)
from geostructures import *
from geostructures._geometry import find_line_intersection
C=Coordinate
cc=GeoPolygon([C(0,0),C(4,0),C(4,4),C(2,2),C(0,4),C(0,0)])
print(cc.outline)
for q in [C(1,2),C(3,2),C(1,1),C(3,1), C(1,3), C(3,3), C(2,3), C(2,1)]:
    tl=(q, C(180, q.latitude))
    print(q, cc.contains_coordinate(q))
    for e in zip(cc.outline, [*cc.outline[1:], cc.outline[0]]):
        print('   ', e, find_line_intersection(tl, e))
