import sys
sys.path.insert(0,'/root/scratch/repo_try')
import warnings; warnings.filterwarnings('ignore')
import logging; logging.disable(logging.CRITICAL)
import random, math, json, copy, pickle
from datetime import datetime, timedelta, timezone
from geostructures import *
from geostructures.parsers import *
from geostructures.time import TimeInterval
from collections import Counter
C=Coordinate
random.seed(9)
t0=datetime(2020,1,1,tzinfo=timezone.utc)
def mk(kind, dt, props):
    c=C(10,40)
    hole=lambda: [GeoCircle(C(10.01,40.0),100)] if kind%2 else None
    props=copy.deepcopy(props)
    k=kind//2
    if k==0: return GeoPolygon([C(9,39),C(11,39),C(11,41),C(9,41),C(9,39)],holes=[GeoPolygon([C(9.5,39.5),C(10.5,39.5),C(10,40.5),C(9.5,39.5)])] if kind%2 else None,dt=dt,properties=props)
    if k==1: return GeoBox(C(9,41),C(11,39),holes=hole(),dt=dt,properties=props)
    if k==2: return GeoCircle(c,5000,holes=hole(),dt=dt,properties=props)
    if k==3: return GeoEllipse(c,5000,2000,33,holes=hole(),dt=dt,properties=props)
    if k==4: return GeoRing(c,1000,5000,holes=[GeoCircle(C(10.03,40.0),100)] if kind%2 else None,dt=dt,properties=props)
    if k==5: return GeoRing(c,1000,5000,20,200,holes=[GeoCircle(C(10.02,39.99),100)] if kind%2 else None,dt=dt,properties=props)
    if k==6: return GeoLineString([C(9,39),C(10,40),C(11,39)],dt=dt,properties=props)
    if k==7: return GeoPoint(C(10,40),dt=dt,properties=props)
    if k==8: return MultiGeoPolygon([GeoBox(C(9,41),C(11,39)),GeoCircle(c,500)],dt=dt,properties=props)
    if k==9: return MultiGeoLineString([GeoLineString([C(9,39),C(10,40)]),GeoLineString([C(1,1),C(2,2)])],dt=dt,properties=props)
    return MultiGeoPoint([GeoPoint(C(1,1)),GeoPoint(C(2,2))],dt=dt,properties=props)
def obs(s):
    o={}
    def tr(name,f):
        try: v=f()
        except Exception as e: v='EXC:'+type(e).__name__
        o[name]=v
    tr('dt',lambda: (s.dt.start,s.dt.end) if s.dt else None)
    tr('props',lambda: json.dumps(s.properties,default=str,sort_keys=True))
    tr('bounds',lambda: s.bounds)
    tr('centroid',lambda: s.centroid.to_float())
    if hasattr(s,'holes'): tr('nholes',lambda: len(s.holes))
    if hasattr(s,'volume'): tr('volume',lambda: s.volume); tr('area',lambda: s.area)
    tr('gj',lambda: json.dumps(s.to_geojson(),sort_keys=True))
    tr('wkt',lambda: s.to_wkt())
    if hasattr(s,'to_polygon'): tr('poly',lambda: s.to_polygon().to_wkt())
    tr('rect',lambda: s.circumscribing_rectangle().bounds if hasattr(s,'circumscribing_rectangle') else None)
    tr('contains',lambda: s.contains(GeoPoint(C(10,40.02))))
    tr('hash',lambda: hash(s)==hash(s.copy()))
    return o
fails=Counter(); ex={}
for it in range(400):
    kind=random.randrange(22)
    dt=random.choice([None,t0,TimeInterval(t0,t0+timedelta(hours=2))]); props=random.choice([{},{'a':1}])
    s=mk(kind,dt,props); cur_dt=s.dt; cur_props=copy.deepcopy(s._properties)
    hist=[]
    for step in range(8):
        op=random.choice(['read','read','set_dt','buffer','strip','setprop','noninplace'])
        hist.append(op)
        try:
            if op=='read':
                o1=obs(s); o2=obs(s)
                if o1!=o2: fails['repeat-read-differs:'+type(s).__name__]+=1; ex.setdefault('repeat-read-differs:'+type(s).__name__,(hist[:],[k for k in o1 if o1[k]!=o2[k]]))
            elif op=='set_dt':
                nd=random.choice([None,t0+timedelta(days=1),TimeInterval(t0,t0+timedelta(hours=5))]); s.set_dt(nd); 
                cur_dt=TimeInterval(nd,nd) if isinstance(nd,datetime) else nd
            elif op=='buffer':
                if s.dt: s.buffer_dt(timedelta(hours=1)); cur_dt=TimeInterval(cur_dt.start-timedelta(hours=1),cur_dt.end+timedelta(hours=1))
            elif op=='strip': s.strip_dt(); cur_dt=None
            elif op=='setprop': s.set_property('p%d'%step,step); cur_props['p%d'%step]=step
            else:
                before=obs(s); n=random.choice([lambda: s.set_dt(t0+timedelta(days=3),inplace=False), lambda: s.set_property('q',1,inplace=False), lambda: s.strip_dt(inplace=False), lambda: (s.buffer_dt(timedelta(hours=3),inplace=False) if s.dt else None)])()
                after=obs(s)
                if before!=after: fails['noninplace-mutates:'+type(s).__name__]+=1; ex.setdefault('noninplace-mutates:'+type(s).__name__,(hist[:],[k for k in before if before[k]!=after[k]]))
        except Exception as e:
            fails['exc:%s:%s:%s'%(type(s).__name__,op,type(e).__name__)]+=1; ex.setdefault('exc:%s:%s:%s'%(type(s).__name__,op,type(e).__name__),(hist[:],str(e)[:60]))
        fresh=mk(kind,cur_dt,cur_props)
        o=obs(s); f=obs(fresh)
        bad=[k for k in o if o[k]!=f.get(k)]
        if bad:
            key='incoherent:%s:%s'%(type(s).__name__,','.join(bad)); fails[key]+=1; ex.setdefault(key,(kind,hist[:]))
for k,v in sorted(fails.items()): print(v,k,ex[k])
print('done')
