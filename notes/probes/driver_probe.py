import sys, subprocess, random, time
sys.path.insert(0,'/root/scratch/repo_try')
import logging; logging.disable(logging.CRITICAL)
from fractions import Fraction as F
from geostructures import *
from geostructures._geometry import convex_hull
C=Coordinate
random.seed(1)
def rat(x):
    n,d=float(x).as_integer_ratio(); return f'{n}/{d}' if d!=1 else str(n)
BASES=[[(0,0),(4,0),(4,4),(0,4)], [(0,0),(4,0),(2,3)], [(2,0),(4,2),(2,4),(0,2)], [(0,0),(4,0),(4,4),(2,2),(0,4)], [(0,0),(3,0),(3,1),(1,1),(1,3),(0,3)]]
lines=[]; impl=[]
t=time.time()
for i in range(20000):
    if i%2==0:
        b=random.choice(BASES); sc=random.choice([0.25,0.5,1]); dx=random.randint(-8,8)/4; dy=random.randint(-8,8)/4
        ring=[(x*sc+dx,y*sc+dy) for x,y in b]
        if random.random()<0.5: ring.reverse()
        k=random.randrange(len(ring)); ring=ring[k:]+ring[:k]; ring.append(ring[0])
        q=(random.randint(-12,24)/8, random.randint(-12,24)/8)
        poly=GeoPolygon([C(x,y) for x,y in ring])
        r=GeoPolygon._point_in_polygon(C(*q), poly.outline)
        lines.append('pip %s %s %s'%(rat(q[0]),rat(q[1]),' '.join(rat(v) for c in poly.outline for v in (c.longitude,c.latitude))))
        impl.append('T' if r else 'F')
    else:
        n=random.randint(1,30); pts=[(random.randint(0,16)/4, random.randint(0,16)/4) for _ in range(n)]
        h=convex_hull([C(x,y) for x,y in pts])
        lines.append('hull '+' '.join(rat(v) for p in pts for v in p))
        impl.append(' '.join('%s,%s'%(rat(c.longitude),rat(c.latitude)) for c in h))
t_impl=time.time()-t
t=time.time()
p=subprocess.run(['lake','env','lean','--run','DriverProbe.lean'],input='\n'.join(lines)+'\n',capture_output=True,text=True,cwd='/root/scratch/lt')
t_model=time.time()-t
out=p.stdout.strip('\n').split('\n')
print('impl s',round(t_impl,2),'model s',round(t_model,2),'lines',len(lines),'got',len(out),'stderr',p.stderr[:200])
diff=[(l,a,b) for l,a,b in zip(lines,impl,out) if a!=b]
print('disagreements',len(diff)); 
for d in diff[:3]: print(d)
print('pip T share', sum(1 for a in impl[::2] if a=='T')/len(impl[::2]))
