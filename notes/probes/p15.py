import sys
sys.path.insert(0,'/root/scratch/repo_try')
import warnings; warnings.filterwarnings('ignore')
import logging; logging.disable(logging.CRITICAL)
import random, itertools, math
from fractions import Fraction as F
from collections import Counter
from geostructures import *
from geostructures._geometry import convex_hull
from geostructures.geohash import *
from geostructures.geohash import _coord_to_niemeyer, _decode_niemeyer, _get_niemeyer_subhashes, _NIEMEYER_CONFIG
C=Coordinate
random.seed(31)
fails=Counter(); ex={}
def note(k,info): 
    fails[k]+=1; ex.setdefault(k,info)
# ---------------- C10
def cross(o,a,b): return (a[0]-o[0])*(b[1]-o[1])-(a[1]-o[1])*(b[0]-o[0])
def ref_hull(pts):
    pts=sorted(set(pts))
    if len(pts)<=1: return pts
    def half(ps):
        h=[]
        for p in ps:
            while len(h)>=2 and cross(h[-2],h[-1],p)<=0: h.pop()
            h.append(p)
        return h
    lo=half(pts); up=half(pts[::-1]); return lo[:-1]+up
def brute_check(h,pts):
    # closed, ccw strictly convex, contains all
    if len(set(pts))==1: return h==[pts[0]] 
    if h[0]!=h[-1]: return False
    ring=h[:-1]; n=len(ring)
    if len(set(ring))!=n or not set(ring)<=set(pts): return False
    if n>=3:
        for i in range(n):
            if cross(ring[i],ring[(i+1)%n],ring[(i+2)%n])<=0: return False
    for i in range(n):
        a,b=ring[i],ring[(i+1)%n]
        for p in pts:
            if n>=3 and cross(a,b,p)<0: return False
            if n==2 and (cross(a,b,p)!=0 or not(min(a,b)<=p<=max(a,b))): return False
    return True
for t in range(3000):
    n=random.randint(1,40) if t%3 else random.randint(1,6)
    g=random.choice([4,8,16])
    mode=random.randrange(4)
    if mode==0: pts=[(F(random.randint(0,g),g//2 or 1),F(random.randint(0,g),g//2 or 1)) for _ in range(n)]
    elif mode==1: 
        a=random.randint(-3,3); b=random.randint(-3,3); pts=[(F(k),F(a*k+b)) for k in random.choices(range(-5,6),k=n)]  # collinear
    elif mode==2: pts=[(F(random.randint(0,3)),F(random.randint(0,3))) for _ in range(n)]
    else: pts=[(F(2),F(random.randint(-4,4))) for _ in range(n)]  # vertical
    coords=[C(float(x),float(y)) for x,y in pts]
    random.shuffle(coords)
    h=[(F(c.longitude),F(c.latitude)) for c in convex_hull(coords)]
    if not brute_check(h,pts): note('hull-invalid',(pts,h))
    if h!=ref_hull(pts): note('hull-neq-ref',(pts,h,ref_hull(pts)))
    coords2=coords[:]; random.shuffle(coords2); coords2+=coords2[:3]
    h2=[(F(c.longitude),F(c.latitude)) for c in convex_hull(coords2)]
    if h2!=h: note('hull-perm-dependent',(pts,))
print('C10 done')
# ---------------- C11 exhaustive
for base,depth in ((16,3),(32,2),(64,2)):
    cfg=_NIEMEYER_CONFIG[base]; cs=cfg['charset']
    for L in range(1,depth+1):
        for gh in map(''.join, itertools.product(cs, repeat=L)):
            lon,lat,le,la=_decode_niemeyer(gh,base)
            if abs(lat)+la>90 or abs(lon)+le>180: continue   # inside the coordinate range
            if _coord_to_niemeyer(C(lon,lat),L,base)!=gh: note('centre-reencode:%d'%base,gh)
            # corners/edges: encode must give a cell whose closed box contains the point
            for px,py in ((lon-le,lat-la),(lon+le,lat+la),(lon,lat+la),(lon-le,lat)):
                if px>=180 or abs(py)>90: continue
                e=_coord_to_niemeyer(C(px,py),L,base); lo2,la2,le2,lae2=_decode_niemeyer(e,base)
                if not (lo2-le2<=px<=lo2+le2 and la2-lae2<=py<=la2+lae2): note('edge-not-in-cell:%d'%base,(gh,px,py,e))
                if L>1 and _coord_to_niemeyer(C(px,py),L-1,base)!=e[:-1]: note('prefix:%d'%base,(gh,px,py))
            bx=niemeyer_to_geobox(gh,base)
            if not bx.contains_coordinate(C(lon,lat)): note('box-misses-centre:%d'%base,(gh,bx.bounds))
            if L<depth:
                kids=_get_niemeyer_subhashes(gh,base)
                if len(kids)!=base: note('kids-count',gh)
                area=0
                for k in kids:
                    l2,a2,e2,ae2=_decode_niemeyer(k,base)
                    if not (lon-le<=l2-e2 and l2+e2<=lon+le and lat-la<=a2-ae2 and a2+ae2<=lat+la): note('kid-outside',(gh,k))
                    area+=4*e2*ae2
                if abs(area-4*le*la)>1e-9: note('kids-area',(gh,area,4*le*la))
print('C11 done')
# ---------------- C12 exact cover on dyadic shapes
def fx(v): return F(v)
def seg_touch(a,b,c,d):
    d1=cross(c,d,a); d2=cross(c,d,b); d3=cross(a,b,c); d4=cross(a,b,d)
    if ((d1>0)!=(d2>0) and d1!=0 and d2!=0) and ((d3>0)!=(d4>0) and d3!=0 and d4!=0): return True
    def on(p,a,b): return cross(a,b,p)==0 and min(a[0],b[0])<=p[0]<=max(a[0],b[0]) and min(a[1],b[1])<=p[1]<=max(a[1],b[1])
    return on(a,c,d) or on(b,c,d) or on(c,a,b) or on(d,a,b)
def in_ring(p,r):
    for a,b in zip(r,r[1:]):
        if cross(a,b,p)==0 and min(a[0],b[0])<=p[0]<=max(a[0],b[0]) and min(a[1],b[1])<=p[1]<=max(a[1],b[1]): return 0
    ins=False
    for a,b in zip(r,r[1:]):
        if (a[1]>p[1])!=(b[1]>p[1]) and ((cross(a,b,p)>0)==(b[1]>a[1])): ins=not ins
    return 1 if ins else -1
def region(p,shell,holes):
    v=in_ring(p,shell)
    if v<=0: return v
    for h in holes:
        w=in_ring(p,h)
        if w==1: return -1
        if w==0: return 0
    return 1
def box_touches(bx,shell,holes,line):
    x0,y0,x1,y1=bx; br=[(x0,y0),(x1,y0),(x1,y1),(x0,y1),(x0,y0)]
    edges=list(zip(line,line[1:])) if line else [e for r in [shell]+holes for e in zip(r,r[1:])]
    for a,b in edges:
        for c,d in zip(br,br[1:]):
            if seg_touch(a,b,c,d): return True
    if line:
        p=line[0]; return x0<=p[0]<=x1 and y0<=p[1]<=y1
    if any(region(c,shell,holes)>=0 for c in br[:-1]): return True
    p=shell[0]; return x0<=p[0]<=x1 and y0<=p[1]<=y1
for t in range(40):
    base=random.choice([16,32,64]); L={16:random.choice([3,4]),32:random.choice([2,3]),64:random.choice([2,3])}[base]
    _,_,le,la=_decode_niemeyer(_NIEMEYER_CONFIG[base]['charset'][0]*L,base)
    ox=random.randint(-20,20)*2*le; oy=random.randint(-4,4)*2*la
    u=le/2; v=la/2   # half-cell quarter steps: dyadic, exact
    def P(i,j): return (F(ox)+F(i)*F(u), F(oy)+F(j)*F(v))
    kind=random.randrange(3)
    W=random.randint(6,40); H=random.randint(6,40)
    if kind==0:
        shell=[P(0,0),P(W,0),P(W,H),P(0,H),P(0,0)]; holes=[]
        if W>=16 and H>=16 and random.random()<0.7: holes=[[P(W//4,H//4),P(3*W//4,H//4),P(3*W//4,3*H//4),P(W//4,3*H//4),P(W//4,H//4)]]
        line=None
    elif kind==1:
        shell=[P(0,0),P(W,0),P(W//2,H),P(0,0)]; holes=[]; line=None
    else:
        shell=None; holes=[]; line=[P(0,0),P(W,H//2),P(W//3,H),P(W,H)]
    if max(abs(float(p[1])) for p in (line or shell))>=88: continue
    tc=lambda p: C(float(p[0]),float(p[1]))
    shp=GeoLineString([tc(p) for p in line]) if line else GeoPolygon([tc(p) for p in shell],holes=[GeoPolygon([tc(p) for p in h]) for h in holes] or None)
    got=NiemeyerHasher(L,base).hash_shape(shp)
    # expected: all cells in window touching
    exp=set()
    nx=int(W*u/(2*le))+3; ny=int(H*v/(2*la))+3
    for i in range(-2,nx+1):
        for j in range(-2,ny+1):
            cx=ox+le+i*2*le; cy=oy+la+j*2*la
            if abs(cy)>90: continue
            gh=_coord_to_niemeyer(C(cx,cy),L,base)
            bx=(F(cx-le),F(cy-la),F(cx+le),F(cy+la))
            if box_touches(bx,shell,holes,line): exp.add(gh)
    if got!=exp: note('cover-mismatch:%s:base%d'%(['box','tri','line'][kind],base),(L,len(got),len(exp),sorted(exp-got)[:4],sorted(got-exp)[:4], [tuple(map(float,p)) for p in (line or shell)][:5]))
print('C12 done')
for k,v in sorted(fails.items()): print(v,k,str(ex[k])[:300])
