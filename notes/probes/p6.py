import warnings; warnings.filterwarnings('ignore')
import logging; logging.disable(logging.CRITICAL)
import math, random, itertools, json, tempfile, os
from zipfile import ZipFile
from datetime import datetime, timedelta, timezone
from geostructures import *
from geostructures.parsers import *
from geostructures.time import TimeInterval
from geostructures._geometry import is_counter_clockwise
C=Coordinate
def tr(f):
    try: return f()
    except Exception as e: return f'EXC {type(e).__name__}: {e}'
t0=datetime(2020,1,1,tzinfo=timezone.utc)
hole=GeoPolygon([C(0.2,0.2),C(0.8,0.2),C(0.8,0.8),C(0.2,0.8),C(0.2,0.2)])
hole2=GeoCircle(C(0.5,0.5),1000)
a=GeoPolygon([C(0,0),C(1,0),C(1,1),C(0,1),C(0,0)], holes=[hole], dt=TimeInterval(t0,t0+timedelta(hours=1)), properties={'n':'x','v':1.5})
shapes=[a, GeoBox(C(0,1),C(1,0),holes=[hole2]), GeoCircle(C(5,5),1000,dt=t0), GeoEllipse(C(5,5),2000,1000,30), GeoRing(C(5,5),500,1000), GeoRing(C(5,5),500,1000,10,80,holes=[GeoCircle(C(5.004,5.004),100)]),
 GeoLineString([C(0,0),C(1,1),C(2,0)],dt=t0), GeoPoint(C(1,2,z=3.0),dt=t0),
 MultiGeoPolygon([a, GeoBox(C(3,4),C(4,3))], dt=t0), MultiGeoLineString([GeoLineString([C(0,0),C(1,1)]),GeoLineString([C(2,2),C(3,3)])]), MultiGeoPoint([GeoPoint(C(0,0)),GeoPoint(C(1,1))],properties={'k':1})]
def ccw(r):
    s=sum((x2-x1)*(y2+y1) for (x1,y1,*_),(x2,y2,*_) in zip(r,r[1:])); return s<0
for s in shapes:
    g=s.to_geojson()
    js=json.dumps(g)
    geom=g['geometry']
    rings=[]
    if geom['type']=='Polygon': rings=[geom['coordinates']]
    if geom['type']=='MultiPolygon': rings=geom['coordinates']
    orient=[[ccw(r) for r in poly] for poly in rings]
    closed=[[r[0]==r[-1] for r in poly] for poly in rings]
    back=tr(lambda: parse_geojson(json.loads(js)))
    eq=None
    if not isinstance(back,str):
        ref=s if hasattr(s,'from_geojson') else s.to_polygon()
        eq=(back==ref, back.dt==s.dt, back._properties==s._properties)
    print(type(s).__name__, geom['type'], 'orient',orient,'closed',closed, 'back', back if isinstance(back,str) else type(back).__name__, eq)
# shared properties aliasing in from_geojson
doc=a.to_geojson(); sh=GeoPolygon.from_geojson(doc); sh.set_property('zzz',1); print('aliasing of caller doc props', doc['properties'])
# to_geojson override
print(a.to_geojson(properties={'n':'override'})['properties'])
# collection
fc=FeatureCollection(shapes); g=fc.to_geojson(); back=tr(lambda: FeatureCollection.from_geojson(json.loads(json.dumps(g)))); print('fc back', back if isinstance(back,str) else [type(x).__name__ for x in back])
# k
print(len(GeoCircle(C(5,5),1000).to_geojson(k=5)['geometry']['coordinates'][0]), tr(lambda: len(MultiGeoPolygon([GeoCircle(C(5,5),1000)]).to_geojson(k=5)['geometry']['coordinates'][0][0])))
print('ring w/ user hole linear_rings', len(GeoRing(C(5,5),500,1000,holes=[GeoCircle(C(5.007,5),50)]).linear_rings()), len(GeoRing(C(5,5),500,1000,holes=[GeoCircle(C(5.007,5),50)]).to_polygon().holes))
print('circle-with-hole rings orientation k', [ccw([c.to_float() for c in r]) for r in GeoCircle(C(5,5),1000,holes=[GeoCircle(C(5,5),100)]).linear_rings(k=8)])
