import sys
if len(sys.argv)>1: sys.path.insert(0,'/root/scratch/repo_try')
import warnings; warnings.filterwarnings('ignore')
import logging; logging.disable(logging.CRITICAL)
import random, math
from geostructures import *
from geostructures.calc import *
from geostructures.geohash import *
from geostructures.geohash import _coord_to_niemeyer, _decode_niemeyer
C=Coordinate
sq=GeoPolygon([C(0,0),C(2,0),C(2,2),C(0,2),C(0,0)])
bx=GeoBox(C(0,2),C(2,0))
ls=GeoLineString([C(0,0),C(2,2)])
for name,p in [('edge',C(1,0)),('vertex',C(2,2)),('inside',C(1,1))]:
    P=GeoPoint(p)
    print(name,'poly', sq.intersects_shape(P), P.intersects_shape(sq), 'box', bx.intersects_shape(P), P.intersects_shape(bx), 'line', ls.intersects_shape(P), P.intersects_shape(ls))
print('point mid-segment vs line', ls.intersects_shape(GeoPoint(C(1,1))), 'vertex', ls.intersects_shape(GeoPoint(C(2,2))))
# curved: circle own boundary vertices contained?
for r in (10,100,1000,10000,100000):
    c=GeoCircle(C(10,60),r); bc=c.bounding_coords()
    out=[haversine_distance_meters(x,c.center)-r for x in bc]
    print(r, 'max excess m', max(out), 'n outside', sum(1 for o in out if o>0), 'outside by >1e-6 r', sum(1 for o in out if o>1e-6*r))
# C12 circle sliver
h=NiemeyerHasher(6,32)
random.seed(5)
miss=0; tot=0
for t in range(30):
    c=GeoCircle(C(random.uniform(-1,1),random.uniform(-1,1)), random.uniform(2000,6000))
    cells=h.hash_shape(c)
    for i in range(400):
        b=random.uniform(0,360); d=c.radius*random.uniform(0.99,1.0)
        q=inverse_haversine_degrees(c.center,b,d)
        if c.contains_coordinate(q):
            tot+=1
            if _coord_to_niemeyer(q,6,32) not in cells: miss+=1
    if t==0: print('cells per circle', len(cells))
print('circle: contained coords whose cell is missing', miss, '/', tot)
