import warnings; warnings.filterwarnings('ignore')
import logging; logging.disable(logging.CRITICAL)
import math, random, itertools
from datetime import datetime, timedelta, timezone
from geostructures import *
from geostructures.geohash import *
from geostructures.geohash import _coord_to_niemeyer, _decode_niemeyer, _get_niemeyer_subhashes, _NIEMEYER_CONFIG
from geostructures.time import TimeInterval
C=Coordinate
def tr(f):
    try: return f()
    except Exception as e: return f'EXC {type(e).__name__}: {e}'
print('--- C11')
for base in (16,32,64):
    cfg=_NIEMEYER_CONFIG[base]
    bad=0; n=0
    for L in (1,2):
        for gh in map(''.join, itertools.product(cfg['charset'], repeat=L)):
            lon,lat,le,la=_decode_niemeyer(gh,base)
            if abs(lat)>90: continue
            n+=1
            if _coord_to_niemeyer(C(lon,lat),L,base)!=gh: bad+=1
    print(base,'cells',n,'centre re-encode failures',bad)
print(_coord_to_niemeyer(C(0,0),3,32), _coord_to_niemeyer(C(-180,-90),3,32), _coord_to_niemeyer(C(179.999999,90),3,32), _coord_to_niemeyer(C(0,90),3,16), _coord_to_niemeyer(C(0,-90),3,16))
print(tr(lambda: _decode_niemeyer('a!',32)), tr(lambda: _decode_niemeyer('a',32)), tr(lambda: _decode_niemeyer('A',32)), tr(lambda: _decode_niemeyer('',32)))
print(tr(lambda: NiemeyerHasher(3,32).hash_coordinates([C(0,0),C(0.0001,0.0001),C(50,50)])))
print(tr(lambda: niemeyer_to_geobox('s0',32).bounds), tr(lambda: niemeyer_to_geobox('zz',32).bounds), tr(lambda: niemeyer_to_geobox('z',32).bounds))
print(tr(lambda: niemeyer_to_geobox('f',16).bounds), tr(lambda: niemeyer_to_geobox('c',16).bounds))
print('--- C12')
h=NiemeyerHasher(4,32)
sq=GeoPolygon([C(0.1,0.1),C(2.3,0.1),C(2.3,1.7),C(0.1,1.7),C(0.1,0.1)])
cells=h.hash_shape(sq)
# brute force expected: all cells whose box touches the polygon (via shapely)
import shapely
sp=sq.to_shapely()
exp=set()
lon,lat,le,la=_decode_niemeyer(_coord_to_niemeyer(C(0.1,0.1),4,32),32)
x=-1.0
while x<3.5:
    y=-1.0
    while y<3.0:
        gh=_coord_to_niemeyer(C(x,y),4,32)
        bx=niemeyer_to_geobox(gh,32)
        if bx.to_shapely().intersects(sp): exp.add(gh)
        y+=la
    x+=le
print(len(cells), len(exp), 'missing', len(exp-cells), 'extra', len(cells-exp))
# grid aligned polygon
lon,lat,le,la=_decode_niemeyer('s000',32)
gsq=GeoPolygon([C(lon-le,lat-la),C(lon+7*le,lat-la),C(lon+7*le,lat+7*la),C(lon-le,lat+7*la),C(lon-le,lat-la)])
cells=h.hash_shape(gsq); sp=gsq.to_shapely(); exp=set()
for i in range(-3,12):
    for j in range(-3,12):
        gh=_coord_to_niemeyer(C(lon+i*2*le,lat+j*2*la),4,32); bx=niemeyer_to_geobox(gh,32)
        if bx.to_shapely().intersects(sp): exp.add(gh)
print('grid aligned', len(cells), len(exp), 'missing', len(exp-cells), 'extra', len(cells-exp))
ls=GeoLineString([C(0.1,0.1),C(2.3,1.7)]); print(len(h.hash_shape(ls)))
print('--- C17')
t0=datetime(2020,1,1,tzinfo=timezone.utc)
P=lambda h1,h2,x=0,**k: GeoPoint(C(x,0), dt=TimeInterval(t0+timedelta(hours=h1),t0+timedelta(hours=h2)), properties=k)
tk=Track([P(3,4),P(0,10),P(1,2),P(1,1)])
print([(s.start.hour,s.end.hour) for s in tk])
print('slice [1h:3h]', [(s.start.hour,s.end.hour) for s in tk[t0+timedelta(hours=1):t0+timedelta(hours=3)]])
print('slice [:3h]', [(s.start.hour,s.end.hour) for s in tk[:t0+timedelta(hours=3)]])
print('slice naive', [(s.start.hour,s.end.hour) for s in tk[datetime(2020,1,1,1):]])
tk2=Track([P(0,0,0),P(1,1,1),P(2,2,50),P(3,3,2)])
print('impossible', [(s.start.hour, s.centroid.longitude) for s in tk2.filter_impossible_journeys(100)])
tk3=Track([P(0,0,0,a=1),P(0,0,2,b=2),P(1,1,5),P(0,1,7)])
cv=tk3.convolve_duplicate_timestamps(); print([(s.start.hour,s.end.hour,s.centroid.longitude,s._properties) for s in cv])
print(tr(lambda: tk3 + FeatureCollection([])))
print('filter_by_dt instant', [(s.start.hour,s.end.hour) for s in tk.filter_by_dt(t0+timedelta(hours=1))], 'interval', [(s.start.hour,s.end.hour) for s in tk.filter_by_dt(TimeInterval(t0+timedelta(hours=2),t0+timedelta(hours=3)))])
print('track of empty', tr(lambda: Track([])), tr(lambda: Track([]).convolve_duplicate_timestamps()), tr(lambda: Track([]).filter_impossible_journeys(1)))
print('--- C18')
fc=FeatureCollection([P(0,1,0.5), GeoPoint(C(5,5)), GeoBox(C(0,1),C(1,0))])
q=GeoBox(C(-1,2),C(2,-1), dt=TimeInterval(t0,t0+timedelta(hours=5)))
print(fc.filter_by_intersection(q).geoshapes, fc.filter_contained_by(q).geoshapes, fc.filter_contains(GeoPoint(C(0.5,0.5))).geoshapes)
print(tr(lambda: fc.filter_by_property('a', lambda x: True)))
print(fc.bounds, tr(lambda: FeatureCollection([]).bounds), fc.centroid)
