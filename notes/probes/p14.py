import sys
sys.path.insert(0,'/root/scratch/repo_try')
import warnings; warnings.filterwarnings('ignore')
import logging; logging.disable(logging.CRITICAL)
import random, itertools
from fractions import Fraction as F
from collections import Counter
from geostructures import *
C=Coordinate
# ---------- exact oracle on tuples of Fractions
def cross(o,a,b): return (a[0]-o[0])*(b[1]-o[1])-(a[1]-o[1])*(b[0]-o[0])
def on_seg(p,a,b): return cross(a,b,p)==0 and min(a[0],b[0])<=p[0]<=max(a[0],b[0]) and min(a[1],b[1])<=p[1]<=max(a[1],b[1])
def seg_touch(a,b,c,d):
    """closed segments share a point; returns (touch, proper) proper=non-parallel"""
    d1=cross(c,d,a); d2=cross(c,d,b); d3=cross(a,b,c); d4=cross(a,b,d)
    par=(b[0]-a[0])*(d[1]-c[1])-(b[1]-a[1])*(d[0]-c[0])==0
    if ((d1>0)!=(d2>0) and d1!=0 and d2!=0) and ((d3>0)!=(d4>0) and d3!=0 and d4!=0): return True, True
    t=on_seg(a,c,d) or on_seg(b,c,d) or on_seg(c,a,b) or on_seg(d,a,b)
    return t, (t and not par)
def ring_edges(r): return list(zip(r,r[1:]))
def in_ring(p,r):  # 1 inside, 0 boundary, -1 outside ; r closed
    for a,b in ring_edges(r):
        if on_seg(p,a,b): return 0
    ins=False
    for a,b in ring_edges(r):
        if (a[1]>p[1])!=(b[1]>p[1]):
            cr=cross(a,b,p)
            if (cr>0)==(b[1]>a[1]): ins=not ins
    return 1 if ins else -1
class Sh:
    def __init__(s,kind,shell=None,holes=(),pts=None): s.kind=kind; s.shell=shell; s.holes=list(holes); s.pts=pts
    def edges(s):
        if s.kind=='poly': return [e for r in [s.shell]+s.holes for e in ring_edges(r)]
        if s.kind=='line': return ring_edges(s.pts)
        return []
    def verts(s):
        if s.kind=='poly': return s.shell[:-1]
        return s.pts
    def region(s,p):  # 1 interior, 0 boundary, -1 outside  (poly only)
        v=in_ring(p,s.shell)
        if v<=0: return v
        for h in s.holes:
            w=in_ring(p,h)
            if w==1: return -1
            if w==0: return 0
        return 1
def closed_has(s,p):
    if s.kind=='poly': return s.region(p)>=0
    if s.kind=='line': return any(on_seg(p,a,b) for a,b in s.edges()) or (len(s.pts)==1 and s.pts[0]==p)
    return s.pts[0]==p
def truth_intersects(A,B):
    """returns (closed-set truth, only_collinear) """
    anyt=False; anyproper=False
    for a,b in A.edges():
        for c,d in B.edges():
            t,pr=seg_touch(a,b,c,d); anyt|=t; anyproper|=pr
    vin=any(closed_has(B,v) for v in A.verts()) or any(closed_has(A,v) for v in B.verts())
    truth=anyt or vin
    return truth, anyproper
def truth_contains(A,B):
    if A.kind=='pt': return B.kind=='pt' and A.pts[0]==B.pts[0]
    if A.kind=='line':
        if B.kind=='pt': return B.pts[0] in A.pts
        if B.kind=='line':
            n=len(B.pts); return any(A.pts[i:i+n]==B.pts for i in range(len(A.pts)-n+1))
        return False
    # poly A
    if B.kind=='pt': return A.region(B.pts[0])==1
    for a,b in A.edges():
        for c,d in B.edges():
            if seg_touch(a,b,c,d)[0]: return False
    if not all(A.region(v)==1 for v in B.verts()): return False
    if B.kind=='poly':
        for h in A.holes:
            if any(B.region(v)>=0 for v in h[:-1]): return False
    return True
# ---------- builders (grid 1/4)
def fr(x): return F(x).limit_denominator(64)
def tof(p): return C(float(p[0]),float(p[1]))
def mkimpl(S):
    if S.kind=='pt': return GeoPoint(tof(S.pts[0]))
    if S.kind=='line': return GeoLineString([tof(p) for p in S.pts])
    return GeoPolygon([tof(p) for p in S.shell], holes=[GeoPolygon([tof(p) for p in h]) for h in S.holes] or None)
random.seed(21)
def rpt(lo=-2,hi=6): return (F(random.randint(lo*4,hi*4),4), F(random.randint(lo*4,hi*4),4))
def shift(ps,dx,dy): return [(p[0]+dx,p[1]+dy) for p in ps]
BASES=[
 [(0,0),(4,0),(4,4),(0,4)], [(0,0),(4,0),(2,3)], [(2,0),(4,2),(2,4),(0,2)], [(0,0),(4,0),(4,4),(2,2),(0,4)], [(0,0),(3,0),(3,1),(1,1),(1,3),(0,3)],
]
def rpoly():
    b=[(F(x),F(y)) for x,y in random.choice(BASES)]
    sc=F(random.choice([1,2,4]),4)*random.choice([1,2]); b=[(x*sc,y*sc) for x,y in b]
    b=shift(b,F(random.randint(-8,16),4),F(random.randint(-8,16),4))
    if random.random()<0.5: b=b[::-1]
    k=random.randrange(len(b)); b=b[k:]+b[:k]
    holes=[]
    if random.random()<0.35 and len(b)==4 and b and True:
        xs=[p[0] for p in b]; ys=[p[1] for p in b]
        if max(xs)-min(xs)>=1 and max(ys)-min(ys)>=1 and set(random.choice(BASES[:1])) :
            cx=(max(xs)+min(xs))/2; cy=(max(ys)+min(ys))/2; w=(max(xs)-min(xs))/8
            # only for axis-aligned squares (BASE 0): hole is small square in centre
            if len(set(xs))==2 and len(set(ys))==2:
                holes=[[(cx-w,cy-w),(cx+w,cy-w),(cx+w,cy+w),(cx-w,cy+w),(cx-w,cy-w)]]
    return Sh('poly',b+[b[0]],holes)
def rline():
    n=random.randint(2,4); pts=[rpt(-1,5) for _ in range(n)]
    if random.random()<0.2: pts=pts+[pts[-2]]  # retrace
    # avoid zero-length consecutive duplicates
    out=[pts[0]]
    for p in pts[1:]:
        if p!=out[-1]: out.append(p)
    if len(out)<2: out.append((out[0][0]+1,out[0][1]))
    return Sh('line',pts=out)
def rptS(): return Sh('pt',pts=[rpt(-1,5)])
def rshape(): return random.choice([rpoly,rpoly,rline,rptS])()
fails=Counter(); ex={}
def note(k,A,B,info=None):
    fails[k]+=1
    if k not in ex: ex[k]=(A.kind,A.shell or A.pts,A.holes,B.kind,B.shell or B.pts,B.holes,info)
N=6000
for i in range(N):
    A=rshape(); B=rshape()
    if random.random()<0.3 and A.kind=='poly':  # derive B relationally: a vertex or edge midpoint of A
        v=random.choice(A.shell[:-1]); a,b=random.choice(ring_edges(A.shell)); m=((a[0]+b[0])/2,(a[1]+b[1])/2)
        B=random.choice([Sh('pt',pts=[v]),Sh('pt',pts=[m]),Sh('line',pts=[m,(m[0]+F(1,2),m[1]+F(3,4))]),Sh('line',pts=[v,(v[0]-F(1,4),v[1]-F(5,4))])])
    a=mkimpl(A); b=mkimpl(B)
    try:
        iab=a.intersects_shape(b); iba=b.intersects_shape(a); cab=a.contains_shape(b); cba=b.contains_shape(a)
    except Exception as e:
        note('exc:%s-%s:%s'%(A.kind,B.kind,type(e).__name__),A,B,str(e)[:50]); continue
    if iab!=iba: note('asym:%s-%s'%(A.kind,B.kind),A,B,(iab,iba))
    if cab and not iab: note('contains-not-intersects:%s-%s'%(A.kind,B.kind),A,B)
    t,proper=truth_intersects(A,B)
    if iab!=t:
        # classify
        if t and not iab:
            note('missed-intersection:%s-%s%s'%(A.kind,B.kind,'' if proper else ':no-proper-crossing'),A,B)
        else: note('false-intersection:%s-%s'%(A.kind,B.kind),A,B)
    tc=truth_contains(A,B)
    if cab!=tc: note('contains-%s:%s-%s'%('false-positive' if cab else 'missed',A.kind,B.kind),A,B)
for k,v in sorted(fails.items()): print(v,k); print('     ',ex[k])
print('done',N)
