import warnings; warnings.filterwarnings('ignore')
import logging; logging.disable(logging.CRITICAL)
import math, random, itertools, json, tempfile, os
from zipfile import ZipFile
from datetime import datetime, timedelta, timezone
from geostructures import *
from geostructures.parsers import *
from geostructures.time import TimeInterval
C=Coordinate
def tr(f):
    try: return f()
    except Exception as e: return f'EXC {type(e).__name__}: {e}'
t0=datetime(2020,1,1,tzinfo=timezone.utc)
print(tr(lambda: TimeInterval(datetime(2020,1,1), datetime(2020,1,2,tzinfo=timezone.utc))))
hole=GeoPolygon([C(0.2,0.2),C(0.8,0.2),C(0.8,0.8),C(0.2,0.8),C(0.2,0.2)])
a=GeoPolygon([C(0,0),C(1,0),C(1,1),C(0,1),C(0,0)], holes=[hole], dt=TimeInterval(t0,t0+timedelta(hours=1)), properties={'n':'x','v':1.5,'i':3})
b=GeoPolygon([C(3,3),C(4,3),C(4,4),C(3,3)], dt=t0, properties={'n':'y','v':2.25,'i':4})
mp=MultiGeoPolygon([a.copy().strip_dt(), b.copy().strip_dt()], properties={'n':'m','v':0.5,'i':1})
ls=GeoLineString([C(0,0),C(1,1),C(2,0)],properties={'n':'l'})
pt=GeoPoint(C(1,2,z=3.0),dt=t0,properties={'n':'p'})
pt2=GeoPoint(C(1,2),properties={'n':'p2'})
fc=FeatureCollection([a,pt2,b,mp,ls,MultiGeoPoint([GeoPoint(C(0,0)),GeoPoint(C(1,1))],properties={'n':'mp'}),MultiGeoLineString([GeoLineString([C(0,0),C(1,1)]),GeoLineString([C(2,2),C(3,3)])],properties={'n':'ml'})])
with tempfile.TemporaryDirectory() as d:
    zp=os.path.join(d,'x.zip')
    with ZipFile(zp,'w') as z: fc.to_shapefile(z)
    back=tr(lambda: FeatureCollection.from_shapefile(zp))
    if isinstance(back,str): print(back)
    else:
        for s in back: print(type(s).__name__, s.dt, s._properties, getattr(s,'outline',None) and len(s.outline), [len(h.outline) for h in getattr(s,'holes',[])] if hasattr(s,'holes') else '', [ (type(g).__name__, len(g.holes)) for g in getattr(s,'geoshapes',[]) if hasattr(g,'holes')])
        print('a eq', [s==a for s in back], 'mp eq', [s==mp for s in back])
print('--- geopandas')
fc2=FeatureCollection([a,b,mp,ls,pt2])
df=fc2.to_geopandas(); print(df.dtypes.to_dict())
back=tr(lambda: FeatureCollection.from_geopandas(df))
if isinstance(back,str): print(back)
else:
    for s,o in zip(back,fc2): print(type(s).__name__, s==o, s.dt==o.dt, s._properties, o._properties)
print('--- kml')
fc3=FeatureCollection([a,b,ls,pt2,pt])
folder=fc3.to_fastkml_folder('f')
back=tr(lambda: FeatureCollection.from_fastkml_folder(folder))
if isinstance(back,str): print(back)
else:
    for s,o in zip(back,fc3): print(type(s).__name__, s==o, s.dt==o.dt, s._properties, o._properties)
