import sys
sys.path.insert(0,'/root/scratch/repo_try')
import warnings; warnings.filterwarnings('ignore')
import logging; logging.disable(logging.CRITICAL)
import tempfile, os, json
from zipfile import ZipFile
from datetime import datetime, timedelta, timezone
from geostructures import *
from geostructures.time import TimeInterval
C=Coordinate
def tr(f):
    try: return f()
    except Exception as e: return 'EXC %s: %s'%(type(e).__name__, str(e)[:80])
t0=datetime(2020,1,1,tzinfo=timezone.utc)
sq=lambda x0,y0,x1,y1,z=None: [C(x0,y0,z=z),C(x1,y0,z=z),C(x1,y1,z=z),C(x0,y1,z=z),C(x0,y0,z=z)]
h1=GeoPolygon(sq(2,2,3,3)); h2=GeoPolygon(sq(5,5,6,6))
P=lambda **k: GeoPolygon(sq(0,0,10,10),holes=[h1,h2],**k)
shapes=[
 P(dt=TimeInterval(t0,t0+timedelta(hours=1)),properties={'n':'a','i':3}),
 GeoPolygon(sq(20,20,21,21)[::-1],dt=t0,properties={'n':'b','i':4}),
 MultiGeoPolygon([P(),GeoPolygon(sq(30,30,31,31))],properties={'n':'c','i':5}),
 GeoBox(C(40,41),C(41,40),properties={'n':'d','i':6}),
 GeoLineString([C(0,0),C(1,1),C(2,0)],dt=t0,properties={'n':'e','i':7}),
 MultiGeoLineString([GeoLineString([C(0,0),C(1,1)]),GeoLineString([C(2,2),C(3,3),C(4,2)])],properties={'n':'f','i':8}),
 GeoPoint(C(1,2),dt=TimeInterval(t0,t0+timedelta(days=1)),properties={'n':'g','i':9}),
 MultiGeoPoint([GeoPoint(C(0,0)),GeoPoint(C(1,1))],properties={'n':'h','i':10}),
 GeoPolygon(sq(50,50,51,51,z=5.0),properties={'n':'z','i':11}),
 GeoPoint(C(7,8,z=2.5),properties={'n':'pz','i':12}),
]
import sys as _s
Z=len(_s.argv)>1
shapes=[x for x in shapes if (x._properties['n'] in ('z','pz'))==Z]
fc=FeatureCollection(shapes)
def polyform(s): return s if hasattr(s,'from_wkt') else s.to_polygon()
def cmp(back, fam=None):
    for o in shapes:
        ref=polyform(o)
        m=[b for b in back if b._properties.get('n')==o._properties['n']]
        if not m: print('  MISSING', o._properties['n'], type(o).__name__); continue
        b=m[0]
        geo = (b==ref.copy().set_dt(b.dt)) if True else None
        print('  ', o._properties['n'], type(o).__name__,'->',type(b).__name__, 'geom', b==ref or (type(b)==type(ref) and b.strip_dt(inplace=False)==ref.strip_dt(inplace=False)), 'dt', b.dt==o.dt, 'props', b._properties, 'z', [c.z for c in (getattr(b,'outline',None) or getattr(b,'vertices',None) or [b.centroid])][:2] if not hasattr(b,'geoshapes') else '')
print('--- shapefile')
with tempfile.TemporaryDirectory() as d:
    zp=os.path.join(d,'x.zip')
    r=tr(lambda: fc.to_shapefile(ZipFile(zp,'w')))
    if isinstance(r,str): print(r)
    import zipfile
    # close properly
    with ZipFile(zp,'w') as z: fc.to_shapefile(z)
    back=tr(lambda: FeatureCollection.from_shapefile(zp))
    if isinstance(back,str): print(back)
    else:
        print('order', [b._properties.get('n') for b in back]); cmp(back)
print('--- geopandas')
df=tr(lambda: fc.to_geopandas())
if isinstance(df,str): print(df)
else:
    back=tr(lambda: FeatureCollection.from_geopandas(df))
    if isinstance(back,str):
        print(back)
        for s in shapes:
            r=tr(lambda: FeatureCollection.from_geopandas(FeatureCollection([s]).to_geopandas()))
            if isinstance(r,str): print('   single', type(s).__name__, r)
    else: print('order', [b._properties.get('n') for b in back]); cmp(back)
print('--- kml (string props only)')
shapes_s=[s.copy() for s in shapes]
for s in shapes_s: s._properties={'n':s._properties['n']}
fc2=FeatureCollection(shapes_s)
folder=tr(lambda: fc2.to_fastkml_folder('f'))
if isinstance(folder,str): print(folder)
else:
    back=tr(lambda: FeatureCollection.from_fastkml_folder(folder))
    if isinstance(back,str): print(back)
    else:
        print('order', [b._properties.get('n') for b in back]); cmp(back)
    txt=tr(lambda: folder.to_string())
    print('to_string', txt[:100] if isinstance(txt,str) else txt)
