import sys
sys.path.insert(0,'/root/scratch/repo_try')
import warnings; warnings.filterwarnings('ignore')
import logging; logging.disable(logging.CRITICAL)
import random, itertools, math, struct
from fractions import Fraction as F
from datetime import datetime, timedelta, timezone
from collections import Counter
from geostructures import *
from geostructures.time import TimeInterval
C=Coordinate
fails=Counter(); ex={}
def note(k,info): fails[k]+=1; ex.setdefault(k,info)
t0=datetime(2020,1,1,tzinfo=timezone.utc)
T=lambda k: t0+timedelta(hours=k)
# set model on half-ticks
def den(s,e): return {2*s} if s==e else set(range(2*s,2*e))
ivs=[(s,e) for s in range(6) for e in range(s,6)]
for (s,e),(s2,e2) in itertools.product(ivs,ivs):
    a=TimeInterval(T(s),T(e)); b=TimeInterval(T(s2),T(e2)); A=den(s,e); B=den(s2,e2)
    if a.issubset(b)!=(A<=B): note('issubset',((s,e),(s2,e2)))
    if a.issuperset(b)!=(A>=B): note('issuperset',((s,e),(s2,e2)))
    if (b in a)!=(A>=B): note('contains-ti',((s,e),(s2,e2)))
    if a.isdisjoint(b)!=(not (A&B)): note('isdisjoint',((s,e),(s2,e2)))
    if a.isdisjoint(b)!=b.isdisjoint(a): note('disjoint-asym',((s,e),(s2,e2)))
    if a.intersects(b)==a.isdisjoint(b): note('intersects',((s,e),(s2,e2)))
    i=a.intersection(b)
    if (i is None)!=(not (A&B)): note('intersection-none',((s,e),(s2,e2)))
    if i is not None:
        I=den(int((i.start-t0).total_seconds()//3600), int((i.end-t0).total_seconds()//3600))
        if I!=(A&B): note('intersection-set',((s,e),(s2,e2)))
    u=a.union(b)
    if (u.start,u.end)!=(T(min(s,s2)),T(max(e,e2))): note('union',((s,e),(s2,e2)))
    if (a==b)!=((s,e)==(s2,e2)): note('eq',0)
    if a==b and hash(a)!=hash(b): note('hash',0)
    if a.issubset(b) and b.issubset(a) and a!=b: note('antisym',((s,e),(s2,e2)))
for (s,e) in ivs:
    a=TimeInterval(T(s),T(e))
    for k in range(6):
        if (T(k) in a)!=(2*k in den(s,e)): note('member',((s,e),k))
        if (T(k).replace(tzinfo=None) in a)!=(2*k in den(s,e)): note('member-naive',((s,e),k))
        if a.intersects(T(k))!=(2*k in den(s,e)): note('intersects-dt',((s,e),k))
try: TimeInterval(T(2),T(1)); note('no-reject',0)
except ValueError: pass
try:
    x=TimeInterval(datetime(2020,1,1), datetime(2020,1,2,tzinfo=timezone.utc))
    if x!=TimeInterval(T(0),T(24)): note('mixed-naive',0)
except Exception as e: note('mixed-naive-exc',str(e))
print('C06 done')
# C08
random.seed(4)
def ulps(x):
    b=struct.unpack('<q',struct.pack('<d',x))[0]; return [struct.unpack('<d',struct.pack('<q',b+d))[0] for d in (-1,0,1)]
vals=[]
for base in [0,90,-90,180,-180,270,-270,360,-360,450,540,-540,720,99990,-99990]:
    vals+=ulps(float(base)) if base else [0.0,-0.0,5e-324]
vals+=[random.uniform(-1e5,1e5) for _ in range(300)]+[float(random.randint(-1000,1000)) for _ in range(100)]
def xyz(lon,lat):
    lo,la=F(lon),F(lat); return None
def same_point(lon,lat,lon2,lat2):
    # exact: unit vector equality via exact trig identities is hard; use mod arithmetic certificate
    lo,la,lo2,la2=F(lon),F(lat),F(lon2),F(lat2)
    # candidate equivalences: (lon+360k, lat) ; (lon+180+360k, 180-lat) ; (lon+180+360k,-180-lat) ; combos of lat period 360
    la_m=la%360  # in [0,360)
    if la_m<=90: elat,flip=la_m,False
    elif la_m<=270: elat,flip=180-la_m,True
    else: elat,flip=la_m-360,False
    elon=(lo+(180 if flip else 0))
    if abs(elat)==90: return la2==elat   # pole: any longitude
    return la2==elat and (lo2-elon)%360==0
n=0
for lon in vals:
    for lat in random.sample(vals,25):
        for conv in (float,str,lambda v:int(v) if abs(v)<1e15 and float(v).is_integer() else v):
            a=conv(lon); b=conv(lat)
            c=C(a,b); n+=1
            if not (-180<=c.longitude<180 and -90<=c.latitude<=90): note('range',(a,b,c.to_float()))
            c2=C(c.longitude,c.latitude)
            if (c2.longitude,c2.latitude)!=(c.longitude,c.latitude): note('idem',(a,b))
            if not same_point(float(a),float(b),c.longitude,c.latitude): note('same-point',(a,b,c.to_float()))
c1=C(1,2,m=1.0); c2=C(1,2,m=2.0)
if c1==c2 and hash(c1)!=hash(c2): note('eq-hash-m',0)
if C(-0.0,0)==C(0.0,0) and hash(C(-0.0,0))!=hash(C(0.0,0)): note('eq-hash-negzero',0)
if C(1,2,z=0.0).to_float()!=(1.0,2.0,0.0): note('z-zero-dropped',C(1,2,z=0.0).to_float())
for i in range(2000):
    c=C(random.uniform(-180,180),random.uniform(-89.9,89.9)); d=C._from_xyz(c.xyz)
    if abs(d.longitude-c.longitude)>1e-9 or abs(d.latitude-c.latitude)>1e-9: note('xyz-roundtrip',(c.to_float(),d.to_float()))
print('C08 done',n)
for k,v in sorted(fails.items()): print(v,k,str(ex[k])[:200])
