import subprocess, os, sys
REPO='/tmp/bld_io/repo'
FILES=['collections.py','_base.py','time.py']
origs={f:open('/repo/geostructures/'+f).read() for f in FILES}
SHP_START="            dt_start = rec.get(time_start_field) or None\n"
variants=[
 ('HK1 _to_fastkml: == operands swapped', 'H', 'time.py', [("        if self.start == self.end:\n            return TimeStamp","        if self.end == self.start:\n            return TimeStamp")]),
 ('HK2 _to_fastkml: explicit else', 'H', 'time.py', [("            return TimeStamp(timestamp=KmlDateTime(dt=self.start))\n\n        return TimeSpan","            return TimeStamp(timestamp=KmlDateTime(dt=self.start))\n        else:\n            return TimeSpan")]),
 ('HK3 folder: placemarks in a local first', 'H', 'collections.py', [("        return Folder(\n            name=folder_name,\n            features=[x.to_fastkml_placemark() for x in self.geoshapes]\n        )","        pms = [x.to_fastkml_placemark() for x in self.geoshapes]\n        return Folder(\n            name=folder_name,\n            features=pms\n        )")]),
 ('MK1 _to_fastkml: span ends swapped', 'M', 'time.py', [("TimeSpan(begin=KmlDateTime(self.start), end=KmlDateTime(self.end))","TimeSpan(begin=KmlDateTime(self.end), end=KmlDateTime(self.start))")]),
 ('MK2 _to_fastkml: stamp carries the end', 'M', 'time.py', [("TimeStamp(timestamp=KmlDateTime(dt=self.start))","TimeStamp(timestamp=KmlDateTime(dt=self.end))")]),
 ('MK3 _to_fastkml: always a span', 'M', 'time.py', [("        if self.start == self.end:\n            return TimeStamp(timestamp=KmlDateTime(dt=self.start))\n\n        return TimeSpan","        return TimeSpan")]),
 ('MK4 placemark: properties (with time keys) instead of _properties', 'M', '_base.py', [("for k, v in self._properties.items()]\n            ),\n            times=","for k, v in self.properties.items()]\n            ),\n            times=")]),
 ('MK5 placemark: no times', 'M', '_base.py', [("times=self.dt._to_fastkml() if self.dt is not None else None,","times=None,")]),
 ('MK6 folder: name dropped', 'M', 'collections.py', [("            name=folder_name,\n            features=[x.to_fastkml_placemark()","            name=None,\n            features=[x.to_fastkml_placemark()")]),
]
env=dict(os.environ, GEOSTRUCTURES_REPO=REPO)
for name, kind, fname, reps in variants:
    for f_,o_ in origs.items(): open(REPO+'/geostructures/'+f_,'w').write(o_)
    F=REPO+'/geostructures/'+fname
    s=origs[fname]
    ok=True
    for a,b in reps:
        if s.count(a)<1: ok=False
        s=s.replace(a,b,1) if kind!='H1' else s.replace(a,b)
    if not ok:
        print(name,'PATTERN NOT FOUND'); continue
    open(F,'w').write(s)
    r=subprocess.run(['/venv/bin/python','-c','import srcunits;t,w=srcunits.render("SrcIo");open("/tmp/bld_io/verif/lean/GeoVerif/Gen/SrcIo.lean","w").write(t)'],cwd='/tmp/bld_io/verif/harness',env=env,capture_output=True,text=True)
    if r.returncode: print(r.stderr[-300:])
    gen=open('/tmp/bld_io/verif/lean/GeoVerif/Gen/SrcIo.lean').read()
    if 'could NOT be translated' in gen:
        tie='untranslatable: '+gen.split('\n')[2][:120]
    else:
        b=subprocess.run(['lake','build','-q','GeoVerif.Props.C20Src'],cwd='/tmp/bld_io/verif/lean',capture_output=True,text=True)
        tie='intact' if b.returncode==0 else 'equivalence-not-proved'
    tests=''
    if kind=='M':
        t=subprocess.run(['/venv/bin/python','-m','pytest','-q','-x','tests/test_collections.py','tests/test_time.py','tests/test_parsers.py','tests/test_structures.py','-p','no:cacheprovider'],cwd=REPO,capture_output=True,text=True)
        tests=' | unit tests: '+(t.stdout.strip().split('\n')[-1] if t.stdout.strip() else t.stderr[-100:])
    print(f'{name}: tie {tie}{tests}',flush=True)
for f_,o_ in origs.items(): open(REPO+'/geostructures/'+f_,'w').write(o_)
subprocess.run(['./check','--regenerate'],cwd='/tmp/bld_io/verif',capture_output=True)
subprocess.run(['lake','build','-q','GeoVerif.Props.C20Src'],cwd='/tmp/bld_io/verif/lean',capture_output=True)
print('restored')
