import subprocess, os, sys
REPO='/tmp/bld_io/repo'; F=REPO+'/geostructures/collections.py'
orig=open('/repo/geostructures/collections.py').read()
SHP_START="            dt_start = rec.get(time_start_field) or None\n"
variants=[
 ('HW1 classification tests reordered (multipoint first)', 'H', [("            if isinstance(shape, GeoPoint):\n                points.append(shape)\n\n            elif isinstance(shape, MultiGeoPoint):\n                multipoints.append(shape)\n","            if isinstance(shape, MultiGeoPoint):\n                multipoints.append(shape)\n\n            elif isinstance(shape, GeoPoint):\n                points.append(shape)\n")]),
 ('HW2 props local inlined', 'H', [("                    props = shape.properties\n                    writer.record(*[_convert_dt(props.get(k)) for k in typemap], idx)","                    writer.record(*[_convert_dt(shape.properties.get(k)) for k in typemap], idx)")]),
 ('HW3 typemap.keys()', 'H', [("for k in typemap], idx)","for k in typemap.keys()], idx)")]),
 ('HW4 and-operands swapped in the int test', 'H', [("elif issubclass(_type, int) and not issubclass(_type, datetime):","elif not issubclass(_type, datetime) and issubclass(_type, int):")]),
 ('HW5 float test before bool test', 'H', [("                    if issubclass(_type, bool):\n                        # bools are subclasses of int (WAT) - have to check first\n                        writer.field(field, 'L')\n                    elif issubclass(_type, float):\n                        writer.field(field, 'N', decimal=15)\n","                    if issubclass(_type, float):\n                        writer.field(field, 'N', decimal=15)\n                    elif issubclass(_type, bool):\n                        writer.field(field, 'L')\n")]),
 ('MW1 line-likes go to the polygon layer', 'M', [("            elif isinstance(shape, LineLikeMixin):\n                lines.append(shape)","            elif isinstance(shape, LineLikeMixin):\n                shapes.append(shape)")]),
 ('MW2 float fields with 10 decimals', 'M', [("writer.field(field, 'N', decimal=15)","writer.field(field, 'N', decimal=10)")]),
 ('MW3 int test before bool test', 'M', [("                    if issubclass(_type, bool):\n                        # bools are subclasses of int (WAT) - have to check first\n                        writer.field(field, 'L')\n                    elif issubclass(_type, float):","                    if issubclass(_type, int) and not issubclass(_type, datetime):\n                        writer.field(field, 'N')\n                    elif issubclass(_type, bool):\n                        writer.field(field, 'L')\n                    elif issubclass(_type, float):")]),
 ('MW4 record without _convert_dt', 'M', [("writer.record(*[_convert_dt(props.get(k)) for k in typemap], idx)","writer.record(*[props.get(k) for k in typemap], idx)")]),
 ('MW5 layer order: shapes before lines', 'M', [("                ('lines', lines), ('shapes', shapes)","                ('shapes', shapes), ('lines', lines)")]),
 ('MW6 include_properties=[] means none', 'M', [("if (not include_properties) or _key in include_properties","if include_properties is None or _key in include_properties")]),
 ('MW7 ID counts from 1', 'M', [("enumerate(shape_group):","enumerate(shape_group, 1):")]),
 ('MW8 empty layers written too', 'M', [("                if not shape_group:\n                    continue\n\n                writer","                writer")]),
 ('MW9 typemap from _properties only (no time fields)', 'M', [("for _key, _val in x.properties.items()","for _key, _val in x._properties.items()")]),
]
env=dict(os.environ, GEOSTRUCTURES_REPO=REPO)
for name, kind, reps in variants:
    s=orig
    ok=True
    for a,b in reps:
        if s.count(a)<1: ok=False
        s=s.replace(a,b,1) if kind!='H1' else s.replace(a,b)
    if not ok:
        print(name,'PATTERN NOT FOUND'); continue
    open(F,'w').write(s)
    r=subprocess.run(['/venv/bin/python','-c','import srcunits;t,w=srcunits.render("SrcIo");open("/tmp/bld_io/verif/lean/GeoVerif/Gen/SrcIo.lean","w").write(t)'],cwd='/tmp/bld_io/verif/harness',env=env,capture_output=True,text=True)
    if r.returncode: print(r.stderr[-300:])
    gen=open('/tmp/bld_io/verif/lean/GeoVerif/Gen/SrcIo.lean').read()
    if 'could NOT be translated' in gen:
        tie='untranslatable: '+gen.split('\n')[2][:120]
    else:
        b=subprocess.run(['lake','build','-q','GeoVerif.Props.C20Src'],cwd='/tmp/bld_io/verif/lean',capture_output=True,text=True)
        tie='intact' if b.returncode==0 else 'equivalence-not-proved'
    tests=''
    if kind=='M':
        t=subprocess.run(['/venv/bin/python','-m','pytest','-q','-x','tests/test_collections.py','-p','no:cacheprovider'],cwd=REPO,capture_output=True,text=True)
        tests=' | unit tests: '+(t.stdout.strip().split('\n')[-1] if t.stdout.strip() else t.stderr[-100:])
    print(f'{name}: tie {tie}{tests}',flush=True)
open(F,'w').write(orig)
subprocess.run(['./check','--regenerate'],cwd='/tmp/bld_io/verif',capture_output=True)
subprocess.run(['lake','build','-q','GeoVerif.Props.C20Src'],cwd='/tmp/bld_io/verif/lean',capture_output=True)
print('restored')
