import subprocess, os, sys
REPO='/tmp/bld_io/repo'; F=REPO+'/geostructures/collections.py'
orig=open('/repo/geostructures/collections.py').read()
SHP_START="            dt_start = rec.get(time_start_field) or None\n"
variants=[
 ('H1 class tuple reordered', 'H', [("isinstance(val, (datetime, date))","isinstance(val, (date, datetime))")]),
 ('H2 None tests reordered', 'H', [("if dt_start is None and dt_end is None:","if dt_end is None and dt_start is None:")]),
 ('H3 extra local', 'H', [("            if not (dt_start and dt_end) or dt_start == dt_end:\n                return dt_start or dt_end\n\n            return TimeInterval(dt_start, dt_end)\n\n        conv_map",
                            "            both = dt_start and dt_end\n            if not both or dt_start == dt_end:\n                return dt_start or dt_end\n\n            return TimeInterval(dt_start, dt_end)\n\n        conv_map")]),
 ('H4 == operands swapped, else-branch explicit', 'H', [("            if not (dt_start and dt_end) or dt_start == dt_end:\n                return dt_start or dt_end\n\n            return TimeInterval(dt_start, dt_end)\n\n        df =",
                            "            if not (dt_start and dt_end) or dt_end == dt_start:\n                return dt_start or dt_end\n            else:\n                return TimeInterval(dt_start, dt_end)\n\n        df =")]),
 ('H5 _convert_dt negated test, arms swapped', 'H', [("            if isinstance(val, (datetime, date)):\n                return val.isoformat()\n            return val","            if not isinstance(val, (datetime, date)):\n                return val\n            return val.isoformat()")]),
 ('M1 shp end field read from start field', 'M', [("dt_end = rec.get(time_end_field) or None","dt_end = rec.get(time_start_field) or None")]),
 ('M2 shp interval reversed', 'M', [("            return TimeInterval(dt_start, dt_end)\n\n        conv_map","            return TimeInterval(dt_end, dt_start)\n\n        conv_map")]),
 ('M3 _convert_dt test negated', 'M', [("if isinstance(val, (datetime, date)):","if not isinstance(val, (datetime, date)):")]),
 ('M4 gpd returns start only', 'M', [("                return dt_start or dt_end\n\n            return TimeInterval(dt_start, dt_end)\n\n        df =","                return dt_start\n\n            return TimeInterval(dt_start, dt_end)\n\n        df =")]),
 ('M5 shp None test and->or', 'M', [("if dt_start is None and dt_end is None:","if dt_start is None or dt_end is None:")]),
 ('M6 shp no fromisoformat of end', 'M', [("            if dt_end:\n                dt_end = datetime.fromisoformat(dt_end)\n","            if dt_end:\n                dt_end = datetime.fromisoformat(dt_start if False else dt_end) if dt_start else dt_end\n")]),
 ('M7 gpd: equal instants kept as interval', 'M', [("            if not (dt_start and dt_end) or dt_start == dt_end:\n                return dt_start or dt_end\n\n            return TimeInterval(dt_start, dt_end)\n\n        df =","            if not (dt_start and dt_end):\n                return dt_start or dt_end\n\n            return TimeInterval(dt_start, dt_end)\n\n        df =")]),
 ('M8 gpd isnull guard of end dropped (NaT is a datetime instance)', 'M', [("(not pd.isnull(dt_end) and isinstance(dt_end, datetime))","(isinstance(dt_end, datetime))")]),
]
env=dict(os.environ, GEOSTRUCTURES_REPO=REPO)
for name, kind, reps in variants:
    s=orig
    ok=True
    for a,b in reps:
        if s.count(a)<1: ok=False
        s=s.replace(a,b,1) if kind!='H1' else s.replace(a,b)
    if not ok:
        print(name,'PATTERN NOT FOUND'); continue
    open(F,'w').write(s)
    r=subprocess.run(['/venv/bin/python','-c','import srcunits;t,w=srcunits.render("SrcIo");open("/tmp/bld_io/verif/lean/GeoVerif/Gen/SrcIo.lean","w").write(t)'],cwd='/tmp/bld_io/verif/harness',env=env,capture_output=True,text=True)
    if r.returncode: print(r.stderr[-300:])
    gen=open('/tmp/bld_io/verif/lean/GeoVerif/Gen/SrcIo.lean').read()
    if 'could NOT be translated' in gen:
        tie='untranslatable: '+gen.split('\n')[2][:120]
    else:
        b=subprocess.run(['lake','build','-q','GeoVerif.Props.C20Src'],cwd='/tmp/bld_io/verif/lean',capture_output=True,text=True)
        tie='intact' if b.returncode==0 else 'equivalence-not-proved'
    tests=''
    if kind=='M':
        t=subprocess.run(['/venv/bin/python','-m','pytest','-q','-x','tests/test_collections.py','-p','no:cacheprovider'],cwd=REPO,capture_output=True,text=True)
        tests=' | unit tests: '+(t.stdout.strip().split('\n')[-1] if t.stdout.strip() else t.stderr[-100:])
    print(f'{name}: tie {tie}{tests}',flush=True)
open(F,'w').write(orig)
subprocess.run(['./check','--regenerate'],cwd='/tmp/bld_io/verif',capture_output=True)
subprocess.run(['lake','build','-q','GeoVerif.Props.C20Src'],cwd='/tmp/bld_io/verif/lean',capture_output=True)
print('restored')
