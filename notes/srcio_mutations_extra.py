import subprocess, os, sys
REPO='/tmp/bld_io/repo'
FILES=['collections.py','_base.py','time.py']
origs={f:open('/repo/geostructures/'+f).read() for f in FILES}
SHP_START="            dt_start = rec.get(time_start_field) or None\n"
variants=[
 ('HR4 from_shapefile: filter tuple in the other order', 'H', 'collections.py', [("k: v for k, v in props.items() if k not in (time_start_field, time_end_field)","k: v for k, v in props.items() if k not in (time_end_field, time_start_field)")]),
 ('HK4 _from_fastkml: span test first', 'H', 'time.py', [("        if isinstance(fastkml_time, TimeStamp):\n            return TimeInterval(fastkml_time.timestamp.dt, fastkml_time.timestamp.dt)\n        if isinstance(fastkml_time, TimeSpan):\n            return TimeInterval(fastkml_time.begin.dt, fastkml_time.end.dt)\n","        if isinstance(fastkml_time, TimeSpan):\n            return TimeInterval(fastkml_time.begin.dt, fastkml_time.end.dt)\n        if isinstance(fastkml_time, TimeStamp):\n            return TimeInterval(fastkml_time.timestamp.dt, fastkml_time.timestamp.dt)\n")]),
 ('MK7 _from_fastkml: span read as (begin, begin)', 'M', 'time.py', [("TimeInterval(fastkml_time.begin.dt, fastkml_time.end.dt)","TimeInterval(fastkml_time.begin.dt, fastkml_time.begin.dt)")]),
 ('MK8 _from_fastkml: span ends swapped', 'M', 'time.py', [("TimeInterval(fastkml_time.begin.dt, fastkml_time.end.dt)","TimeInterval(fastkml_time.end.dt, fastkml_time.begin.dt)")]),
]
env=dict(os.environ, GEOSTRUCTURES_REPO=REPO)
for name, kind, fname, reps in variants:
    for f_,o_ in origs.items(): open(REPO+'/geostructures/'+f_,'w').write(o_)
    F=REPO+'/geostructures/'+fname
    s=origs[fname]
    ok=True
    for a,b in reps:
        if s.count(a)<1: ok=False
        s=s.replace(a,b,1) if kind!='H1' else s.replace(a,b)
    if not ok:
        print(name,'PATTERN NOT FOUND'); continue
    open(F,'w').write(s)
    r=subprocess.run(['/venv/bin/python','-c','import srcunits;t,w=srcunits.render("SrcIo");open("/tmp/bld_io/verif/lean/GeoVerif/Gen/SrcIo.lean","w").write(t)'],cwd='/tmp/bld_io/verif/harness',env=env,capture_output=True,text=True)
    if r.returncode: print(r.stderr[-300:])
    gen=open('/tmp/bld_io/verif/lean/GeoVerif/Gen/SrcIo.lean').read()
    if 'could NOT be translated' in gen:
        tie='untranslatable: '+gen.split('\n')[2][:120]
    else:
        b=subprocess.run(['lake','build','-q','GeoVerif.Props.C20Src'],cwd='/tmp/bld_io/verif/lean',capture_output=True,text=True)
        tie='intact' if b.returncode==0 else 'equivalence-not-proved'
    tests=''
    if kind=='M':
        t=subprocess.run(['/venv/bin/python','-m','pytest','-q','-x','tests/test_collections.py','tests/test_time.py','tests/test_parsers.py','-p','no:cacheprovider'],cwd=REPO,capture_output=True,text=True)
        tests=' | unit tests: '+(t.stdout.strip().split('\n')[-1] if t.stdout.strip() else t.stderr[-100:])
    print(f'{name}: tie {tie}{tests}',flush=True)
for f_,o_ in origs.items(): open(REPO+'/geostructures/'+f_,'w').write(o_)
subprocess.run(['./check','--regenerate'],cwd='/tmp/bld_io/verif',capture_output=True)
subprocess.run(['lake','build','-q','GeoVerif.Props.C20Src'],cwd='/tmp/bld_io/verif/lean',capture_output=True)
print('restored')
