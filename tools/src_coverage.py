#!/usr/bin/env python3
"""
How much of /repo's source text is *inside* the Lean side on every run?

For every function / method of geostructures/*.py: `translated` (an instance of a source unit of harness/srcunits.py —
its text is turned into a Lean definition on every run and proved equal to the hand-written model), `pinned` (its AST
digest is recorded; a changed body breaks the tie), or `outside` (tied to the model by the correspondence streams only).
Lines are body lines without docstrings, comments and blank lines.

usage: tools/src_coverage.py [--md] [--json out.json]
"""
import ast
import json
import os
import sys

VERIF = os.path.dirname(os.path.dirname(os.path.abspath(__file__)))
nested = {}       # qual -> quals of the functions defined inside it (counted with their outer function)
sys.path.insert(0, os.path.join(VERIF, 'harness'))
import common      # noqa: E402
import srcunits    # noqa: E402

PKG = os.path.join(common.REPO, 'geostructures')


def code_lines(fn, text_lines):
    """source lines of a def that hold code (docstring, comments, blanks removed)"""
    doc = set()
    if fn.body and isinstance(fn.body[0], ast.Expr) and isinstance(getattr(fn.body[0], 'value', None), ast.Constant) \
            and isinstance(fn.body[0].value.value, str):
        doc = set(range(fn.body[0].lineno, fn.body[0].end_lineno + 1))
    n = 0
    for ln in range(fn.lineno, fn.end_lineno + 1):
        s = text_lines[ln - 1].strip()
        if ln in doc or not s or s.startswith('#'):
            continue
        n += 1
    return n


def functions(path):
    text = open(path, newline='').read()
    tree = ast.parse(text)
    lines = text.splitlines()
    out = {}

    def walk(body, prefix):
        for n in body:
            if isinstance(n, (ast.FunctionDef, ast.AsyncFunctionDef)):
                out[prefix + n.name] = code_lines(n, lines)
                nested[prefix + n.name] = [prefix + n.name + '.' + m.name for m in ast.walk(n)
                                           if isinstance(m, ast.FunctionDef) and m is not n]
            elif isinstance(n, ast.ClassDef):
                walk(n.body, prefix + n.name + '.')
    walk(tree.body, '')
    return out


def main():
    status = {}         # (rel file, qual) -> (kind, unit)
    broken = {}
    for name, mk in srcunits.UNITS.items():
        try:
            u = mk()
        except Exception as e:  # noqa
            broken[name] = f'{type(e).__name__}: {e}'
            continue
        if not hasattr(u, 'src'):           # a unit with a translator of its own (SrcIo): `path`, `fns[].qual`, `pins`
            rel = os.path.relpath(u.path, PKG)
            for f in getattr(u, 'fns', []):
                status.setdefault((rel, f.qual), ('translated', set()))[1].add(name)
            for q in getattr(u, 'pins', {}):
                r, qq = q.split('::', 1)
                status.setdefault((r, qq), ('pinned', {name}))
            continue
        rel = os.path.relpath(u.src.path, PKG)
        for inst in u.insts:
            q = inst.qual
            r = rel
            if '::' in q:
                r, q = q.split('::', 1)
            status.setdefault((r, q), ('translated', set()))[1].add(name)
        for q in u.pins:
            r = rel
            if '::' in q:
                r, q = q.split('::', 1)
            if (r, q) not in status:
                status[(r, q)] = ('pinned', {name})
    for q in srcunits.PINS:
        r, qq = q.split('::', 1)
        status.setdefault((r, qq), ('pinned', set()))
    rows = []
    tot = {'translated': [0, 0], 'pinned': [0, 0], 'outside': [0, 0]}
    files = []
    for root, _d, fs in os.walk(PKG):
        for f in sorted(fs):
            if f.endswith('.py'):
                files.append(os.path.relpath(os.path.join(root, f), PKG))
    detail = {}
    allfns = {rel: functions(os.path.join(PKG, rel)) for rel in sorted(files)}
    # a unit may read several files (its instances name the function, not the file) and may lift nested functions
    for (r, q) in list(status):
        if q in allfns.get(r, {}):
            continue
        homes = [rel for rel, fns in allfns.items() if q in fns]
        outer = [(rel, o) for rel, fns in allfns.items() for o in fns if q in nested.get(o, [])]
        if len(homes) == 1:
            kind, units = status.pop((r, q))
            k0, u0 = status.get((homes[0], q), (kind, set()))
            status[(homes[0], q)] = ('translated' if 'translated' in (kind, k0) else kind, u0 | units)
        elif outer:
            status.pop((r, q))          # a local function: counted with the function that contains it
    for rel in sorted(files):
        fns = allfns[rel]
        if not fns:
            continue
        per = {'translated': [0, 0], 'pinned': [0, 0], 'outside': [0, 0]}
        detail[rel] = {}
        for q, n in fns.items():
            kind, units = status.get((rel, q), ('outside', set()))
            per[kind][0] += 1
            per[kind][1] += n
            tot[kind][0] += 1
            tot[kind][1] += n
            detail[rel][q] = {'kind': kind, 'lines': n, 'units': sorted(units)}
        rows.append((rel, per))
    missing = [f'{r}::{q}' for (r, q) in status if q not in detail.get(r, {})]
    if '--json' in sys.argv:
        json.dump({'files': detail, 'totals': tot, 'broken_units': broken, 'declared_but_not_found': missing},
                  open(sys.argv[sys.argv.index('--json') + 1], 'w'), indent=1)
    print('| file | functions translated / pinned / outside | code lines translated / pinned / outside |')
    print('|---|---|---|')
    for rel, per in rows:
        print(f'| `{rel}` | {per["translated"][0]} / {per["pinned"][0]} / {per["outside"][0]} | '
              f'{per["translated"][1]} / {per["pinned"][1]} / {per["outside"][1]} |')
    print(f'| **all** | {tot["translated"][0]} / {tot["pinned"][0]} / {tot["outside"][0]} | '
          f'{tot["translated"][1]} / {tot["pinned"][1]} / {tot["outside"][1]} |')
    if broken:
        print('\nunits that could not be constructed:', broken)
    if missing:
        print('\ndeclared in a unit but not found in the source:', missing)


if __name__ == '__main__':
    main()
