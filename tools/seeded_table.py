#!/usr/bin/env python3
"""markdown table of the confirmed seeded changes (from seeded/*/meta.json)"""
import json, os, glob
V = os.path.dirname(os.path.dirname(os.path.abspath(__file__)))
rows = []
for d in sorted(glob.glob(os.path.join(V, 'seeded', '*'))):
    m = json.load(open(os.path.join(d, 'meta.json')))
    sid = os.path.basename(d)
    summ = (m.get('summary') or '').replace('|', '/').replace('\n', ' ')
    if len(summ) > 150:
        summ = summ[:147] + '…'
    res = []
    for c, r in (m.get('checks') or {}).items():
        kind = 'caught' if r.get('caught') else ('exit %s' % r.get('exit'))
        if r.get('caught') and any('no-failing-input-found' in l for l in r.get('lines', [])):
            kind = 'caught (tie broken, no failing input)'
        res.append(f'{c}: {kind}')
    if m.get('neutralised_by'):
        res = ['no longer breaks the property since repo fix ' + m['neutralised_by'].split(' ')[0] + ' (its demo passes with the change applied): check quiet, as it must be']
    rows.append(f'| {sid} | {m.get("property", "")} | {summ} | {"; ".join(res)} |')
print('| seed | property | change | result of `./check` on the changed tree |\n|---|---|---|---|')
print('\n'.join(rows))
