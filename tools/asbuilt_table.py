#!/usr/bin/env python3
"""Print the 'as built' table of DESIGN.md §6.00 from the evidence files of the last run (evidence/Cxx.json)."""
import json
import os

VERIF = os.path.dirname(os.path.dirname(os.path.abspath(__file__)))
print('| prop | Lean modules with the theorems | theorems audited | source tie (units: theorems) | streams (support-only `np-`) | cases in a quick run | known findings printed |')
print('|---|---|---|---|---|---|---|')
for i in range(1, 21):
    pid = f'C{i:02d}'
    e = json.load(open(os.path.join(VERIF, 'evidence', pid + '.json')))
    c = e['coverage']
    streams = c.get('streams', {})
    nnp = sum(1 for s in streams if s.startswith('np-'))
    ties = '; '.join(f"{'+'.join(t['units'])}: {t['theorems']} ({t['status']})" for t in c.get('source_tie', [])) or '—'
    known = ', '.join(sorted(c.get('known_findings_hit', {}))) or '—'
    mods = ', '.join(m.replace('GeoVerif.', '') for m in c.get('lean_modules', []))
    n = c['evaluations']
    cases = f'{n/1000:.0f} k' if n >= 1000 else str(n)
    print(f"| {pid} | {mods} | {c['discharged']}/{c['obligations']} | {ties} | {len(streams)} ({nnp}) | {cases} ({e['tier']}, {e['wall_s']:.0f} s) | {known} |")
