#!/usr/bin/env python3
"""
Quietness soak: run every check (quick tier) for many seeds against an *unchanged* scratch clone of /repo, in parallel,
and list every run that did not exit 0.  Evidence of these runs goes to evidence/_scratch (never the committed files).

usage: tools/soak.py [-j N] [--tier quick|thorough] <first_seed> <last_seed> [Cxx …]
"""
import json
import os
import shutil
import subprocess
import sys
import tempfile
from concurrent.futures import ThreadPoolExecutor

VERIF = os.path.dirname(os.path.dirname(os.path.abspath(__file__)))


def main():
    args = sys.argv[1:]
    jobs, tier = 6, 'quick'
    if '-j' in args:
        i = args.index('-j'); jobs = int(args[i + 1]); del args[i:i + 2]
    if '--tier' in args:
        i = args.index('--tier'); tier = args[i + 1]; del args[i:i + 2]
    lo, hi = int(args[0]), int(args[1])
    ids = args[2:] or [c['property_id'] for c in json.load(open(os.path.join(VERIF, 'MANIFEST.json')))['checks']]
    tmp = tempfile.mkdtemp(prefix='soak_')
    clone = os.path.join(tmp, 'repo')
    subprocess.run(['git', 'clone', '-q', '/repo', clone], check=True)
    bad = []

    def one(job):
        pid, seed = job
        env = dict(os.environ, GEOSTRUCTURES_REPO=clone, VERIF_SEED=str(seed))
        p = subprocess.run([os.path.join(VERIF, 'check'), pid, tier], cwd=VERIF, env=env, capture_output=True, text=True)
        last = [ln for ln in (p.stdout + p.stderr).strip().split('\n') if ln][-1:]
        return pid, seed, p.returncode, (p.stdout + p.stderr)[-1500:] if p.returncode else (last[0] if last else '')
    try:
        with ThreadPoolExecutor(max_workers=jobs) as ex:
            for pid, seed, rc, out in ex.map(one, [(p, s) for s in range(lo, hi + 1) for p in ids]):
                if rc != 0:
                    bad.append((pid, seed, rc))
                    print(f'!! {pid} seed={seed} exit={rc}\n{out}', flush=True)
                else:
                    print(f'ok {pid} seed={seed} {out[-60:]}', flush=True)
    finally:
        shutil.rmtree(tmp, ignore_errors=True)
    print('non-zero exits:', bad or 'none')
    return 1 if bad else 0


if __name__ == '__main__':
    sys.exit(main())
