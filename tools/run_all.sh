#!/bin/sh
# Run every registered check (quick by default) for the given seeds; print one line per run and a summary.
# usage: tools/run_all.sh [quick|thorough] [seed ...]
cd "$(dirname "$0")/.." || exit 2
TIER="${1:-quick}"; shift
SEEDS="${*:-0}"
IDS=$(python3 -c "import json;print(' '.join(c['property_id'] for c in json.load(open('MANIFEST.json'))['checks']))")
BAD=0
for s in $SEEDS; do
  for id in $IDS; do
    OUT=$(VERIF_SEED=$s ./check "$id" "$TIER" 2>&1); RC=$?
    echo "$OUT" | grep -E "^(VIOLATION|KNOWN-FINDING|INFRA|\[C)" | sed "s/^/  /"
    if [ $RC -ne 0 ]; then BAD=$((BAD+1)); echo "  !! $id seed=$s exit=$RC"; fi
  done
done
echo "non-zero exits: $BAD"
[ $BAD -eq 0 ]
