#!/usr/bin/env python3
"""
Confirm a seeded change and run checks against it.

usage: tools/seed_eval.py <change_dir> <seed_id> <Cxx> [<Cyy> …] [--keep] [--tier quick|thorough]

<change_dir> holds patch.diff, demo.py, meta.json (written by a fresh sub-agent that saw only the property
text).  Steps, all in a scratch clone of /repo (never in /repo):
  1. demo.py exits 0 on the unchanged tree;  2. patch applies;  3. baseline unit tests still pass (296 stable);
  4. demo.py exits 1 with the change;  5. each listed check is run with GEOSTRUCTURES_REPO=<clone>: exit 1 +
  VIOLATION line = caught.
With --keep (and 1-4 confirmed) the change is stored as /verif/seeded/<seed_id>/ with the results in meta.json.
"""
import json
import os
import shutil
import subprocess
import sys
import tempfile

VERIF = os.path.dirname(os.path.dirname(os.path.abspath(__file__)))


def sh(cmd, cwd=None, env=None, timeout=3000):
    p = subprocess.run(cmd, cwd=cwd, env=env, capture_output=True, text=True, timeout=timeout, shell=isinstance(cmd, str))
    return p.returncode, (p.stdout + p.stderr)


def main():
    args = [a for a in sys.argv[1:] if not a.startswith('--')]
    keep = '--keep' in sys.argv
    tier = 'quick'
    if '--tier' in sys.argv:
        tier = sys.argv[sys.argv.index('--tier') + 1]
        args = [a for a in args if a != tier]
    cdir, sid, checks = os.path.abspath(args[0]), args[1], args[2:]
    tmp = tempfile.mkdtemp(prefix='seed_')
    clone = os.path.join(tmp, 'repo')
    res = {'seed_id': sid, 'checks': {}}
    try:
        sh(['git', 'clone', '-q', '/repo', clone])
        demo = os.path.join(cdir, 'demo.py')
        rc0, out0 = sh(['/venv/bin/python', demo], cwd=clone, timeout=600)
        res['demo_clean_exit'] = rc0
        rc, out = sh(['git', 'apply', os.path.join(cdir, 'patch.diff')], cwd=clone)
        res['patch_applies'] = rc == 0
        if rc != 0:
            res['error'] = out[-500:]
            print(json.dumps(res, indent=1))
            return 2
        rcb, outb = sh([os.path.join(VERIF, 'tools', 'baseline.sh'), clone], timeout=1800)
        res['baseline_ok'] = rcb == 0
        res['baseline_out'] = outb.strip().split('\n')[-3:]
        rc1, out1 = sh(['/venv/bin/python', demo], cwd=clone, timeout=600)
        res['demo_changed_exit'] = rc1
        res['demo_changed_out'] = out1[-400:]
        res['confirmed'] = (rc0 == 0 and rcb == 0 and rc1 != 0)
        env = dict(os.environ, GEOSTRUCTURES_REPO=clone)
        for c in checks:
            rcc, outc = sh([os.path.join(VERIF, 'check'), c, tier], cwd=VERIF, env=env, timeout=3000)
            lines = [ln for ln in outc.split('\n') if ln.startswith(('VIOLATION', 'KNOWN-FINDING', '[C', 'INFRA'))]
            res['checks'][c] = {'exit': rcc, 'caught': rcc == 1 and any(ln.startswith('VIOLATION') for ln in lines),
                                'lines': lines[:6]}
        print(json.dumps(res, indent=1))
        if keep and res['confirmed']:
            dst = os.path.join(VERIF, 'seeded', sid)
            os.makedirs(dst, exist_ok=True)
            shutil.copy(os.path.join(cdir, 'patch.diff'), dst)
            shutil.copy(demo, dst)
            meta = {}
            mp = os.path.join(cdir, 'meta.json')
            if os.path.exists(mp):
                try:
                    meta = json.load(open(mp))
                except Exception:
                    meta = {'raw': open(mp).read()}
            meta['confirmation'] = {k: res[k] for k in ('demo_clean_exit', 'demo_changed_exit', 'baseline_ok', 'baseline_out')}
            meta['ran'] = f'tools/seed_eval.py (clone of /repo + git apply patch.diff; tools/baseline.sh; demo.py; ./check <id> {tier})'
            meta['checks'] = res['checks']
            json.dump(meta, open(os.path.join(dst, 'meta.json'), 'w'), indent=1)
        return 0
    finally:
        shutil.rmtree(tmp, ignore_errors=True)


if __name__ == '__main__':
    sys.exit(main())
