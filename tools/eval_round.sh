#!/bin/sh
# Evaluate one round of seeded changes written by fresh mutator agents (tools/mutator_prompt.py <Cxx> <worktree> <round>):
# usage: tools/eval_round.sh <round-number> <id-letter> Cxx ...
#   reads /tmp/mut_Cxx/out_Cxx_r<round>/change_{1,2,3}, confirms each in a scratch clone (tools/seed_eval.py) and stores the
#   confirmed ones as seeded/Cxx-<letter>{1,2,3} with the verdict of ./check Cxx quick (source-tie escalation switched off).
cd "$(dirname "$0")/.." || exit 2
R="$1"; L="$2"; shift 2
for p in "$@"; do
  mkdir -p incoming/_mut$R; rm -rf incoming/_mut$R/out_${p}_r$R; cp -r /tmp/mut_$p/out_${p}_r$R incoming/_mut$R/ 2>/dev/null
  for i in 1 2 3; do echo "$p $i $R $L"; done
done | xargs -P 5 -L 1 sh -c 'p=$0; i=$1; R=$2; L=$3; VERIF_NO_ESCALATE=1 python3 tools/seed_eval.py incoming/_mut$R/out_${p}_r$R/change_$i $p-$L$i $p --keep > /tmp/eval_r${R}_$p-$i.out 2>&1; python3 - <<PY
import json
try:
    m=json.load(open("seeded/$p-$L$i/meta.json"))
    print("$p-$L$i", "confirmed=", m.get("confirmation",{}).get("demo_changed_exit")!=0, {k:v.get("caught") for k,v in m.get("checks",{}).items()})
except Exception as e:
    print("$p-$L$i", "NOT STORED", e)
PY'
