#!/usr/bin/env python3
"""prints the prompt for a fresh mutation-seeding sub-agent: property text + scratch worktree only"""
import json, sys
pid, wt = sys.argv[1], sys.argv[2]
rnd = int(sys.argv[3]) if len(sys.argv) > 3 else 1
import glob, os
known = []
for d in sorted(glob.glob(f'/verif/seeded/{pid}-m*')):
    try:
        known.append(json.load(open(os.path.join(d, 'meta.json'))).get('summary', '')[:260])
    except Exception:
        pass
extra = ''
if rnd > 1 and known:
    extra = ("\n\nOther engineers already produced the following changes for this property — do NOT repeat them or close variants; "
             "look for different functions, different mechanisms (stale caches, aliasing between objects, state carried across calls, "
             "two cooperating sites, evaluation-order and short-circuit effects, type/truthiness slips, off-by-one at range ends, "
             "platform/locale/timezone dependence, numeric conditioning at unusual scales or places on the globe) and different clauses "
             "of the statement:\n" + "\n".join(f"  - {k}" for k in known))
p = next(json.loads(l) for l in open('/verif/properties.jsonl') if json.loads(l)['id'] == pid)
print(f"""You are testing how well a (hidden) verification suite detects regressions in the Python library `geostructures` (ccbest/geostructures). You have your own scratch git worktree of the repository at {wt} (work ONLY there; do not look at or touch /repo or /verif). Run Python with /venv/bin/python; run the unit tests with `cd {wt} && /venv/bin/python -m pytest -q -p no:cacheprovider -x tests` (2 tests fail already at baseline: test_compile and test_geoellipse_from_covariance_matrix; nothing else may newly fail; pytest run from the worktree imports the worktree's copy).

Here is one semantic property that the library is supposed to satisfy:

id: {p['id']}
title: {p['title']}
statement: {p['statement']}
quantified over: {p['quantifier']['text']}
why unit tests cannot settle it: {p['why_tests_cant']}
code anchors: {json.dumps(p['anchors']['files'])}; mechanisms: {json.dumps(p['anchors']['mechanism'])}

{extra}

Task: produce THREE independent, realistic source changes (bugs a developer could plausibly introduce while refactoring or optimising: off-by-one, wrong comparison operator, swapped arguments, dropped/added branch, wrong default, stale cache, aliasing, wrong order of operations, mishandled degenerate case …) each of which
  (a) BREAKS the property above,
  (b) still compiles/imports and keeps the existing unit-test suite passing exactly as at baseline, and
  (c) needs something SPECIFIC to manifest — an unusual or degenerate input, a particular relative placement, a multi-step sequence of operations, two cooperating sites that each look fine alone — not something ordinary use would expose at once. Make the three changes different in kind and in location (different functions where possible). Keep each change small (1–10 lines).

For each change i in 1..3 write, under {wt}/../out_{pid}_r{rnd}/change_i/ :
  - patch.diff      : `git diff` of that change alone against the worktree HEAD (apply it, save the diff, then `git checkout -- .` before starting the next one)
  - demo.py         : a small standalone program (run as `/venv/bin/python demo.py` with cwd = the repository root so that it imports that tree's geostructures; insert `import sys; sys.path.insert(0, '.')` at the top) that exits 0 on the UNCHANGED tree and exits 1 (printing what went wrong) when the change is applied — it must demonstrate a violation of the property statement itself, not merely that the code differs
  - meta.json       : {{"property": "{pid}", "summary": "...", "needs": "what specific input/sequence is needed for it to manifest", "files": [...], "tests_pass": true}}
Verify (a), (b), (c) yourself for each change: run the unit tests with the change applied, run demo.py with and without it. Never use `git stash` (the stash is shared between worktrees of one repository and other agents work in sibling worktrees): save each patch to a file and use `git apply` / `git apply -R` / `git checkout -- .` instead. Leave the worktree clean (`git checkout -- .`) when done. Final answer: a 5-line summary of the three changes.""")
