#!/usr/bin/env python3
"""Replace the two generated tables of DESIGN.md (§6.00 as-built, §9.5 seeded changes) by the current output of
tools/asbuilt_table.py (from evidence/*.json) and tools/seeded_table.py (from seeded/*/meta.json)."""
import os
import re
import subprocess

VERIF = os.path.dirname(os.path.dirname(os.path.abspath(__file__)))
p = os.path.join(VERIF, 'DESIGN.md')
s = open(p).read()


def table_after(s, header_prefix, new_table):
    i = s.index(header_prefix)
    j = i
    lines = s[i:].split('\n')
    n = 0
    while n < len(lines) and lines[n].startswith('|'):
        n += 1
    old = '\n'.join(lines[:n])
    return s[:i] + new_table.rstrip('\n') + s[i + len(old):]


asb = subprocess.run(['python3', os.path.join(VERIF, 'tools', 'asbuilt_table.py')], capture_output=True, text=True, check=True).stdout
sd = subprocess.run(['python3', os.path.join(VERIF, 'tools', 'seeded_table.py')], capture_output=True, text=True, check=True).stdout
s = table_after(s, '| prop | Lean modules with the theorems |', asb)
s = table_after(s, '| seed | property | change | result of `./check` on the changed tree |', sd)
open(p, 'w').write(s)
print('tables updated:', asb.count('\n') - 2, 'properties,', sd.count('\n') - 2, 'seeded changes')
