#!/bin/sh
# Runs the repository's pinned baseline (guard off) and compares with BASELINE.json stable_pass.
# usage: tools_baseline.sh [repo_dir]
REPO_DIR="${1:-/repo}"
OUT="$(mktemp /tmp/junit.XXXXXX.xml)"
cd "$REPO_DIR" && /venv/bin/python -m pytest -ra -q -p no:cacheprovider --timeout=900 --continue-on-collection-errors --junitxml="$OUT" >/dev/null 2>&1
/venv/bin/python - "$OUT" <<'PY'
import json, sys, xml.etree.ElementTree as ET
base = json.load(open('/root/.vp/BASELINE.json'))
want = set(base['stable_pass'])
passed = set()
for tc in ET.parse(sys.argv[1]).getroot().iter('testcase'):
    name = tc.get('classname') + '::' + tc.get('name')
    if not any(ch.tag in ('failure', 'error', 'skipped') for ch in tc):
        passed.add(name)
missing = sorted(want - passed)
print(f'baseline: {len(want & passed)}/{len(want)} stable tests pass; extra passing: {sorted(passed - want)}')
for m in missing:
    print('  NOW FAILING:', m)
sys.exit(1 if missing else 0)
PY
RC=$?
rm -f "$OUT"
exit $RC
