#!/bin/sh
# Re-introduce one repaired defect (revert a "fix:" commit) in a scratch clone and run a check on it.
# usage: tools/revert_test.sh <fix-commit> <Cxx> [quick|thorough]   -> prints the check output; exit code of the check
HERE="$(cd "$(dirname "$0")/.." && pwd)"
C="$1"; P="$2"; T="${3:-quick}"
D="$(mktemp -d /tmp/rv.XXXXXX)"
git clone -q /repo "$D/repo" || exit 2
( cd "$D/repo" && git -c user.email=x@x -c user.name=x revert --no-edit "$C" >/dev/null 2>&1 ) || {
  ( cd "$D/repo" && git revert --abort >/dev/null 2>&1; git show "$C" | git apply -R ) || { echo "cannot revert $C"; rm -rf "$D"; exit 2; }
}
cd "$HERE" && GEOSTRUCTURES_REPO="$D/repo" ./check "$P" "$T"
RC=$?
rm -rf "$D"
exit $RC
