#!/usr/bin/env python3
"""
Regression of detection: run every stored seeded change (seeded/<id>/patch.diff) against the check of its property
(quick tier) in a scratch clone, and record the verdict in seeded/<id>/meta.json["checks"].

usage: tools/seed_sweep.py [-j N] [<id-prefix> …]        e.g. tools/seed_sweep.py -j 6 C17 C18
Properties run in parallel (one worker per property, its seeds sequentially — they share evidence/_scratch/<Cxx>.json).
A patch that no longer applies to /repo HEAD is reported as `stale-patch`.
"""
import json
import os
import shutil
import subprocess
import sys
import tempfile
from concurrent.futures import ThreadPoolExecutor

VERIF = os.path.dirname(os.path.dirname(os.path.abspath(__file__)))


def run_one(sid):
    d = os.path.join(VERIF, 'seeded', sid)
    meta = json.load(open(os.path.join(d, 'meta.json')))
    prop = meta.get('property') or sid.split('-')[0]
    tmp = tempfile.mkdtemp(prefix='sweep_')
    clone = os.path.join(tmp, 'repo')
    try:
        subprocess.run(['git', 'clone', '-q', '/repo', clone], check=True)
        p = subprocess.run(['git', 'apply', os.path.join(d, 'patch.diff')], cwd=clone, capture_output=True, text=True)
        if p.returncode != 0:
            return sid, prop, {'exit': None, 'caught': False, 'lines': ['stale-patch: ' + p.stderr.strip()[:200]]}
        env = dict(os.environ, GEOSTRUCTURES_REPO=clone, VERIF_NO_ESCALATE='1')   # quick-size streams alone: a lower bound
        c = subprocess.run([os.path.join(VERIF, 'check'), prop, 'quick'], cwd=VERIF, env=env, capture_output=True, text=True,
                           timeout=3000)
        lines = [ln for ln in (c.stdout + c.stderr).split('\n') if ln.startswith(('VIOLATION', '[C', 'INFRA'))]
        lines.sort(key=lambda ln: 0 if ln.startswith('VIOLATION') else 1)
        return sid, prop, {'exit': c.returncode, 'caught': c.returncode == 1 and any(ln.startswith('VIOLATION') for ln in lines),
                           'lines': lines[:4]}
    finally:
        shutil.rmtree(tmp, ignore_errors=True)


def main():
    args = sys.argv[1:]
    jobs = 4
    if '-j' in args:
        i = args.index('-j')
        jobs = int(args[i + 1])
        del args[i:i + 2]
    ids = sorted(x for x in os.listdir(os.path.join(VERIF, 'seeded')) if os.path.isdir(os.path.join(VERIF, 'seeded', x)))
    if args:
        ids = [x for x in ids if any(x.startswith(a) for a in args)]
    by_prop = {}
    for sid in ids:
        by_prop.setdefault(sid.split('-')[0], []).append(sid)

    def worker(prop):
        out = []
        for sid in by_prop[prop]:
            try:
                out.append(run_one(sid))
            except Exception as e:  # noqa
                out.append((sid, prop, {'exit': None, 'caught': False, 'lines': ['sweep error: ' + str(e)[:200]]}))
        return out
    missed = []
    with ThreadPoolExecutor(max_workers=jobs) as ex:
        for res in ex.map(worker, sorted(by_prop)):
            for sid, prop, verdict in res:
                mp = os.path.join(VERIF, 'seeded', sid, 'meta.json')
                meta = json.load(open(mp))
                meta.setdefault('checks', {})[prop] = verdict
                json.dump(meta, open(mp, 'w'), indent=1)
                print(f'{sid:8s} {prop} exit={verdict["exit"]} caught={verdict["caught"]} {verdict["lines"][:1]}', flush=True)
                if not verdict['caught']:
                    missed.append(sid)
    print('not caught:', missed or 'none')
    return 1 if missed else 0


if __name__ == '__main__':
    sys.exit(main())
