#!/usr/bin/env python3
"""Merge an agent delivery from incoming/<name>/ into /verif (files only; Main.lean dispatch lines are added from the
delivered Main.lean; extract.py / known_findings.txt are merged by hand)."""
import os, re, shutil, sys
V = os.path.dirname(os.path.dirname(os.path.abspath(__file__)))
name = sys.argv[1]
src = os.path.join(V, 'incoming', name)
SKIP = {'lean/GeoVerif/Drv/Main.lean', 'harness/extract.py', 'known_findings.txt', 'REPORT.md', 'harness/common.py',
        'harness/main.py', 'MANIFEST.json', 'DESIGN.md', 'check', 'lean/lakefile.toml', 'lean/lake-manifest.json',
        'lean/GeoVerif/Model/Coord.lean', 'lean/GeoVerif/Model/Plane.lean', 'lean/GeoVerif/Model/Time.lean'}
copied = []
for root, dirs, files in os.walk(src):
    for f in files:
        p = os.path.join(root, f)
        rel = os.path.relpath(p, src)
        if rel in SKIP or rel.startswith(('fixes/', 'evidence/', 'notes/')) or '__pycache__' in rel or '.lake' in rel:
            if rel in SKIP and rel not in ('REPORT.md',) and rel not in ('lean/GeoVerif/Drv/Main.lean',):
                print('  (skipped, merge by hand if needed):', rel)
            continue
        dst = os.path.join(V, rel)
        os.makedirs(os.path.dirname(dst), exist_ok=True)
        if os.path.exists(dst) and open(dst, 'rb').read() == open(p, 'rb').read():
            continue
        shutil.copy(p, dst)
        copied.append(rel)
print('copied:', *copied, sep='\n  ')
# dispatch lines
mp = os.path.join(src, 'lean/GeoVerif/Drv/Main.lean')
if os.path.exists(mp):
    theirs = open(mp).read()
    main = os.path.join(V, 'lean/GeoVerif/Drv/Main.lean')
    ours = open(main).read()
    for imp in re.findall(r'^import GeoVerif\.Drv\.\S+$', theirs, flags=re.M):
        if imp not in ours:
            ours = ours.replace('import GeoVerif.Drv.C06\n', 'import GeoVerif.Drv.C06\n' + imp + '\n')
            print('  + ', imp)
    for d in re.findall(r'^    \| \["\w+", op\] => .*$', theirs, flags=re.M):
        if d not in ours:
            ours = ours.replace('    | _ => "bad-op"\n\npartial def loop', d + '\n    | _ => "bad-op"\n\npartial def loop')
            print('  + ', d.strip())
    open(main, 'w').write(ours)
