#!/usr/bin/env python3
"""Regenerates MANIFEST.json from the table below (keeps the interface file consistent)."""
import json
import os

HERE = os.path.dirname(os.path.dirname(os.path.abspath(__file__)))

CHECKS = {
    'C06': dict(
        text='Lean 4 theorems: every TimeInterval operator of the model equals the dense-time set model '
             '[start,end) / {start} for all intervals and instants (membership, subset, superset, disjoint, '
             'intersects, intersection, union hull + minimality, antisymmetry, eq=>hash, constructor). The model is '
             'tied to time.py by an exhaustive correspondence over every relative placement of two intervals on a '
             'tick line plus random microsecond/timezone cases.',
        note='Trusted: Lean kernel + Mathlib; datetime arithmetic of CPython modelled as exact integers (microseconds); '
             'naive/aware handling is part of the harness abstraction and exercised by the random stream.',
        technique='Lean 4 proof (model = set spec) + exhaustive/random differential correspondence model vs time.py',
        design='§6 C06'),
}

PENDING = {}


def main():
    props = [json.loads(l) for l in open(os.path.join(HERE, 'properties.jsonl'))]
    checks = []
    na = []
    for p in props:
        pid = p['id']
        if pid in CHECKS:
            c = CHECKS[pid]
            checks.append({
                'property_id': pid,
                'quick_cmd': f'./check {pid} quick',
                'thorough_cmd': f'./check {pid} thorough',
                'evidence_file': f'evidence/{pid}.json',
                'replay_cmd_template': f'./check {pid} --replay {{path}}',
                'engine': 'geoverif-lean',
                'level_claimed': {'category': 'proof', 'text': c['text'], 'design_ref': c['design']},
                'level_note': c['note'],
                'technique': c['technique'],
            })
        else:
            na.append({'property_id': pid,
                       'reason': PENDING.get(pid, 'not claimed yet: the Lean model and check for this property are still being built (see DESIGN.md §6)')})
    m = {
        'version': 1,
        'setup_cmd': 'cd lean && lake build && cd .. && /venv/bin/python -m compileall -q harness',
        'hooks': {
            'guard': 'GEOSTRUCTURES_VERIF',
            'enable': 'no hooks are needed: every observation point is public API (random choices of Welzl are controlled by patching random in the harness process)',
            'baseline_off_cmd': './tools/baseline.sh /repo',
            'source_commits': [],
            'add_only': True,
        },
        'engines': [{
            'name': 'geoverif-lean', 'path': 'lean/',
            'serves_properties': sorted(CHECKS),
            'kind_free_text': 'Lean 4 models (GeoVerif/Model), property theorems (GeoVerif/Props), line-protocol driver '
                              '(Driver.lean) and Python correspondence harness (harness/) run against the live /repo',
        }],
        'checks': checks,
        'notes': 'See DESIGN.md. Each check: regenerate data tables from /repo, lake build of the property theorems, '
                 '#print axioms audit, differential correspondence model vs implementation, property oracle on the '
                 'implementation (failing-input search), known findings from known_findings.txt.',
        'not_applicable': na,
    }
    with open(os.path.join(HERE, 'MANIFEST.json'), 'w') as f:
        json.dump(m, f, indent=1)
    print(f'{len(checks)} checks, {len(na)} not claimed')


if __name__ == '__main__':
    main()
