#!/usr/bin/env python3
"""Regenerates MANIFEST.json from the table below (keeps the interface file consistent)."""
import json
import os

HERE = os.path.dirname(os.path.dirname(os.path.abspath(__file__)))

CHECKS = {
    'C01': dict(
        text='Lean 4 theorems over exact rationals, for rings of any length and every query: the ring test of the model equals '
             '"on no edge and odd half-open crossing count" (insideEO), a boundary point is not contained, the answer depends only '
             'on the multiset of undirected edges (start-vertex and winding independence, also through the constructor '
             'normalisation), the bounding-box prefilter never changes the answer (closed-walk parity), polygon-with-holes and box '
             'membership are the stated set expressions, and on rectangles insideEO is elementary insideness. Tied to '
             'structures.py by exhaustive small-grid rings x half-step queries x all rotations/reversals, holes, boxes, random rings.',
        note='Trusted: Lean kernel + Mathlib; Jordan link (even-odd parity = topological inside) proved for strictly convex rings and triangles (Props/C01Convex); for every ring the answer is proved constant along polylines avoiding the ring and False for anything so joined to a point beyond the bounding box (Props/C01Parity); the converse half (only two components) is assumed and '
             'validated against an independent winding-number oracle; rational model vs binary64 code compared on dyadic grids only; '
             'antimeridian-spanning shapes excluded by the statement.',
        technique='Lean 4 proof (model = even-odd spec, invariance lemmas) + source translator (_point_in_polygon regenerated as Lean from the current text and proved equal to the model) + exhaustive/random differential correspondence vs GeoPolygon/GeoBox',
        design='§6 C01'),
    'C02': dict(
        text='Lean 4 theorems over exact rationals: find_line_intersection finds a point iff the segments are non-parallel and share a '
             'point (and the point lies on both); the latitude sweep returns True iff some edge pair properly crosses, for ALL edge '
             'lists (duplicates, horizontal edges, edges ending where another starts), hence is symmetric and independent of edge '
             'order/direction; at shape level intersects_shape is symmetric, containment implies intersection, neither raises for '
             'valid shapes, linestring containment is the contiguous-sub-sequence relation, and time bounds are never read. Tied to '
             'the code by segment pairs (3x3 grid), raw sweeps, and random + relational shape pairs in both orders with time bounds.',
        note='Trusted: Lean kernel + Mathlib; the step from edge crossings + first-vertex containment to closed-set truth for simple '
             'polygons is the Jordan argument (proved outright for all pairs of axis-parallel rectangles, Props/C02Box; otherwise assumed; every generated pair is also judged by an exact Fraction set-truth oracle); '
             'collinear-only boundary overlap is documented as unspecified; 1e-10 rounding inert on the dyadic grids used.',
        technique='Lean 4 proof (segment geometry, sweep invariant, relation laws) + source translator (PolygonBase.contains_shape / intersects_shape per argument kind, find_line_intersection and the sweep do_edges_intersect regenerated as Lean and proved equal to the model) + differential correspondence + exact set-truth oracle',
        design='§6 C02'),
    'C04': dict(
        text='Lean 4 theorems over a model of the member loops that is parametric in the member-level relations: for all member lists and '
             'all relations, contains_coordinate / intersects_shape / contains_shape of a multi-shape (as receiver or argument, against a '
             'single or multi counterpart) equal the any / any-any / all-any / all forms of the statement and are invariant under member '
             'permutation; bounds are the smallest box enclosing the member boxes with every side attained; split returns the members in '
             'order with the parent dt and property dictionaries that are fresh objects with the parent content (heap model; isolation '
             'under set_property proved).',
        note='Trusted: Lean kernel + Mathlib. The member-level truth table is measured on the implementation own single-shape methods '
             '(whose correctness is C01/C02); dict.copy/deepcopy modelled as allocation, identity observed with id(). Tied to the code by '
             'correspondence over every 0/1 relation mask of 1-4 members, all member orders, every shape kind as counterpart, exact '
             'bounds and split scenarios.',
        technique='Lean 4 proof (loops = any/all spec, permutation invariance, heap-model split) + source translator (MultiShapeBase member loops, bounds and split regenerated as Lean and proved equal to the model; composed with the translated time gates) + exhaustive/random differential correspondence against real multi-shapes',
        design='§6 C04'),
    'C05': dict(
        text='Lean 4 theorems for every assignment of time bounds and every spatial relation: intersects / contains / `in` equal temporal && '
             'spatial when both shapes are time-bounded and the spatial test alone otherwise; the temporal conjunct is non-empty '
             'intersection resp. inclusion of the C06 instant sets; contains_time / intersects_time delegate (no dt gives False); a '
             'datetime passed to the constructor or set_dt yields exactly the zero-length interval at its instant, naive means UTC, '
             'offsets are irrelevant, constructor and set_dt agree, neither raises.',
        note='Trusted: Lean kernel + Mathlib. CPython datetime semantics enter through the abstraction datetime -> (wall microseconds, offset). '
             'The spatial sub-answer is measured on dt-stripped copies (its time-freeness is C02). Correspondence covers all 100 ordered '
             'kind pairs, every spatial class, every order type of two intervals/instants, all construction routes and datetime '
             'representations, in a process whose local zone is not UTC.',
        technique='Lean 4 proof (gates = conjunction, linked to the C06 set semantics; histories of in-place updates) + source translator (the space-time gates of _base.py regenerated as Lean and proved equal to the model) + exhaustive/random differential correspondence + 6-way indistinguishability observation',
        design='§6 C05'),
    'C10': dict(
        text='Lean 4 theorems about an executable model of the monotone chain over exact rationals: for every finite point list the result is '
             'closed, consists of input points, contains all inputs, repeats no vertex, depends only on the set of inputs (permutation / '
             'multiplicity invariance, sorted(set(..)) canonical), handles 0/1/2/collinear inputs exactly, turns strictly left at every '
             'vertex including both junctions, passes the code own orientation test (so the GeoPolygon constructor keeps it), and is THE '
             'hull: uniqueness is proved (also modulo the start vertex). The wrappers vertex collection is modelled and proved '
             'order-independent and member-containing.',
        note='Trusted: Lean kernel + Mathlib + the hand-written model, tied to _geometry.py, multistructures.py, collections.py and '
             'GeoPolygon.__init__ by correspondence on dyadic inputs where float and rational arithmetic agree; CPython set/sorted '
             'semantics trusted (set iteration order proved irrelevant). Outside the claim: float rounding on near-collinear non-dyadic '
             'inputs, Z-only differences, wrapper inputs spanning more than 180 degrees of longitude, generated outlines of curved members.',
        technique='Lean 4 proof (stack invariant, reflection, junction lemmas, shoelace telescoping, gift-wrapping uniqueness) + source translator (convex_hull with its nested while loops, the cross product, the polygon constructor and the multi-shape wrappers regenerated as Lean and proved equal to the model) + exhaustive/random differential correspondence through convex_hull and all five wrappers + independent exact oracle',
        design='§6 C10'),
    'C14': dict(
        text='Lean 4 theorems over a hand-written model of to_geojson / from_geojson / parse_geojson / collection import-export, for every '
             'shape kind, every k, all documents: export->import returns the polygon form with the same time bounds and properties '
             '(roundtrip, collection_roundtrip, track_roundtrip); importing never changes the caller document, twice gives the same result, '
             'a later set_property is isolated (import_pure, import_twice_equal, later_mutation_isolated, with a proved counter-witness for '
             'the pre-fix code); exported rings are closed, exterior counter-clockwise and holes clockwise for vertex-defined shapes, '
             'positions are [lon, lat(, z)] with Z = 0 kept, the result is JSON-native, time bounds and user properties sit under '
             'properties and the caller override wins; dispatch and ValueError on wrong/missing geometry. Tied to the code by 16 '
             'differential streams (exhaustive small worlds + seeded random) on canonical exact JSON.',
        note='Trusted: Lean kernel + Mathlib; datetime.isoformat/fromisoformat and str.upper enter as the explicit, proved-consistent assumption '
             'Rt.Lawful; json.dumps/loads exercised, not modelled; curved outlines enter as the vertex lists the implementation draws (C03) - '
             'their closure/orientation is judged exactly on the emitted floats, not proved; rings crossing the antimeridian and M values '
             'are outside; zero-area holes are the stated excluded class; the multi-polygon round trip is proved for non-GeoRing members.',
        technique='Lean 4 proof (export/import model with the document-after-the-call explicit; dict algebra, shoelace identity, induction over members) + source translator (ring orientation, to_geo_interface of all kinds, to_geojson with its time fields and the six from_geojson importers regenerated as Lean and proved equal to the model; source-to-source round trip) + differential correspondence + independent RFC 7946 / == oracles',
        design='§6 C14'),
    'C17': dict(
        text='Lean 4 theorems over an executable model of Track. The ordering invariant track_sorted holds for every input list and every '
             'operation history (add, the five filters, slice, convolve, journeys, filter_by_time; failing operations included), by '
             'induction over the op list. slice_exact: a slice equals the filter a? <= start and end < b? with an omitted bound meaning '
             'unbounded. journeys_spec: the first shape is kept and each later shape is kept iff it is reachable from the previously kept '
             'one. convolve_nodup / convolve_members: one shape per distinct timestamp over the same timestamps. Stability and rejection of '
             'time-less shapes are proved. Tied to collections.py by exhaustive small worlds (all orders, all slice bounds, all pairwise '
             'speeds) and by random tracks and histories compared after every step.',
        note='Centroid distances are parameters measured on the implementation; speeds are compared exactly and limits generated only where '
             'float and exact comparison agree (NaN not modelled); for filter_by_time only order and class preservation are claimed. '
             'Trusted: Lean kernel, Mathlib, CPython datetime and float semantics, the harness abstraction.',
        technique='Lean 4 proof (invariant by induction over operation lists; loop refinement to structural recursion) + source translator (Track.__init__, __getitem__, has_duplicate_timestamps, convolve_duplicate_timestamps, filter_by_time, filter_impossible_journeys and the derived views regenerated as Lean and proved equal to the model) + exhaustive/random differential correspondence against Track + independent Python spec',
        design='§6 C17'),
    'C18': dict(
        text='Lean 4 theorems for every per-shape predicate and both collection classes. Each filter equals List.filter p re-wrapped in the '
             'receiver class: exact members, original order, multiplicity preserved, KeyError iff a member lacks the key, a datetime argument '
             'means dt equals the instant. Bounds are the least box enclosing all member boxes (ValueError on an empty collection). The hull '
             'wrapper hands over every member vertex, flattening multi-shapes. len / iter / bool / in / + / [] are the underlying list ones '
             '(negative indexes, slices, IndexError). Correspondence on random FeatureCollections and Tracks of 0-12 mixed shapes x every '
             'operation, predicate tables measured in both argument orders, non-mutation checked by deep snapshots around every call.',
        note='Per-shape predicates, bounds, vertices and == classes are taken as measured (they are the business of C01-C05, C09, C15). The '
             'hull contains member vertices claim is C10 theorem, additionally checked end-to-end here with exact arithmetic. Purity is '
             'structural in the model and tested on the implementation.',
        technique='Lean 4 proof (model = List.filter spec; order-theoretic characterisation of bounds) + source translator (collection filters, intersects and the list protocol regenerated as Lean and proved equal to the model) + random/exhaustive differential correspondence + independent list-comprehension spec',
        design='§6 C18'),
    'C20': dict(
        text='PARTIAL claim. Lean 4 theorems about this repository own logic on our side of the three library boundaries (pyshp, '
             'geopandas/shapely, fastkml): groupByFamily is stable and a permutation; the write-reversal of rings followed by the constructor '
             'normalisation restores equal polygons, holes included; Z/M lists read front to back land on the vertices they were written '
             'from; time bounds survive the two string fields / KML time stamps; field typing is total and type-compatible; and the composed '
             'shp / gpd / kml round-trip theorems hold UNDER explicit channel contracts for the libraries. Adapter streams exercise our '
             'code against the model with the library replaced by a recording stand-in; the contracts and the end-to-end statement are '
             'tested against the real libraries.',
        note='The libraries are not modelled: their behaviour enters the composed theorems as hypotheses (channel contracts) that are only '
             'tested (np-contract-* streams), and the end-to-end statement is judged by np-e2e-* streams. Eight documented deviations of the '
             'real round trips are known findings. Generator restrictions (dbf key/length limits, no M end to end, holes inside shells, '
             'parts disjoint) are stated in the evidence.',
        technique='Lean 4 proof (adapter logic + round trip under channel contracts) + source translator (to_shapefile, from_shapefile, to_geopandas, from_geopandas and the KML exporters regenerated as Lean over tagged values, third-party calls read as appends to the channel records, and proved equal to the model adapters) + differential correspondence with recording stand-ins + contract/end-to-end tests on the real libraries',
        design='§6 C20'),
    'C03': dict(
        text='Lean 4 theorems (real-number instance of the formulas executed as binary64): every un-rounded vertex generated for circles, '
             'ellipses, rings and wedges lies on the defined curve (haversine distance = radius / radius_at_angle / inner, outer) in the '
             'scheduled direction, for every k; the schedule is strictly decreasing (counter-clockwise) and the rings are closed; '
             '_radius_at_angle is the polar ellipse between the semi-axes; the membership tests are the stated inequalities with holes removed.',
        note='The 1e-7 degree rounding / 2 cm figure and "the polygon form encloses what the analytic test accepts outside the chord error" are '
             'validated numerically only (exact even-odd test on the generated ring vs an independent oracle); contains_* is judged outside a '
             '1e-6 relative boundary band. Every implementation vertex must be a correct 1e-7 degree rounding of the model un-rounded vertex.',
        technique='Lean 4 proof over a generic numeric class (real instance for proofs, Float instance in the driver) + source translator (the analytic membership tests of circle, ellipse and ring regenerated as Lean over the same numeric class and proved equal to the model) + differential correspondence + independent geodesic oracle',
        design='§6 C03'),
    'C07': dict(
        text='Lean 4 theorems over the real-number instance of the very formulas that are executed (as binary64) against calc.py: haversine is '
             'symmetric, zero on identical points, within [0, pi R], blind to antimeridian un-wrapping and to common longitude shifts incl. '
             're-wrapping, and equals R arccos of the unit-vector dot product (= dist_xyz_meters); the bearing lies in [0,360) for any '
             'rounding; the un-rounded destination is at haversine distance exactly d and its bearing is the requested heading mod 360; '
             'degree and radian entry coincide; rotation preserves planar distance and composes additively. R = 6 371 000 is regenerated '
             'from _const.py and re-proved.',
        note='Float rounding and the 2 cm figure are measured, not proved (correspondence is bit-level up to 1e-9; oracle = unit-vector rotation / '
             'atan2 of cross and dot norms, independent of the haversine formulas). Known finding: within 1 m of the poles the 2 cm clause fails.',
        technique='Lean 4 proof over a generic numeric class (real instance for proofs, Float instance in the driver) + source translator (the haversine, bearing and destination formulas of calc.py regenerated as Lean, operation by operation, over the same numeric class and proved equal to the model) + differential correspondence on structured cases + independent geodesic oracle',
        design='§6 C07'),
    'C09': dict(
        text='Lean 4 theorems: vertex bounds are the min/max box (every vertex inside, each side attained), multi-shape/collection bounds are the '
             'min/max box of all members vertices, the rectangle built from in-range bounds has exactly those bounds; centroid + farthest-vertex '
             'circles enclose every listed vertex for any distance function; ellipse/ring/circle circles enclose every generated vertex; the box '
             'circle passes through its northern corners (partial, F09a known). Welzl: for every sequence of random draws the result is the '
             'trivial circle of <= 3 input points; conditional on an abstractly stated Welzl lemma it is draw-independent and enclosing.',
        note='Welzl lemma on the sphere, minimality and seed-independence are validated numerically (brute-force 2-/3-point search, all seeds 0..63 / '
             '0..1023, random draws recorded and replayed through the model); the 1 % clause against a dense-sampling oracle. Known findings: '
             'GeoBox circle (F09a), wedge bounds across the antimeridian (F09c).',
        technique='Lean 4 proof (exact rational bounds; real circles; induction over the Welzl recursion with an explicit choice sequence) + source translator (the bounds and circumscribing_rectangle methods of vertex-defined shapes, multi-shapes and collections regenerated as Lean and proved equal to the model) + exact/float differential correspondence + independent oracles',
        design='§6 C09'),
    'C11': dict(
        text='Lean 4 theorems over a model of _decode_niemeyer / _coord_to_niemeyer / _get_niemeyer_subhashes / niemeyer_to_geobox / _get_surrounding: '
             'for bases 16/32/64 and every coordinate, length and hash - length, alphabet, decoded cell contains the coordinate, prefix hierarchy, '
             'centre/interior re-encoding, children tile the parent (count, inside, cover, disjoint), foreign characters rejected, neighbours are '
             'the adjacent grid cells, binary64 exactness of the bisection; the tables are regenerated from the live module on every run and the '
             'table theorems re-checked by the kernel (decide +kernel). The cell-to-box clause is partial (east edge < 180) with a proved '
             'counter-witness (F11a, known finding).',
        note='Trusted: Lean kernel + Mathlib, the hand-written model tied to geohash.py by exhaustive correspondence to depth 3/2(3)/2 and ~1e5 (1e6 '
             'thorough) random lines; Coordinate normalisation is the C08 model; float arithmetic is modelled by exact rationals (justified by '
             'float_exact_bound).',
        technique='Lean 4 proof (codec laws over generated tables) + translator for the tables + source translator (the Niemeyer encoder, decoder, sub-hashes, cell box and neighbours regenerated as Lean from the current text and proved equal to the model) + exhaustive/random differential correspondence + closed-form Fraction oracle',
        design='§6 C11'),
    'C12': dict(
        text='Lean 4 theorems over the work-list loop with an arbitrary pop schedule: result = reachable set (order independent), sound, complete for '
             'neighbour-connected touched sets, closed, terminating on every finite grid (instantiated for the geohash grid); multi = union; '
             'on the integer lattice of a rational grid the connectivity and finiteness hypotheses are proved for axis-parallel rectangles, '
             'segments of any slope and polylines, giving the unconditional statement flood = exactly the cells whose closed box meets the shape '
             '(Props/C12Lattice: rect_flood_exact, seg_flood_exact, polyline_flood_exact), and for the filled even-odd region of every ring '
             '(Props/C12Filled: crossing parity constant along axis-parallel segments that avoid the edges, ring_filled_flood_exact); '
             'hash_collection = aggregation of exactly the shapes containing each cell, in order. Tied to NiemeyerHasher by measuring touches / '
             '_get_surrounding per shape, flooding them in the model and comparing with hash_shape; an exact integer-grid oracle independently '
             'checks that the cells are exactly those the shape touches.',
        note='Not proved: that the float per-cell predicate intersects_shape equals the exact one (C02 tie); curved shapes are claimed for their polygon form, '
             'the analytic sliver is known finding F12b; H3 clauses are glue checks against the h3 library (np- streams).',
        technique='Lean 4 proof (invariant/refinement of the flood fill, termination measure, dict semantics) + source translator (the work-list loops of NiemeyerHasher, hash_shape, hash_coordinates and hash_collection regenerated as Lean and proved equal to the model) + measured-table correspondence + exact geometric oracle',
        design='§6 C12'),
    'C15': dict(
        text='Lean 4 theorems over an executable model of every __eq__/__hash__ (rotation loop, hole edge sets, set-based multi equality computed '
             'through member hashes, NotImplemented fall-through): equality is an equivalence relation for every kind, equal shapes have equal hash '
             'keys, polygons and hole rings rewritten from any vertex or winding and permuted multi-shapes are equal, shapes differing in any '
             'defining field, hole list or dt are unequal; a heap model of copy()/pickle proves equal fields and isolation for all mutator '
             'sequences. Tied to the code by exhaustive small worlds (all kinds x fields, all rewrites of small outlines and hole rings, all '
             'member permutations <= 4), seeded random pairs through ==, !=, hash, set and dict, and copy/pickle x every mutator.',
        note='Trusted: Lean kernel and Mathlib; floats as exact rationals (no NaN); dyadic grids so the orientation test is exact; CPython hash is a '
             'function of value and a frozenset hash a function of the multiset of element hashes; vertices of curved holes and wedge centroids '
             'enter as data; hole objects shared by copy() are treated as immutable values (I8).',
        technique='Lean 4 proof (equivalence, eq => hash, frame/separation invariants over a heap) + source translator (every __eq__ / __hash__ of the coordinate, shape and multi-shape classes regenerated as Lean and proved equal to the model) + exhaustive/random differential correspondence + independent canonical-form oracle',
        design='§6 C15'),
    'C16': dict(
        text='Lean 4 theorems over a state machine (heap of property/hole/vertex cells, memo slots stamped with their inputs, reads, the four API '
             'mutators in both inplace modes): for every history every observation of the live shape, memoised ones and volume included, equals '
             'that of a freshly constructed shape with the same fields; reads change nothing on receiver or argument and repeat their answers; '
             'inplace=False leaves the original untouched and returns what the in-place call would produce; the mutators refine a value-level '
             'spec. Tied to the code by systematic and random histories on all ten kinds, with the full observation vector compared after every '
             'step against model, spec and a fresh twin.',
        note='The theorems hold for every memoisation table; the driver table is tied for argument-free reads. Derived observations are compared with '
             'a fresh twin and raw-vertex bounds, not recomputed; volume is recomputed bit-exactly. Direct hole/vertex-list manipulation is '
             'outside the histories.',
        technique='Lean 4 proof (invariant by induction over histories, refinement to field values) + source translator (set_dt, buffer_dt, strip_dt, set_property and the observations they feed regenerated as Lean over a heap of object records and proved equal to the model step) + differential correspondence over operation histories with a watchdog',
        design='§6 C16'),
    'C08': dict(
        text='Lean 4 theorems over exact rationals for all inputs (no magnitude bound): both constructor loops terminate within their computed '
             'fuel, leaving lon in [-180,180) and lat in [-90,90]; normalisation is the identity on that range and idempotent; over the reals '
             'every loop step, and so the whole normalisation, preserves the unit vector (same point on the sphere); == is an equivalence that '
             'ignores M and implies equal hash keys; Z survives construction and export (incl. 0.0); _from_xyz after xyz is the identity away '
             'from the poles (antimeridian fold and poles treated separately). Tied to coordinates.py bit-exactly with an independent closed-form oracle.',
        note='For |x| <= 1e5 the float loops are exact, so the float program is the rational program (checked bit-exactly); the one rounding step '
             '(lon +-180 of a longitude off the 2^-45 grid) is compared within one ulp of 180 in a separate stream; xyz theorems are over the '
             'reals, libm error is only measured; NaN/inf are excluded (the loops do not terminate there).',
        technique='Lean 4 proof (termination measure, invariants, real trigonometric identities) + source translator (Coordinate.__init__ with its two while loops regenerated as fuelled recursions and proved equal to the model) + bit-exact differential correspondence + exact-fraction oracle',
        design='§6 C08'),
    'C19': dict(
        text='Lean 4 theorems over an exact-arithmetic model of to_dms / from_dms / to_qdms / from_qdms (partial for the external formats): DMS round '
             'trip <= 0.000005 arc-second and hemisphere letters equal the sign; QDMS strings are always 10 and 9 characters; string-level read-back '
             'of the written text yields exactly the written fields; QDMS round trip <= 0.006605 arc-second for all inputs with the bound attained '
             '(proved counter-witness to the stated 0.005, known finding F19c) and <= 0.0036 for inputs with at most 6 decimals. Exact-text '
             'correspondence wherever no rounding boundary is within float noise, numeric elsewhere. MGRS and pyproj round trips are tested '
             'against the real libraries only (F19b known).',
        note='round_half_up is modelled as exact round-half-up (the float nudge is not modelled); repr/float/format are CPython runtime; mgrs and '
             'pyproj are trusted references for the np- streams.',
        technique='Lean 4 proof (rounding and divmod arithmetic, decimal-string lemmas) + source translator (to_dms, from_dms, to_qdms, from_qdms and their local functions regenerated as Lean and proved equal to the model) + differential correspondence on exact strings + library-backed round-trip tests',
        design='§6 C19'),
    'C13': dict(
        text='Lean 4 theorems over a hand-written model of the WKT writers and readers: for every well-formed shape (all six kinds, any number '
             'of parts, holes and vertices, any float type whose print/parse round-trips) parse_wkt(s.to_wkt()) and Type.from_wkt(s.to_wkt()) '
             'return the identical shape, end to end through the rendered text, a lenient lexer/parser (text_roundtrip proved in full), the '
             'keyword dispatch and the constructor orientation normalisation; the library __eq__ is reflexive; non-simple shapes write their '
             'polygon form; unknown, lower-case or wrongly-typed text raises ValueError (dispatch map regenerated from parsers.py and '
             're-checked by the kernel). Tied to the code by differential streams: text written, text read back, and ALL single-character '
             'corruptions of seed texts (result in {ValueError, what the text denotes}).',
        note='Trusted: Lean kernel and Mathlib; CPython float(str(x)) == x is the theorems only hypothesis; the WKT regexes are not modelled, '
             'only their observable result on generated and corrupted texts is compared; shapely/GEOS decides what is malformed (np- support '
             'streams only). Excluded by the decidable well-formedness hypothesis and shown necessary by counter-theorems: zero-area holes, '
             'M without Z, mixed 2-D/3-D vertices.',
        technique='Lean 4 proof (structural induction, shoelace-reversal lemma, lexer/parser inversion) + source translator (every to_wkt writer, linear_rings and the hand-written reader logic regenerated as Lean string functions and proved equal to the model) + exhaustive single-character-corruption and seeded differential correspondence + exact-rational oracle + shapely as independent reader',
        design='§6 C13'),
    'C06': dict(
        text='Lean 4 theorems: every TimeInterval operator of the model equals the dense-time set model '
             '[start,end) / {start} for all intervals and instants (membership, subset, superset, disjoint, '
             'intersects, intersection, union hull + minimality, antisymmetry, eq=>hash, constructor). The model is '
             'tied to time.py by an exhaustive correspondence over every relative placement of two intervals on a '
             'tick line plus random microsecond/timezone cases.',
        note='Trusted: Lean kernel + Mathlib; datetime arithmetic of CPython modelled as exact integers (microseconds); '
             'naive/aware handling is part of the harness abstraction and exercised by the random stream.',
        technique='Lean 4 proof (model = set spec) + source translator (time.py regenerated as Lean on every run and proved equal to the model) + exhaustive/random differential correspondence model vs time.py',
        design='§6 C06'),
}

PENDING = {}


def main():
    props = [json.loads(l) for l in open(os.path.join(HERE, 'properties.jsonl'))]
    checks = []
    na = []
    for p in props:
        pid = p['id']
        if pid in CHECKS:
            c = CHECKS[pid]
            checks.append({
                'property_id': pid,
                'quick_cmd': f'./check {pid} quick',
                'thorough_cmd': f'./check {pid} thorough',
                'evidence_file': f'evidence/{pid}.json',
                'replay_cmd_template': f'./check {pid} --replay {{path}}',
                'engine': 'geoverif-lean',
                'level_claimed': {'category': 'proof', 'text': c['text'], 'design_ref': c['design']},
                'level_note': c['note'],
                'technique': c['technique'],
            })
        else:
            na.append({'property_id': pid,
                       'reason': PENDING.get(pid, 'not claimed yet: the Lean model and check for this property are still being built (see DESIGN.md §6)')})
    m = {
        'version': 1,
        # regenerate the source-derived Lean files, cold-build every module (a module that does not build is reported
        # by the check that owns it, not by setup), byte-compile the harness
        'setup_cmd': './check --regenerate; (cd lean && lake build -q; true); /venv/bin/python -m compileall -q harness',
        'hooks': {
            'guard': 'GEOSTRUCTURES_VERIF',
            'enable': 'no hooks are needed: every observation point is public API (random choices of Welzl are controlled by patching random in the harness process)',
            'baseline_off_cmd': './tools/baseline.sh /repo',
            'source_commits': [],
            'add_only': True,
        },
        'engines': [{
            'name': 'geoverif-lean', 'path': 'lean/',
            'serves_properties': sorted(CHECKS),
            'kind_free_text': 'Lean 4 models (GeoVerif/Model), property theorems (GeoVerif/Props), line-protocol driver '
                              '(Driver.lean) and Python correspondence harness (harness/) run against the live /repo',
        }],
        'checks': checks,
        'notes': 'See DESIGN.md. Each check: regenerate data tables from /repo, lake build of the property theorems, '
                 '#print axioms audit, differential correspondence model vs implementation, property oracle on the '
                 'implementation (failing-input search), known findings from known_findings.txt.',
        'not_applicable': na,
    }
    with open(os.path.join(HERE, 'MANIFEST.json'), 'w') as f:
        json.dump(m, f, indent=1)
    print(f'{len(checks)} checks, {len(na)} not claimed')


if __name__ == '__main__':
    main()
