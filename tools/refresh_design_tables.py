#!/usr/bin/env python3
"""Replace the generated tables of DESIGN.md in place: §6.00 (tools/asbuilt_table.py, from evidence/), §9.5
(tools/seeded_table.py, from seeded/*/meta.json) and the source-coverage table at the end of §2.5
(tools/src_coverage.py; between the markers <!-- src-coverage --> … <!-- /src-coverage -->)."""
import os
import re
import subprocess
import sys

V = os.path.dirname(os.path.dirname(os.path.abspath(__file__)))
P = os.path.join(V, 'DESIGN.md')


def out(cmd):
    r = subprocess.run(cmd, capture_output=True, text=True, cwd=V)
    return '\n'.join(ln for ln in r.stdout.split('\n') if not ln.startswith('WARNING'))


def replace_table(text, header_prefix, new_table):
    lines = text.split('\n')
    i = next(k for k, ln in enumerate(lines) if ln.startswith(header_prefix))
    j = i
    while j < len(lines) and lines[j].startswith('|'):
        j += 1
    return '\n'.join(lines[:i] + new_table.strip('\n').split('\n') + lines[j:])


s = open(P).read()
s = replace_table(s, '| prop | Lean modules with the theorems', out([sys.executable, 'tools/asbuilt_table.py']))
s = replace_table(s, '| seed | property | change |', out([sys.executable, 'tools/seeded_table.py']))
cov = out(['/venv/bin/python', 'tools/src_coverage.py']).strip('\n')
if '<!-- src-coverage -->' in s:
    s = re.sub(r'<!-- src-coverage -->.*?<!-- /src-coverage -->', lambda m: '<!-- src-coverage -->\n' + cov + '\n<!-- /src-coverage -->', s, flags=re.S)
open(P, 'w').write(s)
print('DESIGN.md tables refreshed')
