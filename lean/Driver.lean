import GeoVerif.Drv.Main
def main : IO Unit := GV.Drv.main
