import GeoVerif.Model.Dms
import GeoVerif.Lemmas.Dms
import Mathlib.Algebra.Order.Floor.Ring
import Mathlib.Data.Rat.Floor
import Mathlib.Algebra.Order.Field.Rat
import Mathlib.Tactic.Linarith
import Mathlib.Tactic.NormNum
import Mathlib.Tactic.Ring
import Mathlib.Tactic.Positivity
import Mathlib.Tactic.Push
import Mathlib.Tactic.FieldSimp

/-!
# C19 — coordinate text formats round-trip within their resolution (DMS, QDMS)

Theorems about the exact-arithmetic model `GV.Dms` of `to_dms` / `from_dms` / `to_qdms` / `from_qdms`
(`round_half_up` read as exact round-half-up).  All angles are in degrees; `1″ = 1/3600`.

* `dms_roundtrip_bound`      DMS there and back: ≤ 0.000005″ (the property asks 0.00001″)
* `dms_hemisphere`, `dms_sign`, `dms_fields_range`
* `qdms_lengths`             10 and 9 characters for every stored coordinate
* `qdms_parse_format`        reading the written text back yields exactly the written fields
* `qdms_roundtrip_bound`     QDMS there and back: ≤ 0.005″ + 0.000005″ + (4/9)·1e-6° = 0.006605″, and
  `qdms_roundtrip_bound_tight` this is attained – i.e. the 0.005″ of the property does **not** hold for
  arbitrary inputs (finding F19c); `qdms_roundtrip_6dec`: it does hold (≤ 0.0036″) for inputs with at most 6
  decimals.

MGRS and pyproj are external libraries: not modelled (harness streams `np-…` only).
-/
namespace GV.C19
open GV GV.CoordObj GV.Dms

/-! ## rounding helper (`round_half_up` as exact round-half-up) -/

theorem roundHalfUp_err (x : ℚ) (p : ℕ) : |roundHalfUp x p - x| ≤ 1 / (2 * pow10 p) := Dms.roundHalfUp_err x p

theorem roundHalfUp_grid (x : ℚ) (p : ℕ) (k : ℤ) (h : x * pow10 p = k) : roundHalfUp x p = x :=
  Dms.roundHalfUp_grid x p k h

/-! ## DMS -/

/-- the divmod chain is exact: degrees + minutes/60 + seconds/3600 is `|dd|`, with the fields in range -/
theorem convertRaw_exact (dd : ℚ) :
    ((convertRaw dd).1 : ℚ) + (convertRaw dd).2.1 / 60 + (convertRaw dd).2.2 / 3600 = |dd| ∧
    0 ≤ (convertRaw dd).1 ∧ 0 ≤ (convertRaw dd).2.1 ∧ (convertRaw dd).2.1 < 60 ∧
    0 ≤ (convertRaw dd).2.2 ∧ (convertRaw dd).2.2 < 60 := convertRaw_spec dd

theorem sec5_le_60 (dd : ℚ) : roundHalfUp (convertRaw dd).2.2 5 ≤ 60 := by
  have h := (convertRaw_spec dd).2.2.2.2.2
  have := roundHalfUp_le_grid (convertRaw dd).2.2 5 6000000 (by rw [pow10_val]; push_cast; linarith)
  rw [pow10_val] at this; push_cast at this; linarith

/-- **fields of `to_dms`**: non-negative integer degrees (≤ |dd|), minutes 0…59, seconds in [0, 60]
    (60.0 occurs: 59.999996″ rounds up and is *not* carried into the minutes) -/
theorem dms_fields_range (dd : ℚ) :
    0 ≤ (convert dd).1 ∧ ((convert dd).1 : ℚ) ≤ |dd| ∧ 0 ≤ (convert dd).2.1 ∧ (convert dd).2.1 ≤ 59 ∧
    0 ≤ (convert dd).2.2 ∧ (convert dd).2.2 ≤ 60 := by
  obtain ⟨hsum, hd, hm0, hm, hs0, hs⟩ := convertRaw_spec dd
  simp only [convert]
  refine ⟨hd, ?_, hm0, by omega, roundHalfUp_nonneg _ _ hs0, sec5_le_60 dd⟩
  have h1 : (0 : ℚ) ≤ (convertRaw dd).2.1 := by exact_mod_cast hm0
  have : (0 : ℚ) ≤ ((convertRaw dd).2.1 : ℚ) / 60 + (convertRaw dd).2.2 / 3600 := by positivity
  linarith

/-- what `from_dms` makes of one axis written by `to_dms`: the input plus the rounding error of the seconds -/
theorem dmsValue_mkDMS (dd : ℚ) (pos neg : Char) (hpos : pos ≠ 'S' ∧ pos ≠ 'W') (hneg : neg = 'S' ∨ neg = 'W') :
    dmsValue (mkDMS dd pos neg) =
      dd + (if dd ≥ 0 then 1 else -1) * ((roundHalfUp (convertRaw dd).2.2 5 - (convertRaw dd).2.2) / 3600) := by
  have hsum := (convertRaw_spec dd).1
  by_cases h : dd ≥ 0
  · have hq : ¬ (pos = 'S' ∨ pos = 'W') := by tauto
    simp only [dmsValue, mkDMS, convert, h, if_true, hq, if_false]
    rw [abs_of_nonneg h] at hsum
    linarith
  · simp only [dmsValue, mkDMS, convert, h, if_false, hneg, if_true]
    rw [abs_of_neg (not_le.mp h)] at hsum
    linarith

/-- 0.000005″ in degrees -/
def dmsBound : ℚ := 1 / 200000 / 3600

/-- **DMS round trip**: `from_dms(to_dms(x))` is within 0.000005″ of `x` on each axis -/
theorem dms_roundtrip_bound (dd : ℚ) (pos neg : Char) (hpos : pos ≠ 'S' ∧ pos ≠ 'W') (hneg : neg = 'S' ∨ neg = 'W') :
    |dmsValue (mkDMS dd pos neg) - dd| ≤ dmsBound := by
  rw [dmsValue_mkDMS dd pos neg hpos hneg]
  have herr := Dms.roundHalfUp_err (convertRaw dd).2.2 5
  rw [pow10_val] at herr
  rw [abs_le] at herr ⊢
  unfold dmsBound
  split_ifs <;> constructor <;> norm_num at herr ⊢ <;> linarith [herr.1, herr.2]

/-- the same for a coordinate: both axes, through the constructor `from_dms` ends with -/
theorem dms_roundtrip_coord (c : Coord) :
    ∃ x y, fromDms (toDms c).1 (toDms c).2 = Coord.new x y ∧ |x - c.lon| ≤ dmsBound ∧ |y - c.lat| ≤ dmsBound :=
  ⟨_, _, rfl, dms_roundtrip_bound c.lon 'E' 'W' (by decide) (by decide),
    dms_roundtrip_bound c.lat 'N' 'S' (by decide) (by decide)⟩

/-- **hemisphere letters match the sign** -/
theorem dms_hemisphere (c : Coord) :
    ((toDms c).1.hemi = 'E' ↔ 0 ≤ c.lon) ∧ ((toDms c).1.hemi = 'W' ↔ c.lon < 0) ∧
    ((toDms c).2.hemi = 'N' ↔ 0 ≤ c.lat) ∧ ((toDms c).2.hemi = 'S' ↔ c.lat < 0) := by
  simp only [toDms, mkDMS]
  refine ⟨?_, ?_, ?_, ?_⟩
  · by_cases h : c.lon ≥ 0 <;> simp [h]
  · by_cases h : c.lon ≥ 0 <;> simp [h]
    exact not_le.mp h
  · by_cases h : c.lat ≥ 0 <;> simp [h]
  · by_cases h : c.lat ≥ 0 <;> simp [h]
    exact not_le.mp h

/-- read back, the value has the sign of the input (or is zero) -/
theorem dms_sign (dd : ℚ) (pos neg : Char) (hpos : pos ≠ 'S' ∧ pos ≠ 'W') (hneg : neg = 'S' ∨ neg = 'W') :
    (0 ≤ dd → 0 ≤ dmsValue (mkDMS dd pos neg)) ∧ (dd < 0 → dmsValue (mkDMS dd pos neg) ≤ 0) := by
  obtain ⟨hd, _, hm, _, hs, _⟩ := dms_fields_range dd
  have hd' : (0 : ℚ) ≤ (convert dd).1 := by exact_mod_cast hd
  have hm' : (0 : ℚ) ≤ (convert dd).2.1 := by exact_mod_cast hm
  have hnn : (0 : ℚ) ≤ ((convert dd).1 : ℚ) + ((convert dd).2.1 : ℚ) / 60 + (convert dd).2.2 / 3600 := by positivity
  constructor
  · intro h
    have hq : ¬ (pos = 'S' ∨ pos = 'W') := by tauto
    simp only [dmsValue, mkDMS, ge_iff_le, h, if_true, hq, if_false]
    linarith
  · intro h
    simp only [dmsValue, mkDMS, ge_iff_le, not_le.mpr h, if_false, hneg, if_true]
    linarith

example : toDms (Coord.new (-118092 / 1000000) (51509865 / 1000000)) =
    (⟨0, 7, 51312 / 10000, 'W'⟩, ⟨51, 30, 35514 / 1000, 'N'⟩) := by decide +kernel

/-! ## QDMS: lengths -/

theorem natStr_length (k n : ℕ) (hk : 1 ≤ k) (hn : n < 10 ^ k) :
    1 ≤ (natStr n).length ∧ (natStr n).length ≤ k := ⟨natStr_length_pos n, natStr_length_le k n hk hn⟩

theorem digitsVal_natStr (n : ℕ) : digitsVal (natStr n) = n := Dms.digitsVal_natStr n

theorem parse_zeroPad (n w : ℕ) : parseDigits (zeroPad (natStr n) w) = .ok (n : ℚ) := Dms.parse_zeroPad n w

/-- hundredths of a second written by `to_qdms`: at most 6000 (`60.00`) -/
theorem hundredths_le (dd : ℚ) : hundredths (convert dd).2.2 ≤ 6000 := by
  have h60 := sec5_le_60 dd
  have h0 := (dms_fields_range dd).2.2.2.2.1
  simp only [convert] at h0 ⊢
  unfold hundredths
  have hmul := roundHalfUp_mul (roundHalfUp (convertRaw dd).2.2 5) 2
  have hle := roundHalfUp_le_grid (roundHalfUp (convertRaw dd).2.2 5) 2 6000 (by rw [pow10_val]; push_cast; linarith)
  rw [pow10_val] at hmul hle
  norm_num at hmul hle
  rw [rfloor_eq, hmul, Int.floor_intCast]
  rw [hmul] at hle
  have : ⌊roundHalfUp (convertRaw dd).2.2 5 * 100 + 1 / 2⌋ ≤ 6000 := by exact_mod_cast hle
  omega

/-- the hundredths as a rational: the seconds rounded half-up to 2 decimals, times 100 -/
theorem hundredths_val (s : ℚ) (hs : 0 ≤ s) : ((hundredths s : ℕ) : ℚ) = roundHalfUp s 2 * 100 := by
  unfold hundredths
  have hmul := roundHalfUp_mul s 2
  rw [pow10_val] at hmul
  norm_num at hmul
  rw [rfloor_eq, hmul, Int.floor_intCast]
  have : 0 ≤ ⌊s * 100 + 1 / 2⌋ := by rw [Int.floor_nonneg]; positivity
  have h2 : ((⌊s * 100 + 1 / 2⌋.toNat : ℕ) : ℤ) = ⌊s * 100 + 1 / 2⌋ := Int.toNat_of_nonneg this
  exact_mod_cast h2

theorem deg_natAbs (dd : ℚ) (w : ℕ) (h : |dd| < 10 ^ w) :
    (((convert dd).1 : ℚ)).floor.natAbs < 10 ^ w ∧
    (((((convert dd).1 : ℚ)).floor.natAbs : ℕ) : ℚ) = ((convert dd).1 : ℚ) := by
  obtain ⟨hd, hle, _⟩ := dms_fields_range dd
  rw [rfloor_eq, Int.floor_intCast]
  have h1 : (((convert dd).1.natAbs : ℕ) : ℚ) = ((convert dd).1 : ℚ) := by
    rw [Nat.cast_natAbs, abs_of_nonneg hd]
  constructor
  · have : (((convert dd).1.natAbs : ℕ) : ℚ) < 10 ^ w := by
      rw [h1]; linarith
    exact_mod_cast this
  · exact h1

theorem min_natAbs (dd : ℚ) :
    (((convert dd).2.1 : ℚ)).floor.natAbs < 10 ^ 2 ∧
    (((((convert dd).2.1 : ℚ)).floor.natAbs : ℕ) : ℚ) = ((convert dd).2.1 : ℚ) := by
  obtain ⟨_, _, hm0, hm, _⟩ := dms_fields_range dd
  rw [rfloor_eq, Int.floor_intCast]
  have h1 : (((convert dd).2.1.natAbs : ℕ) : ℚ) = ((convert dd).2.1 : ℚ) := by
    rw [Nat.cast_natAbs, abs_of_nonneg hm0]
  constructor
  · omega
  · exact h1

/-- one axis written with a `w`-digit degree field has `w + 7` characters when `|dd| < 10^w` -/
theorem axis_length (dd : ℚ) (pos neg : Char) (w : ℕ) (hw : 1 ≤ w) (h : |dd| < 10 ^ w) :
    (qdmsAxis (mkDMS dd pos neg) w).length = w + 7 := by
  have hdeg := (deg_natAbs dd w h).1
  have hmin := (min_natAbs dd).1
  have hh := hundredths_le dd
  simp only [qdmsAxis, mkDMS, List.length_cons, List.length_append]
  rw [zeroPad_length _ w (natStr_no_dot _) (natStr_length_le w _ hw hdeg),
    zeroPad_length _ 2 (natStr_no_dot _) (natStr_length_le 2 _ (by norm_num) hmin),
    zeroPad_fmt2_length _ (by omega)]

/-- **QDMS lengths**: for every stored coordinate (|lon| ≤ 180, |lat| ≤ 90 – guaranteed by `C08.norm_range`)
    the longitude text has 10 characters and the latitude text 9, in either order -/
theorem qdms_lengths (c : Coord) (hlon : |c.lon| ≤ 180) (hlat : |c.lat| ≤ 90) :
    (toQdms c false).1.length = 10 ∧ (toQdms c false).2.length = 9 ∧
    (toQdms c true).1.length = 9 ∧ (toQdms c true).2.length = 10 := by
  have h1 := axis_length c.lon 'E' 'W' 3 (by norm_num) (by norm_num; linarith)
  have h2 := axis_length c.lat 'N' 'S' 2 (by norm_num) (by norm_num; linarith)
  simp only [toQdms, toDms, Bool.false_eq_true, if_false, if_true]
  exact ⟨h1, h2, h2, h1⟩

example : toQdms (Coord.new (-118092 / 1000000) (51509865 / 1000000)) =
    ("W000070513".toList, "N51303551".toList) := by decide +kernel

/-- after F19a: whole seconds keep their zeros (12.00″ is `1200`, not `0120`) -/
example : toQdms (Coord.new 12 (1 / 300)) = ("E012000000".toList, "N00001200".toList) := by decide +kernel

/-! ## QDMS: reading the written text back -/

theorem slices (q : Char) (A B C : List Char) (w : ℕ) (hA : A.length = w) (hB : B.length = 2) :
    (q :: (A ++ B ++ C)).head? = some q ∧ ((q :: (A ++ B ++ C)).drop 1).take w = A ∧
    ((q :: (A ++ B ++ C)).drop (w + 1)).take 2 = B ∧ (q :: (A ++ B ++ C)).drop (w + 3) = C := by
  refine ⟨rfl, ?_, ?_, ?_⟩
  · simp only [List.drop_succ_cons, List.drop_zero, List.append_assoc]
    exact List.take_left' hA
  · simp only [List.drop_succ_cons, List.append_assoc]
    rw [List.drop_left' hA]; exact List.take_left' hB
  · simp only [List.drop_succ_cons]
    have : (A ++ B).length = w + 2 := by simp [hA, hB]
    exact List.drop_left' this

/-- the number one axis of the QDMS text denotes when `from_qdms` reads it (before its 1e-6 rounding) -/
def axisValue (dd : ℚ) : ℚ :=
  (((convert dd).1 : ℚ) + ((convert dd).2.1 : ℚ) / 60 + ((hundredths (convert dd).2.2 : ℕ) : ℚ) / 100 / 3600) *
    (if dd ≥ 0 then 1 else -1)

theorem qconvert_axis (dd : ℚ) (pos neg : Char) (w : ℕ) (hw : 1 ≤ w) (h : |dd| < 10 ^ w)
    (hpos : pos ≠ 'S' ∧ pos ≠ 'W') (hneg : neg = 'S' ∨ neg = 'W') :
    (qdmsAxis (mkDMS dd pos neg) w).head? = some (if dd ≥ 0 then pos else neg) ∧
    qconvert (if dd ≥ 0 then pos else neg) (((qdmsAxis (mkDMS dd pos neg) w).drop 1).take w)
      (((qdmsAxis (mkDMS dd pos neg) w).drop (w + 1)).take 2) ((qdmsAxis (mkDMS dd pos neg) w).drop (w + 3))
      = .ok (axisValue dd) := by
  have hdeg := deg_natAbs dd w h
  have hmin := min_natAbs dd
  have hh := hundredths_le dd
  have hA := zeroPad_length _ w (natStr_no_dot (((convert dd).1 : ℚ)).floor.natAbs)
    (natStr_length_le w _ hw hdeg.1)
  have hB := zeroPad_length _ 2 (natStr_no_dot (((convert dd).2.1 : ℚ)).floor.natAbs)
    (natStr_length_le 2 _ (by norm_num) hmin.1)
  obtain ⟨s1, s2, s3, s4⟩ := slices (if dd ≥ 0 then pos else neg) _ _
    (zeroPad (fmt2 (hundredths (convert dd).2.2)) 4) w hA hB
  simp only [qdmsAxis, mkDMS]
  refine ⟨s1, ?_⟩
  rw [s2, s3, s4]
  simp only [qconvert, Dms.parse_zeroPad, parseSeconds_fmt2 _ (by omega : hundredths (convert dd).2.2 < 10000)]
  simp only [bind, Except.bind, pure, Except.pure]
  rw [hdeg.2, hmin.2]
  unfold axisValue
  by_cases hd : dd ≥ 0
  · have hq : ¬ (pos = 'W' ∨ pos = 'S') := by tauto
    simp only [hd, if_true, hq, if_false]
  · have hq : neg = 'W' ∨ neg = 'S' := by tauto
    simp only [hd, if_false, hq, if_true]

/-- **reading back what was written**: `from_qdms(*to_qdms(c))` sees exactly the written fields -/
theorem qdms_parse_format (c : Coord) (hlon : |c.lon| ≤ 180) (hlat : |c.lat| ≤ 90) :
    qdmsValues (toQdms c).1 (toQdms c).2 = .ok (axisValue c.lon, axisValue c.lat) ∧
    fromQdms (toQdms c).1 (toQdms c).2 =
      .ok (Coord.new (roundHalfUp (axisValue c.lon) 6) (roundHalfUp (axisValue c.lat) 6)) := by
  obtain ⟨a1, a2⟩ := qconvert_axis c.lon 'E' 'W' 3 (by norm_num) (by norm_num; linarith) (by decide) (by decide)
  obtain ⟨b1, b2⟩ := qconvert_axis c.lat 'N' 'S' 2 (by norm_num) (by norm_num; linarith) (by decide) (by decide)
  have hv : qdmsValues (toQdms c).1 (toQdms c).2 = .ok (axisValue c.lon, axisValue c.lat) := by
    simp only [toQdms, toDms, Bool.false_eq_true, if_false, qdmsValues]
    rw [a1, b1]
    simp only [bind, Except.bind, pure, Except.pure]
    rw [a2, b2]
  refine ⟨hv, ?_⟩
  simp only [fromQdms, hv, bind, Except.bind, pure, Except.pure]

/-! ## QDMS: round-trip bounds -/

/-- the written text is within 0.005″ + 0.000005″ of the coordinate -/
theorem axisValue_err (dd : ℚ) : |axisValue dd - dd| ≤ (1 / 200 + 1 / 200000) / 3600 := by
  obtain ⟨hsum, _, _, _, hs0, _⟩ := convertRaw_spec dd
  have hs5 := roundHalfUp_nonneg (convertRaw dd).2.2 5 hs0
  have e5 := Dms.roundHalfUp_err (convertRaw dd).2.2 5
  have e2 := Dms.roundHalfUp_err (roundHalfUp (convertRaw dd).2.2 5) 2
  rw [pow10_val] at e5 e2
  norm_num at e5 e2
  rw [abs_le] at e5 e2 ⊢
  unfold axisValue
  simp only [convert]
  rw [hundredths_val _ hs5]
  by_cases hd : dd ≥ 0
  · simp only [hd, if_true]
    rw [abs_of_nonneg hd] at hsum
    constructor <;> norm_num <;> linarith [e5.1, e5.2, e2.1, e2.2]
  · simp only [hd, if_false]
    rw [abs_of_neg (not_le.mp hd)] at hsum
    constructor <;> norm_num <;> linarith [e5.1, e5.2, e2.1, e2.2]

/-- the value read back is a whole number of hundredths of an arc-second -/
theorem axisValue_grid (dd : ℚ) : ∃ j : ℤ, axisValue dd = (j : ℚ) / 360000 := by
  unfold axisValue
  by_cases hd : dd ≥ 0
  · refine ⟨(convert dd).1 * 360000 + (convert dd).2.1 * 6000 + (hundredths (convert dd).2.2 : ℕ), ?_⟩
    simp only [hd, if_true]; push_cast; field_simp; ring
  · refine ⟨-((convert dd).1 * 360000 + (convert dd).2.1 * 6000 + (hundredths (convert dd).2.2 : ℕ)), ?_⟩
    simp only [hd, if_false]; push_cast; field_simp; ring

/-- rounding a multiple of 0.01″ (= 25/9 µ°) to 1e-6° moves it by at most 4/9 µ° (0.0016″) -/
theorem round6_on_hundredths (j : ℤ) :
    |roundHalfUp ((j : ℚ) / 360000) 6 - (j : ℚ) / 360000| ≤ 4 / 9 / 1000000 := by
  rw [roundHalfUp_eq, pow10_val]
  have hfl : ⌊(j : ℚ) / 360000 * 10 ^ 6 + 1 / 2⌋ = (50 * j + 9) / 18 := by
    have : (j : ℚ) / 360000 * 10 ^ 6 + 1 / 2 = ((50 * j + 9 : ℤ) : ℚ) / ((18 : ℤ) : ℚ) := by
      push_cast; field_simp; ring
    rw [this]
    exact_mod_cast Rat.floor_intCast_div_natCast (50 * j + 9) 18
  rw [hfl]
  set n := (50 * j + 9) / 18 with hn
  have h1 : 18 * n ≤ 50 * j + 9 := by rw [hn]; exact Int.mul_ediv_self_le (by norm_num)
  have h2 : 50 * j + 9 < 18 * n + 18 := by rw [hn]; exact Int.lt_mul_ediv_self_add (by norm_num)
  have h3 : 9 * n - 4 ≤ 25 * j := by omega
  have h4 : 25 * j ≤ 9 * n + 4 := by omega
  have h3' : (9 : ℚ) * n - 4 ≤ 25 * j := by exact_mod_cast h3
  have h4' : (25 : ℚ) * j ≤ 9 * n + 4 := by exact_mod_cast h4
  rw [abs_le]
  constructor
  · rw [show (n : ℚ) / 10 ^ 6 - (j : ℚ) / 360000 = (9 * n - 25 * j) / 9000000 by field_simp; ring]
    rw [le_div_iff₀ (by norm_num)]; linarith
  · rw [show (n : ℚ) / 10 ^ 6 - (j : ℚ) / 360000 = (9 * n - 25 * j) / 9000000 by field_simp; ring]
    rw [div_le_iff₀ (by norm_num)]; linarith

/-- the model's worst case of QDMS there and back, in degrees: 0.005″ + 0.000005″ + (4/9)·1e-6° = 0.006605″ -/
def qdmsWorst : ℚ := (1 / 200 + 1 / 200000) / 3600 + 4 / 9 / 1000000

/-- **QDMS round trip, all inputs**: each axis of `from_qdms(*to_qdms(c))` (before the constructor) is within
    `qdmsWorst` = 0.006605″ of the coordinate -/
theorem qdms_roundtrip_bound (dd : ℚ) : |roundHalfUp (axisValue dd) 6 - dd| ≤ qdmsWorst := by
  obtain ⟨j, hj⟩ := axisValue_grid dd
  have h1 := axisValue_err dd
  have h2 := round6_on_hundredths j
  rw [← hj] at h2
  unfold qdmsWorst
  calc |roundHalfUp (axisValue dd) 6 - dd|
      = |(roundHalfUp (axisValue dd) 6 - axisValue dd) + (axisValue dd - dd)| := by ring_nf
    _ ≤ |roundHalfUp (axisValue dd) 6 - axisValue dd| + |axisValue dd - dd| := abs_add_le _ _
    _ ≤ 4 / 9 / 1000000 + (1 / 200 + 1 / 200000) / 3600 := add_le_add h2 h1
    _ = (1 / 200 + 1 / 200000) / 3600 + 4 / 9 / 1000000 := by ring

/-- the bound is attained (0.014995″ is written as 0.02″ and read back as 6 µ° = 0.0216″): the 0.005″ the
    property states does **not** hold for arbitrary inputs — finding F19c -/
theorem qdms_roundtrip_bound_tight :
    |roundHalfUp (axisValue (2999 / 720000000)) 6 - 2999 / 720000000| = qdmsWorst ∧
    (5 / 1000 / 3600 : ℚ) < qdmsWorst := by
  constructor
  · decide +kernel
  · decide +kernel

theorem qdms_roundtrip_coord (c : Coord) (hlon : |c.lon| ≤ 180) (hlat : |c.lat| ≤ 90) :
    ∃ x y, fromQdms (toQdms c).1 (toQdms c).2 = .ok (Coord.new x y) ∧
      |x - c.lon| ≤ qdmsWorst ∧ |y - c.lat| ≤ qdmsWorst :=
  ⟨_, _, (qdms_parse_format c hlon hlat).2, qdms_roundtrip_bound c.lon, qdms_roundtrip_bound c.lat⟩

/-- seconds of a ≤ 6-decimal coordinate are already on the 5-decimal grid: the first rounding is the identity -/
theorem sec5_exact_6dec (k : ℤ) :
    roundHalfUp (convertRaw ((k : ℚ) / 1000000)).2.2 5 = (convertRaw ((k : ℚ) / 1000000)).2.2 := by
  have hk : |(k : ℚ) / 1000000| = ((|k| : ℤ) : ℚ) / 1000000 := by
    rw [abs_div]; push_cast; norm_num
  apply Dms.roundHalfUp_grid _ 5 (|k| * 360 - 6000000 * ⌊|(k : ℚ) / 1000000| * 3600 / 60⌋)
  simp only [convertRaw, absR_eq, rfloor_eq]
  rw [pow10_val, hk]
  push_cast
  ring

/-- **QDMS round trip, inputs with at most 6 decimals**: within 1e-6° = 0.0036″ ≤ 0.005″ -/
theorem qdms_roundtrip_6dec (k : ℤ) :
    |roundHalfUp (axisValue ((k : ℚ) / 1000000)) 6 - (k : ℚ) / 1000000| ≤ 1 / 1000000 ∧
    (1 / 1000000 : ℚ) ≤ 5 / 1000 / 3600 := by
  refine ⟨?_, by norm_num⟩
  set dd := (k : ℚ) / 1000000 with hdd
  -- the text is within 0.005″ of dd (no 5-decimal error)
  have herr : |axisValue dd - dd| ≤ 1 / 200 / 3600 := by
    obtain ⟨hsum, _, _, _, hs0, _⟩ := convertRaw_spec dd
    have e2 := Dms.roundHalfUp_err (convertRaw dd).2.2 2
    rw [pow10_val] at e2
    norm_num at e2
    rw [abs_le] at e2 ⊢
    unfold axisValue
    simp only [convert]
    rw [hdd, sec5_exact_6dec k, ← hdd, hundredths_val _ hs0]
    by_cases hd : dd ≥ 0
    · simp only [hd, if_true]
      rw [abs_of_nonneg hd] at hsum
      constructor <;> norm_num <;> linarith [e2.1, e2.2]
    · simp only [hd, if_false]
      rw [abs_of_neg (not_le.mp hd)] at hsum
      constructor <;> norm_num <;> linarith [e2.1, e2.2]
  -- so the nearest multiple of 1e-6 is k-1, k or k+1
  rw [roundHalfUp_eq, pow10_val]
  set v := axisValue dd with hv
  have hkv : |v * 10 ^ 6 - k| ≤ 25 / 18 := by
    have : v * 10 ^ 6 - k = (v - dd) * 10 ^ 6 := by rw [hdd]; ring
    rw [this, abs_mul]
    have : |((10 : ℚ) ^ 6)| = 10 ^ 6 := abs_of_pos (by positivity)
    rw [this]
    calc |v - dd| * 10 ^ 6 ≤ 1 / 200 / 3600 * 10 ^ 6 := by
          apply mul_le_mul_of_nonneg_right herr (by positivity)
      _ = 25 / 18 := by norm_num
  rw [abs_le] at hkv
  have hf1 := Int.floor_le (v * 10 ^ 6 + 1 / 2)
  have hf2 := Int.lt_floor_add_one (v * 10 ^ 6 + 1 / 2)
  set n := ⌊v * 10 ^ 6 + 1 / 2⌋ with hn
  have hn1 : n ≤ k + 1 := by
    have : (n : ℚ) < k + 2 := by linarith [hkv.2]
    have : n < k + 2 := by exact_mod_cast this
    omega
  have hn2 : k - 1 ≤ n := by
    have : (k : ℚ) - 2 < n := by linarith [hkv.1]
    have : k - 2 < n := by exact_mod_cast this
    omega
  have hn1' : (n : ℚ) ≤ k + 1 := by exact_mod_cast hn1
  have hn2' : (k : ℚ) - 1 ≤ n := by exact_mod_cast hn2
  rw [hdd, abs_le]
  constructor
  · rw [show (n : ℚ) / 10 ^ 6 - (k : ℚ) / 1000000 = (n - k) / 1000000 by norm_num; ring]
    rw [le_div_iff₀ (by norm_num)]; linarith
  · rw [show (n : ℚ) / 10 ^ 6 - (k : ℚ) / 1000000 = (n - k) / 1000000 by norm_num; ring]
    rw [div_le_iff₀ (by norm_num)]; linarith

/-- London (the unit test's coordinate) comes back 1e-6° off in latitude — within the bound -/
example : (fromQdms (toQdms (Coord.new (-118092 / 1000000) (51509865 / 1000000))).1
    (toQdms (Coord.new (-118092 / 1000000) (51509865 / 1000000))).2) =
    .ok (Coord.new (-118092 / 1000000) (51509864 / 1000000)) := by decide +kernel

end GV.C19
