import GeoVerif.Gen.SrcTime
import GeoVerif.Props.C06
/-!
# Source tie for `geostructures/time.py`

`GeoVerif/Gen/SrcTime.lean` is regenerated from the current text of `time.py` by the translator on every run.
Here each translated definition is proved equal to the hand-written model the C06 theorems are stated over —
so those theorems hold of the translated source — and the headline C06 laws are restated for the translated
definitions.  The proofs only unfold both sides and decide the remaining linear arithmetic, so that a harmless
rewrite of the source (another spelling of a comparison, a reordered test, an extra local) still goes through,
while a change of meaning does not.
-/
namespace GV.C06Src
open GV

/-- both sides down to comparisons of `Int`s -/
macro "unfold_src" : tactic =>
  `(tactic| simp only [Src.Time.isInstant, Src.Time.elapsed, Src.Time.eq, Src.Time.hashKey, Src.Time.containsDt,
      Src.Time.issubset, Src.Time.issuperset, Src.Time.containsTI, Src.Time.isdisjoint, Src.Time.intersectsDt,
      Src.Time.intersects, Src.Time.init, Src.Time.initTd, Src.Time.intersection, Src.Time.union, Src.Time.copy,
      TI.isInstant, TI.elapsed, TI.eq, TI.hashKey, TI.containsDt, TI.issubset, TI.issuperset, TI.containsTI,
      TI.isdisjoint, TI.intersectsDt, TI.intersects, TI.mk?, TI.intersection, TI.union, TI.copy, Except.map])

/-- an equation between two `Bool` programs over linear integer comparisons: to propositions, all cases, `omega` -/
macro "bool_arith" : tactic =>
  `(tactic| (
      rw [Bool.eq_iff_iff]
      simp only [Bool.ite_eq_true_distrib, Bool.and_eq_true, Bool.or_eq_true, Bool.not_eq_true', Bool.not_eq_false',
        decide_eq_true_eq, decide_eq_false_iff_not, beq_iff_eq, bne_iff_ne, ne_eq, Bool.false_eq_true,
        Bool.true_eq_false, Bool.and_eq_false_imp, Bool.or_eq_false_iff, beq_eq_false_iff_ne, Bool.not_true, Bool.not_false]
      split_ifs <;>
        (try simp only [Bool.and_eq_false_imp, Bool.and_eq_true, Bool.or_eq_true, Bool.or_eq_false_iff, decide_eq_true_eq,
          decide_eq_false_iff_not, beq_iff_eq, beq_eq_false_iff_ne, bne_iff_ne, ne_eq, Bool.not_eq_true',
          Bool.not_eq_false'] at *) <;> omega))

/-- the translated definition equals the model: by unfolding alone, by `grind`, or by exhaustive case analysis -/
macro "src_eq" : tactic => `(tactic| (unfold_src <;> first | rfl | grind | bool_arith))

theorem isInstant_eq (t : TI) : Src.Time.isInstant t = t.isInstant := by src_eq
theorem elapsed_eq (t : TI) : Src.Time.elapsed t = t.elapsed := by src_eq
theorem eq_eq (a b : TI) : Src.Time.eq a b = a.eq b := by src_eq
theorem hashKey_eq (t : TI) : Src.Time.hashKey t = t.hashKey := by src_eq
theorem containsDt_eq (t : TI) (x : Int) : Src.Time.containsDt t x = t.containsDt x := by src_eq
theorem issubset_eq (a b : TI) : Src.Time.issubset a b = a.issubset b := by src_eq
theorem issuperset_eq (a b : TI) : Src.Time.issuperset a b = a.issuperset b := by src_eq
theorem containsTI_eq (a b : TI) : Src.Time.containsTI a b = a.containsTI b := by src_eq
theorem isdisjoint_eq (a b : TI) : Src.Time.isdisjoint a b = a.isdisjoint b := by src_eq
theorem intersectsDt_eq (t : TI) (x : Int) : Src.Time.intersectsDt t x = t.intersectsDt x := by src_eq
theorem intersects_eq (a b : TI) : Src.Time.intersects a b = a.intersects b := by src_eq
theorem init_eq (s e : Int) : Src.Time.init s e = TI.mk? s e := by src_eq
theorem initTd_eq (s d : Int) : Src.Time.initTd s d = TI.mk? s (s + d) := by src_eq


/-- for well-formed, non-disjoint operands the constructor call inside `intersection` can not raise, and the method
    returns what the model returns -/
theorem intersection_eq (a b : TI) (ha : TI.WF a) (hb : TI.WF b) :
    Src.Time.intersection a b = .ok (a.intersection b) := by
  unfold TI.WF at ha hb
  simp only [Src.Time.intersection, Src.Time.isdisjoint, Src.Time.isInstant, Src.Time.containsDt, Src.Time.init,
    TI.intersection, TI.isdisjoint, TI.isInstant, TI.containsDt, Except.map]
  grind

/-- `union` of well-formed operands can not raise -/
theorem union_eq (a b : TI) (ha : TI.WF a) (hb : TI.WF b) : Src.Time.union a b = .ok (a.union b) := by
  unfold TI.WF at ha hb
  simp only [Src.Time.union, Src.Time.init, TI.union]
  grind

/-- `copy` of a well-formed interval can not raise -/
theorem copy_eq (a : TI) (ha : TI.WF a) : Src.Time.copy a = .ok a.copy := by
  unfold TI.WF at ha
  simp only [Src.Time.copy, Src.Time.init, TI.copy]
  grind

/-! ### the C06 laws, restated for the translated source -/

/-- membership of an instant is membership in the denoted set -/
theorem src_mem_iff (t : TI) (x : Int) : Src.Time.containsDt t x = true ↔ (x : ℚ) ∈ TI.den t := by
  rw [containsDt_eq]; exact TI.mem_iff t x

theorem src_issubset_iff (a b : TI) (ha : TI.WF a) (hb : TI.WF b) :
    Src.Time.issubset a b = true ↔ TI.den a ⊆ TI.den b := by
  rw [issubset_eq]; exact TI.issubset_iff a b ha hb

theorem src_isdisjoint_iff (a b : TI) (ha : TI.WF a) (hb : TI.WF b) :
    Src.Time.isdisjoint a b = true ↔ Disjoint (TI.den a) (TI.den b) := by
  rw [isdisjoint_eq]; exact TI.isdisjoint_iff a b ha hb

theorem src_intersects_iff (a b : TI) (ha : TI.WF a) (hb : TI.WF b) :
    Src.Time.intersects a b = true ↔ (TI.den a ∩ TI.den b).Nonempty := by
  rw [intersects_eq]; exact TI.intersects_iff a b ha hb

theorem src_intersects_symm (a b : TI) (ha : TI.WF a) (hb : TI.WF b) :
    Src.Time.intersects a b = Src.Time.intersects b a := by
  rw [intersects_eq, intersects_eq, TI.intersects_eq_not_disjoint a b ha hb, TI.intersects_eq_not_disjoint b a hb ha,
    TI.isdisjoint_symm a b ha hb]

theorem src_intersection_den (a b c : TI) (ha : TI.WF a) (hb : TI.WF b)
    (h : Src.Time.intersection a b = .ok (some c)) : TI.WF c ∧ TI.den c = TI.den a ∩ TI.den b := by
  rw [intersection_eq a b ha hb] at h
  exact TI.intersection_den a b c ha hb (by simpa using h)

theorem src_intersection_none_iff (a b : TI) (ha : TI.WF a) (hb : TI.WF b) :
    Src.Time.intersection a b = .ok none ↔ Disjoint (TI.den a) (TI.den b) := by
  rw [intersection_eq a b ha hb, ← TI.intersection_none_iff a b ha hb]; simp

theorem src_init_rejects (s e : Int) : (Src.Time.init s e = .error "ERR:Value" ↔ e < s) ∧
    (∀ t, Src.Time.init s e = .ok t → TI.WF t ∧ t.start = s ∧ t.stop = e) := by
  rw [init_eq]; exact TI.mk_rejects s e

theorem src_eq_iff (a b : TI) : Src.Time.eq a b = true ↔ a = b := by
  rw [eq_eq]; exact TI.eq_iff a b

theorem src_eq_imp_hash (a b : TI) (h : Src.Time.eq a b = true) : Src.Time.hashKey a = Src.Time.hashKey b := by
  rw [hashKey_eq, hashKey_eq]; exact TI.eq_imp_hash a b (by rwa [eq_eq] at h)

/-- the translated `intersection` does not depend on the order of its operands -/
theorem src_intersection_comm (a b : TI) (ha : TI.WF a) (hb : TI.WF b) :
    Src.Time.intersection a b = Src.Time.intersection b a := by
  rw [intersection_eq a b ha hb, intersection_eq b a hb ha, TI.intersection_comm a b ha hb]

/-- the translated `union` is commutative and associative on well-formed operands -/
theorem src_union_comm (a b : TI) (ha : TI.WF a) (hb : TI.WF b) :
    Src.Time.union a b = Src.Time.union b a := by
  rw [union_eq a b ha hb, union_eq b a hb ha, TI.union_comm]

theorem src_issubset_trans (a b c : TI) (ha : TI.WF a) (hb : TI.WF b) (hc : TI.WF c)
    (h1 : Src.Time.issubset a b = true) (h2 : Src.Time.issubset b c = true) :
    Src.Time.issubset a c = true := by
  rw [issubset_eq] at *; exact TI.issubset_trans a b c ha hb hc h1 h2

end GV.C06Src
