import GeoVerif.Props.C12
import GeoVerif.Lemmas.FloodLattice
/-!
# C12 on the integer lattice — the connectivity assumption discharged for rectangles, segments, polylines

`Props/C12` proves that the flood fill of `NiemeyerHasher._hash_polygon` / `_hash_linestring` returns
exactly `Reach nbrs touches start`; *completeness* ("every touched cell is returned") is there only
under the hypothesis that the touched cells are neighbour-connected (`flood_complete_of_connected`),
and termination needs a finite grid closed under `nbrs`.  Here the abstract model is instantiated on
the lattice `Int × Int` of a grid with origin `(x0, y0)`, cell width `w > 0` and height `h > 0` over
exact rationals, `nbrs = nbrs8` (the 8 surrounding cells, in the order of `_get_surrounding`), and
both hypotheses are **proved** for

* an axis-parallel rectangle `[a, b] × [c, d]`            (`rect_connected`, `rect_flood_exact`),
* a closed segment `P Q` in general position or not        (`seg_connected`, `seg_flood_exact`),
* a polyline (list of consecutive segments)                (`polyline_connected`, `polyline_flood_exact`).

The conclusion is unconditional: for every sound and total pop schedule and every fuel
`≥ |block| + 1` (the explicit finite block of cells between the floor indices of the bounding box) the
model's `flood` returns a list whose members are exactly the cells whose closed box meets the shape.
(Both connectivity proofs only ever step to one of the 4 edge neighbours: with *closed* cell boxes the
touched set of these shapes is even 4-connected; a segment through a grid corner touches all 4 cells.)

What remains assumed for C12 (DESIGN §4) after this file: connectivity of the touched set of a
*filled polygon* / curved shape, and that the float `intersects_shape` is the exact predicate.
-/
namespace GV.FloodLat
open GV.Flood

/-! ## generic glue: connectivity + a finite superset of the touched cells ⇒ exactness -/

/-- if all touched cells lie in the finite list `U`, the start cell touches and every touched cell is
    reachable from it, then under every sound total schedule and every fuel `≥ |U| + 1` the flood
    returns exactly the touched cells (uses `flood_eq_reach`, `reach_touches` of `Props/C12`) -/
theorem flood_exact_of_conn {C : Type} [DecidableEq C] {nbrs : C → List C} {touches : C → Bool}
    (U : List C) (hU : ∀ c, touches c = true → c ∈ U) (start : C) (hs : touches start = true)
    (hconn : ∀ c, touches c = true → Reach nbrs touches start c)
    (pick : List C → Option C) (hp1 : PickSound pick) (hp2 : PickTotal pick)
    (fuel : Nat) (hf : U.length + 1 ≤ fuel) :
    ∃ v, flood nbrs touches pick fuel start = some v ∧ ∀ c, c ∈ v ↔ touches c = true := by
  obtain ⟨v, hv⟩ := flood_terminates_touched (nbrs := nbrs) U hU start (hU start hs) pick hp2 fuel hf
  refine ⟨v, hv, fun c => ?_⟩
  rw [flood_eq_reach start pick hp1 fuel v hv c]
  constructor
  · intro hr
    rcases reach_touches hr with rfl | h
    · exact hs
    · exact h
  · exact hconn c

/-- the cell of a point: `(⌊(x − x0)/w⌋, ⌊(y − y0)/h⌋)` (a point on a grid line belongs to the cell
    on its upper/right side, as in `_coord_to_niemeyer`) -/
def cellOf (g : Grid) (x y : Rat) : Cell := (idx1 g.x0 g.w x, idx1 g.y0 g.h y)

theorem cellOf_inBox (g : Grid) (x y : Rat) : InBox g (cellOf g x y) x y := by
  obtain ⟨h1, h2⟩ := idx1_spec g.hw x
  obtain ⟨h3, h4⟩ := idx1_spec g.hh y
  exact ⟨h1, h2, h3, h4⟩

/-! ## 1. axis-parallel rectangle `[a, b] × [c, d]` -/

/-- the closed box of the cell and the rectangle overlap on both axes -/
def rectTouches (g : Grid) (a b c d : Rat) (cell : Cell) : Bool :=
  decide (xlo g cell.1 ≤ b ∧ a ≤ xhi g cell.1 ∧ ylo g cell.2 ≤ d ∧ c ≤ yhi g cell.2)

/-- `rectTouches` is "the two closed boxes share a point" -/
theorem rectTouches_iff_point (g : Grid) {a b c d : Rat} (hab : a ≤ b) (hcd : c ≤ d) (cell : Cell) :
    rectTouches g a b c d cell = true ↔
      ∃ x y, InBox g cell x y ∧ a ≤ x ∧ x ≤ b ∧ c ≤ y ∧ y ≤ d := by
  simp only [rectTouches, decide_eq_true_eq]
  have hx := lo1_le_hi1 (o := g.x0) g.hw cell.1
  have hy := lo1_le_hi1 (o := g.y0) g.hh cell.2
  rw [← xlo_eq, ← xhi_eq] at hx
  rw [← ylo_eq, ← yhi_eq] at hy
  constructor
  · rintro ⟨h1, h2, h3, h4⟩
    refine ⟨max a (xlo g cell.1), max c (ylo g cell.2),
      ⟨le_max_right _ _, max_le h2 hx, le_max_right _ _, max_le h4 hy⟩,
      le_max_left _ _, max_le hab h1, le_max_left _ _, max_le hcd h3⟩
  · rintro ⟨x, y, ⟨b1, b2, b3, b4⟩, r1, r2, r3, r4⟩
    exact ⟨by linarith, by linarith, by linarith, by linarith⟩

/-- the finite superset: the block of cells between the floor indices,
    columns `⌈(a−x0)/w⌉−1 … ⌊(b−x0)/w⌋`, rows `⌈(c−y0)/h⌉−1 … ⌊(d−y0)/h⌋` -/
def rectBlock (g : Grid) (a b c d : Rat) : List Cell :=
  block (⌈(a - g.x0) / g.w⌉ - 1) ⌊(b - g.x0) / g.w⌋ (⌈(c - g.y0) / g.h⌉ - 1) ⌊(d - g.y0) / g.h⌋

/-- the block is *exactly* the touched set -/
theorem mem_rectBlock (g : Grid) (a b c d : Rat) (cell : Cell) :
    cell ∈ rectBlock g a b c d ↔ rectTouches g a b c d cell = true := by
  simp only [rectBlock, mem_block, rectTouches, decide_eq_true_eq, xlo_eq, xhi_eq, ylo_eq, yhi_eq,
    lo1_le_iff g.hw, le_hi1_iff g.hw, lo1_le_iff g.hh, le_hi1_iff g.hh]
  tauto

theorem floor_sub_ceil_le (A B : Rat) : ⌊B⌋ - ⌈A⌉ ≤ ⌈B - A⌉ := by
  have h1 := Int.floor_le B
  have h2 := Int.le_ceil A
  have h3 := Int.le_ceil (B - A)
  have : ((⌊B⌋ - ⌈A⌉ : Int) : Rat) ≤ ((⌈B - A⌉ : Int) : Rat) := by push_cast; linarith
  exact_mod_cast this

/-- the block has at most `(⌈(b−a)/w⌉ + 2) · (⌈(d−c)/h⌉ + 2)` cells -/
theorem length_rectBlock_le (g : Grid) (a b c d : Rat) :
    (rectBlock g a b c d).length ≤ (⌈(b - a) / g.w⌉ + 2).toNat * (⌈(d - c) / g.h⌉ + 2).toNat := by
  rw [rectBlock, length_block]
  have e1 : (b - g.x0) / g.w - (a - g.x0) / g.w = (b - a) / g.w := by ring
  have e2 : (d - g.y0) / g.h - (c - g.y0) / g.h = (d - c) / g.h := by ring
  have h1 := floor_sub_ceil_le ((a - g.x0) / g.w) ((b - g.x0) / g.w)
  have h2 := floor_sub_ceil_le ((c - g.y0) / g.h) ((d - g.y0) / g.h)
  rw [e1] at h1
  rw [e2] at h2
  apply Nat.mul_le_mul <;> omega

/-- the touched set of a rectangle is a product of two integer intervals: any two distinct touched
    cells have a touched neighbour of the first one step closer to the second -/
theorem rect_split (g : Grid) (a b c d : Rat) (A B : Cell)
    (hA : rectTouches g a b c d A = true) (hB : rectTouches g a b c d B = true) (hAB : A ≠ B) :
    Split (rectTouches g a b c d) A B := by
  rw [← mem_rectBlock, rectBlock, mem_block] at hA hB
  obtain ⟨A1, A2⟩ := A
  obtain ⟨B1, B2⟩ := B
  have key : ∀ A' : Cell, A' ∈ nbrs8 (A1, A2) →
      (⌈(a - g.x0) / g.w⌉ - 1 ≤ A'.1 ∧ A'.1 ≤ ⌊(b - g.x0) / g.w⌋ ∧
        ⌈(c - g.y0) / g.h⌉ - 1 ≤ A'.2 ∧ A'.2 ≤ ⌊(d - g.y0) / g.h⌋) →
      manh (A1, A2) (A1, A2) + 1 + manh A' (B1, B2) ≤ manh (A1, A2) (B1, B2) →
      Split (rectTouches g a b c d) (A1, A2) (B1, B2) := by
    intro A' hn hmem hle
    refine ⟨(A1, A2), A', ?_, ?_, hn, hle⟩
    · rw [← mem_rectBlock, rectBlock, mem_block]; exact hA
    · rw [← mem_rectBlock, rectBlock, mem_block]; exact hmem
  simp only at hA hB
  have hne : A1 ≠ B1 ∨ A2 ≠ B2 := by
    by_cases e : A1 = B1
    · right; intro e2; exact hAB (by rw [e, e2])
    · left; exact e
  rcases lt_trichotomy A1 B1 with h | h | h
  · refine key (A1 + 1, A2) (by simp [nbrs8]) ⟨by simp only; omega, by simp only; omega, hA.2.2.1, hA.2.2.2⟩ ?_
    simp only [manh]; omega
  · rcases lt_trichotomy A2 B2 with h' | h' | h'
    · refine key (A1, A2 + 1) (by simp [nbrs8]) ⟨hA.1, hA.2.1, by simp only; omega, by simp only; omega⟩ ?_
      simp only [manh]; omega
    · exact absurd h' (by rcases hne with e | e; exact absurd h e; exact e)
    · refine key (A1, A2 - 1) (by simp [nbrs8]) ⟨hA.1, hA.2.1, by simp only; omega, by simp only; omega⟩ ?_
      simp only [manh]; omega
  · refine key (A1 - 1, A2) (by simp [nbrs8]) ⟨by simp only; omega, by simp only; omega, hA.2.2.1, hA.2.2.2⟩ ?_
    simp only [manh]; omega

/-- **connectivity of the cells touched by a rectangle**: from ANY touched start cell every touched
    cell is reachable through touched neighbours (induction on the Manhattan distance) -/
theorem rect_connected (g : Grid) (a b c d : Rat) (start cell : Cell)
    (hs : rectTouches g a b c d start = true) (hc : rectTouches g a b c d cell = true) :
    Reach nbrs8 (rectTouches g a b c d) start cell :=
  conn_of_split _ (fun A B hA hB hAB => Or.inl (rect_split g a b c d A B hA hB hAB))
    (manh start cell) start cell (le_refl _) hs hc

/-- … in the vocabulary of `Props/C12.flood_complete_of_connected` -/
theorem rect_touchPath (g : Grid) (a b c d : Rat) (start cell : Cell)
    (hs : rectTouches g a b c d start = true) (hc : rectTouches g a b c d cell = true) :
    cell = start ∨ ∃ path, TouchPath nbrs8 (rectTouches g a b c d) start path ∧ cell ∈ path := by
  have hr := rect_connected g a b c d start cell hs hc
  -- a completed run exists (termination below); read the path off `flood_only_connected`
  obtain ⟨v, hv⟩ := flood_terminates_touched (nbrs := nbrs8) (rectBlock g a b c d)
    (fun n hn => (mem_rectBlock g a b c d n).mpr hn) start ((mem_rectBlock g a b c d start).mpr hs)
    (fun q => q.head?) (by
      intro q hq
      cases q with
      | nil => exact absurd rfl hq
      | cons x xs => exact ⟨x, rfl, by simp⟩)
    _ (le_refl _)
  have hp : PickSound (fun q : List Cell => q.head?) := fun _ _ h => List.mem_of_mem_head? h
  exact flood_only_connected start _ hp _ v hv cell ((flood_eq_reach start _ hp _ v hv cell).mpr hr)

/-- the hypothesis `hconn` of `Props/C12.flood_complete_of_connected` discharged: every completed run
    from a touched cell contains the whole block of touched cells -/
theorem rect_flood_complete (g : Grid) (a b c d : Rat) (start : Cell)
    (hs : rectTouches g a b c d start = true)
    (pick : List Cell → Option Cell) (hp1 : PickSound pick) (fuel : Nat) (v : List Cell)
    (h : flood nbrs8 (rectTouches g a b c d) pick fuel start = some v) :
    ∀ cell ∈ rectBlock g a b c d, cell ∈ v :=
  flood_complete_of_connected start pick hp1 fuel v h (rectBlock g a b c d)
    (fun cell hc => rect_touchPath g a b c d start cell hs ((mem_rectBlock g a b c d cell).mp hc))

/-- **C12 for a rectangle, unconditional**: for every touched start cell, every sound and total pop
    schedule and every fuel `≥ |rectBlock| + 1`, the model's flood terminates and returns exactly the
    cells whose closed box overlaps the rectangle — both inclusions, no connectivity hypothesis -/
theorem rect_flood_exact (g : Grid) (a b c d : Rat) (start : Cell)
    (hs : rectTouches g a b c d start = true)
    (pick : List Cell → Option Cell) (hp1 : PickSound pick) (hp2 : PickTotal pick)
    (fuel : Nat) (hf : (rectBlock g a b c d).length + 1 ≤ fuel) :
    ∃ v, flood nbrs8 (rectTouches g a b c d) pick fuel start = some v ∧
      ∀ cell, cell ∈ v ↔ rectTouches g a b c d cell = true :=
  flood_exact_of_conn (rectBlock g a b c d) (fun n hn => (mem_rectBlock g a b c d n).mpr hn) start hs
    (fun cell hc => rect_connected g a b c d start cell hs hc) pick hp1 hp2 fuel hf

/-- the same, started (as the code does) from the cell of a point of the rectangle — e.g. its first
    vertex — and with the result stated geometrically: a cell is returned iff its closed box and the
    rectangle share a point -/
theorem rect_flood_exact_point (g : Grid) {a b c d : Rat} (hab : a ≤ b) (hcd : c ≤ d)
    (px py : Rat) (hpx : a ≤ px ∧ px ≤ b) (hpy : c ≤ py ∧ py ≤ d)
    (pick : List Cell → Option Cell) (hp1 : PickSound pick) (hp2 : PickTotal pick)
    (fuel : Nat) (hf : (⌈(b - a) / g.w⌉ + 2).toNat * (⌈(d - c) / g.h⌉ + 2).toNat + 1 ≤ fuel) :
    ∃ v, flood nbrs8 (rectTouches g a b c d) pick fuel (cellOf g px py) = some v ∧
      ∀ cell, cell ∈ v ↔ ∃ x y, InBox g cell x y ∧ a ≤ x ∧ x ≤ b ∧ c ≤ y ∧ y ≤ d := by
  have hs : rectTouches g a b c d (cellOf g px py) = true :=
    (rectTouches_iff_point g hab hcd _).mpr ⟨px, py, cellOf_inBox g px py, hpx.1, hpx.2, hpy.1, hpy.2⟩
  have hlen := length_rectBlock_le g a b c d
  obtain ⟨v, hv, hmem⟩ := rect_flood_exact g a b c d _ hs pick hp1 hp2 fuel (by omega)
  exact ⟨v, hv, fun cell => (hmem cell).trans (rectTouches_iff_point g hab hcd cell)⟩

/-! ## 2. closed segment `P Q` -/

abbrev Pt := Rat × Rat

/-- the point of the segment at parameter `t` -/
def segX (P Q : Pt) (t : Rat) : Rat := P.1 + t * (Q.1 - P.1)
def segY (P Q : Pt) (t : Rat) : Rat := P.2 + t * (Q.2 - P.2)

/-- specification: the closed box of the cell contains a point of the closed segment -/
def SegMeets (g : Grid) (P Q : Pt) (cell : Cell) : Prop :=
  ∃ t : Rat, 0 ≤ t ∧ t ≤ 1 ∧ InBox g cell (segX P Q t) (segY P Q t)

/-- decidable form (Liang–Barsky clipping): neither axis blocks, and the parameter windows of the
    two axes and `[0, 1]` have a common point -/
def segTouches (g : Grid) (P Q : Pt) (cell : Cell) : Bool :=
  clipOk P.1 (Q.1 - P.1) (xlo g cell.1) (xhi g cell.1) &&
  clipOk P.2 (Q.2 - P.2) (ylo g cell.2) (yhi g cell.2) &&
  decide (max 0 (max (clipLo P.1 (Q.1 - P.1) (xlo g cell.1) (xhi g cell.1))
                     (clipLo P.2 (Q.2 - P.2) (ylo g cell.2) (yhi g cell.2)))
        ≤ min 1 (min (clipHi P.1 (Q.1 - P.1) (xlo g cell.1) (xhi g cell.1))
                     (clipHi P.2 (Q.2 - P.2) (ylo g cell.2) (yhi g cell.2))))

/-- the clipping test decides `SegMeets` -/
theorem segTouches_iff (g : Grid) (P Q : Pt) (cell : Cell) :
    segTouches g P Q cell = true ↔ SegMeets g P Q cell := by
  simp only [segTouches, Bool.and_eq_true, decide_eq_true_eq, SegMeets, InBox, segX, segY]
  constructor
  · rintro ⟨⟨ox, oy⟩, hle⟩
    set lx := clipLo P.1 (Q.1 - P.1) (xlo g cell.1) (xhi g cell.1)
    set ly := clipLo P.2 (Q.2 - P.2) (ylo g cell.2) (yhi g cell.2)
    set ux := clipHi P.1 (Q.1 - P.1) (xlo g cell.1) (xhi g cell.1)
    set uy := clipHi P.2 (Q.2 - P.2) (ylo g cell.2) (yhi g cell.2)
    have t0 : 0 ≤ max 0 (max lx ly) := le_max_left _ _
    have t1 : max 0 (max lx ly) ≤ 1 := le_trans hle (min_le_left _ _)
    have hx := (clip_iff P.1 (Q.1 - P.1) (xlo g cell.1) (xhi g cell.1) _ t0 t1).mpr
      ⟨ox, le_trans (le_max_left _ _) (le_max_right _ _),
        le_trans hle (le_trans (min_le_right _ _) (min_le_left _ _))⟩
    have hy := (clip_iff P.2 (Q.2 - P.2) (ylo g cell.2) (yhi g cell.2) _ t0 t1).mpr
      ⟨oy, le_trans (le_max_right _ _) (le_max_right _ _),
        le_trans hle (le_trans (min_le_right _ _) (min_le_right _ _))⟩
    exact ⟨_, t0, t1, hx.1, hx.2, hy.1, hy.2⟩
  · rintro ⟨t, t0, t1, h1, h2, h3, h4⟩
    obtain ⟨ox, lx, ux⟩ := (clip_iff P.1 (Q.1 - P.1) (xlo g cell.1) (xhi g cell.1) t t0 t1).mp ⟨h1, h2⟩
    obtain ⟨oy, ly, uy⟩ := (clip_iff P.2 (Q.2 - P.2) (ylo g cell.2) (yhi g cell.2) t t0 t1).mp ⟨h3, h4⟩
    exact ⟨⟨ox, oy⟩, le_trans (max_le t0 (max_le lx ly)) (le_min t1 (le_min ux uy))⟩

/-- crossing a column boundary: two touched cells in different columns split -/
theorem seg_split_x (g : Grid) (P Q : Pt) (A B : Cell)
    (hA : segTouches g P Q A = true) (hB : segTouches g P Q B = true) (h : A.1 < B.1) :
    Split (segTouches g P Q) A B := by
  rw [segTouches_iff] at hA hB
  obtain ⟨s, s0, s1, a1, a2, a3, a4⟩ := hA
  obtain ⟨t, t0, t1, b1, b2, b3, b4⟩ := hB
  obtain ⟨u, j, u0, u1, ex, c1, c2, c3⟩ :=
    cross_axis g.hw g.hh s0 s1 t0 t1 a1 a2 a3 a4 b1 b2 b3 b4 h
  refine ⟨(A.1, j), (A.1 + 1, j), ?_, ?_, by simp [nbrs8], ?_⟩
  · rw [segTouches_iff]
    refine ⟨u, u0, u1, ?_, le_of_eq ex, c1, c2⟩
    show lo1 g.x0 g.w A.1 ≤ segX P Q u
    exact le_trans (lo1_le_hi1 g.hw A.1) (le_of_eq ex.symm)
  · rw [segTouches_iff]
    refine ⟨u, u0, u1, ?_, ?_, c1, c2⟩
    · show lo1 g.x0 g.w (A.1 + 1) ≤ segX P Q u
      rw [← hi1_eq_lo1_succ]; exact le_of_eq ex.symm
    · show segX P Q u ≤ hi1 g.x0 g.w (A.1 + 1)
      exact le_trans (le_of_eq ex) (hi1_mono g.hw (by omega))
  · simp only [manh]; omega

/-- crossing a row boundary -/
theorem seg_split_y (g : Grid) (P Q : Pt) (A B : Cell)
    (hA : segTouches g P Q A = true) (hB : segTouches g P Q B = true) (h : A.2 < B.2) :
    Split (segTouches g P Q) A B := by
  rw [segTouches_iff] at hA hB
  obtain ⟨s, s0, s1, a1, a2, a3, a4⟩ := hA
  obtain ⟨t, t0, t1, b1, b2, b3, b4⟩ := hB
  obtain ⟨u, i, u0, u1, ey, c1, c2, c3⟩ :=
    cross_axis g.hh g.hw s0 s1 t0 t1 a3 a4 a1 a2 b3 b4 b1 b2 h
  refine ⟨(i, A.2), (i, A.2 + 1), ?_, ?_, by simp [nbrs8], ?_⟩
  · rw [segTouches_iff]
    refine ⟨u, u0, u1, c1, c2, ?_, le_of_eq ey⟩
    show lo1 g.y0 g.h A.2 ≤ segY P Q u
    exact le_trans (lo1_le_hi1 g.hh A.2) (le_of_eq ey.symm)
  · rw [segTouches_iff]
    refine ⟨u, u0, u1, c1, c2, ?_, ?_⟩
    · show lo1 g.y0 g.h (A.2 + 1) ≤ segY P Q u
      rw [← hi1_eq_lo1_succ]; exact le_of_eq ey.symm
    · show segY P Q u ≤ hi1 g.y0 g.h (A.2 + 1)
      exact le_trans (le_of_eq ey) (hi1_mono g.hh (by omega))
  · simp only [manh]; omega

/-- **connectivity of the cells touched by a segment** (any slope, any position relative to the grid
    lines, degenerate `P = Q` included): from ANY touched start cell every touched cell is reachable
    through touched neighbours -/
theorem seg_connected (g : Grid) (P Q : Pt) (start cell : Cell)
    (hs : segTouches g P Q start = true) (hc : segTouches g P Q cell = true) :
    Reach nbrs8 (segTouches g P Q) start cell := by
  refine conn_of_split _ ?_ (manh start cell) start cell (le_refl _) hs hc
  intro A B hA hB hAB
  rcases lt_trichotomy A.1 B.1 with h | h | h
  · exact Or.inl (seg_split_x g P Q A B hA hB h)
  · rcases lt_trichotomy A.2 B.2 with h' | h' | h'
    · exact Or.inl (seg_split_y g P Q A B hA hB h')
    · exact absurd (Prod.ext h h') hAB
    · exact Or.inr (seg_split_y g P Q B A hB hA h')
  · exact Or.inr (seg_split_x g P Q B A hB hA h)

/-- the finite superset for a segment: the block of its bounding box -/
def segBlock (g : Grid) (P Q : Pt) : List Cell :=
  rectBlock g (min P.1 Q.1) (max P.1 Q.1) (min P.2 Q.2) (max P.2 Q.2)

/-- a cell touched by the segment is touched by the segment's bounding box -/
theorem mem_segBlock (g : Grid) (P Q : Pt) (cell : Cell) (h : segTouches g P Q cell = true) :
    cell ∈ segBlock g P Q := by
  rw [segTouches_iff] at h
  obtain ⟨t, t0, t1, b1, b2, b3, b4⟩ := h
  rw [segBlock, mem_rectBlock]
  simp only [rectTouches, decide_eq_true_eq]
  have hx := lambda_between (a := P.1) (b := Q.1) t0 t1
  have hy := lambda_between (a := P.2) (b := Q.2) t0 t1
  simp only [segX, segY] at b1 b2 b3 b4
  have m1 := min_le_left P.1 Q.1
  have m2 := min_le_right P.1 Q.1
  have m3 := le_max_left P.1 Q.1
  have m4 := le_max_right P.1 Q.1
  have n1 := min_le_left P.2 Q.2
  have n2 := min_le_right P.2 Q.2
  have n3 := le_max_left P.2 Q.2
  have n4 := le_max_right P.2 Q.2
  refine ⟨?_, ?_, ?_, ?_⟩
  · rcases hx with ⟨_, p⟩ | ⟨_, p⟩ <;> linarith
  · rcases hx with ⟨p, _⟩ | ⟨p, _⟩ <;> linarith
  · rcases hy with ⟨_, p⟩ | ⟨_, p⟩ <;> linarith
  · rcases hy with ⟨p, _⟩ | ⟨p, _⟩ <;> linarith

/-- the cells of the two end points are touched -/
theorem seg_first_touches (g : Grid) (P Q : Pt) : segTouches g P Q (cellOf g P.1 P.2) = true := by
  rw [segTouches_iff]
  refine ⟨0, le_refl _, by norm_num, ?_⟩
  have := cellOf_inBox g P.1 P.2
  simpa [segX, segY] using this

theorem seg_last_touches (g : Grid) (P Q : Pt) : segTouches g P Q (cellOf g Q.1 Q.2) = true := by
  rw [segTouches_iff]
  refine ⟨1, by norm_num, le_refl _, ?_⟩
  have := cellOf_inBox g Q.1 Q.2
  simpa [segX, segY] using this

/-- **C12 for a segment, unconditional**: for every touched start cell, every sound and total pop
    schedule and every fuel `≥ |segBlock| + 1`, the model's flood terminates and returns exactly the
    cells whose closed box meets the closed segment -/
theorem seg_flood_exact (g : Grid) (P Q : Pt) (start : Cell) (hs : segTouches g P Q start = true)
    (pick : List Cell → Option Cell) (hp1 : PickSound pick) (hp2 : PickTotal pick)
    (fuel : Nat) (hf : (segBlock g P Q).length + 1 ≤ fuel) :
    ∃ v, flood nbrs8 (segTouches g P Q) pick fuel start = some v ∧
      ∀ cell, cell ∈ v ↔ segTouches g P Q cell = true :=
  flood_exact_of_conn (segBlock g P Q) (mem_segBlock g P Q) start hs
    (fun cell hc => seg_connected g P Q start cell hs hc) pick hp1 hp2 fuel hf

/-- the same started, as `_hash_linestring` does, from the cell of the first vertex, with the result
    stated geometrically -/
theorem seg_flood_exact_point (g : Grid) (P Q : Pt)
    (pick : List Cell → Option Cell) (hp1 : PickSound pick) (hp2 : PickTotal pick)
    (fuel : Nat) (hf : (segBlock g P Q).length + 1 ≤ fuel) :
    ∃ v, flood nbrs8 (segTouches g P Q) pick fuel (cellOf g P.1 P.2) = some v ∧
      ∀ cell, cell ∈ v ↔ ∃ t : Rat, 0 ≤ t ∧ t ≤ 1 ∧ InBox g cell (segX P Q t) (segY P Q t) := by
  obtain ⟨v, hv, hmem⟩ := seg_flood_exact g P Q _ (seg_first_touches g P Q) pick hp1 hp2 fuel hf
  exact ⟨v, hv, fun cell => (hmem cell).trans (segTouches_iff g P Q cell)⟩

/-! ## 3. polyline `v₀ v₁ … vₙ` (a `GeoLineString`): consecutive segments share a vertex -/

/-- the consecutive segments -/
def segsOf : List Pt → List (Pt × Pt)
  | a :: b :: rest => (a, b) :: segsOf (b :: rest)
  | _ => []

def polyTouches (g : Grid) (V : List Pt) (cell : Cell) : Bool :=
  (segsOf V).any fun s => segTouches g s.1 s.2 cell

def polyBlock (g : Grid) (V : List Pt) : List Cell :=
  (segsOf V).flatMap fun s => segBlock g s.1 s.2

theorem polyTouches_iff (g : Grid) (V : List Pt) (cell : Cell) :
    polyTouches g V cell = true ↔ ∃ s ∈ segsOf V, SegMeets g s.1 s.2 cell := by
  simp only [polyTouches, List.any_eq_true, segTouches_iff]

theorem polyTouches_cons (g : Grid) (a b : Pt) (rest : List Pt) (cell : Cell) :
    polyTouches g (a :: b :: rest) cell = (segTouches g a b cell || polyTouches g (b :: rest) cell) := by
  simp [polyTouches, segsOf]

theorem mem_polyBlock (g : Grid) (V : List Pt) (cell : Cell) (h : polyTouches g V cell = true) :
    cell ∈ polyBlock g V := by
  simp only [polyTouches, List.any_eq_true] at h
  obtain ⟨s, hs, ht⟩ := h
  exact List.mem_flatMap.mpr ⟨s, hs, mem_segBlock g s.1 s.2 cell ht⟩

theorem reach_mono {C : Type} {nbrs : C → List C} {t1 t2 : C → Bool}
    (h : ∀ c, t1 c = true → t2 c = true) {a b : C} (hr : Reach nbrs t1 a b) : Reach nbrs t2 a b := by
  induction hr with
  | base => exact Reach.base
  | step _ hn ht ih => exact Reach.step ih hn (h _ ht)

/-- if the tail of a polyline touches anything, it touches the cell of its first vertex -/
theorem poly_first_touches (g : Grid) (b : Pt) (rest : List Pt) (cell : Cell)
    (h : polyTouches g (b :: rest) cell = true) :
    polyTouches g (b :: rest) (cellOf g b.1 b.2) = true := by
  cases rest with
  | nil => simp [polyTouches, segsOf] at h
  | cons c r => rw [polyTouches_cons, seg_first_touches]; rfl

/-- **connectivity of the cells touched by a polyline**: any two touched cells are joined through
    touched neighbours (each segment is connected; consecutive segments share the cell of their
    common vertex) -/
theorem polyline_connected (g : Grid) : ∀ (V : List Pt) (A B : Cell),
    polyTouches g V A = true → polyTouches g V B = true → Reach nbrs8 (polyTouches g V) A B
  | [], A, _, hA, _ => by simp [polyTouches, segsOf] at hA
  | [_], A, _, hA, _ => by simp [polyTouches, segsOf] at hA
  | a :: b :: rest, A, B, hA, hB => by
    have ih := polyline_connected g (b :: rest)
    have m1 : ∀ c, segTouches g a b c = true → polyTouches g (a :: b :: rest) c = true := by
      intro c hc; rw [polyTouches_cons, hc]; rfl
    have m2 : ∀ c, polyTouches g (b :: rest) c = true → polyTouches g (a :: b :: rest) c = true := by
      intro c hc; rw [polyTouches_cons, hc]; simp
    rw [polyTouches_cons, Bool.or_eq_true] at hA hB
    rcases hA with hA | hA <;> rcases hB with hB | hB
    · exact reach_mono m1 (seg_connected g a b A B hA hB)
    · have hK := poly_first_touches g b rest B hB
      exact reach_trans (reach_mono m1 (seg_connected g a b A _ hA (seg_last_touches g a b)))
        (reach_mono m2 (ih _ B hK hB))
    · have hK := poly_first_touches g b rest A hA
      exact reach_trans (reach_mono m2 (ih A _ hA hK))
        (reach_mono m1 (seg_connected g a b _ B (seg_last_touches g a b) hB))
    · exact reach_mono m2 (ih A B hA hB)

/-- **C12 for a polyline, unconditional** -/
theorem polyline_flood_exact (g : Grid) (V : List Pt) (start : Cell)
    (hs : polyTouches g V start = true)
    (pick : List Cell → Option Cell) (hp1 : PickSound pick) (hp2 : PickTotal pick)
    (fuel : Nat) (hf : (polyBlock g V).length + 1 ≤ fuel) :
    ∃ v, flood nbrs8 (polyTouches g V) pick fuel start = some v ∧
      ∀ cell, cell ∈ v ↔ ∃ s ∈ segsOf V, SegMeets g s.1 s.2 cell := by
  obtain ⟨v, hv, hmem⟩ := flood_exact_of_conn (polyBlock g V) (mem_polyBlock g V) start hs
    (fun cell hc => polyline_connected g V start cell hs hc) pick hp1 hp2 fuel hf
  exact ⟨v, hv, fun cell => (hmem cell).trans (polyTouches_iff g V cell)⟩

/-- … started from the cell of the first vertex of a polyline with at least two vertices, as
    `_hash_linestring` does (`start = _coord_to_niemeyer(linestring.vertices[0], …)`) -/
theorem polyline_flood_exact_first (g : Grid) (a b : Pt) (rest : List Pt)
    (pick : List Cell → Option Cell) (hp1 : PickSound pick) (hp2 : PickTotal pick)
    (fuel : Nat) (hf : (polyBlock g (a :: b :: rest)).length + 1 ≤ fuel) :
    ∃ v, flood nbrs8 (polyTouches g (a :: b :: rest)) pick fuel (cellOf g a.1 a.2) = some v ∧
      ∀ cell, cell ∈ v ↔ ∃ s ∈ segsOf (a :: b :: rest), SegMeets g s.1 s.2 cell :=
  polyline_flood_exact g _ _ (by rw [polyTouches_cons, seg_first_touches]; rfl) pick hp1 hp2 fuel hf

/-! ## non-vacuity on concrete rationals -/

/-- the unit grid -/
def unitGrid : Grid := ⟨0, 0, 1, 1, by decide +kernel, by decide +kernel⟩
/-- a grid with origin (−180, −90) and 45/8 × 45/16 cells (a Niemeyer level) -/
def geoGrid : Grid := ⟨-180, -90, 45/8, 45/16, by decide +kernel, by decide +kernel⟩

def popFirst (q : List Cell) : Option Cell := q.head?
def popLast (q : List Cell) : Option Cell := q.getLast?

theorem popFirst_sound : PickSound popFirst := fun _ _ h => List.mem_of_mem_head? h
theorem popFirst_total : PickTotal popFirst := by
  intro q hq
  cases q with
  | nil => exact absurd rfl hq
  | cons x xs => exact ⟨x, rfl, by simp⟩
theorem popLast_sound : PickSound popLast := fun _ _ h => List.mem_of_getLast? h
theorem popLast_total : PickTotal popLast := by
  intro q hq
  refine ⟨q.getLast hq, List.getLast?_eq_some_getLast hq, List.getLast_mem hq⟩

/-- rectangle [1/2, 5/2] × [1/2, 3/2] on the unit grid: the 3 × 2 block of 6 cells, for two schedules -/
example : flood nbrs8 (rectTouches unitGrid (1/2) (5/2) (1/2) (3/2)) popFirst 7 (0, 1)
    = some [(2, 0), (2, 1), (0, 0), (1, 0), (1, 1), (0, 1)] := by decide +kernel
example : flood nbrs8 (rectTouches unitGrid (1/2) (5/2) (1/2) (3/2)) popLast 7 (0, 1)
    = some [(2, 0), (2, 1), (0, 0), (1, 0), (1, 1), (0, 1)] := by decide +kernel
example : rectBlock unitGrid (1/2) (5/2) (1/2) (3/2) = [(0, 0), (0, 1), (1, 0), (1, 1), (2, 0), (2, 1)] := by
  decide +kernel
/-- the hypotheses of `rect_flood_exact` are satisfiable and its fuel bound is the one computed: 6 + 1 -/
example : ∃ v, flood nbrs8 (rectTouches unitGrid (1/2) (5/2) (1/2) (3/2)) popFirst 7 (0, 1) = some v ∧
    ∀ cell, cell ∈ v ↔ rectTouches unitGrid (1/2) (5/2) (1/2) (3/2) cell = true :=
  rect_flood_exact unitGrid _ _ _ _ (0, 1) (by decide +kernel) popFirst popFirst_sound popFirst_total 7
    (by decide +kernel)
/-- rectangle [0, 2] × [0, 1] with its edges on grid lines: closed boxes ⇒ the 4 × 3 block of 12 cells -/
example : flood nbrs8 (rectTouches unitGrid 0 2 0 1) popFirst 13 (cellOf unitGrid 0 1)
    = some [(2, 1), (2, -1), (2, 0), (1, -1), (-1, -1), (0, -1), (-1, 1), (-1, 0), (0, 0), (1, 0), (1, 1), (0, 1)] := by
  decide +kernel
example : ∃ v, flood nbrs8 (rectTouches unitGrid 0 2 0 1) popLast 13 (cellOf unitGrid 0 1) = some v ∧
    ∀ cell, cell ∈ v ↔ ∃ x y, InBox unitGrid cell x y ∧ 0 ≤ x ∧ x ≤ 2 ∧ 0 ≤ y ∧ y ≤ 1 :=
  rect_flood_exact_point unitGrid (by decide +kernel) (by decide +kernel) 0 1 (by decide +kernel)
    (by decide +kernel) popLast popLast_sound popLast_total 13 (by decide +kernel)
/-- an untouched cell is not returned, a touched one is -/
example : rectTouches unitGrid 0 2 0 1 (3, 0) = false ∧ rectTouches unitGrid 0 2 0 1 (2, -1) = true := by
  decide +kernel

/-- segment (1/2, 1/2) → (7/2, 5/2), slope 2/3: the 6-cell staircase (the bounding block has 12 cells) -/
example : flood nbrs8 (segTouches unitGrid (1/2, 1/2) (7/2, 5/2)) popFirst 13 (0, 0)
    = some [(3, 2), (2, 2), (2, 1), (1, 0), (1, 1), (0, 0)] := by decide +kernel
example : (segBlock unitGrid (1/2, 1/2) (7/2, 5/2)).length = 12 := by decide +kernel
example : ∃ v, flood nbrs8 (segTouches unitGrid (1/2, 1/2) (7/2, 5/2)) popLast 13
      (cellOf unitGrid (1/2) (1/2)) = some v ∧
    ∀ cell, cell ∈ v ↔ ∃ t : Rat, 0 ≤ t ∧ t ≤ 1 ∧
      InBox unitGrid cell (segX (1/2, 1/2) (7/2, 5/2) t) (segY (1/2, 1/2) (7/2, 5/2) t) :=
  seg_flood_exact_point unitGrid _ _ popLast popLast_sound popLast_total 13 (by decide +kernel)
/-- the diagonal (0,0) → (2,2) through three grid corners: all 10 cells around the corners -/
example : flood nbrs8 (segTouches unitGrid (0, 0) (2, 2)) popFirst 20 (0, 0)
    = some [(1, 2), (2, 2), (2, 1), (-1, 0), (-1, -1), (0, -1), (1, 0), (1, 1), (0, 1), (0, 0)] := by
  decide +kernel
/-- a geographic grid (origin (−180, −90), cells 45/8° × 45/16°) and a shallow segment -/
example : flood nbrs8 (segTouches geoGrid (-3, 50) (11, 48)) popFirst 20 (cellOf geoGrid (-3) 50)
    = some [(33, 49), (32, 49), (31, 49)] := by decide +kernel
/-- an L-shaped polyline -/
example : flood nbrs8 (polyTouches unitGrid [(1/2, 1/2), (5/2, 1/2), (5/2, 5/2)]) popFirst 20 (0, 0)
    = some [(2, 2), (2, 0), (2, 1), (1, 0), (0, 0)] := by decide +kernel
example : ∃ v, flood nbrs8 (polyTouches unitGrid [(1/2, 1/2), (5/2, 1/2), (5/2, 5/2)]) popFirst 20
      (cellOf unitGrid (1/2) (1/2)) = some v ∧
    ∀ cell, cell ∈ v ↔ ∃ s ∈ segsOf [(1/2, 1/2), (5/2, 1/2), (5/2, 5/2)], SegMeets unitGrid s.1 s.2 cell :=
  polyline_flood_exact_first unitGrid _ _ _ popFirst popFirst_sound popFirst_total 20 (by decide +kernel)
end GV.FloodLat
