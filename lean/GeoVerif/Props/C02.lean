import GeoVerif.Model.Relate
import GeoVerif.Model.Time
import GeoVerif.Lemmas.SegInt
import GeoVerif.Lemmas.Sweep
import GeoVerif.Lemmas.Pip
import Mathlib.Data.List.Infix

/-!
# C02 — pairwise spatial predicates: planar set truth, symmetric, time-free

Specification: `properCross a b` (defined in `Lemmas/SegInt.lean`): the segments are not parallel and share
a point (the documented exclusion of collinear overlap is built in); `anyCross A B`: some edge of `A`
properly crosses some edge of `B`.  The step from edge crossings + first-vertex containment to "the closed
point sets share a point" for polygons is the Jordan argument (assumed, validated by the exact set-truth
oracle of the harness).
-/
namespace GV.C02
open GV GV.Sweep

def anyCross (A B : List Edge) : Prop := ∃ a ∈ A, ∃ b ∈ B, properCross a b

/-- **segment test = exact segment geometry over ℚ** -/
theorem findIntersection_isSome_iff (l1 l2 : Seg) :
    (findIntersection l1 l2).isSome = true ↔ properCross l1 l2 := GV.findIntersection_isSome_iff l1 l2

theorem findIntersection_comm (l1 l2 : Seg) :
    (findIntersection l1 l2).isSome = (findIntersection l2 l1).isSome :=
  GV.findIntersection_isSome_comm l1 l2

/-- the reported point really lies on both segments -/
theorem findIntersection_point (l1 l2 : Seg) (p : P2) (b : Bool)
    (h : findIntersection l1 l2 = some (p, b)) : onSeg p l1 ∧ onSeg p l2 := by
  unfold findIntersection findCore at h
  split at h
  · simp at h
  · split at h
    · simp at h
    · rename_i hdiv
      simp only at h
      split at h
      · rename_i hbox
        simp only [Option.some.injEq, Prod.mk.injEq] at h
        obtain ⟨hp, _⟩ := h
        subst hp
        simp only [Bool.and_eq_true] at hbox
        have h1 : onSeg (segX (orderX l1) (orderX l2), segY (orderX l1) (orderX l2)) (orderX l1) :=
          ⟨cross_seg_left _ _ hdiv, hbox.1⟩
        have h2 : onSeg (segX (orderX l1) (orderX l2), segY (orderX l1) (orderX l2)) (orderX l2) :=
          ⟨cross_seg_right _ _ hdiv, hbox.2⟩
        exact ⟨(onSeg_orderX _ _).mp h1, (onSeg_orderX _ _).mp h2⟩
      · simp at h

theorem properCross_flip_left (a b : Seg) : properCross (a.2, a.1) b ↔ properCross a b := by
  unfold properCross
  rw [segDiv_swap_left, neg_ne_zero]
  simp only [onSeg_swap]

theorem properCross_normEdge (a b : Edge) :
    properCross (normEdge a) (normEdge b) ↔ properCross a b := by
  have hl : ∀ a b : Edge, properCross (normEdge a) b ↔ properCross a b := by
    intro a b; unfold normEdge; split
    · exact properCross_flip_left a b
    · rfl
  rw [hl, properCross_symm, hl, properCross_symm]

theorem segInter_iff (a b : Edge) : segInter a b = true ↔ properCross a b := by
  unfold segInter; exact GV.findIntersection_isSome_iff a b

/-- **the sweep finds exactly the proper crossings**, for *all* edge lists (duplicates, horizontal edges,
    edges ending where another starts — the class that failed before the event-order repair) -/
theorem sweep_eq_anyCross (A B : List Edge) : doEdgesIntersect A B = true ↔ anyCross A B := by
  unfold doEdgesIntersect anyCross
  rw [sweep_iff segInter]
  · constructor
    · rintro ⟨a, ha, b, hb, h⟩
      exact ⟨a, ha, b, hb, (properCross_normEdge a b).mp ((segInter_iff _ _).mp h)⟩
    · rintro ⟨a, ha, b, hb, h⟩
      exact ⟨a, ha, b, hb, (segInter_iff _ _).mpr ((properCross_normEdge a b).mpr h)⟩
  · intro a b; unfold segInter; exact GV.findIntersection_isSome_comm a b
  · intro a b h ha hb
    have := lat_overlap_of_properCross ((segInter_iff a b).mp h)
    unfold lo hi at this
    simp only [ha, hb, if_true] at this
    exact this

/-- the raw edge test is symmetric in its two arguments -/
theorem sweep_symm (A B : List Edge) : doEdgesIntersect A B = doEdgesIntersect B A := by
  rw [Bool.eq_iff_iff, sweep_eq_anyCross, sweep_eq_anyCross]
  constructor <;> rintro ⟨a, ha, b, hb, h⟩ <;> exact ⟨b, hb, a, ha, (properCross_symm _ _).mp h⟩

/-- … and depends only on *which* edges are present (order, multiplicity: vertex order of the outlines) … -/
theorem sweep_congr {A A' B B' : List Edge} (hA : ∀ e, e ∈ A ↔ e ∈ A') (hB : ∀ e, e ∈ B ↔ e ∈ B') :
    doEdgesIntersect A B = doEdgesIntersect A' B' := by
  rw [Bool.eq_iff_iff, sweep_eq_anyCross, sweep_eq_anyCross]
  unfold anyCross
  simp only [hA, hB]

/-- … and not on the direction in which an edge is written (winding direction) -/
theorem sweep_flip (A B : List Edge) :
    doEdgesIntersect (A.map flipE) B = doEdgesIntersect A B := by
  rw [Bool.eq_iff_iff, sweep_eq_anyCross, sweep_eq_anyCross]
  unfold anyCross
  constructor
  · rintro ⟨a, ha, b, hb, h⟩
    obtain ⟨a0, ha0, rfl⟩ := List.mem_map.mp ha
    exact ⟨a0, ha0, b, hb, (properCross_flip_left a0 b).mp h⟩
  · rintro ⟨a, ha, b, hb, h⟩
    exact ⟨flipE a, List.mem_map.mpr ⟨a, ha, rfl⟩, b, hb, (properCross_flip_left a b).mpr h⟩

/-! ### the shape-level relations -/

/-- valid shapes: every polygon, box and linestring has a first edge (≥ 2 vertices) -/
def Valid : Shape → Prop
  | .point _ => True
  | s => ∃ v, s.firstVertex = .ok v

theorem orFirst_ok {s t : Shape} {vs vt : Pt} (hs : s.firstVertex = .ok vs) (ht : t.firstVertex = .ok vt) :
    orFirst s t = .ok (s.containsCoord vt || t.containsCoord vs) := by
  unfold orFirst
  rw [ht, hs]
  by_cases h : s.containsCoord vt = true
  · simp [h, bind, Except.bind, pure, Except.pure]
  · have h' : s.containsCoord vt = false := by simpa using h
    simp [h', bind, Except.bind, pure, Except.pure]

theorem relInter_symm {s t : Shape} {vs vt : Pt} (hs : s.firstVertex = .ok vs)
    (ht : t.firstVertex = .ok vt) (hsp : ∀ p, s ≠ .point p) (htp : ∀ p, t ≠ .point p) :
    relInter s t = relInter t s := by
  have e1 : relInter s t =
      if doEdgesIntersect s.flatEdges t.flatEdges then .ok true else orFirst s t := by
    cases t with
    | point q => exact absurd rfl (htp q)
    | _ => rfl
  have e2 : relInter t s =
      if doEdgesIntersect t.flatEdges s.flatEdges then .ok true else orFirst t s := by
    cases s with
    | point q => exact absurd rfl (hsp q)
    | _ => rfl
  rw [e1, e2, sweep_symm t.flatEdges s.flatEdges, orFirst_ok hs ht, orFirst_ok ht hs, Bool.or_comm]

/-- **intersection is symmetric in its arguments** -/
theorem intersects_symm (s t : Shape) (hs : Valid s) (ht : Valid t) :
    intersectsShape s t = intersectsShape t s := by
  cases s with
  | point p =>
    cases t with
    | point q =>
      have : (p == q) = (q == p) := by
        rw [Bool.eq_iff_iff, beq_iff_eq, beq_iff_eq]; exact eq_comm
      simp only [intersectsShape, this]
    | _ => rfl
  | poly o hs' =>
    cases t with
    | point q => rfl
    | _ =>
      obtain ⟨vs, hvs⟩ := hs; obtain ⟨vt, hvt⟩ := ht
      simp only [intersectsShape]
      exact relInter_symm hvs hvt (by intro p h; cases h) (by intro p h; cases h)
  | box a b hs' =>
    cases t with
    | point q => rfl
    | _ =>
      obtain ⟨vs, hvs⟩ := hs; obtain ⟨vt, hvt⟩ := ht
      simp only [intersectsShape]
      exact relInter_symm hvs hvt (by intro p h; cases h) (by intro p h; cases h)
  | line vs' =>
    cases t with
    | point q => rfl
    | _ =>
      obtain ⟨vs, hvs⟩ := hs; obtain ⟨vt, hvt⟩ := ht
      simp only [intersectsShape]
      exact relInter_symm hvs hvt (by intro p h; cases h) (by intro p h; cases h)

/-- **neither relation raises for valid shapes** (a path that retraces a segment included: the sweep is
    a total function of the two edge lists) -/
theorem relate_total (s t : Shape) (hs : Valid s) (ht : Valid t) :
    (∃ b, intersectsShape s t = .ok b) ∧ (∃ b, containsShape s t = .ok b) := by
  have hinter : ∀ s t : Shape, Valid s → Valid t → (∀ p, s ≠ .point p) → ∃ b, relInter s t = .ok b := by
    intro s t hs ht hsp
    cases t with
    | point q => exact ⟨_, rfl⟩
    | _ =>
      all_goals
        obtain ⟨vt, hvt⟩ := ht
        have hvs : ∃ vs, s.firstVertex = .ok vs := by
          cases s with
          | point p => exact absurd rfl (hsp p)
          | _ => exact hs
        obtain ⟨vs, hvs⟩ := hvs
        simp only [relInter]
        split
        · exact ⟨_, rfl⟩
        · exact ⟨_, orFirst_ok hvs hvt⟩
  constructor
  · cases s with
    | point p =>
      cases t with
      | point q => exact ⟨_, rfl⟩
      | _ => all_goals exact hinter _ _ ht hs (by intro p h; cases h)
    | _ => all_goals exact hinter _ _ hs ht (by intro p h; cases h)
  · cases s with
    | point p => cases t <;> exact ⟨_, rfl⟩
    | line vs => cases t <;> exact ⟨_, rfl⟩
    | poly o hh =>
      cases t with
      | point q => exact ⟨_, rfl⟩
      | _ =>
        all_goals
          obtain ⟨vt, hvt⟩ := ht
          simp only [containsShape]
          split
          · exact ⟨_, rfl⟩
          · split
            · exact ⟨_, rfl⟩
            · rw [hvt]; exact ⟨_, rfl⟩
    | box a b hh =>
      cases t with
      | point q => exact ⟨_, rfl⟩
      | _ =>
        all_goals
          obtain ⟨vt, hvt⟩ := ht
          simp only [containsShape]
          split
          · exact ⟨_, rfl⟩
          · split
            · exact ⟨_, rfl⟩
            · rw [hvt]; exact ⟨_, rfl⟩

/-- `is_sub_list` is the contiguous-sub-sequence relation -/
theorem line_contains_iff_sublist (a b : List Pt) : isSubList a b = true ↔ a <:+: b := by
  unfold isSubList
  constructor
  · intro h
    split at h
    · simp at h
    · rw [List.any_eq_true] at h
      obtain ⟨i, _, hi⟩ := h
      have hi' : (b.drop i).take a.length = a := by simpa using hi
      refine ⟨b.take i, (b.drop i).drop a.length, ?_⟩
      calc b.take i ++ a ++ (b.drop i).drop a.length
          = b.take i ++ ((b.drop i).take a.length ++ (b.drop i).drop a.length) := by
            rw [hi', List.append_assoc]
        _ = b := by rw [List.take_append_drop, List.take_append_drop]
  · rintro ⟨pre, suf, rfl⟩
    have hlen : ¬ a.length > (pre ++ a ++ suf).length := by simp; omega
    rw [if_neg hlen, List.any_eq_true]
    refine ⟨pre.length, ?_, ?_⟩
    · rw [List.mem_range]; simp; omega
    · simp [List.append_assoc, List.drop_append_of_le_length, List.take_append_of_le_length]

theorem mem_of_infix_head {a b : List Pt} {v : Pt} {r : List Pt} (h : a <:+: b) (ha : a = v :: r) :
    v ∈ b := by
  subst ha
  exact h.subset (by simp)

/-- **containment implies intersection** -/
theorem contains_imp_intersects (s t : Shape) (hs : Valid s) (ht : Valid t)
    (h : containsShape s t = .ok true) : intersectsShape s t = .ok true := by
  cases s with
  | point p =>
    cases t with
    | point q =>
      simp only [containsShape, Except.ok.injEq, beq_iff_eq] at h
      simp [intersectsShape, h]
    | _ => all_goals simp [containsShape] at h
  | line vs =>
    cases t with
    | point q =>
      simp only [containsShape, Except.ok.injEq] at h
      simp only [intersectsShape, relInter, Shape.containsCoord, h, Bool.true_or]
    | line ws =>
      simp only [containsShape, Except.ok.injEq] at h
      obtain ⟨vt, hvt⟩ := ht
      obtain ⟨vs', hvs⟩ := hs
      simp only [intersectsShape, relInter]
      split
      · rfl
      · rw [orFirst_ok hvs hvt]
        -- the first vertex of the sub-path is a vertex of the path
        have hmem : vt ∈ vs := by
          have hinf := (line_contains_iff_sublist ws vs).mp h
          cases ws with
          | nil => simp [Shape.firstVertex, Shape.edgeRings, Shape.ringSegs] at hvt
          | cons w r =>
            cases r with
            | nil => simp [Shape.firstVertex, Shape.edgeRings, Shape.ringSegs] at hvt
            | cons w2 r2 =>
              simp only [Shape.firstVertex, Shape.edgeRings, Shape.ringSegs, List.tail_cons,
                List.zip_cons_cons, Except.ok.injEq] at hvt
              subst hvt
              exact hinf.subset (by simp)
        have : (Shape.line vs).containsCoord vt = true := by
          simp only [Shape.containsCoord]; exact List.contains_iff_mem.mpr hmem
        simp [this]
    | _ => all_goals simp [containsShape] at h
  | poly o hh =>
    cases t with
    | point q =>
      simp only [containsShape, Except.ok.injEq] at h
      simp only [intersectsShape, relInter, h, Bool.true_or]
    | _ =>
      all_goals
        obtain ⟨vt, hvt⟩ := ht
        obtain ⟨vs', hvs⟩ := hs
        simp only [containsShape] at h
        simp only [intersectsShape, relInter]
        split at h
        · simp at h
        · rename_i hsw
          split at h
          · simp at h
          · rw [hvt] at h
            simp only [bind, Except.bind, pure, Except.pure, Except.ok.injEq] at h
            rw [if_neg hsw, orFirst_ok hvs hvt, h]; rfl
  | box a b hh =>
    cases t with
    | point q =>
      simp only [containsShape, Except.ok.injEq] at h
      simp only [intersectsShape, relInter, h, Bool.true_or]
    | _ =>
      all_goals
        obtain ⟨vt, hvt⟩ := ht
        obtain ⟨vs', hvs⟩ := hs
        simp only [containsShape] at h
        simp only [intersectsShape, relInter]
        split at h
        · simp at h
        · rename_i hsw
          split at h
          · simp at h
          · rw [hvt] at h
            simp only [bind, Except.bind, pure, Except.pure, Except.ok.injEq] at h
            rw [if_neg hsw, orFirst_ok hvs hvt, h]; rfl

/-- **what the intersection test computes**, for two shapes that are not points: some edge pair properly
    crosses, or the first vertex of one lies in the other (C01's membership) -/
theorem intersects_iff_spec {s t : Shape} {vs vt : Pt} (hs : s.firstVertex = .ok vs)
    (ht : t.firstVertex = .ok vt) (hsp : ∀ p, s ≠ .point p) (htp : ∀ p, t ≠ .point p) :
    intersectsShape s t = .ok true ↔
      anyCross s.flatEdges t.flatEdges ∨ s.containsCoord vt = true ∨ t.containsCoord vs = true := by
  have e0 : intersectsShape s t = relInter s t := by
    cases s with
    | point q => exact absurd rfl (hsp q)
    | _ => rfl
  have e1 : relInter s t =
      if doEdgesIntersect s.flatEdges t.flatEdges then .ok true else orFirst s t := by
    cases t with
    | point q => exact absurd rfl (htp q)
    | _ => rfl
  rw [e0, e1, orFirst_ok hs ht, ← sweep_eq_anyCross]
  by_cases h : doEdgesIntersect s.flatEdges t.flatEdges = true
  · simp [h]
  · simp [h]

/-- a point intersects a polygon, box or linestring iff it is contained or lies exactly on an edge -/
theorem intersects_point_iff (s : Shape) (q : Pt) (hsp : ∀ p, s ≠ .point p) :
    intersectsShape s (.point q) = .ok (s.containsCoord q || s.flatEdges.any (onEdge q)) ∧
      intersectsShape (.point q) s = .ok (s.containsCoord q || s.flatEdges.any (onEdge q)) := by
  cases s with
  | point p => exact absurd rfl (hsp p)
  | _ => exact ⟨rfl, rfl⟩

/-- **what the containment test computes** for a polygon-like receiver and a non-point argument: no proper
    edge crossing, the argument surrounds none of the receiver's holes, and its first vertex is contained -/
theorem contains_iff_spec {s t : Shape} {vt : Pt} (hpl : s.isPolygonLike = true)
    (ht : t.firstVertex = .ok vt) (htp : ∀ p, t ≠ .point p) :
    containsShape s t = .ok true ↔
      ¬ anyCross s.flatEdges t.flatEdges ∧
      ¬ (t.isPolygonLike = true ∧ ∃ h ∈ s.holes, ∃ v, h.head? = some v ∧ t.containsCoord v = true) ∧
      s.containsCoord vt = true := by
  have e1 : containsShape s t =
      if doEdgesIntersect s.flatEdges t.flatEdges then .ok false
      else if t.isPolygonLike && s.holes.any (fun h => match h.head? with
          | some v => t.containsCoord v | none => false) then .ok false
      else (do let vt ← t.firstVertex; return s.containsCoord vt) := by
    cases s with
    | point p => simp [Shape.isPolygonLike] at hpl
    | line vs => simp [Shape.isPolygonLike] at hpl
    | poly o hh => cases t with
      | point q => exact absurd rfl (htp q)
      | _ => rfl
    | box a b hh => cases t with
      | point q => exact absurd rfl (htp q)
      | _ => rfl
  rw [e1, ← sweep_eq_anyCross, ht]
  have hany : (s.holes.any (fun h => match h.head? with
      | some v => t.containsCoord v | none => false)) = true ↔
      ∃ h ∈ s.holes, ∃ v, h.head? = some v ∧ t.containsCoord v = true := by
    rw [List.any_eq_true]
    constructor
    · rintro ⟨h, hm, hv⟩
      cases hh : h.head? with
      | none => simp [hh] at hv
      | some v => exact ⟨h, hm, v, hh, by simpa [hh] using hv⟩
    · rintro ⟨h, hm, v, hv, hc⟩
      exact ⟨h, hm, by simp [hv, hc]⟩
  by_cases h1 : doEdgesIntersect s.flatEdges t.flatEdges = true
  · simp [h1]
  · by_cases h2 : (t.isPolygonLike && s.holes.any (fun h => match h.head? with
        | some v => t.containsCoord v | none => false)) = true
    · have h2' := h2
      rw [Bool.and_eq_true, hany] at h2'
      simp only [h1, h2, if_true, Bool.false_eq_true, if_false]
      constructor
      · intro h; cases h
      · rintro ⟨_, hn, _⟩; exact absurd h2' hn
    · have h2' := h2
      rw [Bool.and_eq_true, hany] at h2'
      simp only [h1, h2, Bool.false_eq_true, if_false, bind, Except.bind, pure, Except.pure,
        Except.ok.injEq, not_false_eq_true, true_and]
      exact ⟨fun h => ⟨h2', h⟩, fun h => h.2⟩

/-! ### independence from time bounds

The implementation's `intersects_shape` / `contains_shape` receive shapes that carry time bounds; the
model of the *code as it now stands* never reads them.  Stating this as a theorem over shapes paired
with their `dt` makes the claim explicit (and the correspondence stream attaches every combination of
time bounds on the implementation side). -/

structure TShape where
  shape : Shape
  dt : Option TI

def intersectsShapeT (a b : TShape) : Except String Bool := intersectsShape a.shape b.shape
def containsShapeT (a b : TShape) : Except String Bool := containsShape a.shape b.shape

theorem relate_dt_free (a b : TShape) (da db : Option TI) :
    intersectsShapeT ⟨a.shape, da⟩ ⟨b.shape, db⟩ = intersectsShapeT a b ∧
      containsShapeT ⟨a.shape, da⟩ ⟨b.shape, db⟩ = containsShapeT a b := ⟨rfl, rfl⟩

/-! ### non-vacuity: two edges that merely touch at a vertex are found, in both argument orders -/
example : anyCross [((0, 0), (1, 1))] [((1, 1), (0, 2))] ∧
    doEdgesIntersect [((0, 0), (1, 1))] [((1, 1), (0, 2))] = true ∧
    doEdgesIntersect [((1, 1), (0, 2))] [((0, 0), (1, 1))] = true ∧
    Valid (.line [(0, 0), (1, 1), (0, 0)]) := by
  have h : anyCross [((0, 0), (1, 1))] [((1, 1), (0, 2))] := by
    refine ⟨_, List.mem_singleton.mpr rfl, _, List.mem_singleton.mpr rfl, ?_, (1, 1), ⟨?_, ?_⟩, ⟨?_, ?_⟩⟩
    · norm_num [segDiv, det2]
    · norm_num [crossP]
    · decide +kernel
    · norm_num [crossP]
    · decide +kernel
  refine ⟨h, (sweep_eq_anyCross _ _).mpr h, ?_, ⟨(0, 0), by decide +kernel⟩⟩
  rw [sweep_symm]; exact (sweep_eq_anyCross _ _).mpr h

end GV.C02
